#!/bin/bash
# usage: tools/confirm_seed.sh <worktree> <seed-id>  -> /verif/seeded/<seed-id>/{patch.diff,demo.rs,meta.json,confirm.log}
# Re-confirms in the scratch worktree: suite passes with the change; demo fails with it and passes without it.
wt="$1"; id="$2"; out=/verif/seeded/$id
mkdir -p "$out"; cp "$wt"/OUT/* "$out"/ 2>/dev/null
cd "$wt" || exit 2
git checkout -q -- . ; git clean -fdq -e OUT
log="$out/confirm.log"; : > "$log"
git apply OUT/patch.diff || { echo "patch does not apply" >> "$log"; exit 2; }
echo "== existing suite with the change" >> "$log"
cargo test --workspace --no-fail-fast --offline 2>&1 | grep -E "^test result|FAILED|failed" >> "$log"
if [ -f OUT/demo.rs ]; then
  cp OUT/demo.rs tests/zz_demo.rs
  echo "== demo WITH the change (expected to fail)" >> "$log"
  cargo test --offline --features verif-hooks --test zz_demo 2>&1 | grep -E "^test |^test result" >> "$log"
  git apply -R OUT/patch.diff
  echo "== demo WITHOUT the change (expected to pass)" >> "$log"
  cargo test --offline --features verif-hooks --test zz_demo 2>&1 | grep -E "^test |^test result" >> "$log"
  rm -f tests/zz_demo.rs
else
  echo "== no demo.rs (see meta.json for the unit-test demonstration)" >> "$log"
  git apply -R OUT/patch.diff
fi
git checkout -q -- . ; git clean -fdq -e OUT
cat "$log"
