#!/bin/bash
# usage: tools/resuite.sh <worktree> <seed-id>   re-runs the existing suite with the seeded change applied (alone, when
# the machine is quiet: the multicast tests of concurrently running worktrees disturb each other) and appends to confirm.log
wt="$1"; id="$2"; log=/verif/seeded/$id/confirm.log
cd "$wt" || exit 2
git checkout -q -- . ; git clean -fdq -e OUT
git apply /verif/seeded/$id/patch.diff || { echo "patch does not apply"; exit 2; }
echo "== existing suite with the change, re-run alone ($(date -u +%H:%M))" >> "$log"
cargo test --workspace --no-fail-fast --offline 2>&1 | grep -E "^test result|FAILED|failed" >> "$log"
git checkout -q -- . ; git clean -fdq -e OUT
tail -8 "$log"
