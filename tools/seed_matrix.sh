#!/bin/bash
# usage: tools/seed_matrix.sh <seed-id> CXX...   applies seeded/<seed-id>/patch.diff to /repo, runs the named checks, restores /repo;
# writes seeded/<seed-id>/checks.log (one line per check: property, exit code, summary line, VIOLATION lines)
set -u
id="$1"; shift
dir=/verif/seeded/$id
cd /repo && git status --short | grep -q . && { echo "/repo not clean"; exit 2; }
git -C /repo apply --check "$dir/patch.diff" 2>/dev/null || { echo "patch does not apply to /repo HEAD $(git -C /repo rev-parse --short HEAD) (the crate has moved on: the seed was made against an earlier commit)"; exit 2; }
git -C /repo apply "$dir/patch.diff"
: > "$dir/checks.log"
echo "# /repo at $(git -C /repo rev-parse --short HEAD) + patch.diff; /verif at $(git -C /verif rev-parse --short HEAD)" >> "$dir/checks.log"
for p in "$@"; do
  out=$(cd /verif && timeout 1500 ./check "$p" 2>&1); rc=$?
  echo "== ./check $p  exit=$rc" >> "$dir/checks.log"
  echo "$out" | grep -E "VIOLATION|tier=" | cut -c1-300 >> "$dir/checks.log"
done
git -C /repo checkout -- . ; git -C /repo reset -q ; git -C /repo status --short
cat "$dir/checks.log"
