#!/bin/bash
# usage: tools/mk_selftests.sh <seed-id> <CXX>   records the monitor's verdict on a trace of the real code WITH the seeded
# change as a negative self-test: selftest/<CXX>/<seed-id>.ops (op line, `= observation` line, `# expect: <clause>`).
# ./check CXX re-evaluates the monitor on these recorded traces on every run: a monitor that no longer flags them has
# gone blind (e.g. a pattern that matches nothing after a refactoring).
set -u
id="$1"; p="$2"
dir=/verif/seeded/$id
cd /repo && git status --short | grep -q . && { echo "/repo not clean"; exit 2; }
git -C /repo apply --check "$dir/patch.diff" 2>/dev/null || { echo "patch does not apply to /repo HEAD $(git -C /repo rev-parse --short HEAD) (the crate has moved on: the seed was made against an earlier commit)"; exit 2; }
git -C /repo apply "$dir/patch.diff"
find /verif/replays/$p -name "monitor_*.ops" -delete 2>/dev/null
( cd /verif && timeout 1500 ./check "$p" > /tmp/mkself.log 2>&1 )
git -C /repo checkout -- . ; git -C /repo reset -q
n=0
for f in /verif/replays/$p/monitor_*.ops; do
  [ -f "$f" ] || continue
  clause=$(grep -m1 "^# monitor clause failing" "$f" | sed 's/.*FAIL //' | awk '{print $1}')
  mkdir -p /verif/selftest/$p
  out=/verif/selftest/$p/$id$( [ $n -gt 0 ] && echo "_$n" ).ops
  { echo "# negative self-test: trace of the real code with seeded/$id applied; the monitor must say FAIL $clause"; echo "# expect: $clause"; grep -v "^#" "$f"; } > "$out"
  echo "wrote $out ($clause)"
  n=$((n+1))
done
[ $n -eq 0 ] && { echo "no monitor replay produced"; grep -E "VIOLATION|tier=" /tmp/mkself.log; }
