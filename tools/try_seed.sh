#!/bin/bash
# usage: tools/try_seed.sh <patch.diff> <CXX> [more props…]   applies the patch to /repo, runs the checks, restores /repo
set -u
patch="$1"; shift
cd /repo && git status --short | grep -q . && { echo "/repo not clean"; exit 2; }
git -C /repo apply "$patch" || { echo "patch does not apply"; exit 2; }
for p in "$@"; do
  ( cd /verif && timeout 900 ./check "$p" 2>&1 | grep -E "VIOLATION|KNOWN|tier=" | cut -c1-300 )
done
git -C /repo checkout -- . && git -C /repo status --short
