#!/usr/bin/env python3
"""Regenerates /verif/MANIFEST.json from checklib/props.py (one place of truth)."""
import json
import os
import subprocess
import sys

ROOT = os.path.dirname(os.path.dirname(os.path.abspath(__file__)))
sys.path.insert(0, ROOT)
from checklib import props  # noqa: E402

ids = [json.loads(l)["id"] for l in open(os.path.join(ROOT, "properties.jsonl"))]
hooks = subprocess.run(["git", "-C", "/repo", "log", "--format=%h %s"], stdout=subprocess.PIPE, text=True).stdout
hook_commits = [l.split(" ")[0] for l in hooks.splitlines() if l.split(" ", 1)[1].startswith("verif-hooks")]

TECH = "Lean 4 theorems over a hand-written model + differential correspondence check against the real code"
checks = []
for pid in ids:
    c = props.CONFIG.get(pid)
    if not c or not c.get("claimed", True):
        continue
    checks.append({
        "property_id": pid,
        "quick_cmd": "./check %s --tier quick" % pid,
        "thorough_cmd": "./check %s --tier thorough" % pid,
        "evidence_file": "evidence/%s.json" % pid,
        "replay_cmd_template": "./check %s --replay {path}" % pid,
        "engine": "lean-model",
        "technique": c.get("technique", TECH),
        "level_claimed": {"category": "proof", "text": c["level_text"], "design_ref": "DESIGN.md section 5, %s" % pid},
        "level_note": c["level_note"],
    })
claimed = [c["property_id"] for c in checks]
na = [{"property_id": pid, "reason": props.NOT_CLAIMED.get(pid, "check not built yet: the model fragment and its correspondence for this property are still under construction (DESIGN.md section 9); nothing is claimed for it")}
      for pid in ids if pid not in claimed]
m = {
    "version": 1,
    "setup_cmd": "cd /verif && ./check --setup",
    "hooks": {
        "guard": "cargo feature verif-hooks",
        "enable": "the harness crate /verif/harness depends on /repo by path with features = [\"verif-hooks\"]; every check runs `cargo build --release --offline` there, which rebuilds /repo's working tree",
        "baseline_off_cmd": "cd /repo && cargo test --workspace --no-fail-fast --offline",
        "source_commits": list(reversed(hook_commits)),
        "add_only": True,
    },
    "engines": [
        {"name": "lean-model", "path": "lean/", "serves_properties": claimed,
         "kind_free_text": "Lean 4 model (Mdns/Model), theorems (Mdns/Props), axiom audit, compiled line-protocol driver mdnsmodel with the monitors"},
        {"name": "vharness", "path": "harness/", "serves_properties": claimed,
         "kind_free_text": "Rust harness calling the real crate in-process (feature verif-hooks): seeded generators, op executor in a watchdog subprocess, simulated world for the daemon"},
    ],
    "checks": checks,
    "not_applicable": na,
    "notes": "See DESIGN.md. ./check CXX decides a property as: Lean proof obligations (build + #print axioms audit) AND correspondence model vs. working tree AND the proven predicates evaluated on the real behaviour.",
}
json.dump(m, open(os.path.join(ROOT, "MANIFEST.json"), "w"), indent=1)
print("claimed:", claimed)
