#!/bin/bash
# usage: tools/multiseed.sh "<seeds>" CXX...   runs ./check for each property and seed, prints summary lines and VIOLATIONs
seeds="$1"; shift
for s in $seeds; do for p in "$@"; do /verif/check "$p" --seed "$s" 2>&1 | grep -E "VIOLATION|tier=" | cut -c1-220; done; done
