#!/bin/bash
# usage: tools/ref_matrix.sh <ref-id> CXX...   applies refactors/<ref-id>/patch.diff (a behaviour-PRESERVING refactoring made by a
# sub-agent) to /repo, runs the named checks - every one is expected to exit 0 -, restores /repo; writes refactors/<ref-id>/checks.log
set -u
id="$1"; shift
dir=/verif/refactors/$id
cd /repo && git status --short | grep -q . && { echo "/repo not clean"; exit 2; }
git -C /repo apply --check "$dir/patch.diff" 2>/dev/null || { echo "patch does not apply to /repo HEAD"; exit 2; }
git -C /repo apply "$dir/patch.diff"
: > "$dir/checks.log"
echo "# /repo at $(git -C /repo rev-parse --short HEAD) + patch.diff; /verif at $(git -C /verif rev-parse --short HEAD)" >> "$dir/checks.log"
for p in "$@"; do
  out=$(cd /verif && timeout 1500 ./check "$p" 2>&1); rc=$?
  echo "== ./check $p  exit=$rc" >> "$dir/checks.log"
  echo "$out" | grep -E "VIOLATION|tier=" | cut -c1-300 >> "$dir/checks.log"
done
git -C /repo checkout -- . ; git -C /repo reset -q ; git -C /repo status --short
(cd /verif && git checkout -- evidence MANIFEST.json)
grep -E "exit=[^0]|VIOLATION" "$dir/checks.log" || echo "$id: all quiet"
