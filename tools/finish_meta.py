#!/usr/bin/env python3
"""usage: tools/finish_meta.py <seed-id> "<history text>"  - fills confirmed_by_builder / checks_run / caught_by /
history of seeded/<id>/meta.json from confirm.log and checks.log (written by confirm_seed.sh / resuite.sh / seed_matrix.sh)"""
import json, re, sys, os
sid, hist = sys.argv[1], sys.argv[2]
d = "/verif/seeded/" + sid
m = json.load(open(d + "/meta.json"))
conf = open(d + "/confirm.log").read()
parts = re.split(r"^== ", conf, flags=re.M)
def sect(prefix):
    return [p for p in parts if p.startswith(prefix)]
suite_runs = sect("existing suite with the change")
def suite_ok(p):
    return "FAILED" not in p and len(re.findall(r"test result: ok", p)) >= 4
with_c = sect("demo WITH the")
without = sect("demo WITHOUT")
m["confirmed_by_builder"] = {
    "how": "tools/confirm_seed.sh in the scratch worktree (suite with the change; demo with and without it); tools/resuite.sh re-ran the "
           "suite alone where the first run overlapped other worktrees' multicast tests; log in confirm.log",
    "suite_passes_with_change": any(suite_ok(p) for p in suite_runs),
    "demo_fails_with_change": bool(with_c) and "FAILED" in with_c[-1],
    "demo_passes_without_change": bool(without) and "FAILED" not in without[-1] and "test result: ok" in without[-1],
}
res = []
cur = None
head = ""
for line in open(d + "/checks.log"):
    line = line.rstrip("\n")
    if line.startswith("#"):
        head = line[2:]
    mm = re.match(r"== ./check (\S+)\s+exit=(\d+)", line)
    if mm:
        cur = {"check": mm.group(1), "exit": int(mm.group(2)), "violations": [], "summary": ""}
        res.append(cur)
    elif cur is not None and line.startswith("VIOLATION"):
        cur["violations"].append(line)
    elif cur is not None and "tier=" in line:
        cur["summary"] = line
m["checks_run"] = {"how": "tools/seed_matrix.sh (latest run: %s), log in checks.log" % head, "results": res}
m["caught_by"] = [r["check"] for r in res if r["exit"] == 1]
m["history"] = hist
json.dump(m, open(d + "/meta.json", "w"), indent=1, ensure_ascii=False)
print(sid, m["confirmed_by_builder"]["suite_passes_with_change"], m["confirmed_by_builder"]["demo_fails_with_change"],
      m["confirmed_by_builder"]["demo_passes_without_change"], m["caught_by"])
