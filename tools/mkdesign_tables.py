#!/usr/bin/env python3
# Regenerates the tables of DESIGN.md section 11 (between the markers) from known_findings.json,
# seeded/*/meta.json and checklib/props.py.
import json, os, re, sys, subprocess
sys.path.insert(0, '/verif')
ROOT = '/verif'
kf = json.load(open(f'{ROOT}/known_findings.json'))['findings']
out = []
out.append('#### 11.2a Defects repaired in the crate (`fix:` commits in /repo; each is `fixed` in known_findings.json and has a regression witness in corpus/)\n')
out.append('| id | properties | commit | what failed |\n|---|---|---|---|')
seen = {}
for f in kf:
    if f['status'] == 'fixed':
        k = (f['id'], f.get('commit'))
        seen.setdefault(k, {'props': [], 'what': f['what']})
        seen[k]['props'].append(f['property'])
for (i, c), v in seen.items():
    what = re.sub(r'^fixed: property=\S+ \S+ ', '', v['what'])
    out.append(f"| {i} | {', '.join(sorted(set(v['props'])))} | {c} | {what[:400]} |")
out.append('\n#### 11.2b Known findings (genuine, not repaired; reproduced on every run, printed as `KNOWN-FINDING`)\n')
out.append('| id | property | monitor clause | what fails |\n|---|---|---|---|')
for f in kf:
    if f['status'] == 'known':
        out.append(f"| {f['id']} | {f['property']} | `{f.get('signature', {}).get('clause', '')}` | {f['what'][:600]} |")
out.append('\n#### 11.4a Seeded changes (made by sub-agents that saw only the property text; kept under seeded/)\n')
out.append('| seeded change | property | what it needs | caught by | history |\n|---|---|---|---|---|')
for d in sorted(os.listdir(f'{ROOT}/seeded')):
    p = f'{ROOT}/seeded/{d}/meta.json'
    if not os.path.exists(p):
        continue
    m = json.load(open(p))
    needs = m.get('needs', '')
    if isinstance(needs, list): needs = '; '.join(map(str, needs))
    if isinstance(needs, dict): needs = json.dumps(needs)
    out.append(f"| {d} | {m.get('property', '')[:4]} | {str(needs)[:300].replace('|', '/')} | {', '.join(m.get('caught_by', []))} | {m.get('history', '').replace('|', '/')} |")
text = '\n'.join(out) + '\n'
p = f'{ROOT}/DESIGN.md'
s = open(p).read()
a, b = '<!-- TABLES-BEGIN -->', '<!-- TABLES-END -->'
if a in s:
    s = s[:s.index(a) + len(a)] + '\n' + text + s[s.index(b):]
    open(p, 'w').write(s)
    print('DESIGN.md tables updated')
else:
    print(text)
