import sys,re
def rdname(b,o,depth=0):
    labels=[]; jumped=None
    while True:
        l=b[o]
        if l==0: o+=1; break
        if l&0xC0==0xC0:
            p=((l&0x3f)<<8)|b[o+1]
            if jumped is None: jumped=o+2
            o=p; depth+=1
            if depth>20: break
            continue
        labels.append(b[o+1:o+1+l].decode('utf8','replace')); o+=1+l
    return '.'.join(labels)+'.', (jumped if jumped is not None else o)
def dec(hexs):
    b=bytes.fromhex(hexs)
    fl=int.from_bytes(b[2:4],'big'); qd,an,ns,ar=[int.from_bytes(b[i:i+2],'big') for i in (4,6,8,10)]
    o=12; out=[]
    for _ in range(qd):
        n,o=rdname(b,o); t=int.from_bytes(b[o:o+2],'big'); o+=4; out.append(f"Q {n} {t}")
    for sec,cnt in (('an',an),('ns',ns),('ar',ar)):
        for _ in range(cnt):
            n,o=rdname(b,o); t=int.from_bytes(b[o:o+2],'big'); c=int.from_bytes(b[o+2:o+4],'big'); ttl=int.from_bytes(b[o+4:o+8],'big'); rl=int.from_bytes(b[o+8:o+10],'big'); o+=10
            rd=b[o:o+rl]
            if t==12: v=rdname(b,o)[0]
            elif t==33: v=f"port={int.from_bytes(rd[4:6],'big')} host={rdname(b,o+6)[0]}"
            elif t==1: v='.'.join(map(str,rd))
            elif t==16: v=repr(rd)
            else: v=rd.hex()
            o+=rl
            out.append(f"{sec} {n} ty={t} {'F' if c&0x8000 else '-'} ttl={ttl} {v}")
    return ('R' if fl&0x8000 else 'Qy')+' '+' | '.join(out)

# usage: tools/showhist.py <replay.ops> [n]   pretty-prints the n-th history (op line + "= impl" line) of a replay file
lines=[l.rstrip('\n') for l in open(sys.argv[1])]
which=int(sys.argv[2]) if len(sys.argv)>2 else 0
def hx(m):
    try: return '"'+bytes.fromhex(m.group(1)).decode('utf8')+'"'
    except Exception: return m.group(1)[:20]+'..'
n=0
for i,l in enumerate(lines):
    if l.startswith('#'):
        if n==which: print(re.sub(r'\b((?:[0-9a-f]{2}){4,})\b',hx,l)[:400])
        continue
    if not l.startswith('sim'): continue
    if n!=which:
        n+=1; continue
    for c in l.split(' ; '):
        t=c.split(' ')
        if t[0]=='inject':
            try: print('  C inject',t[1],t[2],t[4], dec(t[6])[:700])
            except Exception as e: print('  C',c[:100],'DECODE-ERR',e)
        else:
            print('  C', re.sub(r'\b((?:[0-9a-f]{2}){4,})\b',hx,c)[:200])
    print()
    o_line = lines[i+1] if i+1<len(lines) and lines[i+1].startswith('=') else ''
    for o in o_line.split(' ; '):
        t=o.replace('= ','').split(' ')
        if t[0] in ('rx','tx'):
            try: print('  O',t[0],t[1],t[4], dec(t[5])[:700])
            except Exception as e: print('  O',o[:100],'DECODE-ERR',e)
        else:
            print('  O', re.sub(r'\b((?:[0-9a-f]{2}){4,})\b',hx,o)[:300])
    break
