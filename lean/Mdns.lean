import Mdns.Model.Basic
import Mdns.Model.Txt
import Mdns.Driver.C16
import Mdns.Lemmas.Txt
import Mdns.Props.C16
