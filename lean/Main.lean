import Mdns.Driver.C16
import Mdns.Driver.Wire
import Mdns.Driver.Sim
import Mdns.Driver.SimAll
import Mdns.Driver.C11
import Mdns.Driver.C08
import Mdns.Driver.C18
import Mdns.Driver.C19
import Mdns.Driver.C02
/-
  Line-protocol driver (`lean_exe mdnsmodel`).
  stdin: op lines, each followed by the implementation's observation line `= ...`.
  stdout, per op:   `= <model observation>`   and   `m ok` | `m FAIL <clause>`.
-/
open Mdns

def splitToks (line : String) : List String :=
  (line.trimAscii.toString.splitOn " ").filter (· != "")

def c08Ops : List String :=
  ["rec-compare", "tiebreak", "probe-time", "probe-run", "name-change", "hostname-change", "check-name", "split-sub",
   "escaped-labels"]

def c18Ops : List String := ["if-match", "select", "resolve-addr", "select-at", "valid-ip", "addrs-on-intf"]

def dispatchExec (op : String) (ts impl : List String) : Option String :=
  if op.startsWith "txt-" then Driver.C16.exec op ts impl
  else if op == "decode" then Driver.Wire.exec op ts
  else if op == "c15-call" then Driver.C15.exec ts impl
  else if op == "sim" then Driver.Sim.exec ts impl
  else if op == "sim2" then some "nomodel"
  else if op == "stress-shutdown" then some "ok"
  else if Driver.C11.isOp op then Driver.C11.exec op ts
  else if c08Ops.contains op then Driver.C08.exec op ts impl
  else if c18Ops.contains op then Driver.C18.exec op ts
  else if op == "backoff" then Driver.C19.exec op ts
  else if op == "encode" || op == "escape" || op == "parse-escaped" then Driver.C02.exec op ts
  else none

def dispatchMon (op : String) (ts impl : List String) : Option String :=
  if op.startsWith "txt-" then Driver.C16.monitor op ts impl
  else if op == "decode" then Driver.Wire.monitor op ts impl
  else if op == "c15-call" then Driver.C15.monitorCall impl
  else if op == "sim" then Driver.SimAll.monitorOp ts impl
  else if op == "sim2" then Driver.SimAll.monitorOp2 ts impl
  else if op == "stress-shutdown" then Driver.MonShutdown.monitorStress impl
  else if Driver.C11.isOp op then Driver.C11.monitor op ts impl
  else if c08Ops.contains op then Driver.C08.monitor op ts impl
  else if c18Ops.contains op then Driver.C18.monitor op ts impl
  else if op == "backoff" then Driver.C19.monitor op ts impl
  else if op == "encode" || op == "escape" || op == "parse-escaped" then Driver.C02.monitor op ts impl
  else some "unknown-op"

partial def loop (h : IO.FS.Stream) (out : IO.FS.Stream) (cur : Option (List String)) : IO Unit := do
  let line ← h.getLine
  if line.isEmpty then return ()
  let toks := splitToks line
  match toks with
  | [] => loop h out cur
  | "=" :: impl =>
    match cur with
    | some (op :: ts) =>
      let m := match dispatchExec op ts impl with
        | some s => s
        | none => "unsupported"
      out.putStrLn ("= " ++ m)
      match dispatchMon op ts impl with
      | none => out.putStrLn "m ok"
      | some c => out.putStrLn ("m FAIL " ++ c)
      loop h out none
    | _ => loop h out none
  | _ =>
    if (toks.head?.getD "").startsWith "#" then loop h out cur
    else loop h out (some toks)

def main : IO Unit := do
  let stdin ← IO.getStdin
  let stdout ← IO.getStdout
  loop stdin stdout none
