import Mdns.Model.Basic
import Mdns.Model.Decode
import Mdns.Model.Compare
import Mdns.Model.Names
import Mdns.Model.Intf
import Mdns.Model.Txt
/-
  Model of the RESPONDER side of the daemon (`src/service_daemon.rs`, `src/service_info.rs`,
  `src/dns_parser.rs` of the repaired tree): registered services with per-interface status,
  per-interface `DnsRegistry` (probing / active / new_timers / name_changes), re-runs
  (`RegisterResend`, `UnregisterResend`), timers, monitors, and one loop iteration of
  `Zeroconf::run`:

    ingress   `handle_read` -> `handle_query` (`add_answer_with_additionals`, meta query,
              address answers, `add_answer_of_service`, known-answer suppression, legacy
              unicast, `Probe::tiebreaking`) / `handle_response` -> `conflict_handler`
    timers    `pop_timers_till`
    commands  `register_service` -> `send_unsolicited_response` -> `announce_service_on_intf`
              -> `prepare_announce` -> `DnsRegistry::is_probing_done`;
              `exec_command_unregister` -> `unregister_service`; `Monitor`; `SetOption`;
              `Exit` -> `cleanup`
    re-runs   `exec_command_register_resend`, `exec_command_unregister_resend`
    probing   `probing_handler` -> `check_probing`, `handle_expired_probes`
    ip check  the timer block at the end of the loop (the interface table is constant)

  It is exact on histories of ONE daemon with registrations, unregistrations, injected
  queries and responses, monitors and shutdown (compared with the real daemon thread on
  every run by `Driver/SimResponder.lean`).  The daemon model consumes and emits
  *structured* messages; the wire codec is composed in the driver.

  Hash maps are association lists.  Where the Rust iterates a `HashMap`/`HashSet`
  (`my_intfs`, `my_services`, `probing`, `waiting_services`, `addresses`) the model fixes the
  list order; every comparison with the code is made on sorted output.  Everything here is
  structurally recursive, so that `decide` evaluates concrete histories.

  Not modelled (outside the fragment, the driver answers `nomodel`): browsing / resolving
  (see `Model/Sched.lean`), interface changes, `addr_auto` updates after registration,
  sockets that fail, packets larger than one datagram, `name_change` overflow panics.
-/
namespace Mdns.Responder
open Mdns

abbrev Ip := Intf.Ip

/-- `DNS_HOST_TTL`, `DNS_OTHER_TTL` (src/service_info.rs:23-24) -/
def TTL_HOST : Nat := 120
def TTL_OTHER : Nat := 4500
/-- `FLAGS_QR_RESPONSE | FLAGS_AA` -/
def FLAGS_RESPONSE : Nat := 0x8400
def MDNS_PORT : Nat := 5353
def TYPE_A : Nat := 1
def TYPE_PTR : Nat := 12
def TYPE_TXT : Nat := 16
def TYPE_AAAA : Nat := 28
def TYPE_SRV : Nat := 33
def TYPE_ANY : Nat := 255

/-- `"_services._dns-sd._udp.local."` -/
def META_QUERY : BList :=
  [0x5f, 0x73, 0x65, 0x72, 0x76, 0x69, 0x63, 0x65, 0x73, 0x2e, 0x5f, 0x64, 0x6e, 0x73, 0x2d, 0x73, 0x64, 0x2e,
   0x5f, 0x75, 0x64, 0x70, 0x2e, 0x6c, 0x6f, 0x63, 0x61, 0x6c, 0x2e]

/-! ### association lists (`HashMap` with unique keys) -/

def alookup {κ α} [DecidableEq κ] (k : κ) : List (κ × α) → Option α
  | [] => none
  | (k', v) :: rest => if k' = k then some v else alookup k rest

/-- `insert`: replaces the value of an existing key, appends a new one -/
def aset {κ α} [DecidableEq κ] (k : κ) (v : α) : List (κ × α) → List (κ × α)
  | [] => [(k, v)]
  | (k', v') :: rest => if k' = k then (k, v) :: rest else (k', v') :: aset k v rest

def aerase {κ α} [DecidableEq κ] (k : κ) (l : List (κ × α)) : List (κ × α) := l.filter (fun e => !decide (e.1 = k))

/-- `HashSet::insert` -/
def sinsert {α} [DecidableEq α] (x : α) (l : List α) : List α := if x ∈ l then l else l ++ [x]

/-! ### records -/

/-- A record of the daemon's own (`DnsRecordBox` built by the responder).  `name` is
    `entry.name` (the name the record was created with), `newName` the name given by conflict
    resolution.  The class is always IN; `flush` is the cache-flush bit.  The interface id
    of an address record is not modelled: inside one registry (one interface) it is the
    same for every record and for every incoming record. -/
structure RR where
  name : BList
  newName : Option BList := none
  ty : Nat
  flush : Bool
  ttl : Nat
  rdata : Wire.RData
  deriving Repr, DecidableEq, Inhabited

/-- `DnsRecord::get_name`: the new name if there is one -/
def RR.getName (r : RR) : BList := r.newName.getD r.name

/-- `DnsRecord::set_new_name` -/
def RR.setNewName (r : RR) (n : BList) : RR := { r with newName := if n = r.name then none else some n }

/-- `DnsRecordExt::matches` between two own records: `DnsEntry` (original name, type, class,
    cache-flush bit) and RDATA; the TTL is not compared -/
def RR.matchesRR (a b : RR) : Bool := a.name == b.name && a.ty == b.ty && a.flush == b.flush && a.rdata == b.rdata

/-- the record as `Compare` and the wire see it -/
def RR.wire (r : RR) : Wire.Rec :=
  { name := r.getName, ty := r.ty, cls := 1, flush := r.flush, ttl := r.ttl, rdata := r.rdata, start := 0, stop := 0 }

/-- `suppressed_by_answer` against a record of an incoming query (after the repair of D18: the
    same name - `get_name()`, i.e. the new name after a rename, ASCII letter case ignored -,
    type, class and RDATA; neither the cache-flush bit nor the interface is compared; and the
    known answer's TTL is more than half) -/
def suppressedByAnswer (mine : RR) (o : Wire.Rec) : Bool :=
  lower o.name == lower mine.getName && o.ty == mine.ty && o.cls == 1 && o.rdata == mine.rdata &&
    decide (o.ttl > mine.ttl / 2)

/-- `suppressed_by` -/
def suppressedBy (mine : RR) (known : List Wire.Rec) : Bool := known.any (suppressedByAnswer mine)

/-- `Probe::insert_record`: sorted by (class, type); the class is always IN.  Among records
    of one type the position `binary_search_by` returns is unspecified; the model inserts after
    them (only the order inside the authority section and tiebreaking with several records of
    one type depend on it; the generator avoids the latter). -/
def insertRR (r : RR) : List RR → List RR
  | [] => [r]
  | x :: xs => if x.ty > r.ty then r :: x :: xs else x :: insertRR r xs

/-! ### services -/

inductive Status where
  | probing | announced
  deriving Repr, DecidableEq, Inhabited

/-- `ServiceInfo` as far as the responder uses it.  `txt` is `generate_txt()`. -/
structure Service where
  ty : BList
  sub : Option BList
  fullname : BList
  host : BList
  port : Nat
  addrs : List Ip
  txt : BList
  probe : Bool
  addrAuto : Bool
  status : List (Nat × Status) := []
  deriving Repr, DecidableEq, Inhabited

/-- `escape_instance_name` -/
def escapeInstance : BList → BList
  | [] => []
  | c :: cs =>
    if c = 0x2E then 0x5C :: 0x2E :: escapeInstance cs
    else if c = 0x5C then 0x5C :: 0x5C :: escapeInstance cs
    else c :: escapeInstance cs

/-- `".local.local."` -/
def LOCAL_LOCAL : BList := [0x2e, 0x6c, 0x6f, 0x63, 0x61, 0x6c, 0x2e, 0x6c, 0x6f, 0x63, 0x61, 0x6c, 0x2e]

/-- `normalize_hostname` -/
def normalizeHostname (h : BList) : BList :=
  if Names.endsWith h LOCAL_LOCAL then h.take (h.length - 6) else h

def dedupIps : List Ip → List Ip
  | [] => []
  | a :: rest => a :: (dedupIps rest).filter (fun b => !decide (b = a))

/-- `ServiceInfo::new` + `set_requires_probe` + `enable_addr_auto`; `err` when a TXT
    property is refused -/
def Service.new (ty inst host : BList) (port : Nat) (ips : List Ip) (props : List Txt.TProp)
    (probe auto : Bool) : Res Service :=
  match Txt.create props with
  | .ok txt =>
    .ok { ty := (Names.splitSubDomain ty).1, sub := (Names.splitSubDomain ty).2,
          fullname := escapeInstance inst ++ [0x2E] ++ (Names.splitSubDomain ty).1,
          host := normalizeHostname host, port := port, addrs := dedupIps ips, txt := txt,
          probe := probe, addrAuto := auto }
  | .err => .err
  | .panic => .panic

/-- `get_status`: `none` = `Unknown` -/
def Service.getStatus (s : Service) (i : Nat) : Option Status := alookup i s.status
def Service.setStatus (s : Service) (i : Nat) (st : Status) : Service := { s with status := aset i st s.status }
def Service.announcedOn (s : Service) (i : Nat) : Bool := s.getStatus i == some .announced

/-- `matches_type_or_subtype` (exact comparison) -/
def Service.matchesType (s : Service) (n : BList) : Bool := n == s.ty || s.sub == some n

/-! ### interfaces -/

/-- `MyIntf`: name, index, (address, netmask) pairs -/
structure MyIntf where
  name : BList
  index : Nat
  addrs : List (Ip × Ip)
  deriving Repr, DecidableEq, Inhabited

/-- `next_ifaddr_v4().is_some()` / `_v6` -/
def MyIntf.hasFamily (i : MyIntf) (v4 : Bool) : Bool := i.addrs.any fun a => Intf.isV4 a.1 == v4

/-- `get_addrs_on_my_intf_v4` / `_v6` -/
def addrsOn (s : Service) (i : MyIntf) (v4 : Bool) : List Ip := Intf.addrsOnIntf v4 s.addrs i.addrs

/-! ### the registry -/

structure Probe where
  records : List RR
  waiting : List BList
  start : Nat
  next : Nat
  deriving Repr, DecidableEq, Inhabited

/-- `Probe::new` -/
def Probe.new (start : Nat) : Probe := { records := [], waiting := [], start := start, next := start }

/-- `DnsRegistry` -/
structure Registry where
  probing : List (BList × Probe) := []
  active : List (BList × List RR) := []
  newTimers : List Nat := []
  nameChanges : List (BList × BList) := []
  deriving Repr, DecidableEq, Inhabited

/-- `resolve_name` -/
def Registry.resolveName (r : Registry) (n : BList) : BList := (alookup n r.nameChanges).getD n

/-- first half of `is_probing_done`: is a matching record active under the record's name? -/
def Registry.isActive (r : Registry) (a : RR) : Bool :=
  ((alookup a.getName r.active).getD []).any (a.matchesRR ·)

/-- the probe after record `a` of service `svcName` came to it at `start`: a record that is not
    matched in the probe joins it, and when the probe has sent a query already (`next_send` has
    moved on from `start_time`) its schedule starts over at `start` (repair of D33: the new
    record must be probed three times itself) -/
def Probe.join (p : Probe) (a : RR) (svcName : BList) (start : Nat) : Probe :=
  if p.records.any (a.matchesRR ·) then { p with waiting := sinsert svcName p.waiting }
  else if p.start < p.next then
    { records := insertRR a p.records, waiting := sinsert svcName p.waiting, start := start, next := start }
  else { p with records := insertRR a p.records, waiting := sinsert svcName p.waiting }

/-- does `a` make the probe start over? -/
def Probe.restarts (p : Probe) (a : RR) (_start : Nat) : Bool :=
  !p.records.any (a.matchesRR ·) && decide (p.start < p.next)

/-- second half of `is_probing_done` (the record is not active): the probe of the record's
    name is created if need be, its `next_send` goes to `new_timers`, the record joins the
    probe unless a matching one is there, the service waits for the probe.  When the probe
    starts over, the new start goes to `new_timers` too. -/
def Registry.probeInsert (r : Registry) (a : RR) (svcName : BList) (start : Nat) : Registry :=
  let p := (alookup a.getName r.probing).getD (Probe.new start)
  { r with probing := aset a.getName (p.join a svcName start) r.probing,
           newTimers := r.newTimers ++ p.next :: (if p.restarts a start then [start] else []) }

/-- `is_probing_done`, state part -/
def Registry.probingDoneReg (r : Registry) (a : RR) (svcName : BList) (start : Nat) : Registry :=
  if r.isActive a then r else r.probeInsert a svcName start

/-! ### packets -/

/-- `DnsOutgoing`: one message (the histories of the fragment never exceed one datagram).
    `id` is what goes on the wire: 0 for a multicast message, the query's id for a legacy
    unicast response (`set_unicast`). -/
structure Packet where
  id : Nat := 0
  flags : Nat
  questions : List (BList × Nat) := []
  answers : List RR := []
  authorities : List RR := []
  additionals : List RR := []
  deriving Repr, DecidableEq, Inhabited

def addrType (ip : Ip) : Nat := if Intf.isV4 ip then TYPE_A else TYPE_AAAA
def addrRData (ip : Ip) : Wire.RData := if Intf.isV4 ip then .a ip else .aaaa ip

def withChange (r : RR) (change : Option BList) : RR :=
  match change with
  | some n => r.setNewName n
  | none => r

/-- the PTR (and subtype PTR) records of an announcement / goodbye -/
def ptrRecords (s : Service) (target : BList) (ttl : Nat) : List RR :=
  { name := s.ty, ty := TYPE_PTR, flush := false, ttl := ttl, rdata := .ptr target : RR } ::
  (match s.sub with
   | some sub => [{ name := sub, ty := TYPE_PTR, flush := false, ttl := ttl, rdata := .ptr target : RR }]
   | none => [])

/-- the unique records `prepare_announce` builds: SRV, TXT, one address record per in-subnet
    address of the family -/
def uniqueRecords (s : Service) (i : MyIntf) (r : Registry) (v4 : Bool) : List RR :=
  [withChange { name := s.fullname, ty := TYPE_SRV, flush := true, ttl := TTL_HOST,
                rdata := .srv 0 0 s.port (r.resolveName s.host) } (alookup s.fullname r.nameChanges),
   withChange { name := s.fullname, ty := TYPE_TXT, flush := true, ttl := TTL_OTHER, rdata := .txt s.txt }
              (alookup s.fullname r.nameChanges)] ++
  (addrsOn s i v4).map fun ip =>
    withChange { name := s.host, ty := addrType ip, flush := true, ttl := TTL_HOST, rdata := addrRData ip }
               (alookup s.host r.nameChanges)

/-- `prepare_announce`, registry part: every unique record that is not active joins a probe
    starting at `now + jitter` -/
def prepareAnnounceReg (s : Service) (i : MyIntf) (r : Registry) (v4 : Bool) (now jitter : Nat) : Registry :=
  if addrsOn s i v4 = [] then r
  else if !s.probe then r
  else (uniqueRecords s i r v4).foldl (fun r a => r.probingDoneReg a s.fullname (now + jitter)) r

/-- `prepare_announce`, packet part: `some` when the service has an in-subnet address of the
    family and needs no probing or all its unique records are active -/
def prepareAnnouncePkt (s : Service) (i : MyIntf) (r : Registry) (v4 : Bool) : Option Packet :=
  if addrsOn s i v4 = [] then none
  else if !s.probe || (uniqueRecords s i r v4).all r.isActive then
    some { flags := FLAGS_RESPONSE,
           answers := ptrRecords s (r.resolveName s.fullname) TTL_OTHER ++ uniqueRecords s i r v4 }
  else none

/-! ### state, inputs, outputs -/

inductive ReRun where
  | registerResend (next : Nat) (fullname : BList) (ifIdx : Nat)
  | unregisterResend (next : Nat) (pkt : Packet) (ifIdx : Nat) (v4 : Bool)
  deriving Repr, DecidableEq, Inhabited

def ReRun.next : ReRun → Nat
  | .registerResend n _ _ => n
  | .unregisterResend n _ _ _ => n

structure State where
  intfs : List MyIntf
  registries : List (Nat × Registry)
  /-- keyed by lower-case full name -/
  services : List (BList × Service) := []
  reruns : List ReRun := []
  timers : List Nat := []
  monitors : List Nat := []
  ipInterval : Nat := 5000
  nextIpCheck : Nat := 0
  nameLenMax : Nat := 15
  stopped : Bool := false
  deriving Repr, DecidableEq, Inhabited

inductive Event where
  /-- `Announce(fullname, format!("{:?}", addrs))` of `register_service` -/
  | announceAddrs (name : BList) (ips : List Ip)
  /-- `Announce(fullname, "<host>:<intf>")` of `probing_handler` / `RegisterResend` -/
  | announceAt (name host intf : BList)
  | nameChange (orig new : BList) (ty : Nat) (intf : BList)
  | respond (intf : BList)
  | error
  deriving Repr, DecidableEq, Inhabited

inductive Out where
  /-- a packet on interface `ifIdx` over the given family; `dest = none` is multicast -/
  | send (ifIdx : Nat) (v4 : Bool) (dest : Option BList) (pkt : Packet)
  | event (ch : Nat) (e : Event)
  | unregReply (ch : Nat) (ok : Bool)
  | shutdownReply (ch : Nat)
  deriving Repr, DecidableEq, Inhabited

inductive Command where
  | register (svc : Service)
  /-- the name as the caller gave it (`ServiceDaemon::unregister` lower-cases it) -/
  | unregister (name : BList) (ch : Nat)
  | monitor (ch : Nat)
  | ipInterval (ms : Nat)
  | exit (ch : Nat)
  deriving Repr, DecidableEq, Inhabited

/-- a datagram read by `handle_read`: receiving interface, family of the socket, source
    (text as `SocketAddr` prints it, family, port), decoded message -/
structure RxPkt where
  ifIdx : Nat
  sockV4 : Bool
  src : BList
  srcV4 : Bool
  srcPort : Nat
  msg : Wire.Msg
  deriving Repr, Inhabited

/-- `Zeroconf::new` + the set-up of `run` at `now`: one registry per interface index -/
def init (now : Nat) (intfs : List MyIntf) : State :=
  { intfs := intfs, registries := intfs.map fun i => (i.index, {}),
    timers := [now + 5000], ipInterval := 5000, nextIpCheck := now + 5000 }

def State.registry (s : State) (i : Nat) : Registry := (alookup i s.registries).getD {}
def State.setRegistry (s : State) (i : Nat) (r : Registry) : State := { s with registries := aset i r s.registries }

/-- `notify_monitors` -/
def notify (s : State) (e : Event) : List Out := s.monitors.map fun ch => .event ch e

/-! ### announcing -/

/-- `announce_service_on_intf` for one family: new registry and the packet that went out -/
def announceOn (svc : Service) (i : MyIntf) (r : Registry) (v4 : Bool) (now jitter : Nat) : Registry × Option Packet :=
  (prepareAnnounceReg svc i r v4 now jitter, prepareAnnouncePkt svc i r v4)

def sendsOf (i : MyIntf) (p4 p6 : Option Packet) : List Out :=
  (match p4 with | some p => [Out.send i.index true none p] | none => []) ++
  (match p6 with | some p => [Out.send i.index false none p] | none => [])

/-- addresses of the interface of one family (`intf.addrs.iter().filter(..)`) -/
def MyIntf.ipsOf (i : MyIntf) (v4 : Bool) : List Ip := (i.addrs.filter fun a => Intf.isV4 a.1 == v4).map (·.1)

structure Unsol where
  state : State
  svc : Service
  outs : List Out := []
  addrs : List Ip := []
  intfs : List Nat := []

/-- the loop body of `send_unsolicited_response` for one interface -/
def unsolOnIntf (now jitter : Nat) (u : Unsol) (i : MyIntf) : Unsol :=
  let r0 := u.state.registry i.index
  let r1 := prepareAnnounceReg u.svc i r0 true now jitter
  let p4 := prepareAnnouncePkt u.svc i r0 true
  let r2 := prepareAnnounceReg u.svc i r1 false now jitter
  let p6 := prepareAnnouncePkt u.svc i r1 false
  if p4.isSome || p6.isSome then
    { state := u.state.setRegistry i.index r2,
      svc := u.svc.setStatus i.index .announced,
      outs := u.outs ++ sendsOf i p4 p6,
      addrs := u.addrs ++ (if p4.isSome then i.ipsOf true else []) ++ (if p6.isSome then i.ipsOf false else []),
      intfs := sinsert i.index u.intfs }
  else
    { state := { (u.state.setRegistry i.index { r2 with newTimers := [] }) with timers := u.state.timers ++ r2.newTimers },
      svc := u.svc.setStatus i.index .probing,
      outs := u.outs, addrs := u.addrs, intfs := u.intfs }

/-- `send_unsolicited_response` -/
def sendUnsolicited (s : State) (svc : Service) (now jitter : Nat) : Unsol :=
  let u := s.intfs.foldl (unsolOnIntf now jitter) { state := s, svc := svc }
  { u with state := { u.state with
      reruns := u.state.reruns ++ u.intfs.map (fun i => .registerResend (now + 1000) svc.fullname i),
      timers := u.state.timers ++ u.intfs.map (fun _ => now + 1000) } }

/-- `info.insert_ipaddr(&intf)` for every selected interface when `addr_auto` is on -/
def autoAddrs (s : State) (svc : Service) : Service :=
  if svc.addrAuto then { svc with addrs := dedupIps (svc.addrs ++ s.intfs.flatMap fun i => i.addrs.map (·.1)) } else svc

/-- `register_service` after the name-length check -/
def registerChecked (s : State) (svc : Service) (now jitter : Nat) : State × List Out :=
  ({ (sendUnsolicited s svc now jitter).state with
       services := aset (lower svc.fullname) (sendUnsolicited s svc now jitter).svc (sendUnsolicited s svc now jitter).state.services },
   (sendUnsolicited s svc now jitter).outs ++
     (if (sendUnsolicited s svc now jitter).addrs.isEmpty then []
      else notify s (.announceAddrs svc.fullname (sendUnsolicited s svc now jitter).addrs)))

/-- `register_service` -/
def registerService (s : State) (svc0 : Service) (now jitter : Nat) : State × List Out :=
  match Names.checkServiceNameLength svc0.ty s.nameLenMax with
  | .ok () => registerChecked s (autoAddrs s svc0) now jitter
  | _ => (s, notify s .error)

/-! ### goodbye -/

/-- the packet of `unregister_service` for one family: `none` when the service has no
    in-subnet address of that family.  Original names, TTL 0. -/
def goodbyePkt (svc : Service) (i : MyIntf) (v4 : Bool) : Option Packet :=
  if addrsOn svc i v4 = [] then none
  else some { flags := FLAGS_RESPONSE,
              answers := ptrRecords svc svc.fullname 0 ++
                [{ name := svc.fullname, ty := TYPE_SRV, flush := true, ttl := 0, rdata := .srv 0 0 svc.port svc.host },
                 { name := svc.fullname, ty := TYPE_TXT, flush := true, ttl := 0, rdata := .txt svc.txt }] ++
                (addrsOn svc i v4).map fun ip =>
                  { name := svc.host, ty := addrType ip, flush := true, ttl := 0, rdata := addrRData ip } }

/-- goodbye packets of one service on one interface: (family, packet) -/
def goodbyesOn (svc : Service) (i : MyIntf) : List (Bool × Packet) :=
  (match goodbyePkt svc i true with | some p => [(true, p)] | none => []) ++
  (match goodbyePkt svc i false with | some p => [(false, p)] | none => [])

/-- all goodbye packets of a service: (interface index, family, packet) -/
def goodbyes (intfs : List MyIntf) (svc : Service) : List (Nat × Bool × Packet) :=
  intfs.flatMap fun i => (goodbyesOn svc i).map fun (v4, p) => (i.index, v4, p)

/-- `DnsRegistry::remove_waiting_service` (repair of D30): the unregistered service no longer
    waits for any probe, and a probe that no service waits for any more is dropped -/
def Registry.removeWaiting (r : Registry) (svcName : BList) : Registry :=
  { r with probing := r.probing.filterMap fun e =>
      if e.2.waiting.contains svcName && (e.2.waiting.filter (· != svcName)).isEmpty then none
      else some (e.1, { e.2 with waiting := e.2.waiting.filter (· != svcName) }) }

/-- the registries after `unregister`: on every interface of the daemon the service is taken
    out of the probes it waits for -/
def purgeWaiting (s : State) (svcName : BList) : State :=
  s.intfs.foldl (fun st i =>
    match alookup i.index st.registries with
    | some r => st.setRegistry i.index (r.removeWaiting svcName)
    | none => st) s

/-- the interfaces on which the service has been announced: where a goodbye is due (repair of D30) -/
def announcedIntfs (s : State) (svc : Service) : List MyIntf := s.intfs.filter fun i => svc.announcedOn i.index

/-- `exec_command_unregister` -/
def execUnregister (s : State) (now : Nat) (name : BList) (ch : Nat) : State × List Out :=
  match alookup (lower name) s.services with
  | none => (s, [.unregReply ch false])
  | some svc =>
    let gs := goodbyes (announcedIntfs s svc) svc
    ({ (purgeWaiting s svc.fullname) with
         services := aerase (lower name) s.services,
         reruns := s.reruns ++ gs.map (fun (i, v4, p) => .unregisterResend (now + 120) p i v4),
         timers := s.timers ++ gs.map (fun _ => now + 120) },
     gs.map (fun (i, v4, p) => Out.send i v4 none p) ++ [.unregReply ch true])

/-- `exec_command_unregister_resend` -/
def execUnregisterResend (s : State) (pkt : Packet) (ifIdx : Nat) (v4 : Bool) : List Out :=
  match s.intfs.find? (·.index == ifIdx) with
  | some i => if i.hasFamily v4 then [.send ifIdx v4 none pkt] else []
  | none => []

/-- `cleanup` at `Exit`: goodbye for every service where it has been announced; everything is forgotten -/
def cleanup (s : State) : State × List Out :=
  ({ s with services := [], reruns := [], stopped := true },
   s.services.flatMap fun (_, svc) => (goodbyes (announcedIntfs s svc) svc).map fun (i, v4, p) => Out.send i v4 none p)

/-! ### `RegisterResend` -/

/-- `exec_command_register_resend`: the service is looked up under the lower-cased name
    (repair of D8: the map is keyed by lower-case names) -/
def execRegisterResend (s : State) (now jitter : Nat) (fullname : BList) (ifIdx : Nat) : State × List Out :=
  match alookup (lower fullname) s.services, alookup ifIdx s.registries, s.intfs.find? (·.index == ifIdx) with
  | some svc, some r0, some i =>
    let r1 := prepareAnnounceReg svc i r0 true now jitter
    let p4 := prepareAnnouncePkt svc i r0 true
    let r2 := prepareAnnounceReg svc i r1 false now jitter
    let p6 := prepareAnnouncePkt svc i r1 false
    let s1 := s.setRegistry ifIdx r2
    if p4.isSome || p6.isSome then
      ({ s1 with services := aset (lower fullname) (svc.setStatus ifIdx .announced) s1.services },
       sendsOf i p4 p6 ++ notify s (.announceAt (r2.resolveName fullname) (r2.resolveName svc.host) i.name))
    else (s1, [])
  | _, _, _ => (s, [])

/-! ### probing -/

inductive ProbeAction where
  | idle | send | expire
  deriving Repr, DecidableEq, Inhabited

/-- `Probe::expired` (repair of D31): the probe is 750 ms old AND its three queries have been
    sent - `next_send` has moved on to the end of the schedule -/
def Probe.expired (p : Probe) (now : Nat) : Bool :=
  decide (now ≥ p.start + 750) && decide (p.next ≥ p.start + 750)

/-- what `check_probing` does with one probe at `now` -/
def Probe.action (p : Probe) (now : Nat) : ProbeAction :=
  if now ≥ p.next then (if p.expired now then .expire else .send) else .idle

/-- the probe after `check_probing` (an expired probe is removed later).  `update_next_send`
    (repair of D31): a query that goes out later than planned moves the rest of the schedule -
    `start_time` - by the same time. -/
def Probe.step (p : Probe) (now : Nat) : Probe :=
  match p.action now with
  | .send => { p with start := p.start + (now - p.next), next := now + 250 }
  | _ => p

structure Probing where
  reg : Registry
  questions : List (BList × Nat)
  authorities : List RR
  expired : List BList
  timers : List Nat

/-- `check_probing` -/
def checkProbing (r : Registry) (now : Nat) : Probing :=
  { reg := { r with probing := r.probing.map fun (n, p) => (n, p.step now) },
    questions := (r.probing.filter fun (_, p) => p.action now == .send).map fun (n, _) => (n, TYPE_ANY),
    authorities := (r.probing.filter fun (_, p) => p.action now == .send).flatMap fun (_, p) => p.records,
    expired := (r.probing.filter fun (_, p) => p.action now == .expire).map (·.1),
    timers := (r.probing.filter fun (_, p) => p.action now == .send).map fun _ => now + 250 }

/-- `handle_expired_probes` for one finished probe: name changes are recorded and reported,
    the records become active, the waiting services are returned -/
def expireProbe (intfName : BList) (acc : Registry × List Event × List BList) (name : BList) :
    Registry × List Event × List BList :=
  match alookup name acc.1.probing with
  | none => acc
  | some p =>
    let renamed := p.records.filter (·.newName.isSome)
    let r1 : Registry :=
      { acc.1 with probing := aerase name acc.1.probing,
                   nameChanges := renamed.foldl (fun nc rec => aset name rec.getName nc) acc.1.nameChanges }
    let evs := renamed.map fun rec => Event.nameChange rec.name rec.getName rec.ty intfName
    if p.records.isEmpty then (r1, acc.2.1 ++ evs, acc.2.2)
    else
      ({ r1 with active := aset name ((alookup name r1.active).getD [] ++ p.records) r1.active },
       acc.2.1 ++ evs, p.waiting.foldl (fun w x => sinsert x w) acc.2.2)

/-- `handle_expired_probes` -/
def handleExpiredProbes (expired : List BList) (intfName : BList) (r : Registry) : Registry × List Event × List BList :=
  expired.foldl (expireProbe intfName) (r, [], [])

/-- the loop over the waiting services in `probing_handler`, for one service name -/
def wakeService (now jitter : Nat) (i : MyIntf) (acc : State × List Out) (name : BList) : State × List Out :=
  let s := acc.1
  match alookup (lower name) s.services with
  | none => acc
  | some svc =>
    if svc.announcedOn i.index then acc
    else
      let r0 := s.registry i.index
      let r1 := prepareAnnounceReg svc i r0 true now jitter
      let p4 := prepareAnnouncePkt svc i r0 true
      let r2 := prepareAnnounceReg svc i r1 false now jitter
      let p6 := prepareAnnouncePkt svc i r1 false
      let s1 := s.setRegistry i.index r2
      if p4.isSome || p6.isSome then
        ({ s1 with services := aset (lower name) (svc.setStatus i.index .announced) s1.services,
                   reruns := s1.reruns ++ [.registerResend (now + 1000) svc.fullname i.index],
                   timers := s1.timers ++ [now + 1000] },
         acc.2 ++ sendsOf i p4 p6 ++ notify s (.announceAt (r2.resolveName name) (r2.resolveName svc.host) i.name))
      else (s1, acc.2)

/-- the probe query of one interface: one packet per family that has an address -/
def probeSends (i : MyIntf) (pr : Probing) : List Out :=
  if pr.questions.isEmpty then []
  else
    (if i.hasFamily true then [Out.send i.index true none { flags := 0, questions := pr.questions, authorities := pr.authorities }] else []) ++
    (if i.hasFamily false then [Out.send i.index false none { flags := 0, questions := pr.questions, authorities := pr.authorities }] else [])

/-- the end of the body of `probing_handler` for one interface: the `new_timers` of its registry
    - probes created or started over by a re-announcement or by the wake-ups - are armed -/
def drainNewTimers (idx : Nat) (acc : State × List Out) : State × List Out :=
  ({ (acc.1.setRegistry idx { (acc.1.registry idx) with newTimers := [] }) with
       timers := acc.1.timers ++ (acc.1.registry idx).newTimers }, acc.2)

/-- the body of `probing_handler` for one interface -/
def probingOnIntf (now jitter : Nat) (acc : State × List Out) (i : MyIntf) : State × List Out :=
  let s := acc.1
  match alookup i.index s.registries with
  | none => acc
  | some r =>
    let pr := checkProbing r now
    let ex := handleExpiredProbes pr.expired i.name pr.reg
    let s1 : State := { (s.setRegistry i.index ex.1) with timers := s.timers ++ pr.timers }
    let outs := acc.2 ++ probeSends i pr ++ ex.2.1.flatMap (notify s)
    drainNewTimers i.index (ex.2.2.foldl (wakeService now jitter i) (s1, outs))

/-- `probing_handler` -/
def probingHandler (s : State) (now jitter : Nat) : State × List Out :=
  s.intfs.foldl (probingOnIntf now jitter) (s, [])

/-! ### answering queries -/

/-- answers and additionals collected by `handle_query` -/
structure Resp where
  answers : List RR := []
  additionals : List RR := []
  deriving Repr, DecidableEq, Inhabited

/-- `DnsOutgoing::add_answer`: dropped when a known answer suppresses it -/
def Resp.addAnswer (r : Resp) (known : List Wire.Rec) (a : RR) : Resp :=
  if suppressedBy a known then r else { r with answers := r.answers ++ [a] }

/-- `add_answer_with_additionals` -/
def addAnswerWithAdditionals (known : List Wire.Rec) (svc : Service) (i : MyIntf) (reg : Registry) (v4 : Bool)
    (r : Resp) : Resp :=
  if addrsOn svc i v4 = [] then r
  else if suppressedBy { name := svc.ty, ty := TYPE_PTR, flush := false, ttl := TTL_OTHER,
                         rdata := .ptr (reg.resolveName svc.fullname) } known then r
  else
    { answers := r.answers ++ [{ name := svc.ty, ty := TYPE_PTR, flush := false, ttl := TTL_OTHER,
                                 rdata := .ptr (reg.resolveName svc.fullname) }],
      additionals := r.additionals ++
        (match svc.sub with
         | some sub => [{ name := sub, ty := TYPE_PTR, flush := false, ttl := TTL_OTHER,
                          rdata := .ptr (reg.resolveName svc.fullname) : RR }]
         | none => []) ++
        [{ name := reg.resolveName svc.fullname, ty := TYPE_SRV, flush := true, ttl := TTL_HOST,
           rdata := .srv 0 0 svc.port (reg.resolveName svc.host) },
         { name := reg.resolveName svc.fullname, ty := TYPE_TXT, flush := true, ttl := TTL_OTHER, rdata := .txt svc.txt }] ++
        (addrsOn svc i v4).map fun ip =>
          { name := reg.resolveName svc.host, ty := addrType ip, flush := true, ttl := TTL_HOST, rdata := addrRData ip } }

/-- what one announced service contributes to a PTR question -/
def answerPtr (known : List Wire.Rec) (i : MyIntf) (reg : Registry) (v4 : Bool) (qname : BList) (r : Resp)
    (svc : Service) : Resp :=
  if !svc.announcedOn i.index then r
  else if svc.matchesType qname then addAnswerWithAdditionals known svc i reg v4 r
  else if qname = META_QUERY then
    r.addAnswer known { name := qname, ty := TYPE_PTR, flush := false, ttl := TTL_OTHER, rdata := .ptr svc.ty }
  else r

/-- what one announced service contributes to an A / AAAA / ANY question on its host name -/
def answerAddr (known : List Wire.Rec) (i : MyIntf) (reg : Registry) (qname : BList) (qtype : Nat) (r : Resp)
    (svc : Service) : Resp :=
  if !svc.announcedOn i.index then r
  else if lower (reg.resolveName svc.host) != lower qname then r
  else
    ((if qtype == TYPE_A || qtype == TYPE_ANY then addrsOn svc i true else []) ++
     (if qtype == TYPE_AAAA || qtype == TYPE_ANY then addrsOn svc i false else [])).foldl
      (fun r ip => r.addAnswer known { name := reg.resolveName svc.host, ty := addrType ip, flush := true,
                                       ttl := TTL_HOST, rdata := addrRData ip }) r

/-- `add_answer_of_service_with_host`: `host` is the CURRENT host name of the service (repair of
    D37: the answers named `svc.host`, the host name as registered, also after a rename) -/
def addAnswerOfService (known : List Wire.Rec) (qname : BList) (qtype : Nat) (svc : Service) (host : BList) (addrs : List Ip)
    (r : Resp) : Resp :=
  let r1 := if qtype == TYPE_SRV || qtype == TYPE_ANY then
      r.addAnswer known { name := qname, ty := TYPE_SRV, flush := true, ttl := TTL_HOST, rdata := .srv 0 0 svc.port host }
    else r
  let r2 := if qtype == TYPE_TXT || qtype == TYPE_ANY then
      r1.addAnswer known { name := qname, ty := TYPE_TXT, flush := true, ttl := TTL_OTHER, rdata := .txt svc.txt }
    else r1
  if qtype == TYPE_SRV then
    { r2 with additionals := r2.additionals ++ addrs.map fun ip =>
        { name := host, ty := addrType ip, flush := true, ttl := TTL_HOST, rdata := addrRData ip } }
  else r2

/-- the instance-name part of a non-PTR question: the service whose CURRENT name (the name as
    registered, resolved through `name_changes`; repair of D39: it was the lower-case key that was
    resolved) is the question's name, compared in lower case -/
def answerInstance (known : List Wire.Rec) (services : List (BList × Service)) (i : MyIntf) (reg : Registry)
    (v4 : Bool) (qname : BList) (qtype : Nat) (r : Resp) : Resp :=
  match services.find? (fun e => lower (reg.resolveName e.2.fullname) == lower qname) with
  | none => r
  | some (_, svc) =>
    if !svc.announcedOn i.index then r
    else if addrsOn svc i v4 = [] then r
    else addAnswerOfService known qname qtype svc (reg.resolveName svc.host) (addrsOn svc i v4) r

/-- the answer part of the loop over the questions in `handle_query` -/
def answerQuestion (known : List Wire.Rec) (services : List (BList × Service)) (i : MyIntf) (reg : Registry)
    (v4 : Bool) (r : Resp) (q : Wire.Question) : Resp :=
  if q.ty == TYPE_PTR then services.foldl (fun r e => answerPtr known i reg v4 q.name r e.2) r
  else
    let r1 := if q.ty == TYPE_A || q.ty == TYPE_AAAA || q.ty == TYPE_ANY then
        services.foldl (fun r e => answerAddr known i reg q.name q.ty r e.2) r
      else r
    answerInstance known services i reg v4 q.name q.ty r1

/-- our probe of a name a peer spells in whatever letter case (repair of D38: the lookups were
    by the exact spelling on the wire): its key, in OUR spelling -/
def Registry.probeKey (reg : Registry) (name : BList) : Option BList :=
  (reg.probing.find? fun e => lower e.1 == lower name).map (·.1)

/-- `Probe::tiebreaking` for our probe of `qname` (any letter case) against the authority section
    (the peer's records are picked by the spelling of the question) -/
def tiebreak (now : Nat) (auths : List Wire.Rec) (reg : Registry) (q : Wire.Question) : Registry :=
  if q.ty != TYPE_ANY then reg
  else
    match reg.probeKey q.name with
    | none => reg
    | some k =>
      match alookup k reg.probing with
      | none => reg
      | some p =>
        if p.start ≥ now then reg
        else
          match Compare.zipCmp (p.records.map RR.wire) (Compare.incomingFor auths q.name) with
          | .lt => { reg with probing := aset k { p with start := now + 1000, next := now + 1000 } reg.probing }
          | _ => reg

/-- `probe.next_send != next_send` around the call of `tiebreaking`: was the probe postponed? -/
def postponedTo (now : Nat) (auths : List Wire.Rec) (reg : Registry) (q : Wire.Question) : Option Nat :=
  match reg.probeKey q.name with
  | none => none
  | some k =>
    match alookup k reg.probing, alookup k (tiebreak now auths reg q).probing with
    | some p, some p' => if p'.next != p.next then some p'.next else none
    | _, _ => none

/-- the timers `handle_query` arms while it walks the questions: one for every probe that a
    lost tiebreak postponed (repair of D34) -/
def tiebreakTimers (now : Nat) (auths : List Wire.Rec) : Registry → List Wire.Question → List Nat
  | _, [] => []
  | reg, q :: qs =>
    (match postponedTo now auths reg q with | some t => [t] | none => []) ++
      tiebreakTimers now auths (tiebreak now auths reg q) qs

def clearFlush (r : RR) : RR := { r with flush := false }

/-- the response packet of `handle_query`; legacy unicast echoes the id and the questions
    and clears every cache-flush bit -/
def responsePkt (msg : Wire.Msg) (unicast : Bool) (r : Resp) : Packet :=
  if unicast then
    { id := msg.id, flags := FLAGS_RESPONSE, questions := msg.questions.map fun q => (q.name, q.ty),
      answers := r.answers.map clearFlush, additionals := r.additionals.map clearFlush }
  else { flags := FLAGS_RESPONSE, answers := r.answers, additionals := r.additionals }

/-- `handle_query` -/
def handleQuery (s : State) (now : Nat) (p : RxPkt) (i : MyIntf) : State × List Out :=
  match alookup p.ifIdx s.registries with
  | none => (s, [])
  | some reg =>
    let resp := p.msg.questions.foldl (answerQuestion p.msg.answers s.services i reg p.srcV4) {}
    let reg' := p.msg.questions.foldl (tiebreak now p.msg.authorities) reg
    let s' : State := { (s.setRegistry p.ifIdx reg') with
      timers := s.timers ++ tiebreakTimers now p.msg.authorities reg p.msg.questions }
    if resp.answers.isEmpty then (s', [])
    else
      (s',
       (if i.hasFamily p.srcV4 then
          [Out.send i.index p.srcV4 (if p.srcPort != MDNS_PORT then some p.src else none)
            (responsePkt p.msg (p.srcPort != MDNS_PORT) resp)]
        else []) ++ notify s (.respond i.name))

/-! ### conflicts (`handle_response` as far as `conflict_handler` needs it) -/

/-- `rrdata_match` between an own record and an incoming one of the same type -/
def rdataMatch (mine : RR) (o : Wire.Rec) : Bool := mine.rdata == o.rdata

/-- the name a conflicting record moves to; a panic of the rename functions (counter at
    `u32::MAX`) is outside the fragment: the name is then kept -/
def renameFor (ty : Nat) (name : BList) : BList :=
  match (if ty == TYPE_A || ty == TYPE_AAAA then Names.hostnameChange name else Names.nameChange name) with
  | .ok n => n
  | _ => name

def isSrvTo (host : BList) (r : RR) : Bool :=
  match r.rdata with
  | .srv _ _ _ h => r.ty == TYPE_SRV && h == host
  | _ => false

def setSrvHost (host : BList) (r : RR) : RR :=
  match r.rdata with
  | .srv p w port _ => { r with rdata := .srv p w port host }
  | _ => r

/-- `DnsRegistry::update_hostname`: every SRV (probing or active) that points to `original`
    is taken out, re-targeted and put into the probe of its own name, which starts over at
    `probeTime` (start and next send: repair of D41, `next_send` used to stay); returns whether
    a timer is to be armed for `probeTime` -/
def updateHostname (reg : Registry) (original newName : BList) (probeTime : Nat) : Registry × Bool :=
  let found := (reg.probing.flatMap fun (_, p) => p.records.filter (isSrvTo original)) ++
               (reg.active.flatMap fun (_, rs) => rs.filter (isSrvTo original))
  let reg1 : Registry :=
    { reg with probing := reg.probing.map (fun (n, p) => (n, { p with records := p.records.filter (fun r => !isSrvTo original r) })),
               active := reg.active.map (fun (n, rs) => (n, rs.filter (fun r => !isSrvTo original r))) }
  found.foldl (fun (acc : Registry × Bool) rec =>
    let rec' := setSrvHost newName rec
    match alookup rec'.getName acc.1.probing with
    | some p => ({ acc.1 with probing := aset rec'.getName { p with start := probeTime, next := probeTime, records := insertRR rec' p.records } acc.1.probing }, true)
    | none => ({ acc.1 with probing := aset rec'.getName { Probe.new probeTime with records := [rec'] } acc.1.probing }, true))
    (reg1, false)

/-- the body of `conflict_handler` for one answer of a response -/
def conflictOnAnswer (now jitter : Nat) (acc : Registry × List Nat) (ans : Wire.Rec) : Registry × List Nat :=
  let reg := acc.1
  -- our probe of the answer's name, whatever letter case the peer spells it in; from here on
  -- the name is OUR spelling (repair of D38)
  match reg.probeKey ans.name with
  | none => acc
  | some name =>
  match alookup name reg.probing with
  | none => acc
  | some probe =>
    let isAddr := ans.ty == TYPE_A || ans.ty == TYPE_AAAA
    if isAddr && probe.records.any (fun r => r.ty == ans.ty && ans.cls == 1 && rdataMatch r ans) then acc
    else
      let conflicting := fun (r : RR) => r.ty == ans.ty && ans.cls == 1 && !rdataMatch r ans
      let newRecords := (probe.records.filter conflicting).map fun r => r.setNewName (renameFor r.ty name)
      let probe1 := { probe with records := probe.records.filter (fun r => !conflicting r) }
      let reg1 := { reg with probing := aset name probe1 reg.probing }
      let createTime := now + jitter
      newRecords.foldl (fun (acc : Registry × List Nat) rec =>
        let (regA, created) := updateHostname acc.1 name rec.getName createTime
        let timersA := if created then acc.2 ++ [createTime] else acc.2
        let regB := { regA with nameChanges := aset rec.name rec.getName regA.nameChanges }
        let (p, timersB) :=
          match alookup rec.getName regB.probing with
          | some p => (p, timersA)
          | none => (Probe.new createTime, timersA ++ [createTime])
        let p' := { p with records := insertRR rec p.records,
                           waiting := probe1.waiting.foldl (fun w x => sinsert x w) p.waiting }
        ({ regB with probing := aset rec.getName p' regB.probing }, timersB)) (reg1, acc.2)

/-- `handle_response`: only `conflict_handler` matters for a daemon without searches (every
    record is then refused by the cache: no querier, no hostname resolver) -/
def handleResponse (s : State) (now jitter : Nat) (p : RxPkt) : State :=
  match alookup p.ifIdx s.registries with
  | none => s
  | some reg =>
    let (reg', timers) := p.msg.answers.foldl (conflictOnAnswer now jitter) (reg, [])
    { (s.setRegistry p.ifIdx reg') with timers := s.timers ++ timers }

/-- `handle_read` after the datagram was decoded: unknown interface and disabled family are
    dropped; queries and responses are told apart by the QR bit -/
def handleRead (now jitter : Nat) (acc : State × List Out) (p : RxPkt) : State × List Out :=
  match acc.1.intfs.find? (·.index == p.ifIdx) with
  | none => acc
  | some i =>
    if !i.hasFamily p.sockV4 then acc
    else if p.msg.flags / 32768 % 2 == 0 then
      let (s', o) := handleQuery acc.1 now p i
      (s', acc.2 ++ o)
    else (handleResponse acc.1 now jitter p, acc.2)

/-! ### the loop -/

/-- `exec_command(command, false)` for the commands of the fragment (`Exit` is handled by the loop) -/
def execCommand (now jitter : Nat) (acc : State × List Out) (c : Command) : State × List Out :=
  if acc.1.stopped then acc
  else
    match c with
    | .register svc =>
      let (s', o) := registerService acc.1 svc now jitter
      (s', acc.2 ++ o)
    | .unregister name ch =>
      let (s', o) := execUnregister acc.1 now name ch
      (s', acc.2 ++ o)
    | .monitor ch => ({ acc.1 with monitors := acc.1.monitors ++ [ch] }, acc.2)
    | .ipInterval ms => ({ acc.1 with ipInterval := ms }, acc.2)
    | .exit ch =>
      let (s', o) := cleanup acc.1
      (s', acc.2 ++ o ++ [.shutdownReply ch])

/-- executes one due re-run -/
def execRerun (now jitter : Nat) (acc : State × List Out) (r : ReRun) : State × List Out :=
  match r with
  | .registerResend _ fullname ifIdx =>
    let (s', o) := execRegisterResend acc.1 now jitter fullname ifIdx
    (s', acc.2 ++ o)
  | .unregisterResend _ pkt ifIdx v4 => (acc.1, acc.2 ++ execUnregisterResend acc.1 pkt ifIdx v4)

/-- the re-run loop: due entries are removed and executed in queue order (none of them
    queues another one) -/
def runReruns (s : State) (now jitter : Nat) : State × List Out :=
  (s.reruns.filter (fun r => decide (now ≥ r.next))).foldl (execRerun now jitter)
    ({ s with reruns := s.reruns.filter (fun r => !decide (now ≥ r.next)) }, [])

/-- the ip-check block at the end of the loop (`check_ip_changes` finds nothing to do on a
    constant interface table) -/
def runIpCheck (s : State) (now : Nat) : State :=
  if now ≥ s.nextIpCheck && s.nextIpCheck > 0 then
    if s.ipInterval > 0 then
      { s with nextIpCheck := now + s.ipInterval, timers := s.timers ++ [now + s.ipInterval] }
    else { s with nextIpCheck := 0 }
  else if s.nextIpCheck == 0 && s.ipInterval > 0 then
    { s with nextIpCheck := now + s.ipInterval, timers := s.timers ++ [now + s.ipInterval] }
  else s

structure Input where
  now : Nat
  /-- what the jitter seam returns during this iteration -/
  jitter : Nat
  /-- datagrams in the order `handle_read` sees them (IPv4 socket first) -/
  rx : List RxPkt := []
  cmds : List Command := []
  deriving Inhabited

/-- one iteration of the loop of `Zeroconf::run` -/
def iter (s : State) (inp : Input) : State × List Out :=
  if s.stopped then (s, [])
  else
    let (s1, o1) := inp.rx.foldl (handleRead inp.now inp.jitter) (s, [])
    let s2 := { s1 with timers := s1.timers.filter (· > inp.now) }
    let (s3, o3) := inp.cmds.foldl (execCommand inp.now inp.jitter) (s2, [])
    if s3.stopped then (s3, o1 ++ o3)
    else
      let (s4, o4) := runReruns s3 inp.now inp.jitter
      let (s5, o5) := probingHandler s4 inp.now inp.jitter
      (runIpCheck s5 inp.now, o1 ++ o3 ++ o4 ++ o5)

/-- the wake-up requested at the next gate -/
def wake (s : State) : Option Nat := s.timers.min?

/-- a whole history -/
def run (s : State) : List Input → State × List (List Out)
  | [] => (s, [])
  | inp :: rest =>
    let r := run (iter s inp).1 rest
    (r.1, (iter s inp).2 :: r.2)

end Mdns.Responder
