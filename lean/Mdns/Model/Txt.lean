import Mdns.Model.Basic
/-
  Model of the TXT property codec of `src/service_info.rs`:
  `ServiceInfo::new` validation (lines 183-212), `encode_txt` (893-919),
  `decode_txt` (922-960), `decode_txt_unique` (962-973), `TxtProperties::get` (651-656).
-/
namespace Mdns.Txt

structure TProp where
  key : BList
  val : Option BList
  deriving Repr, DecidableEq, Inhabited

/-- Length of the `key[=value]` string. -/
def TProp.strLen (p : TProp) : Nat :=
  p.key.length + (match p.val with | none => 0 | some v => v.length + 1)

/-- The string that is written after the length byte. -/
def TProp.str (p : TProp) : BList :=
  p.key ++ (match p.val with | none => [] | some v => 0x3D :: v)

/-- `ServiceInfo::new`: key is ASCII, has no '=', is not empty (RFC 6763 6.4; the
    emptiness check is the repair of defect D6), and the string fits one length byte. -/
def acceptedProp (p : TProp) : Bool :=
  isAscii p.key && !p.key.contains 0x3D && !p.key.isEmpty && decide (p.strLen ≤ 255)

def accepted (ps : List TProp) : Bool := ps.all acceptedProp

/-- `encode_txt` for one property.  `debug_assert!(s.len() <= 255)` is a panic in the
    profile the harness is built with. -/
def encodeOne (p : TProp) : Res BList :=
  let s := p.str
  if s.length ≤ 255 then .ok (UInt8.ofNat s.length :: s) else .panic

def encodeProps : List TProp → Res BList
  | [] => .ok []
  | p :: ps =>
    match encodeOne p with
    | .ok b =>
      match encodeProps ps with
      | .ok bs => .ok (b ++ bs)
      | r => r
    | r => r

/-- `encode_txt` -/
def encodeTxt (ps : List TProp) : Res BList :=
  match encodeProps ps with
  | .ok [] => .ok [0]
  | r => r

/-- split at the first '=' (`position(|&x| x == b'=')`) -/
def splitKV (kv : BList) : BList × Option BList :=
  let k := kv.takeWhile (· != 0x3D)
  match kv.dropWhile (· != 0x3D) with
  | [] => (k, none)
  | _ :: v => (k, some v)

/-- What one `key[=value]` string contributes: nothing if the key is not UTF-8. -/
def propOfKV (kv : BList) : List TProp :=
  let (k, v) := splitKV kv
  if validUtf8 k then [{ key := k, val := v }] else []

/-- `decode_txt`, mirroring the index arithmetic of the Rust loop: `txt[offset]` and
    the slice `txt[offset..offset_end]` are the places that could panic. -/
def decodeTxtAt (txt : BList) (off : Nat) : Res (List TProp) :=
  if _h : off < txt.length then
    match txt[off]? with
    | none => .panic
    | some len =>
      if len = 0 then .ok []
      else
        if off + 1 + len.toNat > txt.length then .ok []
        else
          if off + 1 + len.toNat ≤ txt.length then      -- slice bounds check of the Rust
            match decodeTxtAt txt (off + 1 + len.toNat) with
            | .ok ps => .ok (propOfKV ((txt.drop (off + 1)).take len.toNat) ++ ps)
            | r => r
          else .panic
  else .ok []
termination_by txt.length - off
decreasing_by omega

def decodeTxt (txt : BList) : Res (List TProp) := decodeTxtAt txt 0

/-- The same function written by structural consumption of the list (proof vehicle). -/
def decodeTxtL (txt : BList) : List TProp :=
  match txt with
  | [] => []
  | len :: rest =>
    if len = 0 then []
    else if len.toNat > rest.length then []
    else propOfKV (rest.take len.toNat) ++ decodeTxtL (rest.drop len.toNat)
termination_by txt.length
decreasing_by simp [List.length_drop]; omega

/-- first occurrence of each key wins, keys compared lower-cased -/
def dedupGo : List TProp → List BList → List TProp
  | [], _ => []
  | p :: ps, seen =>
    if seen.contains (lower p.key) then dedupGo ps seen
    else p :: dedupGo ps (lower p.key :: seen)

def dedupCI (ps : List TProp) : List TProp := dedupGo ps []

/-- `decode_txt_unique` -/
def decodeTxtUnique (txt : BList) : Res (List TProp) :=
  (decodeTxt txt).map dedupCI

/-- `TxtProperties::get` -/
def lookup (ps : List TProp) (key : BList) : Option TProp :=
  ps.find? (fun p => lower p.key == lower key)

/-- `TxtProperties::get_property_val`: `none` = no such key, `some none` = key without a value,
    `some (some v)` = the value bytes -/
def getVal (ps : List TProp) (key : BList) : Option (Option BList) :=
  (lookup ps key).map (·.val)

/-- `TxtProperties::get_property_val_str` on ASCII values (the bytes of the string returned):
    `none` = no such key; a key without a value is PRESENT and reads as the empty string -/
def getValStr (ps : List TProp) (key : BList) : Option BList :=
  (lookup ps key).map fun p => p.val.getD []

/-- `ServiceInfo::new(...)` followed by `generate_txt()` -/
def create (ps : List TProp) : Res BList :=
  if accepted ps then encodeTxt ps else .err

end Mdns.Txt
