import Mdns.Model.Basic
/-
  Model of the record lifetime functions of src/dns_parser.rs:
  `get_expiration_time`, `DnsRecord::{new, is_expired, expires_soon, refresh_due,
  halflife_passed, is_unique, refresh_no_more, refresh_maybe, get_remaining_ttl, set_expire,
  reset_ttl, update_ttl}`, `DnsRecordExt::{set_expire_sooner, updated_refresh_time, matches,
  rrdata_match, suppressed_by_answer, suppressed_by}`.

  Times are milliseconds, TTLs seconds, both `Nat` (the generator keeps times below 2^62,
  where the crate's `u64` arithmetic does not wrap).  The two subtractions that can
  underflow in the crate (`update_ttl`, `get_remaining_ttl`; a panic in a build with
  overflow checks) have the explicit outcome `Res.panic`.
-/
namespace Mdns.Rec
open Mdns

/-- RDATA by kind of record (`DnsAddress`, `DnsPointer`, `DnsSrv`, `DnsTxt`, `DnsHostInfo`,
    `DnsNSec`).  An address record carries the interface it was decoded on. -/
inductive RData where
  | addr (ip : BList) (ifName : BList) (ifIdx : Nat)
  | ptr (alias : BList)
  | srv (prio weight port : Nat) (host : BList)
  | txt (b : BList)
  | hinfo (cpu os : BList)
  | nsec (next bitmap : BList)
  deriving Repr, DecidableEq, Inhabited

/-- the RDATA proper: what goes on the wire (the interface of an address is not part of it) -/
def RData.wire : RData → RData
  | .addr ip _ _ => .addr ip [] 0
  | r => r

/-- `DnsRecord` (with its `DnsEntry`) plus the kind-specific RDATA -/
structure Record where
  name : BList
  ty : Nat
  /-- class without the cache-flush bit -/
  cls : Nat
  /-- cache-flush bit ("unique" record) -/
  flush : Bool
  ttl : Nat
  created : Nat
  expires : Nat
  refresh : Nat
  rdata : RData
  deriving Repr, DecidableEq, Inhabited

/-- `get_expiration_time(created, ttl, percent)` -/
def expTime (created ttl percent : Nat) : Nat := created + ttl * percent * 10

/-- `DnsRecord::new` at virtual time `now` -/
def Record.new (name : BList) (ty cls : Nat) (flush : Bool) (ttl : Nat) (rdata : RData) (now : Nat) : Record :=
  { name, ty, cls, flush, ttl, rdata,
    created := now, expires := expTime now ttl 100, refresh := expTime now ttl 80 }

namespace Record

def isExpired (r : Record) (now : Nat) : Bool := decide (now ≥ r.expires)
def expiresSoon (r : Record) (now : Nat) : Bool := decide (now + 1000 ≥ r.expires)
def refreshDue (r : Record) (now : Nat) : Bool := decide (now ≥ r.refresh)
def halflifePassed (r : Record) (now : Nat) : Bool := decide (now > expTime r.created r.ttl 50)
def isUnique (r : Record) : Bool := r.flush

def refreshNoMore (r : Record) : Record := { r with refresh := expTime r.created r.ttl 100 }

/-- does `refresh_maybe(now)` answer true -/
def refreshFires (r : Record) (now : Nat) : Bool := !r.isExpired now && r.refreshDue now

/-- the `refresh` field `refresh_maybe` writes when it answers true -/
def refreshNext (r : Record) : Nat :=
  if r.refresh = expTime r.created r.ttl 80 then expTime r.created r.ttl 85
  else if r.refresh = expTime r.created r.ttl 85 then expTime r.created r.ttl 90
  else if r.refresh = expTime r.created r.ttl 90 then expTime r.created r.ttl 95
  else expTime r.created r.ttl 100

/-- the record after `refresh_maybe(now)` -/
def refreshed (r : Record) (now : Nat) : Record :=
  if r.refreshFires now then { r with refresh := r.refreshNext } else r

/-- `refresh_maybe` -/
def refreshMaybe (r : Record) (now : Nat) : Record × Bool := (r.refreshed now, r.refreshFires now)

/-- `updated_refresh_time` -/
def updatedRefreshTime (r : Record) (now : Nat) : Record × Option Nat :=
  (r.refreshed now, if r.refreshFires now then some (r.refreshed now).refresh else none)

/-- `get_remaining_ttl`: `(expiry - now) / 1000 as u32`; the subtraction underflows after expiry -/
def remainingTtl (r : Record) (now : Nat) : Res Nat :=
  if expTime r.created r.ttl 100 < now then .panic
  else .ok ((expTime r.created r.ttl 100 - now) / 1000 % 4294967296)

def setExpire (r : Record) (t : Nat) : Record := { r with expires := t }

def setExpireSooner (r : Record) (t : Nat) : Record := if t < r.expires then r.setExpire t else r

/-- `reset_ttl`: TTL and creation time of `other`, schedule restarted -/
def resetTtl (r other : Record) : Record :=
  { r with
    ttl := other.ttl
    created := other.created
    expires := expTime other.created other.ttl 100
    refresh := if other.ttl > 1 then expTime other.created other.ttl 80 else expTime other.created other.ttl 100 }

/-- whole seconds elapsed since creation, as `(elapsed / 1000) as u32` -/
def elapsedSecs (r : Record) (now : Nat) : Nat := (now - r.created) / 1000 % 4294967296

/-- `update_ttl`: `ttl -= elapsed seconds`; underflows when more than the TTL has elapsed -/
def updateTtl (r : Record) (now : Nat) : Res Record :=
  if now > r.created then
    if r.elapsedSecs now > r.ttl then .panic else .ok { r with ttl := r.ttl - r.elapsedSecs now }
  else .ok r

/-- `DnsEntry` equality: name, type, class and the cache-flush bit -/
def entryEq (a b : Record) : Bool := a.name == b.name && a.ty == b.ty && a.cls == b.cls && a.flush == b.flush

/-- `matches`: same kind of record, same RDATA fields (for addresses including the
    interface), same `DnsEntry` -/
def matchesRec (a b : Record) : Bool := a.rdata == b.rdata && a.entryEq b

/-- `rrdata_match`: same kind and same RDATA (interface not compared) -/
def rrdataMatch (a b : Record) : Bool := a.rdata.wire == b.rdata.wire

/-- The reading of "that same record (owner, type, class, RDATA)" (DESIGN.md section 5, C10):
    owner as DNS compares names (ASCII letter case ignored), type, class without the
    cache-flush bit, RDATA as on the wire. -/
def sameRecord (a b : Record) : Bool :=
  lower a.name == lower b.name && a.ty == b.ty && a.cls == b.cls && a.rdata.wire == b.rdata.wire

/-- `suppressed_by_answer` (after the repair of D18: `get_name().eq_ignore_ascii_case`, type,
    class, `rrdata_match` - it used to be `matches`, which also compares the cache-flush bit
    and, for addresses, the interface) -/
def suppressedByAnswer (mine other : Record) : Bool :=
  lower mine.name == lower other.name && mine.ty == other.ty && mine.cls == other.cls && mine.rrdataMatch other &&
    decide (other.ttl > mine.ttl / 2)

/-- `suppressed_by` over the answer section of a query -/
def suppressedBy (mine : Record) (answers : List Record) : Bool := answers.any mine.suppressedByAnswer

end Record

/-! ### The refresh schedule as a specification (no record, only marks) -/

/-- percentage of the lifetime at which the `k`-th re-query (counted from 0) is due; 100 = none left -/
def markPct : Nat → Nat
  | 0 => 80
  | 1 => 85
  | 2 => 90
  | 3 => 95
  | _ => 100

/-- absolute time of the `k`-th mark of a record created at `t` with `ttl` seconds -/
def markAt (t ttl k : Nat) : Nat := expTime t ttl (markPct k)

/-- Does an observation at `now` trigger a re-query, when `k` re-queries were made so far:
    before expiry, fewer than four made, and the mark number `k` reached. -/
def specFires (t ttl k now : Nat) : Bool :=
  decide (now < t + 1000 * ttl) && decide (k < 4) && decide (markAt t ttl k ≤ now)

/-- answers of the schedule to a sequence of observation times, starting with `k` re-queries made -/
def specRun (t ttl : Nat) : Nat → List Nat → List Bool
  | _, [] => []
  | k, now :: rest =>
    specFires t ttl k now :: specRun t ttl (if specFires t ttl k now then k + 1 else k) rest

/-- answers of `refresh_maybe` called at the given times, and the record afterwards -/
def runRefresh (r : Record) : List Nat → List Bool × Record
  | [] => ([], r)
  | now :: rest =>
    let res := runRefresh (r.refreshed now) rest
    (r.refreshFires now :: res.1, res.2)

end Mdns.Rec
