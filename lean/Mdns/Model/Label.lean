import Mdns.Model.Basic
/-
  `DnsOutPacket::write_utf8` after the repair of D10 (src/dns_parser.rs): a label longer than
  63 bytes is cut at a character boundary instead of tripping `assert!(s.len() < 64)`.

      let mut len = cmp::min(s.len(), MAX_LABEL_LEN);
      while !s.is_char_boundary(len) { len -= 1; }
      self.write_byte(len as u8);
      self.write_bytes(&s.as_bytes()[..len]);

  `len -= 1` is a `usize` subtraction: it would underflow (panic) if the loop ever reached 0
  without finding a boundary.  `cutLen_boundary` shows it cannot: index 0 is a boundary.
-/
namespace Mdns.Label
open Mdns

def MAX_LABEL_LEN : Nat := 63

/-- `str::is_char_boundary(i)`: 0 and `len` are boundaries, an index beyond `len` is not, and
    inside the string an index is a boundary unless the byte there is a UTF-8 continuation
    byte (`(b as i8) >= -0x40`, i.e. not `10xxxxxx`). -/
def isCharBoundary (s : BList) (i : Nat) : Bool :=
  if i = 0 then true
  else match s[i]? with
    | none => i == s.length
    | some b => b < 0x80 || b ≥ 0xC0

/-- the `while` loop: count down from `len` to the nearest boundary -/
def cutFrom (s : BList) : Nat → Nat
  | 0 => 0
  | len + 1 => if isCharBoundary s (len + 1) then len + 1 else cutFrom s len

/-- the number of bytes of the label that are written -/
def cutLen (s : BList) : Nat := cutFrom s (min s.length MAX_LABEL_LEN)

/-- the label as written: the length byte and the bytes -/
def writeUtf8 (s : BList) : BList := UInt8.ofNat (cutLen s) :: s.take (cutLen s)

end Mdns.Label
