import Mdns.Model.Basic
/-
  Model of the wire decoder of `src/dns_parser.rs`:
  `DnsIncoming::new`, `read_header`, `read_questions`, `read_rr_records`, `read_name`,
  `read_char_string`, `read_u16`, `read_type_bitmap`, `read_vec`, `read_ipv4`, `read_ipv6`,
  `read_string` (lines 2033-2600 of the repaired tree).

  Every indexing / slicing operation of the Rust code is an explicit `d[i]?` whose `none`
  branch is `panic` unless a preceding check of the Rust code turns it into `err`.
-/
namespace Mdns.Wire

abbrev Pkt := Array UInt8

def MAX_NAME_LEN : Nat := 255
def MAX_NAME_POINTERS : Nat := 127

inductive RData where
  | a (ip : BList)
  | aaaa (ip : BList)
  | ptr (alias : BList)
  | srv (prio weight port : Nat) (host : BList)
  | txt (b : BList)
  | hinfo (cpu os : BList)
  | nsec (next bitmap : BList)
  deriving Repr, DecidableEq, Inhabited

structure Question where
  name : BList
  ty : Nat
  cls : Nat
  flush : Bool
  deriving Repr, DecidableEq, Inhabited

structure Rec where
  name : BList
  ty : Nat
  cls : Nat
  flush : Bool
  ttl : Nat
  rdata : RData
  /-- ghost: offset of the first byte of the record and one past its RDATA -/
  start : Nat
  stop : Nat
  deriving Repr, DecidableEq, Inhabited

structure Msg where
  id : Nat
  flags : Nat
  questions : List Question
  answers : List Rec
  authorities : List Rec
  additionals : List Rec
  deriving Repr, DecidableEq, Inhabited

/-- names inside RDATA -/
def rdNames : RData → List BList
  | .ptr n => [n]
  | .srv _ _ _ h => [h]
  | .nsec n _ => [n]
  | _ => []

/-- names of a record: owner and the names inside RDATA -/
def recNames (r : Rec) : List BList := r.name :: rdNames r.rdata

def msgNames (m : Msg) : List BList :=
  m.questions.map (·.name) ++ (m.answers ++ m.authorities ++ m.additionals).flatMap recNames

/-- number of RDATA bytes copied out of the datagram for a record -/
def rdataBytes (r : RData) : Nat :=
  match r with
  | .a b | .aaaa b | .txt b => b.length
  | .hinfo c o => c.length + o.length
  | .nsec _ b => b.length
  | _ => 0

/-- `RRType::from_u16(..).is_some()` -/
def knownType (ty : Nat) : Bool :=
  ty == 1 || ty == 5 || ty == 12 || ty == 13 || ty == 16 || ty == 28 || ty == 33 || ty == 47 || ty == 255

/-- bytes `d[off .. off+n)` as a list (caller has checked the bounds) -/
def slice (d : Pkt) (off n : Nat) : BList := (d.extract off (off + n)).toList

/-- big-endian u16 at `off`; `none` if out of bounds (an index panic in Rust) -/
def u16At (d : Pkt) (off : Nat) : Option Nat :=
  match d[off]?, d[off + 1]? with
  | some a, some b => some (a.toNat * 256 + b.toNat)
  | _, _ => none

def u32At (d : Pkt) (off : Nat) : Option Nat :=
  match u16At d off, u16At d (off + 2) with
  | some a, some b => some (a * 65536 + b)
  | _, _ => none

/-- Result of `read_name`: the name (labels each followed by '.'), the new `self.offset`,
    and a ghost step count (loop iterations) for the cost theorem. -/
structure NameOut where
  name : BList
  next : Nat
  steps : Nat
  deriving Repr, DecidableEq, Inhabited

/-- The loop of `read_name`.  `startOff` = `start_offset`, `off` = `offset`,
    `sofar` = `name`, `ret` = `some self.offset` once `at_end` is set,
    `hops` = `pointers_followed`. -/
def readNameGo (d : Pkt) (startOff off : Nat) (sofar : BList) (ret : Option Nat) (hops steps : Nat) :
    Res NameOut :=
  if off ≥ d.size then .err
  else
    match d[off]? with
    | none => .panic
    | some len =>
      if len = 0 then .ok ⟨sofar, ret.getD (off + 1), steps + 1⟩
      else if len &&& 0xC0 = 0x00 then
        if off + 1 + len.toNat > d.size then .err
        else if !validUtf8 (slice d (off + 1) len.toNat) then .err
        else if (sofar ++ slice d (off + 1) len.toNat ++ [0x2E]).length > MAX_NAME_LEN then .err
        else readNameGo d startOff (off + 1 + len.toNat)
              (sofar ++ slice d (off + 1) len.toNat ++ [0x2E]) ret hops (steps + 1)
      else if len &&& 0xC0 = 0xC0 then
        if d.size - off < 2 then .err
        else
          match u16At d off with
          | none => .panic
          | some v =>
            if v ^^^ 0xC000 ≥ startOff then .err
            else if hops + 1 > MAX_NAME_POINTERS then .err
            else readNameGo d startOff (v ^^^ 0xC000) sofar (some (ret.getD (off + 2))) (hops + 1) (steps + 1)
      else .err
termination_by (MAX_NAME_POINTERS - hops, d.size - off)
decreasing_by
  all_goals simp_wf
  · apply Prod.Lex.right'
    · omega
    · omega
  · apply Prod.Lex.left
    simp only [MAX_NAME_POINTERS] at *
    omega

/-- `read_name` at `self.offset = off` -/
def readName (d : Pkt) (off : Nat) : Res NameOut := readNameGo d off off [] none 0 0

/-- `read_u16` -/
def readU16 (d : Pkt) (off : Nat) : Res (Nat × Nat) :=
  if d.size - off < 2 then .err
  else match u16At d off with
    | some v => .ok (v, off + 2)
    | none => .panic

/-- `read_string(length)` -/
def readString (d : Pkt) (off len : Nat) : Res (BList × Nat) :=
  if d.size < off + len then .err
  else if !validUtf8 (slice d off len) then .err
  else .ok (slice d off len, off + len)

/-- `read_char_string` (with the bounds check of the repair of D1) -/
def readCharString (d : Pkt) (off : Nat) : Res (BList × Nat) :=
  if off ≥ d.size then .err
  else match d[off]? with
    | none => .panic
    | some len => readString d (off + 1) len.toNat

/-- `read_vec(length)` / `read_ipv4` / `read_ipv6` -/
def readVec (d : Pkt) (off len : Nat) : Res (BList × Nat) :=
  if d.size < off + len then .err else .ok (slice d off len, off + len)

/-- `read_type_bitmap` -/
def readTypeBitmap (d : Pkt) (off : Nat) : Res (BList × Nat) :=
  if d.size < off + 2 then .err
  else match d[off]?, d[off + 1]? with
    | some blockNum, some blockLen =>
      if blockNum ≠ 0 then .err
      else if !(1 ≤ blockLen.toNat ∧ blockLen.toNat ≤ 32) then .err
      else if off + 2 + blockLen.toNat > d.size then .err
      else .ok (slice d (off + 2) blockLen.toNat, off + 2 + blockLen.toNat)
    | _, _ => .panic

/-- RDATA reader per type: `some (rdata, newOffset)` for the supported types, `none` for
    unknown types and for ANY (the caller then skips RDLENGTH bytes). -/
def readRData (d : Pkt) (ty off rdlen : Nat) : Res (Option (RData × Nat)) :=
  if ty == 5 || ty == 12 then
    match readName d off with
    | .ok n => .ok (some (.ptr n.name, n.next))
    | .err => .err | .panic => .panic
  else if ty == 16 then
    match readVec d off rdlen with
    | .ok (b, o) => .ok (some (.txt b, o))
    | .err => .err | .panic => .panic
  else if ty == 33 then
    match readU16 d off with
    | .ok (prio, o1) =>
      match readU16 d o1 with
      | .ok (weight, o2) =>
        match readU16 d o2 with
        | .ok (port, o3) =>
          match readName d o3 with
          | .ok n => .ok (some (.srv prio weight port n.name, n.next))
          | .err => .err | .panic => .panic
        | .err => .err | .panic => .panic
      | .err => .err | .panic => .panic
    | .err => .err | .panic => .panic
  else if ty == 13 then
    match readCharString d off with
    | .ok (cpu, o1) =>
      match readCharString d o1 with
      | .ok (os, o2) => .ok (some (.hinfo cpu os, o2))
      | .err => .err | .panic => .panic
    | .err => .err | .panic => .panic
  else if ty == 1 then
    match readVec d off 4 with
    | .ok (b, o) => .ok (some (.a b, o))
    | .err => .err | .panic => .panic
  else if ty == 28 then
    match readVec d off 16 with
    | .ok (b, o) => .ok (some (.aaaa b, o))
    | .err => .err | .panic => .panic
  else if ty == 47 then
    match readName d off with
    | .ok n =>
      match readTypeBitmap d n.next with
      | .ok (bm, o) => .ok (some (.nsec n.name bm, o))
      | .err => .err | .panic => .panic
    | .err => .err | .panic => .panic
  else .ok none

/-- one iteration of the loop of `read_rr_records`; returns the record (if its type is
    supported) and the new offset -/
def readRR (d : Pkt) (isResponse : Bool) (off : Nat) : Res (Option Rec × Nat) :=
  match readName d off with
  | .err => .err | .panic => .panic
  | .ok n =>
    if d.size - n.next < 10 then .err
    else
      match u16At d n.next, u16At d (n.next + 2), u32At d (n.next + 4), u16At d (n.next + 8) with
      | some ty, some cls, some ttl0, some rdlen =>
        if n.next + 10 + rdlen > d.size then .err
        else
          match readRData d ty (n.next + 10) rdlen with
          | .err => .err | .panic => .panic
          | .ok (some (rd, o)) =>
            if o ≠ n.next + 10 + rdlen then .err
            else .ok (some { name := n.name, ty := ty, cls := cls % 32768, flush := decide (cls ≥ 32768),
                             ttl := if ttl0 = 0 ∧ isResponse then 1 else ttl0, rdata := rd,
                             start := off, stop := n.next + 10 + rdlen }, o)
          | .ok none => .ok (none, n.next + 10 + rdlen)
      | _, _, _, _ => .panic

/-- `read_rr_records(count)` -/
def readRRs (d : Pkt) (isResponse : Bool) : Nat → Nat → Res (List Rec × Nat)
  | 0, off => .ok ([], off)
  | count + 1, off =>
    match readRR d isResponse off with
    | .err => .err | .panic => .panic
    | .ok (r, o) =>
      match readRRs d isResponse count o with
      | .err => .err | .panic => .panic
      | .ok (rs, o') => .ok ((match r with | some r => [r] | none => []) ++ rs, o')

/-- `read_questions` -/
def readQuestions (d : Pkt) : Nat → Nat → Res (List Question × Nat)
  | 0, off => .ok ([], off)
  | count + 1, off =>
    match readName d off with
    | .err => .err | .panic => .panic
    | .ok n =>
      if d.size - n.next < 4 then .err
      else
        match u16At d n.next, u16At d (n.next + 2) with
        | some ty, some cls =>
          if !knownType ty then .err
          else
            match readQuestions d count (n.next + 4) with
            | .err => .err | .panic => .panic
            | .ok (qs, o) =>
              .ok ({ name := n.name, ty := ty, cls := cls % 32768, flush := decide (cls ≥ 32768) } :: qs, o)
        | _, _ => .panic

/-- `DnsIncoming::new` -/
def decode (d : Pkt) : Res Msg :=
  if d.size < 12 then .err
  else
    match u16At d 0, u16At d 2, u16At d 4, u16At d 6, u16At d 8, u16At d 10 with
    | some id, some flags, some nq, some nan, some nauth, some nadd =>
      match readQuestions d nq 12 with
      | .err => .err | .panic => .panic
      | .ok (qs, o1) =>
        match readRRs d (flags / 32768 % 2 == 1) nan o1 with
        | .err => .err | .panic => .panic
        | .ok (an, o2) =>
          match readRRs d (flags / 32768 % 2 == 1) nauth o2 with
          | .err => .err | .panic => .panic
          | .ok (au, o3) =>
            match readRRs d (flags / 32768 % 2 == 1) nadd o3 with
            | .err => .err | .panic => .panic
            | .ok (ad, _) =>
              .ok { id := id, flags := flags, questions := qs, answers := an, authorities := au, additionals := ad }
    | _, _, _, _, _, _ => .panic

end Mdns.Wire
