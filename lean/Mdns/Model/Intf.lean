import Mdns.Model.Basic
/-
  Model of interface selection and subnet membership:
  `IfKind::matches`, the selection loop of `Zeroconf::selected_intfs` / `apply_intf_selections`,
  `resolve_addr_to_index` (src/service_daemon.rs), `valid_ip_on_intf`,
  `ServiceInfo::get_addrs_on_my_intf_v4/v6` (src/service_info.rs).

  An IP address is its octets: 4 bytes = V4, 16 bytes = V6 (the drivers accept nothing else).
-/
namespace Mdns.Intf
open Mdns

abbrev Ip := BList

@[inline] def isV4 (ip : Ip) : Bool := ip.length == 4
@[inline] def isV6 (ip : Ip) : Bool := ip.length == 16

/-- `::1` -/
def LOOPBACK_V6 : Ip := [0, 0, 0, 0, 0, 0, 0, 0, 0, 0, 0, 0, 0, 0, 0, 1]

/-- `Ipv4Addr::is_loopback` (127.0.0.0/8) / `Ipv6Addr::is_loopback` (::1) -/
def isLoopback (ip : Ip) : Bool :=
  if isV4 ip then ip.head? == some 127 else ip == LOOPBACK_V6

/-- `if_addrs::Interface`: name, OS index, one address with its prefix length -/
structure Iface where
  name : BList
  index : Option Nat
  ip : Ip
  prefixLen : Nat
  deriving Repr, DecidableEq, Inhabited

/-- `IfKind`.  `Predicate` holds an arbitrary closure; the harness and the model share two
    named families: `predPrefix p` = "the interface name starts with `p`",
    `predParity b` = "index (0 if none) is odd iff `b`". -/
inductive IfKind where
  | all
  | ipv4
  | ipv6
  | name (n : BList)
  | addr (ip : Ip)
  | loopbackV4
  | loopbackV6
  | indexV4 (i : Nat)
  | indexV6 (i : Nat)
  | predPrefix (p : BList)
  | predParity (odd : Bool)
  deriving Repr, DecidableEq, Inhabited

/-- `IfKind::matches` -/
def IfKind.matches (k : IfKind) (i : Iface) : Bool :=
  match k with
  | .all => true
  | .ipv4 => isV4 i.ip
  | .ipv6 => isV6 i.ip
  | .name n => n == i.name
  | .addr a => a == i.ip
  | .loopbackV4 => isLoopback i.ip && isV4 i.ip
  | .loopbackV6 => isLoopback i.ip && isV6 i.ip
  | .indexV4 idx => i.index == some idx && isV4 i.ip
  | .indexV6 idx => i.index == some idx && isV6 i.ip
  | .predPrefix p => p.isPrefixOf i.name
  | .predParity odd => (i.index.getD 0 % 2 == 1) == odd

/-- `IfSelection` -/
abbrev Selection := IfKind × Bool

/-- the inner loop: one selection marks every interface it matches -/
def applySelection (sel : Selection) (intfs : List Iface) (marks : List Bool) : List Bool :=
  List.zipWith (fun i m => if sel.1.matches i then sel.2 else m) intfs marks

/-- The selection loop of `selected_intfs` / `apply_intf_selections`: every interface starts
    enabled, the selections are applied in the order they were made. -/
def selectedMarks (sels : List Selection) (intfs : List Iface) : List Bool :=
  sels.foldl (fun marks sel => applySelection sel intfs marks) (intfs.map fun _ => true)

/-- the last selection that matches the interface, if any -/
def lastMatch (sels : List Selection) (i : Iface) : Option Bool :=
  (sels.reverse.find? (·.1.matches i)).map (·.2)

/-- is this interface selected? (the specification `selectedMarks` is proved equal to) -/
def selected (sels : List Selection) (i : Iface) : Bool := (lastMatch sels i).getD true

/-- `resolve_addr_to_index`: what `enable_interface` / `disable_interface` store for a kind
    when `intfs` is the interface table at the time of the call -/
def resolveAddr (k : IfKind) (intfs : List Iface) : IfKind :=
  match k with
  | .addr a =>
    match intfs.find? (·.ip == a) with
    | some i => if isV4 a then .indexV4 (i.index.getD 0) else .indexV6 (i.index.getD 0)
    | none => k
  | _ => k

/-- big-endian value of the octets: `u32::from(Ipv4Addr)` / `u128::from(Ipv6Addr)` -/
def beNat : BList → Nat
  | [] => 0
  | b :: bs => b.toNat * 256 ^ bs.length + beNat bs

/-- `valid_ip_on_intf(addr, if_addr)`: same family and equal after masking with the
    interface's netmask (`ifIp`, `mask` come from one `Ifv4Addr` / `Ifv6Addr`) -/
def validIpOnIntf (addr ifIp mask : Ip) : Bool :=
  addr.length == ifIp.length && (beNat addr &&& beNat mask) == (beNat ifIp &&& beNat mask)

/-- `get_addrs_on_my_intf_v4` (`v4 = true`) / `_v6`: `ifAddrs` are the (address, netmask)
    pairs of the interface -/
def addrsOnIntf (v4 : Bool) (svcAddrs : List Ip) (ifAddrs : List (Ip × Ip)) : List Ip :=
  svcAddrs.filter fun a => (isV4 a == v4) && ifAddrs.any fun x => validIpOnIntf a x.1 x.2

/-- netmask of a prefix length for an address of `bits` bits, as a number -/
def prefixMask (bits p : Nat) : Nat := (2 ^ p - 1) * 2 ^ (bits - p)

end Mdns.Intf
