import Mdns.Model.Basic
/-
  Model of the name functions of `src/service_daemon.rs` and `src/service_info.rs`:
  `name_change`, `hostname_change`, `check_service_name_length`, `check_domain_suffix`,
  `check_service_name`, `check_hostname`, `valid_instance_name`, `split_sub_domain`, and of
  `DnsOutPacket::parse_escaped_name` (src/dns_parser.rs), which decides what labels a name
  has on the wire.

  Text is UTF-8 bytes.  The functions search for ASCII delimiters only (`.`, ` (`, `)`, `-`,
  `_`, `\`), which never occur inside a multi-byte sequence, so byte positions found here are
  the byte positions the Rust `str` methods return.
-/
namespace Mdns.Names
open Mdns

def DOT : UInt8 := 0x2E
def BACKSLASH : UInt8 := 0x5C
def HYPHEN : UInt8 := 0x2D
def UNDERSCORE : UInt8 := 0x5F
def RPAREN : UInt8 := 0x29
/-- `" ("` -/
def SP_LPAREN : BList := [0x20, 0x28]
/-- `"._tcp.local."`, `"._udp.local."`, `".local."`, `"._sub."` -/
def TCP_LOCAL : BList := [0x2E, 0x5F, 0x74, 0x63, 0x70, 0x2E, 0x6C, 0x6F, 0x63, 0x61, 0x6C, 0x2E]
def UDP_LOCAL : BList := [0x2E, 0x5F, 0x75, 0x64, 0x70, 0x2E, 0x6C, 0x6F, 0x63, 0x61, 0x6C, 0x2E]
def DOT_LOCAL : BList := [0x2E, 0x6C, 0x6F, 0x63, 0x61, 0x6C, 0x2E]
def SUB : BList := [0x2E, 0x5F, 0x73, 0x75, 0x62, 0x2E]
/-- `DOMAIN_LEN` -/
def DOMAIN_LEN : Nat := 12
def U32_MAX : Nat := 4294967295

/-! ### `str` primitives -/

/-- `s.split(sep).collect()`: never empty -/
def splitOn (sep : UInt8) : BList → List BList
  | [] => [[]]
  | c :: cs =>
    if c = sep then [] :: splitOn sep cs
    else
      match splitOn sep cs with
      | [] => [[c]]
      | p :: ps => (c :: p) :: ps

/-- `parts.join(".")` -/
def joinDot : List BList → BList
  | [] => []
  | [p] => p
  | p :: q :: rest => p ++ DOT :: joinDot (q :: rest)

/-- `s.rfind(pat)`: byte offset of the last occurrence -/
def rfind (pat : BList) : BList → Option Nat
  | [] => if pat.isEmpty then some 0 else none
  | c :: cs =>
    match rfind pat cs with
    | some i => some (i + 1)
    | none => if pat.isPrefixOf (c :: cs) then some 0 else none

/-- `s.find(ch)`: byte offset of the first occurrence -/
def find (b : UInt8) : BList → Option Nat
  | [] => none
  | c :: cs => if c = b then some 0 else (find b cs).map (· + 1)

/-- `s.contains(pat)` -/
def containsSub (pat s : BList) : Bool := (rfind pat s).isSome

/-- `s.ends_with(suffix)` -/
def endsWith (s suffix : BList) : Bool := suffix.isSuffixOf s

@[inline] def isDigit (b : UInt8) : Bool := 0x30 ≤ b && b ≤ 0x39

/-- value of a run of ASCII digits, `none` on any other byte -/
def digitsVal : BList → Nat → Option Nat
  | [], acc => some acc
  | c :: cs, acc => if isDigit c then digitsVal cs (acc * 10 + (c.toNat - 48)) else none

/-- `s.parse::<u32>()`: an optional `+`, then at least one ASCII digit, nothing else; the
    value must fit (`checked_mul`/`checked_add` in `from_str_radix`).  A `-` is not accepted
    for an unsigned type; leading zeros are. -/
def parseU32 (s : BList) : Option Nat :=
  match s with
  | [] => none
  | c :: cs =>
    match (if c = 0x2B then cs else c :: cs) with
    | [] => none
    | ds =>
      match digitsVal ds 0 with
      | some n => if n ≤ U32_MAX then some n else none
      | none => none

def digitByte (n : Nat) : UInt8 := UInt8.ofNat (48 + n % 10)

/-- decimal rendering with explicit fuel (structural, so that the kernel evaluates it) -/
def decimalAux : Nat → Nat → BList
  | 0, _ => []
  | fuel + 1, n => if n < 10 then [digitByte n] else decimalAux fuel (n / 10) ++ [digitByte n]

/-- `format!("{}", n)`.  The fuel `n + 1` is never exhausted (`decimal_rec` in Lemmas/Names). -/
def decimal (n : Nat) : BList := decimalAux (n + 1) n

/-! ### renaming after a conflict -/

/-- `" (2)"`, `"-2"` -/
def PAREN2 : BList := [0x20, 0x28, 0x32, 0x29]
def HYPHEN2 : BList := [0x2D, 0x32]

/-- What `name_change` does to the text before the first `.`: an existing ` (N)` at the very
    end is counted up, otherwise ` (2)` is appended.  `number.checked_add(1)` (repair of D14:
    `number + 1` used to overflow at 4294967295): at `u32::MAX` a fresh ` (2)` is appended. -/
def bumpParen (first : BList) : Res BList :=
  match rfind SP_LPAREN first with
  | none => .ok (first ++ PAREN2)
  | some parenPos =>
    match find RPAREN (first.drop parenPos) with
    | none => .ok (first ++ PAREN2)
    | some endParen =>
      if parenPos + endParen = first.length - 1 then
        -- `first_part[num_start..absolute_end_pos]` panics if the range is inverted
        if endParen < 2 then .panic
        else
          match parseU32 ((first.drop (parenPos + 2)).take (endParen - 2)) with
          | some number =>
            if number + 1 > U32_MAX then .ok (first ++ PAREN2)
            else .ok (first.take parenPos ++ SP_LPAREN ++ decimal (number + 1) ++ [RPAREN])
          | none => .ok (first ++ PAREN2)
      else .ok (first ++ PAREN2)

/-- `name_change` -/
def nameChange (original : BList) : Res BList :=
  match splitOn DOT original with
  | [] => .ok (original ++ PAREN2)
  | first :: rest =>
    match bumpParen first with
    | .ok newFirst => .ok (joinDot (newFirst :: rest))
    | .err => .err
    | .panic => .panic

/-- What `hostname_change` does to the text before the first `.`: everything after the last
    `-` that parses as a `u32` is counted up, otherwise `-2` is appended. -/
def bumpHyphen (first : BList) : Res BList :=
  match rfind [HYPHEN] first with
  | none => .ok (first ++ HYPHEN2)
  | some pos =>
    match parseU32 (first.drop (pos + 1)) with
    | some number =>
      if number + 1 > U32_MAX then .ok (first ++ HYPHEN2)
      else .ok (first.take pos ++ [HYPHEN] ++ decimal (number + 1))
    | none => .ok (first ++ HYPHEN2)

/-- `hostname_change` -/
def hostnameChange (original : BList) : Res BList :=
  match splitOn DOT original with
  | [] => .ok (original ++ HYPHEN2)
  | first :: rest =>
    match bumpHyphen first with
    | .ok newFirst => .ok (joinDot (newFirst :: rest))
    | .err => .err
    | .panic => .panic

/-! ### the checks -/

/-- `check_service_name_length(ty_domain, limit)` -/
def checkServiceNameLength (tyDomain : BList) (limit : Nat) : Res Unit :=
  if tyDomain.length ≤ DOMAIN_LEN + 1 then .err
  else if tyDomain.length - DOMAIN_LEN - 1 > limit then .err
  else .ok ()

/-- `check_domain_suffix` -/
def checkDomainSuffix (name : BList) : Res Unit :=
  if endsWith name TCP_LOCAL || endsWith name UDP_LOCAL then .ok () else .err

@[inline] def isAsciiAlpha (b : UInt8) : Bool := (0x41 ≤ b && b ≤ 0x5A) || (0x61 ≤ b && b ≤ 0x7A)

/-- `check_service_name`.  `name.starts_with('_')` (repair of D5: `&name[0..1]` used to panic
    when the service label is empty or starts with a multi-byte character). -/
def checkServiceName (fullname : BList) : Res Unit :=
  match checkDomainSuffix fullname with
  | .err => .err
  | .panic => .panic
  | .ok () =>
    match (splitOn DOT (fullname.take (fullname.length - DOMAIN_LEN))).getLast? with
    | none => .err
    | some [] => .err
    | some (c :: name) =>
      if c ≠ UNDERSCORE then .err
      else if containsSub [HYPHEN, HYPHEN] name then .err
      else if name.head? = some HYPHEN || name.getLast? = some HYPHEN then .err
      else if !name.any isAsciiAlpha then .err
      else .ok ()

/-- `check_hostname` -/
def checkHostname (hostname : BList) : Res Unit :=
  if !endsWith hostname DOT_LOCAL then .err
  else if hostname = DOT_LOCAL then .err
  else if hostname.length > 255 then .err
  else .ok ()

/-- `valid_instance_name` -/
def validInstanceName (name : BList) : Bool := decide ((splitOn DOT name).length ≥ 5)

/-- `split_sub_domain`: `domain.rsplit_once("._sub.")` -/
def splitSubDomain (domain : BList) : BList × Option BList :=
  match rfind SUB domain with
  | some i => (domain.drop (i + SUB.length), some domain)
  | none => (domain, none)

/-! ### labels on the wire -/

/-- The loop of `parse_escaped_name`: `cur` = `current_label`; `esc` = the previous
    character was a backslash whose meaning depends on this one (the Rust code peeks ahead
    instead): before `.` or `\` it escapes, before anything else and at the end of the text it
    is an ordinary character. -/
def parseEscapedGo : BList → BList → Bool → List BList
  | [], cur, esc =>
    if (if esc then cur ++ [BACKSLASH] else cur).isEmpty then []
    else [if esc then cur ++ [BACKSLASH] else cur]
  | c :: rest, cur, true =>
    if c = DOT || c = BACKSLASH then parseEscapedGo rest (cur ++ [c]) false
    else parseEscapedGo rest (cur ++ [BACKSLASH, c]) false
  | c :: rest, cur, false =>
    if c = BACKSLASH then parseEscapedGo rest cur true
    else if c = DOT then
      if cur.isEmpty then parseEscapedGo rest cur false else cur :: parseEscapedGo rest [] false
    else parseEscapedGo rest (cur ++ [c]) false

/-- the labels `write_name` writes for `name` (`strip_suffix('.')`, `parse_escaped_name`) -/
def wireLabels (name : BList) : List BList :=
  parseEscapedGo (if name.getLast? = some DOT then name.dropLast else name) [] false

/-- `write_utf8` asserts `len < 64` for every label; the decoder (and `check_hostname`)
    refuse names whose text is longer than 255 bytes -/
def encodable (name : BList) : Bool :=
  (wireLabels name).all (·.length < 64) && decide (name.length ≤ 255)

end Mdns.Names
