/-
  Basic types shared by every model file.  Import-free (core Lean only) so that the
  line-protocol driver links as a `lean_exe`.

  Text is UTF-8 *bytes* everywhere (DESIGN.md 2.1).
-/

namespace Mdns

abbrev Byte := UInt8
abbrev BList := List UInt8

/-- Outcome of a piece of Rust code that may return `Err` or panic. -/
inductive Res (α : Type) where
  | ok (a : α)
  | err
  | panic
  deriving Repr, DecidableEq, Inhabited

namespace Res

@[inline] def bind {α β} (r : Res α) (f : α → Res β) : Res β :=
  match r with
  | .ok a => f a
  | .err => .err
  | .panic => .panic

@[inline] def map {α β} (f : α → β) (r : Res α) : Res β :=
  match r with
  | .ok a => .ok (f a)
  | .err => .err
  | .panic => .panic

instance : Monad Res where
  pure := Res.ok
  bind := Res.bind

def tag {α} : Res α → String
  | .ok _ => "ok"
  | .err => "err"
  | .panic => "panic"

@[simp] theorem bind_ok {α β} (a : α) (f : α → Res β) : (Res.ok a).bind f = f a := rfl
@[simp] theorem bind_err {α β} (f : α → Res β) : (Res.err : Res α).bind f = .err := rfl
@[simp] theorem bind_panic {α β} (f : α → Res β) : (Res.panic : Res α).bind f = .panic := rfl

end Res

/-! ### ASCII helpers (the crate's `to_lowercase` is modelled on ASCII only, DESIGN.md 7) -/

@[inline] def lowerByte (b : UInt8) : UInt8 :=
  if 0x41 ≤ b ∧ b ≤ 0x5A then b + 0x20 else b

def lower (s : BList) : BList := s.map lowerByte

@[inline] def isAsciiByte (b : UInt8) : Bool := b < 0x80

def isAscii (s : BList) : Bool := s.all isAsciiByte

/-! ### UTF-8 validation, as `core::str::from_utf8` (RFC 3629 table 3-7) -/

@[inline] def isCont (b : UInt8) : Bool := 0x80 ≤ b && b ≤ 0xBF

def validUtf8 : BList → Bool
  | [] => true
  | b0 :: rest =>
    if b0 < 0x80 then validUtf8 rest
    else if 0xC2 ≤ b0 && b0 ≤ 0xDF then
      match rest with
      | b1 :: r => isCont b1 && validUtf8 r
      | _ => false
    else if b0 == 0xE0 then
      match rest with
      | b1 :: b2 :: r => (0xA0 ≤ b1 && b1 ≤ 0xBF) && isCont b2 && validUtf8 r
      | _ => false
    else if (0xE1 ≤ b0 && b0 ≤ 0xEC) || b0 == 0xEE || b0 == 0xEF then
      match rest with
      | b1 :: b2 :: r => isCont b1 && isCont b2 && validUtf8 r
      | _ => false
    else if b0 == 0xED then
      match rest with
      | b1 :: b2 :: r => (0x80 ≤ b1 && b1 ≤ 0x9F) && isCont b2 && validUtf8 r
      | _ => false
    else if b0 == 0xF0 then
      match rest with
      | b1 :: b2 :: b3 :: r => (0x90 ≤ b1 && b1 ≤ 0xBF) && isCont b2 && isCont b3 && validUtf8 r
      | _ => false
    else if 0xF1 ≤ b0 && b0 ≤ 0xF3 then
      match rest with
      | b1 :: b2 :: b3 :: r => isCont b1 && isCont b2 && isCont b3 && validUtf8 r
      | _ => false
    else if b0 == 0xF4 then
      match rest with
      | b1 :: b2 :: b3 :: r => (0x80 ≤ b1 && b1 ≤ 0x8F) && isCont b2 && isCont b3 && validUtf8 r
      | _ => false
    else false

/-! ### Hex and token helpers for the line protocol -/

def hexDigit (n : Nat) : Char :=
  if n < 10 then Char.ofNat (48 + n) else Char.ofNat (87 + n)

def hexOfBytes (bs : BList) : String :=
  if bs.isEmpty then "-" else
  String.ofList (bs.flatMap fun b => [hexDigit (b.toNat / 16), hexDigit (b.toNat % 16)])

def hexVal (c : Char) : Option Nat :=
  if '0' ≤ c ∧ c ≤ '9' then some (c.toNat - 48)
  else if 'a' ≤ c ∧ c ≤ 'f' then some (c.toNat - 87)
  else if 'A' ≤ c ∧ c ≤ 'F' then some (c.toNat - 55)
  else none

def bytesOfHexChars : List Char → Option BList
  | [] => some []
  | [_] => none
  | a :: b :: rest => do
    let x ← hexVal a
    let y ← hexVal b
    let r ← bytesOfHexChars rest
    pure (UInt8.ofNat (x * 16 + y) :: r)

def bytesOfHex (s : String) : Option BList :=
  if s == "-" then some [] else bytesOfHexChars s.toList

def boolTok (b : Bool) : String := if b then "1" else "0"

/-- Token-stream parser: a function from the remaining tokens to a value and the rest. -/
abbrev P (α : Type) := List String → Option (α × List String)

namespace P
def nat : P Nat
  | t :: ts => t.toNat?.map (·, ts)
  | [] => none
def bool : P Bool
  | "1" :: ts => some (true, ts)
  | "0" :: ts => some (false, ts)
  | _ => none
def hex : P BList
  | t :: ts => (bytesOfHex t).map (·, ts)
  | [] => none
def tok : P String
  | t :: ts => some (t, ts)
  | [] => none
def many {α} (p : P α) : Nat → P (List α)
  | 0 => fun ts => some ([], ts)
  | n + 1 => fun ts => do
    let (a, ts) ← p ts
    let (as, ts) ← many p n ts
    pure (a :: as, ts)
/-- `n item…` -/
def list {α} (p : P α) : P (List α) := fun ts => do
  let (n, ts) ← nat ts
  many p n ts
def opt {α} (p : P α) : P (Option α)
  | "none" :: ts => some (none, ts)
  | "some" :: ts => (p ts).map fun (a, ts) => (some a, ts)
  | _ => none
end P

def joinToks (ts : List String) : String := " ".intercalate ts

def listToks {α} (f : α → List String) (xs : List α) : List String :=
  toString xs.length :: xs.flatMap f

def optToks {α} (f : α → List String) : Option α → List String
  | none => ["none"]
  | some a => "some" :: f a

end Mdns
