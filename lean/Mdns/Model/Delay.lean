import Mdns.Model.Basic
/-
  Model of the back-off arithmetic of `exec_command_browse` and
  `exec_command_resolve_hostname` (src/service_daemon.rs):

      let next_time = now + (next_delay * 1000) as u64;     // browse
      let next_time = now + u64::from(next_delay) * 1000;   // resolve_hostname
      let max_delay = 60 * 60;
      let delay = cmp::min(next_delay * 2, max_delay);

  `next_delay: u32` starts at 1 (`ServiceDaemon::browse` / `resolve_hostname` send
  `Command::Browse(ty, 1, ..)` / `Command::ResolveHostname(host, 1, ..)`); the command that is
  queued for `next_time` carries `delay`.
-/
namespace Mdns.Delay
open Mdns

/-- `max_delay`: one hour, in seconds -/
def MAX_DELAY : Nat := 60 * 60

def U32_MAX : Nat := 4294967295

/-- One execution of the command with `next_delay = d`: the gap (ms) until the next
    execution and the delay that one carries.  The two `u32` multiplications panic on
    overflow in builds with overflow checks. -/
def step (d : Nat) : Res (Nat × Nat) :=
  if d * 1000 > U32_MAX then .panic
  else if d * 2 > U32_MAX then .panic
  else .ok (d * 1000, min (d * 2) MAX_DELAY)

/-- the arithmetic alone -/
def nextDelay (d : Nat) : Nat := min (d * 2) MAX_DELAY

/-- delay (seconds) between the query number `n` and the query number `n + 1` of one search
    (the first query is number 0) -/
def delay : Nat → Nat
  | 0 => 1
  | n + 1 => nextDelay (delay n)

/-- Running the command `k` times starting with `next_delay = d`: the gaps in ms. -/
def gapsFrom : Nat → Nat → Res (List Nat)
  | 0, _ => .ok []
  | k + 1, d =>
    match step d with
    | .ok (gap, d') =>
      match gapsFrom k d' with
      | .ok gs => .ok (gap :: gs)
      | r => r
    | .err => .err
    | .panic => .panic

/-- gaps (ms) between the first `k + 1` queries of a search -/
def gaps (k : Nat) : Res (List Nat) := gapsFrom k 1

end Mdns.Delay
