import Mdns.Model.Decode
/-
  Model of the "lexicographically later" comparison and of simultaneous-probe tiebreaking:
  `DnsRecordExt::compare`, the per-type `compare_rdata`, `get_class` (src/dns_parser.rs) and
  `Probe::{new, insert_record, tiebreaking, update_next_send, expired}` (src/service_info.rs).

  Records are `Wire.Rec` (owner name, type, class without the cache-flush bit, RDATA).
  Modelling notes:
  * `compare_rdata` compares the *decoded* fields: strings and byte vectors bytewise
    (`str::cmp`, `Vec<u8>::cmp`), SRV as priority, weight, port (`to_be_bytes().cmp`, which for
    a `u16` is the numeric order) and then the host *string* (not its wire form), addresses
    in `IpAddr` order (every V4 before every V6, then the octets).
  * `compare_rdata` first downcasts `other` to its own Rust type and answers `Greater` when
    that fails.  The Rust types are: `DnsAddress` (A and AAAA), `DnsPointer` (PTR, CNAME),
    `DnsSrv`, `DnsTxt`, `DnsHostInfo`, `DnsNSec` - `Kind` below.  The type *number* of a
    record is a separate field; the constructors of address, pointer and host-info records
    accept any type number.
-/
namespace Mdns.Compare
open Mdns Mdns.Wire

/-- `Ord` for `[u8]`, `Vec<u8>`, `str`, `String`: lexicographic on bytes -/
def cmpBytes : BList → BList → Ordering
  | [], [] => .eq
  | [], _ :: _ => .lt
  | _ :: _, [] => .gt
  | a :: as, b :: bs => if a < b then .lt else if b < a then .gt else cmpBytes as bs

/-- `Ord` for `u16` (also what comparing `to_be_bytes()` gives), `usize`, `RRType` -/
def cmpNat (a b : Nat) : Ordering := if a < b then .lt else if b < a then .gt else .eq

/-- the Rust struct that holds the RDATA -/
inductive Kind where
  | addr | ptr | srv | txt | hinfo | nsec
  deriving Repr, DecidableEq

def kind : RData → Kind
  | .a _ | .aaaa _ => .addr
  | .ptr _ => .ptr
  | .srv .. => .srv
  | .txt _ => .txt
  | .hinfo .. => .hinfo
  | .nsec .. => .nsec

/-- `compare_rdata` of the six record structs -/
def compareRData : RData → RData → Ordering
  | .a x, .a y => cmpBytes x y
  | .a _, .aaaa _ => .lt
  | .aaaa _, .a _ => .gt
  | .aaaa x, .aaaa y => cmpBytes x y
  | .ptr x, .ptr y => cmpBytes x y
  | .srv p w port h, .srv p' w' port' h' =>
    (cmpNat p p').then ((cmpNat w w').then ((cmpNat port port').then (cmpBytes h h')))
  | .txt x, .txt y => cmpBytes x y
  | .hinfo c o, .hinfo c' o' => (cmpBytes c c').then (cmpBytes o o')
  | .nsec n b, .nsec n' b' => (cmpBytes n n').then (cmpBytes b b')
  | _, _ => .gt

/-- `DnsRecordExt::compare`: class (without the cache-flush bit), then type, then RDATA -/
def compareRec (a b : Rec) : Ordering :=
  (cmpNat a.cls b.cls).then ((cmpNat a.ty b.ty).then (compareRData a.rdata b.rdata))

/-- The record's type number is the one the decoder builds this kind of RDATA for
    (`read_rr_records`): what a record that arrived in a packet always satisfies, and what the
    daemon's own records satisfy (`DnsAddress` built with `ip_address_rr_type`, PTR, SRV, TXT, NSEC). -/
def wellTyped (r : Rec) : Bool :=
  match r.rdata with
  | .a _ => r.ty == 1
  | .aaaa _ => r.ty == 28
  | .ptr _ => r.ty == 12 || r.ty == 5
  | .srv .. => r.ty == 33
  | .txt _ => r.ty == 16
  | .hinfo .. => r.ty == 13
  | .nsec .. => r.ty == 47

/-- Two records can be compared meaningfully: with equal class and type they are held by
    the same Rust struct. -/
def compatible (a b : Rec) : Prop := a.cls = b.cls → a.ty = b.ty → kind a.rdata = kind b.rdata

/-! ### The probe -/

/-- the sort key of `insert_record` -/
def cmpKey (a b : Rec) : Ordering := (cmpNat a.cls b.cls).then (cmpNat a.ty b.ty)

structure Probe where
  records : List Rec
  start : Nat
  next : Nat
  deriving Repr, DecidableEq, Inhabited

/-- `Probe::new` -/
def Probe.new (start : Nat) : Probe := { records := [], start := start, next := start }

/-- Insertion after the last record whose key is not greater.  `insert_record` inserts at
    the position `binary_search_by` returns; among records with the same (class, type) that
    position is unspecified ("any one of the matches"), so for them the order is read from
    the implementation (driver) and the theorems hold for every order. -/
def insertSorted (r : Rec) : List Rec → List Rec
  | [] => [r]
  | x :: xs => if cmpKey x r == .gt then r :: x :: xs else x :: insertSorted r xs

/-- `Probe::insert_record` -/
def Probe.insertRecord (p : Probe) (r : Rec) : Probe := { p with records := insertSorted r p.records }

def sortedByKey : List Rec → Bool
  | [] => true
  | [_] => true
  | a :: b :: rest => cmpKey a b != .gt && sortedByKey (b :: rest)

/-- The comparison loop of `tiebreaking`: the first pair that differs decides, otherwise
    the list lengths. -/
def zipCmp : List Rec → List Rec → Ordering
  | [], [] => .eq
  | [], _ :: _ => .lt
  | _ :: _, [] => .gt
  | a :: as, b :: bs =>
    match compareRec a b with
    | .eq => zipCmp as bs
    | o => o

/-- the authority records `tiebreaking` looks at -/
def incomingFor (authorities : List Rec) (probeName : BList) : List Rec :=
  authorities.filter (·.name == probeName)

/-- `Probe::tiebreaking` at time `now` -/
def Probe.tiebreaking (p : Probe) (authorities : List Rec) (probeName : BList) (now : Nat) : Probe :=
  if p.start ≥ now then p
  else
    match zipCmp p.records (incomingFor authorities probeName) with
    | .lt => { p with start := now + 1000, next := now + 1000 }
    | _ => p

/-- `Probe::update_next_send` (repair of D31): a query that goes out later than planned moves
    the rest of the schedule - `start_time` - by the same time -/
def Probe.updateNextSend (p : Probe) (now : Nat) : Probe := { p with start := p.start + (now - p.next), next := now + 250 }

/-- `Probe::expired` (repair of D31): 750 ms old AND the three queries sent - `next_send` has
    moved on to the end of the schedule -/
def Probe.expired (p : Probe) (now : Nat) : Bool := decide (now ≥ p.start + 750) && decide (p.next ≥ p.start + 750)

/-- the loop of `check_probing` for one probe over the instants `ts`: a due probe ends
    (`false, t`) when it is expired, otherwise sends (`true, t`) and moves on -/
def Probe.run (p : Probe) : List Nat → List (Bool × Nat) × Probe
  | [] => ([], p)
  | t :: ts =>
    if t ≥ p.next then
      if p.expired t then ([(false, t)], p)
      else ((true, t) :: ((p.updateNextSend t).run ts).1, ((p.updateNextSend t).run ts).2)
    else p.run ts

end Mdns.Compare
