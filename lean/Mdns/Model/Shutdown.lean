import Mdns.Model.Basic
/-
  Model of the command queue around `Exit` (`Zeroconf::run` command loop lines 1473-1482 of
  the pinned tree with the repair of D28, `cleanup`, `daemon_thread`, `send_cmd`, `status`):
  what every queued command's reply channel ends up with, for a shutdown at any position
  of any queue.
-/
namespace Mdns.Shutdown
open Mdns

/-- the commands that matter for the contract; `ch` = the reply / event channel created by
    the API call (0 for calls without one) -/
inductive QCmd where
  | exit (ch : Nat)
  | status (ch : Nat)
  | metrics (ch : Nat)
  | unregister (name : BList) (ch : Nat)
  | browse (ty : BList) (ch : Nat)
  | resolve (host : BList) (ch : Nat)
  | monitor (ch : Nat)
  | other
  deriving Repr, DecidableEq, Inhabited

structure QState where
  /-- registered services (lower-case full names) -/
  services : List BList
  /-- open searches: channel of each browse / hostname resolution -/
  searches : List Nat
  /-- monitor channels -/
  monitors : List Nat
  running : Bool
  deriving Repr, DecidableEq, Inhabited

inductive QOut where
  /-- a value on a reply channel -/
  | reply (ch : Nat) (v : String)
  /-- the sender side of a channel is dropped without a value -/
  | closed (ch : Nat)
  | goodbye (service : BList)
  | searchStarted (ch : Nat)
  | searchStopped (ch : Nat)
  | threadEnds
  deriving Repr, DecidableEq, Inhabited

def chanOf : QCmd → Option Nat
  | .exit ch | .status ch | .metrics ch | .unregister _ ch | .browse _ ch | .resolve _ ch | .monitor ch => some ch
  | .other => none

/-- a command executed by the running loop -/
def exec (s : QState) : QCmd → QState × List QOut
  | .status ch => (s, [.reply ch "running"])
  | .metrics ch => (s, [.reply ch "metrics"])
  | .unregister name ch =>
    if s.services.contains (lower name) then
      ({ s with services := s.services.filter (· != lower name) }, [.goodbye (lower name), .reply ch "ok"])
    else (s, [.reply ch "notfound"])
  | .browse _ ch => ({ s with searches := s.searches ++ [ch] }, [.searchStarted ch])
  | .resolve _ ch => ({ s with searches := s.searches ++ [ch] }, [.searchStarted ch])
  | .monitor ch => ({ s with monitors := s.monitors ++ [ch] }, [])
  | .exit _ => (s, [])      -- handled by `process`
  | .other => (s, [])

/-- `cleanup` + dropping what is queued behind `Exit` + the status reply of `daemon_thread`
    + the end of the thread (which drops every remaining sender) -/
def shutdown (s : QState) (ch : Nat) (behind : List QCmd) : QState × List QOut :=
  ({ services := [], searches := [], monitors := [], running := false },
   s.services.map .goodbye ++ s.searches.flatMap (fun c => [.searchStopped c, .closed c]) ++
   (behind.filterMap chanOf).map .closed ++ [.reply ch "shutdown", .threadEnds] ++ s.monitors.map .closed)

/-- the command loop of one iteration over the queue -/
def process (s : QState) : List QCmd → QState × List QOut
  | [] => (s, [])
  | .exit ch :: behind => shutdown s ch behind
  | c :: rest =>
    let (s1, o1) := exec s c
    let (s2, o2) := process s1 rest
    (s2, o1 ++ o2)

/-- an API call made on a handle after the thread has ended: `status()` answers locally,
    everything else fails with `DaemonShutdown` -/
def callAfterEnd : QCmd → List QOut × String
  | .status ch => ([.reply ch "shutdown", .closed ch], "ok")
  | _ => ([], "shutdown")

end Mdns.Shutdown
