import Mdns.Model.Record
/-
  Model of src/dns_cache.rs: `DnsCache::{add_or_update, evict_expired_addr,
  evict_expired_services, remove_service_type, refresh_due_ptr, refresh_due_srv_txt,
  refresh_due_hosts, refresh_due_hostname_resolutions, get_known_answers,
  service_verify_queries}`.

  The five `HashMap<String, Vec<DnsRecordIntf>>` are association lists `name ↦ entries`; the
  order of the entries of one name is the order of the Rust `Vec` (observable), the order
  of the names is not (everything that leaves a map is sorted before it is compared).
  `to_lowercase` is ASCII lower-casing (DESIGN.md section 7).
-/
namespace Mdns.Cache
open Mdns Mdns.Rec

/-- `DnsRecordIntf`: a record and the interface it was received on -/
structure Entry where
  record : Record
  srcName : BList
  srcIdx : Nat
  deriving Repr, DecidableEq, Inhabited

abbrev Table := List (BList × List Entry)

namespace Table

def get (t : Table) (k : BList) : Option (List Entry) := t.lookup k

/-- `map.insert(k, v)` / assignment through `get_mut` -/
def set : Table → BList → List Entry → Table
  | [], k, v => [(k, v)]
  | (k', v') :: rest, k, v => if k' == k then (k, v) :: rest else (k', v') :: set rest k v

/-- `if let Some(v) = map.get_mut(k) { *v = f(v) }` -/
def modify (t : Table) (k : BList) (f : List Entry → List Entry) : Table :=
  t.map fun p => if p.1 == k then (p.1, f p.2) else p

/-- `map.remove(k)` -/
def erase (t : Table) (k : BList) : Table := t.filter fun p => !(p.1 == k)

end Table

structure Cache where
  ptr : Table := []
  srv : Table := []
  txt : Table := []
  addr : Table := []
  nsec : Table := []
  /-- instance fullname ↦ subtype PTR name -/
  subtype : List (BList × BList) := []
  deriving Repr, DecidableEq, Inhabited

inductive Slot where
  | ptr | srv | txt | addr | nsec
  deriving Repr, DecidableEq

/-- the map a record type is kept in (`None` for types the cache does not keep) -/
def slotOf (ty : Nat) : Option Slot :=
  if ty = 12 then some .ptr
  else if ty = 33 then some .srv
  else if ty = 16 then some .txt
  else if ty = 1 ∨ ty = 28 then some .addr
  else if ty = 47 then some .nsec
  else none

def Cache.table (c : Cache) : Slot → Table
  | .ptr => c.ptr
  | .srv => c.srv
  | .txt => c.txt
  | .addr => c.addr
  | .nsec => c.nsec

def Cache.setTable (c : Cache) (s : Slot) (t : Table) : Cache :=
  match s with
  | .ptr => { c with ptr := t }
  | .srv => { c with srv := t }
  | .txt => { c with txt := t }
  | .addr => { c with addr := t }
  | .nsec => { c with nsec := t }

/-- address records are keyed by the lower-cased name, the others by the name as received -/
def keyOf (s : Slot) (name : BList) : BList :=
  match s with
  | .addr => lower name
  | _ => name

def hasInfix (pat : BList) : BList → Bool
  | [] => pat.isEmpty
  | b :: rest => pat.isPrefixOf (b :: rest) || hasInfix pat rest

/-- "._sub." -/
def subMarker : BList := [0x2E, 0x5F, 0x73, 0x75, 0x62, 0x2E]

/-- first part of `add_or_update`: remember the subtype of an instance -/
def noteSubtype (c : Cache) (inc : Record) (forUs : Bool) : Cache :=
  if inc.ty = 12 ∧ forUs = true ∧ hasInfix subMarker inc.name = true then
    match inc.rdata with
    | .ptr a => if (c.subtype.lookup a).isSome then c else { c with subtype := c.subtype ++ [(a, inc.name)] }
    | _ => c
  else c

/-! ### The cache-flush rule (RFC 6762 section 10.2) inside `add_or_update` -/

/-- Is the cached entry `e` flushed by the arrival of `inc` (which has the cache-flush bit)
    at time `now`: same class and type, created more than a second ago, more than a second
    to live, and for address records the same interface index. -/
def shouldFlush (inc : Record) (now : Nat) (e : Entry) : Bool :=
  inc.cls == e.record.cls && inc.ty == e.record.ty && decide (now > e.record.created + 1000) &&
  decide (e.record.expires > now + 1000) &&
  (if inc.ty = 1 ∨ inc.ty = 28 then
    match e.record.rdata, inc.rdata with
    | .addr _ _ i, .addr _ _ j => i == j
    | _, _ => true
   else true)

def flushOne (inc : Record) (now : Nat) (e : Entry) : Entry :=
  if shouldFlush inc now e then { e with record := e.record.setExpire (now + 1000) } else e

def flushList (inc : Record) (now : Nat) (es : List Entry) : List Entry :=
  if inc.flush then es.map (flushOne inc now) else es

/-- one timer per flushed entry -/
def flushTimers (inc : Record) (now : Nat) (es : List Entry) : List Nat :=
  if inc.flush then (es.filter (shouldFlush inc now)).map fun _ => now + 1000 else []

/-- reset the TTL of the first entry that matches `inc` -/
def resetFirst (inc : Record) : List Entry → List Entry
  | [] => []
  | e :: es => if e.record.matchesRec inc then { e with record := e.record.resetTtl inc } :: es else e :: resetFirst inc es

def hasMatch (inc : Record) (es : List Entry) : Bool := es.any fun e => e.record.matchesRec inc

/-- second half of `add_or_update`: refresh the matching entry or insert in front -/
def upsert (srcName : BList) (srcIdx : Nat) (inc : Record) (es : List Entry) : List Entry :=
  if hasMatch inc es then resetFirst inc es else { record := inc, srcName, srcIdx } :: es

/-- index of the entry `add_or_update` returns -/
def upsertIdx (inc : Record) (es : List Entry) : Nat :=
  if hasMatch inc es then es.findIdx fun e => e.record.matchesRec inc else 0

/-- the entries of one name after `add_or_update` of `inc` at `now` -/
def addList (srcName : BList) (srcIdx : Nat) (inc : Record) (now : Nat) (es : List Entry) : List Entry :=
  upsert srcName srcIdx inc (flushList inc now es)

structure AddResult where
  cache : Cache
  /-- the entry returned and whether it is new -/
  result : Option (Entry × Bool)
  timers : List Nat
  deriving Repr

/-- `add_or_update(intf, incoming, timers, is_for_us)` with the clock at `now` -/
def addOrUpdate (c : Cache) (srcName : BList) (srcIdx : Nat) (inc : Record) (now : Nat) (forUs : Bool) : AddResult :=
  let c1 := noteSubtype c inc forUs
  match slotOf inc.ty with
  | none => { cache := c1, result := none, timers := [] }
  | some s =>
    let key := keyOf s inc.name
    let es := ((c1.table s).get key).getD []
    if es.isEmpty && !forUs then
      -- `entry(..).or_default()` has already created the key
      { cache := c1.setTable s ((c1.table s).set key es), result := none, timers := [] }
    else
      let es1 := flushList inc now es
      let es2 := upsert srcName srcIdx inc es1
      { cache := c1.setTable s ((c1.table s).set key es2)
        -- new: no matching entry, or the matching entry was a withdrawn one (TTL <= 1) that is
        -- announced again with a longer TTL (repair of D24)
        result := (es2[upsertIdx inc es1]?).map fun e =>
          (e, !hasMatch inc es1 ||
              ((es1[upsertIdx inc es1]?).map fun old => decide (old.record.ttl ≤ 1 ∧ inc.ttl > 1)).getD false)
        timers := flushTimers inc now es }

/-! ### Eviction -/

def live (now : Nat) (e : Entry) : Bool := !e.record.isExpired now

/-- drop expired entries, then names without entries -/
def evictTable (now : Nat) (t : Table) : Table :=
  (t.map fun p => (p.1, p.2.filter (live now))).filter fun p => !p.2.isEmpty

/-- (name, ip, interface name, interface index) of an address entry -/
def addrItem (name : BList) (e : Entry) : Option (BList × BList × BList × Nat) :=
  match e.record.rdata with
  | .addr ip n i => some (name, ip, n, i)
  | _ => none

/-- `evict_expired_addr`: the cache afterwards and the removed addresses -/
def evictAddr (c : Cache) (now : Nat) : Cache × List (BList × BList × BList × Nat) :=
  ({ c with addr := evictTable now c.addr },
   c.addr.flatMap fun p => (p.2.filter fun e => !live now e).filterMap fun e => addrItem e.record.name e)

def aliasOf (e : Entry) : Option BList :=
  match e.record.rdata with
  | .ptr a => some a
  | _ => none

/-- the instance names every cached PTR points to -/
def ptrAliases (t : Table) : List BList := t.flatMap fun p => p.2.filterMap aliasOf

/-- SRV: only instances that some PTR points to are looked at; emptied names are removed -/
def evictSrv (now : Nat) (aliases : List BList) (t : Table) : Table :=
  t.filterMap fun p =>
    if aliases.contains p.1 then
      if (p.2.filter (live now)).isEmpty then none else some (p.1, p.2.filter (live now))
    else some p

/-- TXT: same, but an emptied name stays -/
def evictTxt (now : Nat) (aliases : List BList) (t : Table) : Table :=
  t.map fun p => if aliases.contains p.1 then (p.1, p.2.filter (live now)) else p

/-- PTR: expired entries go, names stay -/
def evictPtr (now : Nat) (t : Table) : Table := t.map fun p => (p.1, p.2.filter (live now))

/-- instances of one type domain whose SRV set became empty (first visit only) -/
def reportSrv (now : Nat) (srv : Table) (ty : BList) : List Entry → List BList → List (BList × BList) × List BList
  | [], gone => ([], gone)
  | e :: es, gone =>
    match aliasOf e with
    | some a =>
      if !gone.contains a && (match srv.get a with
          | some l => l.all fun x => !live now x
          | none => false) then
        let r := reportSrv now srv ty es (a :: gone)
        ((ty, a) :: r.1, r.2)
      else reportSrv now srv ty es gone
    | none => reportSrv now srv ty es gone

/-- the (type domain, instance) pairs `evict_expired_services` reports -/
def evictReport (now : Nat) (srv : Table) : Table → List BList → List (BList × BList)
  | [], _ => []
  | p :: rest, gone =>
    let r := reportSrv now srv p.1 p.2 gone
    r.1 ++ (p.2.filter fun e => !live now e).filterMap (fun e => (aliasOf e).map fun a => (p.1, a)) ++
      evictReport now srv rest r.2

/-- every name keeps its entries with `expires > now`; names left without entries go
    (the second pass of `evict_expired_services`, repair of D19: it also reaches SRV, TXT and
    NSEC records that no PTR points to) -/
def evictLive (now : Nat) (t : Table) : Table :=
  t.filterMap fun p => if (p.2.filter (live now)).isEmpty then none else some (p.1, p.2.filter (live now))

/-- `evict_expired_services`: the first pass (PTR by PTR) decides what is reported; after the
    second pass every table holds exactly its unexpired entries -/
def evictServices (c : Cache) (now : Nat) : Cache × List (BList × BList) :=
  ({ c with
      ptr := evictLive now c.ptr
      srv := evictLive now c.srv
      txt := evictLive now c.txt
      nsec := evictLive now c.nsec },
   evictReport now c.srv c.ptr [])

/-! ### Known answers (querier side, RFC 6762 section 7.1) -/

/-- the entries a question `name`/`ty` looks at -/
def entriesFor (c : Cache) (name : BList) (ty : Nat) : List Entry :=
  if ty = 12 then (c.ptr.get name).getD []
  else if ty = 33 then (c.srv.get name).getD []
  else if ty = 1 ∨ ty = 28 then (c.addr.get (lower name)).getD []
  else if ty = 16 then (c.txt.get name).getD []
  else []

/-- `get_known_answers(name, qtype, now)`: shared records before their half-life of which at
    least half the TTL is really left until `expires` (the end of a record's life can have been
    brought forward by a cache flush or by `verify`; repair of C10-F1) -/
def knownAnswers (c : Cache) (name : BList) (ty : Nat) (now : Nat) : List Entry :=
  (entriesFor c name ty).filter fun e =>
    !e.record.isUnique && !e.record.halflifePassed now && decide (2 * (e.record.expires - now) ≥ 1000 * e.record.ttl)

/-! ### Refresh look-ups -/

/-- `updated_refresh_time` on every entry: the entries afterwards and the new refresh times -/
def refreshEntries (now : Nat) (es : List Entry) : List Entry × List Nat :=
  (es.map fun e => { e with record := e.record.refreshed now },
   es.filterMap fun e => if e.record.refreshFires now then some (e.record.refreshed now).refresh else none)

/-- `refresh_due_ptr` -/
def refreshDuePtr (c : Cache) (ty : BList) (now : Nat) : Cache × List Nat :=
  match c.ptr.get ty with
  | none => (c, [])
  | some es => ({ c with ptr := c.ptr.modify ty fun es => (refreshEntries now es).1 }, (refreshEntries now es).2)

/-- instances of the PTRs of `ty` that have not expired, in `Vec` order -/
def liveInstances (c : Cache) (ty : BList) (now : Nat) : List BList :=
  (((c.ptr.get ty).getD []).filter (live now)).filterMap aliasOf

def pushDue (due : List (BList × List Nat)) (inst : BList) (ty : Nat) : List (BList × List Nat) :=
  if (due.lookup inst).isSome then due.map fun p => if p.1 == inst then (p.1, p.2 ++ [ty]) else p
  else due ++ [(inst, [ty])]

structure SrvTxtDue where
  cache : Cache
  due : List (BList × List Nat)
  timers : List Nat

/-- `refresh_due_srv_txt`, the loop over the instances -/
def refreshSrvTxtGo (now : Nat) : List BList → SrvTxtDue → SrvTxtDue
  | [], s => s
  | inst :: rest, s =>
    let srvT := (refreshEntries now ((s.cache.srv.get inst).getD [])).2
    let c1 := { s.cache with srv := s.cache.srv.modify inst fun es => (refreshEntries now es).1 }
    let due1 := if srvT.isEmpty then s.due else pushDue s.due inst 33
    let txtT := (refreshEntries now ((c1.txt.get inst).getD [])).2
    let c2 := { c1 with txt := c1.txt.modify inst fun es => (refreshEntries now es).1 }
    let due2 := if txtT.isEmpty then due1 else pushDue due1 inst 16
    refreshSrvTxtGo now rest { cache := c2, due := due2, timers := s.timers ++ srvT ++ txtT }

def refreshDueSrvTxt (c : Cache) (ty : BList) (now : Nat) : SrvTxtDue :=
  refreshSrvTxtGo now (liveInstances c ty now) { cache := c, due := [], timers := [] }

def hostOf (e : Entry) : Option BList :=
  match e.record.rdata with
  | .srv _ _ _ h => some h
  | _ => none

structure HostsDue where
  cache : Cache
  due : List BList
  timers : List Nat

def refreshHostsGo (now : Nat) : List BList → HostsDue → HostsDue
  | [], s => s
  | h :: rest, s =>
    let ts := (refreshEntries now ((s.cache.addr.get (lower h)).getD [])).2
    let c1 := { s.cache with addr := s.cache.addr.modify (lower h) fun es => (refreshEntries now es).1 }
    refreshHostsGo now rest
      { cache := c1, due := if ts.isEmpty then s.due else s.due ++ [h], timers := s.timers ++ ts }

/-- `refresh_due_hosts` (the host names of the SRVs are processed as a set) -/
def refreshDueHosts (c : Cache) (ty : BList) (now : Nat) : HostsDue :=
  let hosts := ((liveInstances c ty now).flatMap fun i => ((c.srv.get i).getD []).filterMap hostOf).eraseDups
  refreshHostsGo now hosts { cache := c, due := [], timers := [] }

/-- `refresh_due_hostname_resolutions`: due addresses refresh once, then never again.
    The look-up uses the name as given (not lower-cased). -/
def refreshDueResolutions (c : Cache) (host : BList) (now : Nat) : Cache × List (BList × BList × BList × Nat) :=
  let due := fun (e : Entry) => !e.record.isExpired now && e.record.refreshDue now
  ({ c with addr := c.addr.modify host fun es => es.map fun e => if due e then { e with record := e.record.refreshNoMore } else e },
   (((c.addr.get host).getD []).filter due).filterMap fun e => addrItem host e)

/-! ### `remove_service_type`, `service_verify_queries` -/

def srvHostsLower (es : List Entry) : List BList := es.filterMap fun e => (hostOf e).map lower

/-- `remove_service_type` -/
def removeServiceType (c : Cache) (ty : BList) : Cache :=
  match c.ptr.get ty with
  | none => c
  | some ptrs =>
    let insts := ptrs.filterMap aliasOf
    let hosts := insts.flatMap fun i => srvHostsLower ((c.srv.get i).getD [])
    let srv' := insts.foldl (fun t i => t.erase i) c.srv
    let txt' := insts.foldl (fun t i => t.erase i) c.txt
    let stillUsed := fun (h : BList) => srv'.any fun p => (srvHostsLower p.2).contains h
    let addr' := hosts.foldl (fun t h => if stillUsed h then t else t.erase h) c.addr
    { c with ptr := c.ptr.erase ty, srv := srv', txt := txt', addr := addr' }

def soonerEntry (t : Nat) (e : Entry) : Entry := { e with record := e.record.setExpireSooner t }

/-- `service_verify_queries(instance, expire_at)` -/
def serviceVerifyQueries (c : Cache) (inst : BList) (expireAt : Option Nat) : Cache × List (BList × Nat) :=
  match c.srv.get inst with
  | none => (c, [])
  | some srvs =>
    let hosts := srvs.filterMap hostOf
    let qs := (inst, 33) :: hosts.flatMap fun h => [(h, 1), (h, 28)]
    match expireAt with
    | none => (c, qs)
    | some t =>
      ({ c with
          srv := c.srv.modify inst fun es => es.map (soonerEntry t)
          addr := hosts.foldl (fun tb h => tb.modify h fun es => es.map (soonerEntry t)) c.addr },
       qs)

end Mdns.Cache
