import Mdns.Model.Basic
/-
  Model of the search scheduler of `src/service_daemon.rs` (repaired tree):
  `Zeroconf::run` loop skeleton (timers, resolver time-outs, commands, re-runs, ip check),
  `exec_command_browse`, `exec_command_resolve_hostname`, `exec_command_stop_browse`,
  `exec_command_stop_resolve_hostname`, `add_hostname_resolver`, `add_retransmission`,
  `add_timer` / `pop_timers_till` / `peek_earliest_timer`, option `IpCheckInterval`.

  It is the fragment of the daemon that is exact on a network without responders (empty
  cache): every query and every search event of such a history is predicted by it.
-/
namespace Mdns.Sched
open Mdns

def MAX_DELAY : Nat := 3600

/-- `cmp::min(next_delay * 2, max_delay)` -/
def nextDelay (d : Nat) : Nat := min (d * 2) MAX_DELAY

inductive RCmd where
  | browse (ty : BList) (delay : Nat) (ch : Nat)
  | resolveHost (host : BList) (delay : Nat) (ch : Nat)
  deriving Repr, DecidableEq, Inhabited

structure Rerun where
  next : Nat
  cmd : RCmd
  deriving Repr, DecidableEq, Inhabited

structure State where
  queriers : List (BList × Nat)                   -- ty ↦ channel
  resolvers : List (BList × Nat × Option Nat)      -- lower-case host ↦ (channel, deadline)
  reruns : List Rerun
  timers : List Nat
  ipInterval : Nat
  nextIpCheck : Nat
  deriving Repr, DecidableEq, Inhabited

inductive Command where
  | browse (ty : BList) (ch : Nat) (cacheOnly : Bool)
  | stopBrowse (ty : BList)
  | resolveHost (host : BList) (ch : Nat) (timeout : Option Nat)
  | stopResolve (host : BList)
  | ipInterval (ms : Nat)
  deriving Repr, DecidableEq, Inhabited

inductive EvKind where
  | started | stopped | hstarted | htimeout | hstopped
  deriving Repr, DecidableEq, Inhabited

inductive Out where
  /-- one query message with these questions, sent on every interface and family -/
  | query (qs : List (BList × Nat))
  | event (ch : Nat) (k : EvKind)
  deriving Repr, DecidableEq, Inhabited

/-- `Zeroconf::new` + the set-up of `run` at time `now` -/
def init (now : Nat) : State :=
  { queriers := [], resolvers := [], reruns := [], timers := [now + 5000],
    ipInterval := 5000, nextIpCheck := now + 5000 }

def isBrowseOf (ty : BList) : Rerun → Bool
  | ⟨_, .browse t _ _⟩ => t == ty
  | _ => false

def isResolveOf (key : BList) : Rerun → Bool
  | ⟨_, .resolveHost h _ _⟩ => lower h == key
  | _ => false

def addRerun (s : State) (next : Nat) (c : RCmd) : State :=
  { s with reruns := s.reruns ++ [⟨next, c⟩], timers := next :: s.timers }

/-- `exec_command_browse` -/
def execBrowse (s : State) (now : Nat) (repeating : Bool) (ty : BList) (delay : Nat) (cacheOnly : Bool)
    (ch : Nat) : State × List Out :=
  let s1 : State :=
    if repeating then s
    else { s with reruns := s.reruns.filter (fun r => !isBrowseOf ty r),
                  queriers := (ty, ch) :: s.queriers.filter (fun q => q.1 != ty) }
  if cacheOnly then (s1, [.event ch .started, .event ch .stopped])
  else
    (addRerun s1 (now + delay * 1000) (.browse ty (nextDelay delay) ch),
     [.event ch .started, .query [(ty, 12)]])

/-- the retransmission is queued only if it falls before the resolver's deadline, if any -/
def withinDeadline (s : State) (key : BList) (next : Nat) : Bool :=
  match (s.resolvers.find? (·.1 == key)).bind (·.2.2) with
  | some t => decide (next < t)
  | none => true

/-- `exec_command_resolve_hostname` (+ `add_hostname_resolver`) -/
def execResolve (s : State) (now : Nat) (repeating : Bool) (host : BList) (delay : Nat) (ch : Nat)
    (timeout : Option Nat) : State × List Out :=
  let key := lower host
  if repeating && !(s.resolvers.any (·.1 == key)) then (s, [])
  else
    let s1 : State :=
      if repeating then s
      else
        let dl := timeout.map (now + ·)
        { s with reruns := s.reruns.filter (fun r => !isResolveOf key r),
                 resolvers := (key, ch, dl) :: s.resolvers.filter (fun q => q.1 != key),
                 timers := (match dl with | some t => [t] | none => []) ++ s.timers }
    let next := now + delay * 1000
    let s2 := if withinDeadline s1 key next then addRerun s1 next (.resolveHost host (nextDelay delay) ch) else s1
    (s2, [.event ch .hstarted, .query [(host, 1), (host, 28)]])

/-- `exec_command_stop_browse` -/
def execStopBrowse (s : State) (ty : BList) : State × List Out :=
  match s.queriers.find? (·.1 == ty) with
  | none => (s, [])
  | some (_, ch) =>
    ({ s with queriers := s.queriers.filter (fun q => q.1 != ty),
              reruns := s.reruns.filter (fun r => !isBrowseOf ty r) },
     [.event ch .stopped])

/-- `exec_command_stop_resolve_hostname(hostname.to_lowercase())` -/
def execStopResolve (s : State) (host : BList) : State × List Out :=
  let key := lower host
  match s.resolvers.find? (·.1 == key) with
  | none => (s, [])
  | some (_, ch, _) =>
    ({ s with resolvers := s.resolvers.filter (fun q => q.1 != key),
              reruns := s.reruns.filter (fun r => !isResolveOf key r) },
     [.event ch .hstopped])

def execCommand (s : State) (now : Nat) : Command → State × List Out
  | .browse ty ch cacheOnly => execBrowse s now false ty 1 cacheOnly ch
  | .stopBrowse ty => execStopBrowse s ty
  | .resolveHost h ch timeout => execResolve s now false h 1 ch timeout
  | .stopResolve h => execStopResolve s h
  | .ipInterval ms => ({ s with ipInterval := ms }, [])

def execRerun (s : State) (now : Nat) : RCmd → State × List Out
  | .browse ty delay ch => execBrowse s now true ty delay false ch
  | .resolveHost h delay ch => execResolve s now true h delay ch none

def runCommands (s : State) (now : Nat) : List Command → State × List Out
  | [] => (s, [])
  | c :: cs =>
    let (s1, o1) := execCommand s now c
    let (s2, o2) := runCommands s1 now cs
    (s2, o1 ++ o2)

/-- the re-run loop: a due re-run is removed and executed; what it appends is not due
    (delays are at least one second) and is looked at again only because the Rust loop
    does; `fuel` bounds the scan (the list only grows by entries that are not due) -/
def runReruns (s : State) (now : Nat) : Nat → List Rerun → List Rerun → State × List Out
  | 0, keep, rest => ({ s with reruns := keep ++ rest ++ s.reruns }, [])
  | _ + 1, keep, [] => ({ s with reruns := keep ++ s.reruns }, [])
  | fuel + 1, keep, r :: rest =>
    if now ≥ r.next then
      -- executed with the list as the Rust sees it: kept ++ rest ++ (appended later)
      let (s1, o1) := execRerun { s with reruns := [] } now r.cmd
      -- s1.reruns = what the execution appended
      let (s2, o2) := runReruns { s1 with reruns := [] } now fuel keep (rest ++ s1.reruns)
      (s2, o1 ++ o2)
    else runReruns s now fuel (keep ++ [r]) rest

/-- time-outs of hostname resolvers: `SearchTimeout` then `SearchStopped`, entry removed -/
def runTimeouts (s : State) (now : Nat) : State × List Out :=
  let due := s.resolvers.filter (fun r => match r.2.2 with | some t => decide (now ≥ t) | none => false)
  ({ s with resolvers := s.resolvers.filter (fun r => match r.2.2 with | some t => !decide (now ≥ t) | none => true) },
   due.flatMap fun r => [.event r.2.1 .htimeout, .event r.2.1 .hstopped])

/-- the ip-check block at the end of the loop -/
def runIpCheck (s : State) (now : Nat) : State :=
  if now ≥ s.nextIpCheck && s.nextIpCheck > 0 then
    if s.ipInterval > 0 then
      { s with nextIpCheck := now + s.ipInterval, timers := (now + s.ipInterval) :: s.timers }
    else { s with nextIpCheck := 0 }
  else if s.nextIpCheck == 0 && s.ipInterval > 0 then
    { s with nextIpCheck := now + s.ipInterval, timers := (now + s.ipInterval) :: s.timers }
  else s

/-- one loop iteration at `now` with the commands that arrived since the last one -/
def iter (s : State) (now : Nat) (cmds : List Command) : State × List Out :=
  let s0 := { s with timers := s.timers.filter (· > now) }
  let (s1, o1) := runTimeouts s0 now
  let (s2, o2) := runCommands s1 now cmds
  let rr := s2.reruns
  let (s3, o3) := runReruns { s2 with reruns := [] } now (rr.length * 2 + 2) [] rr
  (runIpCheck s3 now, o1 ++ o2 ++ o3)

/-- the wake-up requested at the next gate: the earliest timer -/
def wake (s : State) : Option Nat := s.timers.min?

end Mdns.Sched
