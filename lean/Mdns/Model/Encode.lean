import Mdns.Model.Decode
/-
  Model of the wire ENCODER of `src/dns_parser.rs` (repaired tree: D3, D4, D16):
  `DnsOutPacket::{new, write_question, write_record, insert_short, parse_escaped_name,
  write_name, write_byte, write_bytes, write_utf8, write_u32, write_short, write_header}`,
  the per-record `write` of `DnsAddress`, `DnsPointer`, `DnsSrv`, `DnsTxt` (and the two
  one-liners of `DnsHostInfo`, `DnsNSec`), `DnsRecord::get_remaining_ttl`,
  `DnsOutgoing::{new, add_question, add_answer_at_time, add_authority,
  add_additional_answer, to_packets, to_data_on_wire}` and
  `service_info.rs::escape_instance_name`.

  Text is UTF-8 bytes.  `.` (0x2E) and `\` (0x5C) never occur inside a multi-byte UTF-8
  sequence, so the crate's `char` loops are byte loops on valid UTF-8.

  The `names: HashMap<String, u16>` of a packet is an association list with unique keys
  (a key is inserted only after a failed look-up); the key of the labels `l_i .. l_n` is
  their re-escaped forms joined with '.', exactly as `write_name` builds `remaining`.

  Places where the Rust can panic: `assert!(s.len() < 64)` in `write_utf8`, the
  subtraction in `get_remaining_ttl` (overflow checks are on in the harness profile) and the
  slice in `insert_short`.  The `u16` counters of `to_packets` cannot overflow: a packet
  holds at most 8972 / 11 records.
-/
namespace Mdns.Enc
open Mdns

def MAX_MSG_ABSOLUTE : Nat := 8972
def MSG_HEADER_LEN : Nat := 12
def FLAGS_TC : Nat := 0x0200
def CLASS_IN : Nat := 1
def POINTER_MASK : Nat := 0xC000

abbrev Data := Array UInt8

/-! ### Escaping (RFC 6763 section 4.3) -/

/-- one byte of `escape_instance_name` / of the `replace` chain in `write_name` -/
def escapeByte (c : UInt8) : BList :=
  if c = 0x5C then [0x5C, 0x5C] else if c = 0x2E then [0x5C, 0x2E] else [c]

/-- `escape_instance_name`; also `label.replace('\\', "\\\\").replace('.', "\\.")` -/
def escape (l : BList) : BList := l.flatMap escapeByte

/-- The loop of `parse_escaped_name`: `cur` is `current_label`. -/
def parseEscapedGo : BList → BList → List BList
  | [], cur => if cur = [] then [] else [cur]
  | [c], cur =>
    if c = 0x2E then (if cur = [] then [] else [cur])
    else [cur ++ [c]]                      -- includes the trailing backslash, kept literally
  | c :: n :: rest, cur =>
    if c = 0x5C then
      if n = 0x2E ∨ n = 0x5C then parseEscapedGo rest (cur ++ [n])   -- `\.` or `\\`
      else parseEscapedGo (n :: rest) (cur ++ [c])                    -- unknown escape: literal backslash
    else if c = 0x2E then
      if cur = [] then parseEscapedGo (n :: rest) [] else cur :: parseEscapedGo (n :: rest) []
    else parseEscapedGo (n :: rest) (cur ++ [c])

/-- `DnsOutPacket::parse_escaped_name` -/
def parseEscaped (name : BList) : List BList := parseEscapedGo name []

/-- `name.strip_suffix('.').unwrap_or(name)` -/
def stripDot (name : BList) : BList :=
  if name.getLast? = some 0x2E then name.dropLast else name

/-- labels of a textual name as `write_name` sees them -/
def labelsOf (name : BList) : List BList := parseEscaped (stripDot name)

/-- `remaining`: the compression key of a label sequence -/
def keyOf : List BList → BList
  | [] => []
  | [l] => escape l
  | l :: rest => escape l ++ [0x2E] ++ keyOf rest

/-! ### The packet under construction -/

abbrev Names := List (BList × Nat)

def lookup (k : BList) : Names → Option Nat
  | [] => none
  | (k', v) :: rest => if k' = k then some v else lookup k rest

structure OutPacket where
  data : Data
  /-- `state == PacketState::Finished` (written, never read by the crate) -/
  finished : Bool
  names : Names
  deriving Inhabited

/-- `DnsOutPacket::new` -/
def OutPacket.new : OutPacket := { data := Array.replicate 12 0, finished := false, names := [] }

def OutPacket.size (p : OutPacket) : Nat := p.data.size

/-- `write_byte`; the value is already a byte -/
def OutPacket.writeByte : OutPacket → UInt8 → OutPacket
  | ⟨d, f, ns⟩, v => ⟨d.push v, f, ns⟩

/-- `write_bytes` -/
def OutPacket.writeBytes : OutPacket → BList → OutPacket
  | ⟨d, f, ns⟩, s => ⟨d ++ s.toArray, f, ns⟩

/-- big-endian bytes of a `u16` -/
def be16 (v : Nat) : BList := [UInt8.ofNat (v / 256), UInt8.ofNat v]

/-- big-endian bytes of a `u32` -/
def be32 (v : Nat) : BList :=
  [UInt8.ofNat (v / 16777216), UInt8.ofNat (v / 65536), UInt8.ofNat (v / 256), UInt8.ofNat v]

/-- `write_short` -/
def OutPacket.writeShort (p : OutPacket) (v : Nat) : OutPacket := p.writeBytes (be16 v)

/-- `write_u32` -/
def OutPacket.writeU32 (p : OutPacket) (v : Nat) : OutPacket := p.writeBytes (be32 v)

/-- `write_utf8`: `assert!(s.len() < 64)` -/
def OutPacket.writeUtf8 (p : OutPacket) (s : BList) : Res OutPacket :=
  if s.length < 64 then .ok ((p.writeByte (UInt8.ofNat s.length)).writeBytes s) else .panic

/-- `insert_short`: `self.data[index..index + 2].copy_from_slice(..)` -/
def insertShortData (d : Data) (index v : Nat) : Res Data :=
  if index + 2 ≤ d.size then
    .ok ((d.setIfInBounds index (UInt8.ofNat (v / 256))).setIfInBounds (index + 1) (UInt8.ofNat v))
  else .panic

def OutPacket.insertShort : OutPacket → Nat → Nat → Res OutPacket
  | ⟨d, f, ns⟩, index, v =>
    match insertShortData d index v with
    | .ok d' => .ok ⟨d', f, ns⟩
    | .err => .err
    | .panic => .panic

/-- The `for (i, label)` loop of `write_name` over `labels[i..]`, including the final
    `write_byte(0)`.  `self.size() as u16` is the `% 65536`. -/
def writeLabels (p : OutPacket) : List BList → Res OutPacket
  | [] => .ok (p.writeByte 0)
  | l :: rest =>
    match lookup (keyOf (l :: rest)) p.names with
    | some off => .ok (p.writeShort (off ||| POINTER_MASK))
    | none =>
      match OutPacket.writeUtf8 { p with names := (keyOf (l :: rest), p.data.size % 65536) :: p.names } l with
      | .ok p' => writeLabels p' rest
      | .err => .err
      | .panic => .panic

/-- `write_name` -/
def OutPacket.writeName (p : OutPacket) (name : BList) : Res OutPacket :=
  writeLabels p (labelsOf name)

/-! ### Questions and records -/

/-- a `DnsQuestion` made by `add_question`: class is `CLASS_IN`, no flush bit -/
structure QIn where
  name : BList
  ty : Nat
  deriving Repr, DecidableEq, Inhabited

/-- a record made by the constructors `DnsAddress::new`, `DnsPointer::new`, `DnsSrv::new`,
    `DnsTxt::new` (`DnsEntry::new` splits the class from the cache-flush bit) -/
structure RecIn where
  name : BList
  ty : Nat
  /-- `class & CLASS_MASK` -/
  cls : Nat
  /-- `class & CLASS_CACHE_FLUSH != 0` -/
  flush : Bool
  ttl : Nat
  /-- `created` = `current_time_millis()` at construction -/
  created : Nat
  rdata : Wire.RData
  deriving Repr, DecidableEq, Inhabited

/-- `DnsRecord::new` + the record constructors (class is a `u16`) -/
def mkRec (name : BList) (ty cls16 ttl created : Nat) (rd : Wire.RData) : RecIn :=
  { name, ty, cls := cls16 % 32768, flush := decide (cls16 / 32768 % 2 = 1), ttl, created, rdata := rd }

/-- `get_expiration_time(created, ttl, 100)` -/
def expires (r : RecIn) : Nat := r.created + r.ttl * 100 * 10

/-- `get_remaining_ttl(now)`: the subtraction panics when `now` is past the expiry; the
    `as u32` cast truncates -/
def remainingTtl (r : RecIn) (now : Nat) : Res Nat :=
  if expires r < now then .panic else .ok ((expires r - now) / 1000 % 4294967296)

/-- `write_question` -/
def OutPacket.writeQuestion (p : OutPacket) (q : QIn) : Res OutPacket :=
  match p.writeName q.name with
  | .ok p1 => .ok ((p1.writeShort q.ty).writeShort CLASS_IN)
  | .err => .err
  | .panic => .panic

/-- the per-type `write` of `DnsRecordExt` -/
def OutPacket.writeRData (p : OutPacket) : Wire.RData → Res OutPacket
  | .a ip => .ok (p.writeBytes ip)
  | .aaaa ip => .ok (p.writeBytes ip)
  | .ptr alias => p.writeName alias
  | .srv prio weight port host =>
    (((p.writeShort prio).writeShort weight).writeShort port).writeName host
  | .txt b => .ok (p.writeBytes b)
  | .hinfo cpu os => .ok ((p.writeBytes cpu).writeBytes os)
  | .nsec next bitmap => .ok ((p.writeBytes next).writeBytes bitmap)

/-- roll-back of `write_record`: `data.truncate(start_size)`, `names.retain(offset < start_size)` -/
def OutPacket.rollback : OutPacket → Nat → OutPacket
  | ⟨d, _, ns⟩, startSize => ⟨d.extract 0 startSize, true, ns.filter (fun e => e.2 < startSize)⟩

/-- the part of `write_record` after the owner name and the TTL computation: type, class,
    TTL, the two placeholder bytes, RDATA, then `insert_short(record_offset - 2, len as u16)` -/
def OutPacket.writeRecordBody (p1 : OutPacket) (r : RecIn) (ttl : Nat) : Res OutPacket :=
  let p5 := (((p1.writeShort r.ty).writeShort (if r.flush then r.cls + 32768 else r.cls)).writeU32 ttl).writeShort 0
  let recordOffset := p5.data.size
  match p5.writeRData r.rdata with
  | .err => .err
  | .panic => .panic
  | .ok p6 => p6.insertShort (recordOffset - 2) ((p6.data.size - recordOffset) % 65536)

/-- `write_record`; the Boolean is its return value.  (`class | CLASS_CACHE_FLUSH` is
    `+ 32768` because the stored class is below 32768.) -/
def OutPacket.writeRecord (p : OutPacket) (r : RecIn) (now : Nat) : Res (OutPacket × Bool) :=
  let startSize := p.data.size
  match p.writeName r.name with
  | .err => .err
  | .panic => .panic
  | .ok p1 =>
    match (if now = 0 then Res.ok r.ttl else remainingTtl r now) with
    | .err => .err
    | .panic => .panic
    | .ok ttl =>
      match p1.writeRecordBody r ttl with
      | .err => .err
      | .panic => .panic
      | .ok p7 =>
        if p7.data.size > MAX_MSG_ABSOLUTE then .ok (p7.rollback startSize, false)
        else .ok (p7, true)

/-- `write_header` -/
def OutPacket.writeHeader (p : OutPacket) (id flags qc anc auc adc : Nat) : Res OutPacket :=
  match p.insertShort 0 id with
  | .err => .err | .panic => .panic
  | .ok p =>
  match p.insertShort 2 flags with
  | .err => .err | .panic => .panic
  | .ok p =>
  match p.insertShort 4 qc with
  | .err => .err | .panic => .panic
  | .ok p =>
  match p.insertShort 6 anc with
  | .err => .err | .panic => .panic
  | .ok p =>
  match p.insertShort 8 auc with
  | .err => .err | .panic => .panic
  | .ok p =>
  match p.insertShort 10 adc with
  | .err => .err | .panic => .panic
  | .ok p => .ok { p with finished := true }

/-! ### The outgoing message -/

structure OutMsg where
  flags : Nat
  id : Nat
  /-- always `true`: no code path of the crate clears it -/
  multicast : Bool := true
  questions : List QIn := []
  /-- record and the `now` given to `add_answer_at_time` -/
  answers : List (RecIn × Nat) := []
  authorities : List RecIn := []
  additionals : List RecIn := []
  deriving Repr, Inhabited

/-- `DnsOutgoing::new` + `set_id` -/
def OutMsg.new (flags id : Nat) : OutMsg := { flags, id }

/-- `add_question` -/
def OutMsg.addQuestion (o : OutMsg) (name : BList) (ty : Nat) : OutMsg :=
  { o with questions := o.questions ++ [{ name, ty }] }

/-- `is_expired(now)` -/
def isExpired (r : RecIn) (now : Nat) : Bool := decide (now ≥ expires r)

/-- `add_answer_at_time`: an answer that is expired at `now ≠ 0` is not added -/
def OutMsg.addAnswerAtTime (o : OutMsg) (r : RecIn) (now : Nat) : OutMsg :=
  if now = 0 ∨ !isExpired r now then { o with answers := o.answers ++ [(r, now)] } else o

/-- `add_authority` -/
def OutMsg.addAuthority (o : OutMsg) (r : RecIn) : OutMsg :=
  { o with authorities := o.authorities ++ [r] }

/-- `add_additional_answer` -/
def OutMsg.addAdditional (o : OutMsg) (r : RecIn) : OutMsg :=
  { o with additionals := o.additionals ++ [r] }

/-- `is_response` -/
def OutMsg.isResponse (o : OutMsg) : Bool := o.flags / 32768 % 2 == 1

/-- Ghost: what has been written into a packet and counted (entries of rolled-back
    records are not in it). -/
structure Ghost where
  qs : List QIn := []
  an : List (RecIn × Nat) := []
  au : List RecIn := []
  ad : List RecIn := []
  deriving Repr, Inhabited

/-- a finished packet: its bytes and the ghost list of entries it carries -/
structure Packet where
  data : Data
  ghost : Ghost
  deriving Inhabited

/-- first loop of `to_packets` -/
def writeQuestions (p : OutPacket) : List QIn → Res OutPacket
  | [] => .ok p
  | q :: qs =>
    match p.writeQuestion q with
    | .ok p' => writeQuestions p' qs
    | .err => .err
    | .panic => .panic

/-- second loop: `if packet.write_record(answer, time) { answer_count += 1 }` -/
def writeAnswers (p : OutPacket) (count : Nat) (wrote : List (RecIn × Nat)) :
    List (RecIn × Nat) → Res (OutPacket × Nat × List (RecIn × Nat))
  | [] => .ok (p, count, wrote)
  | (r, now) :: rest =>
    match p.writeRecord r now with
    | .ok (p', true) => writeAnswers p' (count + 1) (wrote ++ [(r, now)]) rest
    | .ok (p', false) => writeAnswers p' count wrote rest
    | .err => .err
    | .panic => .panic

/-- third loop: `auth_count += u16::from(packet.write_record(auth, 0))` -/
def writeAuthorities (p : OutPacket) (count : Nat) (wrote : List RecIn) :
    List RecIn → Res (OutPacket × Nat × List RecIn)
  | [] => .ok (p, count, wrote)
  | r :: rest =>
    match p.writeRecord r 0 with
    | .ok (p', true) => writeAuthorities p' (count + 1) (wrote ++ [r]) rest
    | .ok (p', false) => writeAuthorities p' count wrote rest
    | .err => .err
    | .panic => .panic

/-- loop state of the fourth loop -/
structure LoopSt where
  packet : OutPacket
  qc : Nat
  anc : Nat
  auc : Nat
  adc : Nat
  ghost : Ghost
  /-- `packet_list` -/
  done : List Packet

/-- the final `write_header` + `packet_list.push(packet)` -/
def finish (o : OutMsg) (id : Nat) (st : LoopSt) : Res (List Packet) :=
  match st.packet.writeHeader id o.flags st.qc st.anc st.auc st.adc with
  | .ok p => .ok (st.done ++ [{ data := p.data, ghost := st.ghost }])
  | .err => .err
  | .panic => .panic

/-- fourth loop (additionals) with the TC continuation for queries -/
def writeAdditionals (o : OutMsg) (id : Nat) (st : LoopSt) : List RecIn → Res (List Packet)
  | [] => finish o id st
  | r :: rest =>
    match st.packet.writeRecord r 0 with
    | .err => .err
    | .panic => .panic
    | .ok (p', true) =>
      writeAdditionals o id { st with packet := p', adc := st.adc + 1,
                                      ghost := { st.ghost with ad := st.ghost.ad ++ [r] } } rest
    | .ok (p', false) =>
      if o.isResponse then finish o id { st with packet := p' }     -- `break`
      else
        match p'.writeHeader id (o.flags ||| FLAGS_TC) st.qc st.anc st.auc st.adc with
        | .err => .err
        | .panic => .panic
        | .ok full =>
          match OutPacket.new.writeRecord r 0 with
          | .err => .err
          | .panic => .panic
          | .ok (p2, b) =>
            writeAdditionals o id
              { packet := p2, qc := 0, anc := 0, auc := 0, adc := if b then 1 else 0,
                ghost := { ad := if b then [r] else [] },
                done := st.done ++ [{ data := full.data, ghost := st.ghost }] } rest

/-- `to_packets` (with the ghost lists) -/
def toPackets (o : OutMsg) : Res (List Packet) :=
  match writeQuestions OutPacket.new o.questions with
  | .err => .err
  | .panic => .panic
  | .ok p0 =>
    match writeAnswers p0 0 [] o.answers with
    | .err => .err
    | .panic => .panic
    | .ok (p1, anc, an) =>
      match writeAuthorities p1 0 [] o.authorities with
      | .err => .err
      | .panic => .panic
      | .ok (p2, auc, au) =>
        writeAdditionals o (if o.multicast then 0 else o.id)
          { packet := p2, qc := o.questions.length % 65536, anc := anc, auc := auc, adc := 0,
            ghost := { qs := o.questions, an := an, au := au, ad := [] }, done := [] }
          o.additionals

/-- `to_data_on_wire` -/
def encode (o : OutMsg) : Res (List Data) :=
  match toPackets o with
  | .ok ps => .ok (ps.map (·.data))
  | .err => .err
  | .panic => .panic

end Mdns.Enc
