import Mdns.Model.Sched
import Mdns.Model.Cache
import Mdns.Model.Decode
/-
  Model of the CLIENT side of the daemon (`src/service_daemon.rs`, repaired tree): the search
  scheduler of `Mdns/Model/Sched.lean` extended with the record cache, response ingress,
  service resolution, follow-up queries, verification, refresh and eviction.

  One loop iteration `iter` mirrors the body of `Zeroconf::run` phase by phase, in the order
  of the Rust code:

    ingress            `handle_read` → `handle_response` (`is_for_us`, `add_or_update` with its
                       timers, `ServiceFound`, `AddressesFound`, `resolve_updated_instances` →
                       `resolve_service_from_cache` / `add_pending_resolve`)
    `pop_timers_till`
    resolver time-outs
    commands           `exec_command_browse` (+ `query_cache_for_service`, `cache_only_queriers`),
                       `exec_command_resolve_hostname` (+ `query_cache_for_hostname`),
                       stop (+ `cache.remove_service_type`), `exec_command_verify`,
                       `exec_command_get_metrics`, options
    re-runs            browse / resolve_hostname back-off, `exec_command_resolve` →
                       `query_unresolved` (3 tries, 500 ms apart), verify resend
    `refresh_active_services`, resolver address refresh
    eviction           `evict_expired_services` → `ServiceRemoved`, `evict_expired_addr` →
                       `AddressesRemoved` + `resolve_updated_instances`
    ip-check timer

  Every query carries its known answers (`send_query_vec` + `get_known_answers` +
  `update_ttl`).  The model is exact on histories of ONE daemon without registrations and
  with an unchanging interface table: commands and injected RESPONSE packets (incoming
  queries are ignored: a client without registrations never answers).  The cache, record and
  wire models are the component models (`Cache.lean`, `Record.lean`, `Decode.lean`).

  Everything is structurally recursive (the re-run loop has fuel, as in `Sched.lean`) so that
  `decide` evaluates concrete histories.  Hash maps are association lists; where the Rust
  iterates a hash map the model uses the list order and the driver compares canonically.
-/
namespace Mdns.Client
open Mdns Mdns.Rec Mdns.Cache

/-- `RESOLVE_WAIT_IN_MILLIS` -/
def RESOLVE_WAIT : Nat := 500
/-- `max_try` of `exec_command_resolve` -/
def MAX_TRY : Nat := 3

/-- the commands that are re-run from `retransmissions` -/
inductive RCmd where
  | browse (ty : BList) (delay : Nat) (ch : Nat)
  | resolveHost (host : BList) (delay : Nat) (ch : Nat)
  /-- `Command::Resolve(instance, try_count)` -/
  | resolve (inst : BList) (tryCount : Nat)
  /-- `Command::Verify(instance, timeout)` (re-run: second query, no new deadline) -/
  | verify (inst : BList) (timeout : Nat)
  deriving Repr, DecidableEq, Inhabited

structure Rerun where
  next : Nat
  cmd : RCmd
  deriving Repr, DecidableEq, Inhabited

/-- an interface of `my_intfs`: index, name, and whether it has an IPv4 / IPv6 address -/
structure Intf where
  idx : Nat
  name : BList
  v4 : Bool
  v6 : Bool
  deriving Repr, DecidableEq, Inhabited

structure State where
  intfs : List Intf
  queriers : List (BList × Nat)                   -- `service_queriers`: ty ↦ channel
  cacheOnly : List BList                           -- `cache_only_queriers`: the types browsed cache-only (a set)
  resolvers : List (BList × Nat × Option Nat)      -- `hostname_resolvers`: lower-case host ↦ (channel, deadline)
  reruns : List Rerun                              -- `retransmissions`
  timers : List Nat                                -- `timers` (a multiset)
  ipInterval : Nat
  nextIpCheck : Nat
  cache : Cache
  pending : List BList                             -- `pending_resolves`
  resolved : List BList                            -- `resolved`
  acceptUnsolicited : Bool
  deriving Repr, DecidableEq, Inhabited

/-- the scheduler fragment of a client state (re-runs of `Resolve` / `Verify` have no
    counterpart there) -/
def State.toSched (s : State) : Sched.State :=
  { queriers := s.queriers, resolvers := s.resolvers,
    reruns := s.reruns.filterMap fun r =>
      match r.cmd with
      | .browse ty d ch => some ⟨r.next, .browse ty d ch⟩
      | .resolveHost h d ch => some ⟨r.next, .resolveHost h d ch⟩
      | _ => none
    timers := s.timers, ipInterval := s.ipInterval, nextIpCheck := s.nextIpCheck }

inductive Command where
  | browse (ty : BList) (ch : Nat) (cacheOnly : Bool)
  | stopBrowse (ty : BList)
  | resolveHost (host : BList) (ch : Nat) (timeout : Option Nat)
  | stopResolve (host : BList)
  | ipInterval (ms : Nat)
  | verify (inst : BList) (timeoutMs : Nat)
  | metrics (ch : Nat)
  | acceptUnsolicited (on : Bool)
  deriving Repr, DecidableEq, Inhabited

/-- an address with the interface it was received on: (ip octets, interface name, index) -/
abbrev AddrItem := BList × BList × Nat

/-- `ResolvedService`; `txt` is the RDATA of the TXT record used (empty if none) -/
structure Resolved where
  ty : BList
  sub : Option BList
  fullname : BList
  host : BList
  port : Nat
  addrs : List AddrItem
  txt : BList
  deriving Repr, DecidableEq, Inhabited

/-- the `get_metrics` counters that describe the size of the state -/
structure Metrics where
  ptr : Nat
  srv : Nat
  txt : Nat
  addr : Nat
  nsec : Nat
  subtype : Nat
  timer : Nat
  deriving Repr, DecidableEq, Inhabited

inductive Ev where
  | started
  | found (ty inst : BList)
  | resolved (r : Resolved)
  | removed (ty inst : BList)
  | stopped (ty : BList)
  | hstarted
  | hfound (host : BList) (addrs : List AddrItem)
  | hremoved (host : BList) (addrs : List AddrItem)
  | htimeout (host : BList)
  | hstopped (host : BList)
  | metrics (m : Metrics)
  deriving Repr, DecidableEq, Inhabited

inductive Out where
  /-- one query message (questions, known answers as written), sent on every interface and family -/
  | query (qs : List (BList × Nat)) (known : List Record)
  | event (ch : Nat) (e : Ev)
  deriving Repr, DecidableEq, Inhabited

/-- a datagram read in this iteration, decoded (`DnsIncoming::new` is the wire model) -/
structure Packet where
  ifIdx : Nat
  v4 : Bool
  msg : Wire.Msg
  deriving Repr, DecidableEq, Inhabited

/-- `Zeroconf::new` + the set-up of `run` at time `now` -/
def init (now : Nat) (intfs : List Intf) : State :=
  { intfs, queriers := [], cacheOnly := [], resolvers := [], reruns := [], timers := [now + 5000],
    ipInterval := 5000, nextIpCheck := now + 5000, cache := {}, pending := [], resolved := [],
    acceptUnsolicited := false }

def addTimers (s : State) (ts : List Nat) : State := { s with timers := ts ++ s.timers }

/-- `add_retransmission` -/
def addRerun (s : State) (next : Nat) (c : RCmd) : State :=
  { s with reruns := s.reruns ++ [⟨next, c⟩], timers := next :: s.timers }

def isBrowseOf (ty : BList) : Rerun → Bool
  | ⟨_, .browse t _ _⟩ => t == ty
  | _ => false

def isResolveOf (key : BList) : Rerun → Bool
  | ⟨_, .resolveHost h _ _⟩ => lower h == key
  | _ => false

def insertSet (l : List BList) (x : BList) : List BList := if l.contains x then l else l ++ [x]

/-! ### queries with known answers -/

/-- the record as `send_query_vec` writes it: `update_ttl(now)` (the subtraction cannot
    underflow for a known answer: its half-life has not passed, `Props.C10.written_ttl`) -/
def writtenRecord (r : Record) (now : Nat) : Record :=
  if now > r.created then { r with ttl := r.ttl - r.elapsedSecs now } else r

/-- `send_query_vec(questions)` -/
def sendQuery (c : Cache) (now : Nat) (qs : List (BList × Nat)) : Out :=
  .query qs (qs.flatMap fun q => (knownAnswers c q.1 q.2 now).map fun e => writtenRecord e.record now)

/-! ### `resolve_service_from_cache` -/

def addrItemOf (e : Entry) : Option AddrItem :=
  match e.record.rdata with
  | .addr ip n i => some (ip, n, i)
  | _ => none

def usable (now : Nat) (e : Entry) : Bool := !e.record.expiresSoon now

/-- the first SRV of `inst` that does not expire soon -/
def liveSrv (c : Cache) (now : Nat) (inst : BList) : Option Entry :=
  ((c.srv.get inst).getD []).find? (usable now)

def liveTxt (c : Cache) (now : Nat) (inst : BList) : Option Entry :=
  ((c.txt.get inst).getD []).find? (usable now)

def srvHostPort (e : Option Entry) : BList × Nat :=
  match e with
  | some e =>
    match e.record.rdata with
    | .srv _ _ port host => (host, port)
    | _ => ([], 0)
  | none => ([], 0)

def txtBytes (e : Option Entry) : BList :=
  match e with
  | some e =>
    match e.record.rdata with
    | .txt b => b
    | _ => []
  | none => []

/-- the addresses of `host` that do not expire soon, each with its interface -/
def liveAddrs (c : Cache) (now : Nat) (host : BList) : List AddrItem :=
  ((((c.addr.get (lower host)).getD []).filter (usable now)).filterMap addrItemOf).eraseDups

/-- `resolve_service_from_cache(ty_domain, fullname)` at `now` -/
def resolveFromCache (c : Cache) (now : Nat) (ty inst : BList) : Resolved :=
  { ty, sub := c.subtype.lookup inst, fullname := inst,
    host := (srvHostPort (liveSrv c now inst)).1,
    port := (srvHostPort (liveSrv c now inst)).2,
    addrs := liveAddrs c now (srvHostPort (liveSrv c now inst)).1,
    txt := txtBytes (liveTxt c now inst) }

/-- `ResolvedService::is_valid` -/
def Resolved.valid (r : Resolved) : Bool :=
  !(r.ty.isEmpty || r.fullname.isEmpty || r.host.isEmpty || r.addrs.isEmpty)

/-! ### pending resolves, removal notifications -/

/-- `add_pending_resolve` -/
def addPending (s : State) (now : Nat) (inst : BList) : State :=
  if s.pending.contains inst then s
  else { addRerun s (now + RESOLVE_WAIT) (.resolve inst 1) with pending := s.pending ++ [inst] }

def addPendings (s : State) (now : Nat) : List BList → State
  | [] => s
  | i :: rest => addPendings (addPending s now i) now rest

/-- the loops `for instance in resolved.drain() { pending_resolves.remove; resolved.insert }` -/
def markResolved (s : State) (insts : List BList) : State :=
  { s with pending := s.pending.filter (fun p => !insts.contains p),
           resolved := insts.foldl insertSet s.resolved }

/-- `notify_service_removal(expired)`: for every querier, its instances -/
def notifyRemoval (queriers : List (BList × Nat)) (expired : List (BList × BList)) : List Out :=
  queriers.flatMap fun q =>
    (((expired.filter fun p => p.1 == q.1).map (·.2)).eraseDups).map fun inst => .event q.2 (.removed q.1 inst)

/-! ### `resolve_updated_instances` -/

/-- the (type, channel, instance) triples the double loop visits: PTRs of browsed types that
    do not expire soon and point to an updated instance -/
def visits (s : State) (now : Nat) (updated : List BList) : List (BList × Nat × BList) :=
  s.cache.ptr.flatMap fun p =>
    match s.queriers.lookup p.1 with
    | none => []
    | some ch =>
      (((p.2.filter (usable now)).filterMap aliasOf).filter updated.contains).map fun a => (p.1, ch, a)

def visitValid (c : Cache) (now : Nat) (v : BList × Nat × BList) : Bool :=
  (resolveFromCache c now v.1 v.2.2).valid

/-- `resolve_updated_instances(updated)`.  An instance that cannot be resolved yet is made
    pending (follow-up queries) only on behalf of a type that is not browsed cache-only (repair
    of D23b); the events are the same for both kinds of browse. -/
def resolveUpdated (s : State) (now : Nat) (updated : List BList) : State × List Out :=
  if updated.isEmpty then (s, [])
  else
    let vs := visits s now updated
    let good := vs.filter (visitValid s.cache now)
    let bad := vs.filter fun v => !visitValid s.cache now v
    let removed := (bad.filter fun v => s.resolved.contains v.2.2).map fun v => (v.1, v.2.2)
    let s1 := { s with resolved := s.resolved.filter fun r => !(bad.map (·.2.2)).contains r }
    let s2 := markResolved s1 ((good.map (·.2.2)).eraseDups)
    let s3 := addPendings s2 now (((bad.filter fun v => !s.cacheOnly.contains v.1).map (·.2.2)).eraseDups)
    (s3,
     (good.map fun v => .event v.2.1 (.resolved (resolveFromCache s.cache now v.1 v.2.2))) ++
       notifyRemoval s.queriers removed)

/-! ### ingress: `handle_read` → `handle_response` -/

/-- a decoded record as the `DnsRecordBox` built at `now` on interface `(ifName, ifIdx)` -/
def ofWire (ifName : BList) (ifIdx : Nat) (now : Nat) (r : Wire.Rec) : Record :=
  Record.new r.name r.ty r.cls r.flush r.ttl
    (match r.rdata with
     | .a ip => .addr ip ifName ifIdx
     | .aaaa ip => .addr ip ifName ifIdx
     | .ptr a => .ptr a
     | .srv p w port h => .srv p w port h
     | .txt b => .txt b
     | .hinfo c o => .hinfo c o
     | .nsec n b => .nsec n b) now

/-- the `is_for_us` loop over the answer section.  `cur` is the value so far. -/
def forUsGo (s : State) (cur : Bool) : List Wire.Rec → Bool
  | [] => cur
  | a :: rest =>
    if a.ty == 12 then
      if (s.queriers.lookup a.name).isSome then true else forUsGo s false rest
    else if a.ty == 1 || a.ty == 28 then
      if s.resolvers.any (·.1 == lower a.name) then true else forUsGo s cur rest
    else forUsGo s cur rest

def isForUs (s : State) (answers : List Wire.Rec) : Bool :=
  s.acceptUnsolicited || forUsGo s true answers

/-- what the loop over `msg.all_records()` accumulates -/
structure Ingest where
  cache : Cache
  timers : List Nat
  /-- `InstanceChange`s: (record type, name) -/
  changes : List (Nat × BList)
  outs : List Out
  deriving Repr

/-- one turn of the loop: `add_or_update` and the reaction to its result -/
def ingestOne (queriers : List (BList × Nat)) (ifName : BList) (ifIdx now : Nat) (forUs : Bool)
    (acc : Ingest) (r : Wire.Rec) : Ingest :=
  let res := addOrUpdate acc.cache ifName ifIdx (ofWire ifName ifIdx now r) now forUs
  match res.result with
  | none => { acc with cache := res.cache, timers := acc.timers ++ res.timers }
  | some (e, false) =>
    { acc with cache := res.cache, timers := acc.timers ++ res.timers ++ [e.record.expires, e.record.refresh] }
  | some (e, true) =>
    let t1 := acc.timers ++ res.timers ++ [e.record.expires, e.record.refresh]
    if e.record.ty == 12 && decide (e.record.ttl > 1) then
      match e.record.rdata with
      | .ptr alias =>
        match queriers.lookup e.record.name with
        | some ch =>
          { cache := res.cache, timers := t1 ++ [e.record.refresh], changes := acc.changes ++ [(12, alias)],
            outs := acc.outs ++ [.event ch (.found e.record.name alias)] }
        | none => { cache := res.cache, timers := t1, changes := acc.changes ++ [(12, alias)], outs := acc.outs }
      | _ => { acc with cache := res.cache, timers := t1 }
    else { acc with cache := res.cache, timers := t1, changes := acc.changes ++ [(e.record.ty, e.record.name)] }

def ingestAll (queriers : List (BList × Nat)) (ifName : BList) (ifIdx now : Nat) (forUs : Bool) :
    Ingest → List Wire.Rec → Ingest
  | acc, [] => acc
  | acc, r :: rest => ingestAll queriers ifName ifIdx now forUs (ingestOne queriers ifName ifIdx now forUs acc r) rest

/-- `get_addresses_for_host(host)` at `now`: the addresses cached under `lower host`, grouped by
    the owner name as it was received.  Entries that are expired at `now` (`is_expired`:
    `now ≥ expires`) but not evicted yet are skipped (repair of D44), and only address records
    count (`downcast_ref::<DnsAddress>`), so an owner name without a live address has no group:
    no group is empty. -/
def addressesForHost (c : Cache) (now : Nat) (host : BList) : List (BList × List AddrItem) :=
  let es := ((c.addr.get (lower host)).getD []).filter fun e =>
    !e.record.isExpired now && (addrItemOf e).isSome
  ((es.map (·.record.name)).eraseDups).map fun n =>
    (n, ((es.filter fun e => e.record.name == n).filterMap addrItemOf).eraseDups)

def resolverChan (s : State) (host : BList) : Option Nat :=
  (s.resolvers.find? (·.1 == lower host)).map (·.2.1)

/-- `AddressesFound` for every changed address record whose host is being resolved -/
def hostFoundOuts (s : State) (c : Cache) (now : Nat) (changes : List (Nat × BList)) : List Out :=
  (changes.filter fun ch => ch.1 == 1 || ch.1 == 28).flatMap fun ch =>
    match resolverChan s ch.2 with
    | none => []
    | some chan => (addressesForHost c now ch.2).map fun p => .event chan (.hfound p.1 p.2)

/-- `get_instances_on_host(host)`: instances whose FIRST SRV names `host`, in any letter case
    (`eq_ignore_ascii_case`, repair of the case-sensitive address trigger) -/
def instancesOnHost (c : Cache) (host : BList) : List BList :=
  c.srv.filterMap fun p =>
    match p.2.head? with
    | some e => if (hostOf e).map lower == some (lower host) then some p.1 else none
    | none => none

/-- the instances a list of changes touches -/
def updatedInstances (c : Cache) (changes : List (Nat × BList)) : List BList :=
  changes.flatMap fun ch =>
    if ch.1 == 12 || ch.1 == 33 || ch.1 == 16 then [ch.2]
    else if ch.1 == 1 || ch.1 == 28 then instancesOnHost c ch.2
    else []

/-- `handle_response(msg, if_index)`.  The records were decoded at this very `now` with
    TTL ≥ 1, so the `is_expired` filter at the top of the Rust function keeps all of them;
    `conflict_handler` has nothing to do on a daemon without registrations. -/
def handleResponse (s : State) (now : Nat) (intf : Intf) (m : Wire.Msg) : State × List Out :=
  let forUs := isForUs s m.answers
  let ing := ingestAll s.queriers intf.name intf.idx now forUs
    { cache := s.cache, timers := [], changes := [], outs := [] }
    (m.answers ++ m.authorities ++ m.additionals)
  let s1 := addTimers { s with cache := ing.cache } ing.timers
  let o2 := hostFoundOuts s1 ing.cache now ing.changes
  let r := resolveUpdated s1 now (updatedInstances ing.cache ing.changes)
  (r.1, ing.outs ++ o2 ++ r.2)

/-- `handle_read`: interface look-up, disabled-family drop, dispatch on the QR bit (queries
    are ignored: nothing is registered) -/
def handleRead (s : State) (now : Nat) (p : Packet) : State × List Out :=
  match s.intfs.find? (·.idx == p.ifIdx) with
  | none => (s, [])
  | some intf =>
    if (p.v4 && !intf.v4) || (!p.v4 && !intf.v6) then (s, [])
    else if p.msg.flags / 32768 % 2 == 1 then handleResponse s now intf p.msg
    else (s, [])

def ingress (s : State) (now : Nat) : List Packet → State × List Out
  | [] => (s, [])
  | p :: rest =>
    let r1 := handleRead s now p
    let r2 := ingress r1.1 now rest
    (r2.1, r1.2 ++ r2.2)

/-! ### commands -/

/-- `query_cache_for_service(ty, sender, now)`; no instance is made pending for a cache-only
    browse (repair of D23b) -/
def queryCacheForService (s : State) (now : Nat) (ty : BList) (ch : Nat) : State × List Out :=
  let insts := (((s.cache.ptr.get ty).getD []).filter (usable now)).filterMap aliasOf
  let good := insts.filter fun i => (resolveFromCache s.cache now ty i).valid
  let bad := insts.filter fun i => !(resolveFromCache s.cache now ty i).valid
  let s1 := markResolved s good.eraseDups
  let s2 := addPendings s1 now (if s.cacheOnly.contains ty then [] else bad.eraseDups)
  (s2, insts.flatMap fun i =>
    [Out.event ch (.found ty i)] ++
      (if (resolveFromCache s.cache now ty i).valid then [Out.event ch (.resolved (resolveFromCache s.cache now ty i))] else []))

/-- `exec_command_browse`.  A new browse replaces the earlier one of the type, also in being
    cache-only or not: `browse_cache` puts the type into `cache_only_queriers`, `browse` takes it
    out (repair of D23). -/
def execBrowse (s : State) (now : Nat) (repeating : Bool) (ty : BList) (delay : Nat) (cacheOnly : Bool)
    (ch : Nat) : State × List Out :=
  let r1 : State × List Out :=
    if repeating then (s, [])
    else queryCacheForService
      { s with reruns := s.reruns.filter (fun r => !isBrowseOf ty r),
               queriers := (ty, ch) :: s.queriers.filter (fun q => q.1 != ty),
               cacheOnly := if cacheOnly then insertSet s.cacheOnly ty else s.cacheOnly.filter (· != ty) } now ty ch
  if cacheOnly then (r1.1, [.event ch .started] ++ r1.2 ++ [.event ch (.stopped ty)])
  else
    (addRerun r1.1 (now + delay * 1000) (.browse ty (Sched.nextDelay delay) ch),
     [.event ch .started] ++ r1.2 ++ [sendQuery r1.1.cache now [(ty, 12)]])

def withinDeadline (s : State) (key : BList) (next : Nat) : Bool :=
  match (s.resolvers.find? (·.1 == key)).bind (·.2.2) with
  | some t => decide (next < t)
  | none => true

/-- `exec_command_resolve_hostname` (+ `add_hostname_resolver`, `query_cache_for_hostname`) -/
def execResolveHost (s : State) (now : Nat) (repeating : Bool) (host : BList) (delay : Nat) (ch : Nat)
    (timeout : Option Nat) : State × List Out :=
  let key := lower host
  if repeating && !(s.resolvers.any (·.1 == key)) then (s, [])
  else
    let s1 : State :=
      if repeating then s
      else
        { s with reruns := s.reruns.filter (fun r => !isResolveOf key r),
                 resolvers := (key, ch, timeout.map (now + ·)) :: s.resolvers.filter (fun q => q.1 != key),
                 timers := (match timeout.map (now + ·) with | some t => [t] | none => []) ++ s.timers }
    let o1 : List Out :=
      if repeating then [] else (addressesForHost s.cache now host).map fun p => .event ch (.hfound p.1 p.2)
    let next := now + delay * 1000
    let s2 := if withinDeadline s1 key next then addRerun s1 next (.resolveHost host (Sched.nextDelay delay) ch) else s1
    (s2, [.event ch .hstarted] ++ o1 ++ [sendQuery s.cache now [(host, 1), (host, 28)]])

/-- `exec_command_stop_browse` -/
def execStopBrowse (s : State) (ty : BList) : State × List Out :=
  match s.queriers.find? (·.1 == ty) with
  | none => (s, [])
  | some (_, ch) =>
    ({ s with queriers := s.queriers.filter (fun q => q.1 != ty),
              cacheOnly := s.cacheOnly.filter (· != ty),
              reruns := s.reruns.filter (fun r => !isBrowseOf ty r),
              cache := removeServiceType s.cache ty },
     [.event ch (.stopped ty)])

/-- `exec_command_stop_resolve_hostname(hostname.to_lowercase())` -/
def execStopResolve (s : State) (host : BList) : State × List Out :=
  let key := lower host
  match s.resolvers.find? (·.1 == key) with
  | none => (s, [])
  | some (_, ch, _) =>
    ({ s with resolvers := s.resolvers.filter (fun q => q.1 != key),
              reruns := s.reruns.filter (fun r => !isResolveOf key r) },
     [.event ch (.hstopped key)])

/-- `valid_instance_name`: at least five `.`-separated parts -/
def validInstanceName (name : BList) : Bool := decide (name.count 0x2E ≥ 4)

/-- `query_unresolved(instance)`: the question it asks, if any.  An ANY question for the
    instance when there is no SRV entry at all; A + AAAA for the host of the first SRV whose
    host has no address entry at all. -/
def queryUnresolved (c : Cache) (inst : BList) : Option (List (BList × Nat)) :=
  if !validInstanceName inst then none
  else
    match c.srv.get inst with
    | none => some [(inst, 255)]
    | some srvs =>
      ((srvs.filterMap hostOf).find? fun h => (c.addr.get (lower h)).isNone).map fun h => [(h, 1), (h, 28)]

/-- `exec_command_resolve(instance, try_count)` -/
def execResolveInst (s : State) (now : Nat) (inst : BList) (tryCount : Nat) : State × List Out :=
  match queryUnresolved s.cache inst with
  | none => (s, [])
  | some qs =>
    (if tryCount < MAX_TRY then addRerun s (now + RESOLVE_WAIT) (.resolve inst (tryCount + 1)) else s,
     [sendQuery s.cache now qs])

/-- `exec_command_verify(instance, timeout, repeating)` -/
def execVerify (s : State) (now : Nat) (repeating : Bool) (inst : BList) (timeout : Nat) : State × List Out :=
  let expireAt := if repeating then none else some (now + timeout)
  let r := serviceVerifyQueries s.cache inst expireAt
  if r.2.isEmpty then ({ s with cache := r.1 }, [])
  else
    let s1 := { s with cache := r.1 }
    (if repeating then s1 else addRerun (addTimers s1 [now + timeout]) (now + 1000) (.verify inst timeout),
     [sendQuery r.1 now r.2])

def tableCount (t : Table) : Nat := (t.map (·.2.length)).sum

/-- the cache-size and timer counters of `exec_command_get_metrics` -/
def metricsOf (s : State) : Metrics :=
  { ptr := tableCount s.cache.ptr, srv := tableCount s.cache.srv, txt := tableCount s.cache.txt,
    addr := tableCount s.cache.addr, nsec := tableCount s.cache.nsec, subtype := s.cache.subtype.length,
    timer := s.timers.length }

def execCommand (s : State) (now : Nat) : Command → State × List Out
  | .browse ty ch cacheOnly => execBrowse s now false ty 1 cacheOnly ch
  | .stopBrowse ty => execStopBrowse s ty
  | .resolveHost h ch timeout => execResolveHost s now false h 1 ch timeout
  | .stopResolve h => execStopResolve s h
  | .ipInterval ms => ({ s with ipInterval := ms }, [])
  | .verify inst t => execVerify s now false inst t
  | .metrics ch => (s, [.event ch (.metrics (metricsOf s))])
  | .acceptUnsolicited on => ({ s with acceptUnsolicited := on }, [])

def execRerun (s : State) (now : Nat) : RCmd → State × List Out
  | .browse ty delay ch => execBrowse s now true ty delay false ch
  | .resolveHost h delay ch => execResolveHost s now true h delay ch none
  | .resolve inst k => execResolveInst s now inst k
  | .verify inst t => execVerify s now true inst t

def runCommands (s : State) (now : Nat) : List Command → State × List Out
  | [] => (s, [])
  | c :: cs =>
    let r1 := execCommand s now c
    let r2 := runCommands r1.1 now cs
    (r2.1, r1.2 ++ r2.2)

/-- the re-run loop (see `Sched.runReruns`): a due re-run is removed and executed; what it
    appends is not due (at least 500 ms ahead) and is scanned again only because the Rust
    loop does -/
def runReruns (s : State) (now : Nat) : Nat → List Rerun → List Rerun → State × List Out
  | 0, keep, rest => ({ s with reruns := keep ++ rest ++ s.reruns }, [])
  | _ + 1, keep, [] => ({ s with reruns := keep ++ s.reruns }, [])
  | fuel + 1, keep, r :: rest =>
    if now ≥ r.next then
      let r1 := execRerun { s with reruns := [] } now r.cmd
      let r2 := runReruns { r1.1 with reruns := [] } now fuel keep (rest ++ r1.1.reruns)
      (r2.1, r1.2 ++ r2.2)
    else runReruns s now fuel (keep ++ [r]) rest

/-- time-outs of hostname resolvers: `SearchTimeout` then `SearchStopped`, entry removed -/
def runTimeouts (s : State) (now : Nat) : State × List Out :=
  let due := s.resolvers.filter (fun r => match r.2.2 with | some t => decide (now ≥ t) | none => false)
  ({ s with resolvers := s.resolvers.filter (fun r => match r.2.2 with | some t => !decide (now ≥ t) | none => true) },
   due.flatMap fun r => [.event r.2.1 (.htimeout r.1), .event r.2.1 (.hstopped r.1)])

/-! ### refresh -/

/-- what `refresh_active_services` does for one browsed type -/
def refreshType (c : Cache) (now : Nat) (ty : BList) : Cache × List Out × List Nat :=
  let r1 := refreshDuePtr c ty now
  let o1 : List Out := if r1.2.isEmpty then [] else [sendQuery r1.1 now [(ty, 12)]]
  let r2 := refreshDueSrvTxt r1.1 ty now
  let o2 : List Out := r2.due.map fun p => sendQuery r2.cache now (p.2.map fun t => (p.1, t))
  let r3 := refreshDueHosts r2.cache ty now
  let o3 : List Out := r3.due.map fun h => sendQuery r3.cache now [(h, 1), (h, 28)]
  (r3.cache, o1 ++ o2 ++ o3, r1.2 ++ r2.timers ++ r3.timers)

def refreshTypes (c : Cache) (now : Nat) : List BList → Cache × List Out × List Nat
  | [] => (c, [], [])
  | ty :: rest =>
    let r1 := refreshType c now ty
    let r2 := refreshTypes r1.1 now rest
    (r2.1, r1.2.1 ++ r2.2.1, r1.2.2 ++ r2.2.2)

/-- the types `refresh_active_services` works for: the browsed types that are not browsed
    cache-only (repair of D23: a cache-only browse sends no query) -/
def activeTypes (s : State) : List BList := (s.queriers.map (·.1)).filter fun ty => !s.cacheOnly.contains ty

/-- `refresh_active_services`: the new refresh times are collected in a set -/
def refreshActive (s : State) (now : Nat) : State × List Out :=
  let r := refreshTypes s.cache now (activeTypes s)
  (addTimers { s with cache := r.1 } r.2.2.eraseDups, r.2.1)

/-- the address refresh of the hostname resolvers: one question per due (host, address) -/
def refreshResolversGo (c : Cache) (now : Nat) : List BList → Cache × List Out
  | [] => (c, [])
  | h :: rest =>
    let r1 := refreshDueResolutions c h now
    let o1 : List Out := (r1.2.eraseDups).map fun it => sendQuery r1.1 now [(h, if it.2.1.length == 4 then 1 else 28)]
    let r2 := refreshResolversGo r1.1 now rest
    (r2.1, o1 ++ r2.2)

def refreshResolvers (s : State) (now : Nat) : State × List Out :=
  let r := refreshResolversGo s.cache now (s.resolvers.map (·.1))
  ({ s with cache := r.1 }, r.2)

/-! ### eviction -/

/-- `evict_expired_services` + `notify_service_removal` -/
def evictServicesPhase (s : State) (now : Nat) : State × List Out :=
  let r := evictServices s.cache now
  ({ s with cache := r.1 }, notifyRemoval s.queriers r.2)

/-- the loop over the hosts whose addresses expired -/
def evictAddrHosts (s : State) (now : Nat) (items : List (BList × BList × BList × Nat)) :
    List BList → State × List Out
  | [] => (s, [])
  | h :: rest =>
    let o1 : List Out := match resolverChan s h with
      | none => []
      | some ch =>
        [.event ch (.hremoved h (((items.filter fun it => it.1 == h).map fun it => (it.2.1, it.2.2.1, it.2.2.2)).eraseDups))]
    let r1 := resolveUpdated s now (instancesOnHost s.cache h)
    let r2 := evictAddrHosts r1.1 now items rest
    (r2.1, o1 ++ r1.2 ++ r2.2)

/-- `evict_expired_addr` + `AddressesRemoved` + `resolve_updated_instances` -/
def evictAddrPhase (s : State) (now : Nat) : State × List Out :=
  let r := evictAddr s.cache now
  evictAddrHosts { s with cache := r.1 } now r.2 ((r.2.map (·.1)).eraseDups)

/-- the ip-check block at the end of the loop (`check_ip_changes` finds nothing to do on an
    unchanged interface table) -/
def runIpCheck (s : State) (now : Nat) : State :=
  if now ≥ s.nextIpCheck && s.nextIpCheck > 0 then
    if s.ipInterval > 0 then
      { s with nextIpCheck := now + s.ipInterval, timers := (now + s.ipInterval) :: s.timers }
    else { s with nextIpCheck := 0 }
  else if s.nextIpCheck == 0 && s.ipInterval > 0 then
    { s with nextIpCheck := now + s.ipInterval, timers := (now + s.ipInterval) :: s.timers }
  else s

/-- `pop_timers_till(now)` -/
def popTimers (s : State) (now : Nat) : State := { s with timers := s.timers.filter (· > now) }

def rerunPhase (s : State) (now : Nat) : State × List Out :=
  runReruns { s with reruns := [] } now (s.reruns.length * 2 + 2) [] s.reruns

/-- one loop iteration at `now` with the datagrams and the commands that arrived since the
    last one -/
def iter (s : State) (now : Nat) (pkts : List Packet) (cmds : List Command) : State × List Out :=
  let r1 := ingress s now pkts
  let r3 := runTimeouts (popTimers r1.1 now) now
  let r4 := runCommands r3.1 now cmds
  let r5 := rerunPhase r4.1 now
  let r6 := refreshActive r5.1 now
  let r7 := refreshResolvers r6.1 now
  let r8 := evictServicesPhase r7.1 now
  let r9 := evictAddrPhase r8.1 now
  (runIpCheck r9.1 now, r1.2 ++ r3.2 ++ r4.2 ++ r5.2 ++ r6.2 ++ r7.2 ++ r8.2 ++ r9.2)

/-- the wake-up requested at the next gate: the earliest timer -/
def wake (s : State) : Option Nat := s.timers.min?

/-- a whole history of iterations `(now, packets, commands)` -/
def run (s : State) : List (Nat × List Packet × List Command) → State × List (Nat × Out)
  | [] => (s, [])
  | (now, pkts, cmds) :: rest =>
    let r1 := iter s now pkts cmds
    let r2 := run r1.1 rest
    (r2.1, r1.2.map (fun o => (now, o)) ++ r2.2)

end Mdns.Client
