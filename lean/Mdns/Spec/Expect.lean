import Mdns.Model.Encode
import Mdns.Spec.RefParse
/-
  What an RFC 1035 reader must find for a question / record that was added to an outgoing
  message: the specification side of C02, used both by the monitor (`Driver/C02.lean`,
  on the real bytes) and by the theorems (`Props/C02.lean`, on the model).
-/
namespace Mdns.Enc
open Mdns

/-- RDATA as an RFC 1035 reader must find it (names as label sequences) -/
def expRData : Wire.RData → Ref.RData
  | .a ip => .a ip
  | .aaaa ip => .aaaa ip
  | .ptr n => .ptr (labelsOf n)
  | .srv p w port h => .srv p w port (labelsOf h)
  | .txt b => .txt b
  | .hinfo c o => .other (c ++ o)
  | .nsec n b => .other (n ++ b)

/-- what an RFC 1035 reader must find for a record that was added with `now`
    (`now ≠ 0`: the remaining TTL in seconds) -/
def expRec (r : RecIn) (now : Nat) : Ref.Record :=
  { name := labelsOf r.name, type := r.ty, cls := r.cls, flush := r.flush,
    ttl := if now = 0 then r.ttl else (expires r - now) / 1000,
    rdata := expRData r.rdata }

def expQ (q : QIn) : Ref.Question := { name := labelsOf q.name, qtype := q.ty, qclass := CLASS_IN }

/-- the elements of `exp` that a greedy in-order match of `got` leaves out;
    `none` if `got` is not an in-order subsequence of `exp` -/
def leftOut {α : Type} [DecidableEq α] : List α → List α → Option (List α)
  | [], exp => some exp
  | _ :: _, [] => none
  | g :: gs, e :: es =>
    if g = e then leftOut gs es
    else (leftOut (g :: gs) es).map (e :: ·)

/-- all of them, or nothing -/
def allSome {α : Type} : List (Option α) → Option (List α)
  | [] => some []
  | none :: _ => none
  | some a :: rest => (allSome rest).map (a :: ·)

/-- every message but the last has the flags with TC, the last one the flags themselves -/
def flagsOK (flags : Nat) (ms : List Ref.Msg) : Bool :=
  match ms.reverse with
  | [] => false
  | last :: initRev =>
    last.flags == flags % 65536 && initRev.all (fun m => m.flags == (flags ||| FLAGS_TC) % 65536)

/-- the clauses of `soundCore` that speak about the parsed messages -/
def coreOn (o : OutMsg) (ms : List Ref.Msg) : Bool :=
  ms.flatMap (·.questions) == o.questions.map expQ &&
  (leftOut (ms.flatMap (·.answers)) (o.answers.map fun a => expRec a.1 a.2)).isSome &&
  (leftOut (ms.flatMap (·.authorities)) (o.authorities.map (expRec · 0))).isSome &&
  (leftOut (ms.flatMap (·.additionals)) (o.additionals.map (expRec · 0))).isSome &&
  flagsOK o.flags ms

/-- **`ok_C02`, core**: the conclusion of `Props.C02.encode_sound` as a decidable predicate on
    a list of packets.  The theorem `soundCore_holds` says it is true of every packet list
    the model produces; the monitor evaluates it on the packets of the REAL encoder. -/
def soundCore (o : OutMsg) (pkts : List Ref.Bytes) : Bool :=
  pkts.all (fun d => decide (d.size ≤ MAX_MSG_ABSOLUTE)) &&
  match allSome (pkts.map Ref.parse) with
  | none => false
  | some ms => coreOn o ms

/-- textual name as the crate's decoder builds it: every label followed by '.', no escaping -/
def dotted (n : Ref.Name) : BList := n.flatMap fun l => l ++ [0x2E]

/-- what the crate's decoder shows for a record read by the reference reader
    (names unescaped and dotted; TTL 0 of a response stored as 1) -/
def viewRec (resp : Bool) (r : Ref.Record) : Option Wire.Rec :=
  let rd : Option Wire.RData := match r.rdata with
    | .a ip => some (.a ip)
    | .aaaa ip => some (.aaaa ip)
    | .ptr n => some (.ptr (dotted n))
    | .srv p w port n => some (.srv p w port (dotted n))
    | .txt b => some (.txt b)
    | .other _ => none
  rd.map fun rd => { name := dotted r.name, ty := r.type, cls := r.cls, flush := r.flush,
                     ttl := if r.ttl = 0 ∧ resp then 1 else r.ttl, rdata := rd, start := 0, stop := 0 }

def viewMsg (m : Ref.Msg) : Option Wire.Msg :=
  let resp := m.flags / 32768 % 2 == 1
  let sec (rs : List Ref.Record) : Option (List Wire.Rec) := rs.mapM (viewRec resp)
  match sec m.answers, sec m.authorities, sec m.additionals with
  | some an, some au, some ad =>
    some { id := m.id, flags := m.flags,
           questions := m.questions.map fun q =>
             { name := dotted q.name, ty := q.qtype, cls := q.qclass % 32768, flush := decide (q.qclass ≥ 32768) },
           answers := an, authorities := au, additionals := ad }
  | _, _, _ => none

end Mdns.Enc
