import Mdns.Model.Encode
import Mdns.Spec.RefParse
/-
  What an RFC 1035 reader must find for a question / record that was added to an outgoing
  message: the specification side of C02, used both by the monitor (`Driver/C02.lean`,
  on the real bytes) and by the theorems (`Props/C02.lean`, on the model).
-/
namespace Mdns.Enc
open Mdns

/-- RDATA as an RFC 1035 reader must find it (names as label sequences) -/
def expRData : Wire.RData → Ref.RData
  | .a ip => .a ip
  | .aaaa ip => .aaaa ip
  | .ptr n => .ptr (labelsOf n)
  | .srv p w port h => .srv p w port (labelsOf h)
  | .txt b => .txt b
  | .hinfo c o => .other (c ++ o)
  | .nsec n b => .other (n ++ b)

/-- what an RFC 1035 reader must find for a record that was added with `now`
    (`now ≠ 0`: the remaining TTL in seconds) -/
def expRec (r : RecIn) (now : Nat) : Ref.Record :=
  { name := labelsOf r.name, type := r.ty, cls := r.cls, flush := r.flush,
    ttl := if now = 0 then r.ttl else (expires r - now) / 1000,
    rdata := expRData r.rdata }

def expQ (q : QIn) : Ref.Question := { name := labelsOf q.name, qtype := q.ty, qclass := CLASS_IN }

/-- textual name as the crate's decoder builds it: every label followed by '.', no escaping -/
def dotted (n : Ref.Name) : BList := n.flatMap fun l => l ++ [0x2E]

/-- what the crate's decoder shows for a record read by the reference reader
    (names unescaped and dotted; TTL 0 of a response stored as 1) -/
def viewRec (resp : Bool) (r : Ref.Record) : Option Wire.Rec :=
  let rd : Option Wire.RData := match r.rdata with
    | .a ip => some (.a ip)
    | .aaaa ip => some (.aaaa ip)
    | .ptr n => some (.ptr (dotted n))
    | .srv p w port n => some (.srv p w port (dotted n))
    | .txt b => some (.txt b)
    | .other _ => none
  rd.map fun rd => { name := dotted r.name, ty := r.type, cls := r.cls, flush := r.flush,
                     ttl := if r.ttl = 0 ∧ resp then 1 else r.ttl, rdata := rd, start := 0, stop := 0 }

def viewMsg (m : Ref.Msg) : Option Wire.Msg :=
  let resp := m.flags / 32768 % 2 == 1
  let sec (rs : List Ref.Record) : Option (List Wire.Rec) := rs.mapM (viewRec resp)
  match sec m.answers, sec m.authorities, sec m.additionals with
  | some an, some au, some ad =>
    some { id := m.id, flags := m.flags,
           questions := m.questions.map fun q =>
             { name := dotted q.name, ty := q.qtype, cls := q.qclass % 32768, flush := decide (q.qclass ≥ 32768) },
           answers := an, authorities := au, additionals := ad }
  | _, _, _ => none

end Mdns.Enc
