import Mdns.Model.Encode
import Mdns.Spec.RefParse
/-
  What an RFC 1035 reader must find for a question / record that was added to an outgoing
  message: the specification side of C02, used both by the monitor (`Driver/C02.lean`,
  on the real bytes) and by the theorems (`Props/C02.lean`, on the model).
-/
namespace Mdns.Enc
open Mdns

/-- RDATA as an RFC 1035 reader must find it (names as label sequences) -/
def expRData : Wire.RData → Ref.RData
  | .a ip => .a ip
  | .aaaa ip => .aaaa ip
  | .ptr n => .ptr (labelsOf n)
  | .srv p w port h => .srv p w port (labelsOf h)
  | .txt b => .txt b
  | .hinfo c o => .other (c ++ o)
  | .nsec n b => .other (n ++ b)

/-- what an RFC 1035 reader must find for a record that was added with `now`
    (`now ≠ 0`: the remaining TTL in seconds) -/
def expRec (r : RecIn) (now : Nat) : Ref.Record :=
  { name := labelsOf r.name, type := r.ty, cls := r.cls, flush := r.flush,
    ttl := if now = 0 then r.ttl else (expires r - now) / 1000,
    rdata := expRData r.rdata }

def expQ (q : QIn) : Ref.Question := { name := labelsOf q.name, qtype := q.ty, qclass := CLASS_IN }

end Mdns.Enc
