import Mdns.Model.Basic
import Mdns.Model.Decode
/-
  Scripts and observed traces of daemon-level histories (`sim` ops, see
  harness/src/simop.rs for the format).  Import-free (links into the driver).
-/
namespace Mdns.Trace
open Mdns

structure Iface where
  name : BList
  index : Nat
  ip : String
  prefixLen : Nat
  deriving Repr, DecidableEq, Inhabited

def Iface.v4 (i : Iface) : Bool := !(i.ip.toList.contains ':')

inductive Cmd where
  | daemon (ifs : List Iface)
  | link (a ia b ib : Nat)
  | now (t : Nat)
  | jit (d j : Nat)
  | step (d : Nat)
  | run (untilT : Nat)
  | inject (d ifi : Nat) (v4 : Bool) (srcIp : String) (srcPort : Nat) (bytes : BList)
  | ifaces (d : Nat) (ifs : List Iface)
  | browse (d ch : Nat) (ty : BList) (cacheOnly : Bool)
  | stopBrowse (d : Nat) (ty : BList)
  | resolve (d ch : Nat) (host : BList) (timeout : Option Nat)
  | stopResolve (d : Nat) (host : BList)
  | unregister (d ch : Nat) (name : BList)
  | monitor (d ch : Nat)
  | shutdown (d ch : Nat)
  | status (d ch : Nat)
  | metrics (d ch : Nat)
  | verify (d : Nat) (inst : BList) (ms : Nat)
  | ipint (d secs : Nat)
  /-- `register d ty inst host port ips props probe addrauto` (IP addresses as text) -/
  | register (d : Nat) (ty inst host : BList) (port : Nat) (ips : List String)
      (props : List (BList × Option BList)) (probe addrAuto : Bool)
  | other (toks : List String)
  deriving Repr, Inhabited

def pIface : P Iface := fun ts => do
  let (name, ts) ← P.hex ts
  let (index, ts) ← P.nat ts
  let (ip, ts) ← P.tok ts
  let (p, ts) ← P.nat ts
  pure ({ name, index, ip, prefixLen := p }, ts)

def pRegister : P Cmd := fun ts => do
  let (d, ts) ← P.nat ts
  let (ty, ts) ← P.hex ts
  let (inst, ts) ← P.hex ts
  let (host, ts) ← P.hex ts
  let (port, ts) ← P.nat ts
  let (ips, ts) ← P.list P.tok ts
  let (props, ts) ← P.list (fun ts => do
    let (k, ts) ← P.hex ts
    let (v, ts) ← P.opt P.hex ts
    pure ((k, v), ts)) ts
  let (probe, ts) ← P.bool ts
  let (auto, ts) ← P.bool ts
  pure (.register d ty inst host port ips props probe auto, ts)

def parseCmd (ts : List String) : Cmd :=
  let r : Option Cmd :=
    match ts with
    | "daemon" :: ts => (P.list pIface ts).map fun (ifs, _) => .daemon ifs
    | ["link", a, ia, b, ib] => do pure (.link (← a.toNat?) (← ia.toNat?) (← b.toNat?) (← ib.toNat?))
    | ["now", t] => t.toNat?.map .now
    | ["jit", d, j] => do pure (.jit (← d.toNat?) (← j.toNat?))
    | ["step", d] => d.toNat?.map .step
    | ["run", u] => u.toNat?.map .run
    | ["inject", d, ifi, v4, ip, port, hex] => do
      pure (.inject (← d.toNat?) (← ifi.toNat?) (v4 == "1") ip (← port.toNat?) (← bytesOfHex hex))
    | "ifaces" :: d :: ts => do
      let (ifs, _) ← P.list pIface ts
      pure (.ifaces (← d.toNat?) ifs)
    | ["browse", d, ch, ty] => do pure (.browse (← d.toNat?) (← ch.toNat?) (← bytesOfHex ty) false)
    | ["browsec", d, ch, ty] => do pure (.browse (← d.toNat?) (← ch.toNat?) (← bytesOfHex ty) true)
    | ["stopbrowse", d, ty] => do pure (.stopBrowse (← d.toNat?) (← bytesOfHex ty))
    | ["resolve", d, ch, h, "none"] => do pure (.resolve (← d.toNat?) (← ch.toNat?) (← bytesOfHex h) none)
    | ["resolve", d, ch, h, "some", t] => do
      pure (.resolve (← d.toNat?) (← ch.toNat?) (← bytesOfHex h) (some (← t.toNat?)))
    | ["stopresolve", d, h] => do pure (.stopResolve (← d.toNat?) (← bytesOfHex h))
    | ["unregister", d, ch, n] => do pure (.unregister (← d.toNat?) (← ch.toNat?) (← bytesOfHex n))
    | ["monitor", d, ch] => do pure (.monitor (← d.toNat?) (← ch.toNat?))
    | ["shutdown", d, ch] => do pure (.shutdown (← d.toNat?) (← ch.toNat?))
    | ["status", d, ch] => do pure (.status (← d.toNat?) (← ch.toNat?))
    | ["metrics", d, ch] => do pure (.metrics (← d.toNat?) (← ch.toNat?))
    | ["verify", d, i, ms] => do pure (.verify (← d.toNat?) (← bytesOfHex i) (← ms.toNat?))
    | ["ipint", d, s] => do pure (.ipint (← d.toNat?) (← s.toNat?))
    | "register" :: ts => (pRegister ts).bind fun (c, rest) => if rest.isEmpty then some c else none
    | _ => none
  r.getD (.other ts)

/-- split a token list at every `;` -/
def splitSemi (ts : List String) : List (List String) :=
  let (cur, acc) := ts.foldl (fun (cur, acc) t => if t == ";" then ([], cur.reverse :: acc) else (t :: cur, acc)) ([], [])
  ((cur.reverse :: acc).reverse).filter (· != [])

def parseScript (ts : List String) : List Cmd := (splitSemi ts).map parseCmd

inductive Obs where
  | ret (i : Nat) (r : String)
  | it (d now : Nat) (wake : Option Nat)
  | tx (d ifi : Nat) (v4 : Bool) (dest : String) (bytes : BList)
  | rx (d ifi : Nat) (v4 : Bool) (src : String) (bytes : BList)
  | ev (d ch : Nat) (toks : List String)
  | closed (d ch : Nat)
  | ended (d : Nat) (panicked : Bool)
  | idle (d n : Nat)
  | other (toks : List String)
  deriving Repr, Inhabited

def parseObs (ts : List String) : Obs :=
  let r : Option Obs :=
    match ts with
    | ["ret", i, r] => i.toNat?.map (.ret · r)
    | ["it", d, now, "none"] => do pure (.it (← d.toNat?) (← now.toNat?) none)
    | ["it", d, now, w] => do pure (.it (← d.toNat?) (← now.toNat?) (some (← w.toNat?)))
    | ["tx", d, ifi, v4, dest, hex] => do pure (.tx (← d.toNat?) (← ifi.toNat?) (v4 == "1") dest (← bytesOfHex hex))
    | ["rx", d, ifi, v4, src, hex] => do pure (.rx (← d.toNat?) (← ifi.toNat?) (v4 == "1") src (← bytesOfHex hex))
    | "ev" :: d :: ch :: rest => do pure (.ev (← d.toNat?) (← ch.toNat?) rest)
    | ["closed", d, ch] => do pure (.closed (← d.toNat?) (← ch.toNat?))
    | ["end", d, r] => do pure (.ended (← d.toNat?) (r == "panic"))
    | ["idle", d, n] => do pure (.idle (← d.toNat?) (← n.toNat?))
    | _ => none
  r.getD (.other ts)

def parseTrace (ts : List String) : List Obs := (splitSemi ts).map parseObs

/-- one loop iteration of a daemon with everything observed in it -/
structure Iter where
  d : Nat
  now : Nat
  wake : Option Nat
  tx : List (Nat × Bool × String × BList)      -- (ifIdx, v4, dest, bytes)
  evs : List (Nat × List String)                -- (chan, event tokens)
  closed : List Nat
  ended : Option Bool
  /-- indices of the API commands issued since the previous iteration of any daemon -/
  calls : List (Nat × String)
  /-- datagrams read in this iteration: (ifIdx, v4, source, bytes), in arrival order -/
  rx : List (Nat × Bool × String × BList) := []
  deriving Repr, Inhabited

/-- group a trace into iterations; `ret` items before an iteration are attached to it -/
def iterationsNoRx (obs : List Obs) : List Iter :=
  let (cur, pendingCalls, acc) :=
    obs.foldl (fun (st : Option Iter × List (Nat × String) × List Iter) o =>
      let (cur, calls, acc) := st
      match o with
      | .ret i r =>
        -- a call ends the current iteration's item list
        (none, calls ++ [(i, r)], match cur with | some c => c :: acc | none => acc)
      | .it d now wake =>
        (some { d, now, wake, tx := [], evs := [], closed := [], ended := none, calls := calls }, [],
          match cur with | some c => c :: acc | none => acc)
      | .tx _ ifi v4 dest b => (cur.map fun c => { c with tx := c.tx ++ [(ifi, v4, dest, b)] }, calls, acc)
      | .ev _ ch toks => (cur.map fun c => { c with evs := c.evs ++ [(ch, toks)] }, calls, acc)
      | .closed _ ch => (cur.map fun c => { c with closed := c.closed ++ [ch] }, calls, acc)
      | .ended _ p => (cur.map fun c => { c with ended := some p }, calls, acc)
      | _ => (cur, calls, acc)) (none, [], [])
  let _ := pendingCalls
  ((match cur with | some c => c :: acc | none => acc)).reverse

/-- attach every `rx` item to the next iteration of its daemon -/
def iterations (obs : List Obs) : List Iter :=
  let base := iterationsNoRx obs
  -- walk the observations again, numbering `it` items, to know after which iteration each rx came
  let (_, rxs) := obs.foldl (fun (st : Nat × List (Nat × Nat × (Nat × Bool × String × BList))) o =>
    let (n, acc) := st
    match o with
    | .it .. => (n + 1, acc)
    | .rx d ifi v4 src b => (n, acc ++ [(n, d, (ifi, v4, src, b))])
    | _ => (n, acc)) (0, [])
  -- an rx seen after `n` iterations belongs to the first iteration with index >= n of daemon d
  let (out, _) := base.zipIdx.foldl (fun (st : List Iter × List (Nat × Nat × (Nat × Bool × String × BList))) (p : Iter × Nat) =>
    let (acc, pending) := st
    let (it, k) := p
    let (mine, rest) := pending.partition fun (n, d, _) => n ≤ k && d == it.d
    (acc ++ [{ it with rx := mine.map (·.2.2) }], rest)) ([], rxs)
  out

/-- questions of a packet as (lower-cased name, qtype); `none` if the packet does not parse -/
def questionsOf (b : BList) : Option (Bool × List (BList × Nat) × Nat) :=
  match Wire.decode b.toArray with
  | .ok m => some (m.flags / 32768 % 2 == 1, m.questions.map (fun q => (lower q.name, q.ty)), m.answers.length)
  | _ => none

/-- simple insertion sort on strings, for canonical multiset comparison -/
def sortStrings (xs : List String) : List String :=
  xs.foldl (fun acc x =>
    let (lo, hi) := acc.span (· < x)
    lo ++ [x] ++ hi) []

end Mdns.Trace
