/-
  Reference reader of RFC 1035 messages, written for obviousness and independent of the
  crate's decoder and of its model (`Mdns/Model/Decode.lean`): it imports nothing.

  * a name is a SEQUENCE of labels (`List (List UInt8)`), never a dotted string, so
    that a label containing '.' cannot be confused with two labels;
  * compression pointers (RFC 1035 4.1.4) must point strictly backwards (below the offset
    of the pointer itself); the fuel is the packet size, so every read terminates;
  * a name is at most 255 octets on the wire, a label at most 63 (RFC 1035 2.3.4);
  * the section counts of the header must be matched exactly by the entries and the
    message must end where the last entry ends;
  * RDATA is interpreted for A, AAAA, PTR/CNAME, SRV, TXT and kept raw for other types;
    names inside RDATA must end exactly where RDLENGTH says.
-/
namespace Mdns.Ref

abbrev Bytes := Array UInt8
abbrev Label := List UInt8
abbrev Name := List Label

def u16 (d : Bytes) (off : Nat) : Option Nat :=
  match d[off]?, d[off + 1]? with
  | some a, some b => some (a.toNat * 256 + b.toNat)
  | _, _ => none

def u32 (d : Bytes) (off : Nat) : Option Nat :=
  match u16 d off, u16 d (off + 2) with
  | some a, some b => some (a * 65536 + b)
  | _, _ => none

/-- the `n` bytes at `off`, if they are inside the packet -/
def bytesAt (d : Bytes) (off n : Nat) : Option (List UInt8) :=
  if off + n ≤ d.size then some (d.extract off (off + n)).toList else none

/-- Labels of the name at `off` and the offset of the byte after the name *in place*
    (after the zero byte or after the first pointer). -/
def readNameFuel (d : Bytes) : Nat → Nat → Option (Name × Nat)
  | 0, _ => none
  | fuel + 1, off =>
    match d[off]? with
    | none => none
    | some b =>
      if b = 0 then some ([], off + 1)
      else if b.toNat < 64 then
        match bytesAt d (off + 1) b.toNat, readNameFuel d fuel (off + 1 + b.toNat) with
        | some l, some (ls, e) => some (l :: ls, e)
        | _, _ => none
      else if b.toNat ≥ 192 then
        match d[off + 1]? with
        | none => none
        | some lo =>
          if (b.toNat - 192) * 256 + lo.toNat < off then
            match readNameFuel d fuel ((b.toNat - 192) * 256 + lo.toNat) with
            | some (ls, _) => some (ls, off + 2)
            | none => none
          else none
      else none

/-- octets of a name in uncompressed wire form -/
def wireLen (n : Name) : Nat := (n.map fun l => l.length + 1).sum + 1

def readName (d : Bytes) (off : Nat) : Option (Name × Nat) :=
  match readNameFuel d d.size off with
  | some (ls, e) => if wireLen ls ≤ 255 then some (ls, e) else none
  | none => none

structure Question where
  name : Name
  qtype : Nat
  /-- the 16 bits of QCLASS (mDNS: top bit = unicast response wanted) -/
  qclass : Nat
  deriving Repr, DecidableEq, Inhabited

inductive RData where
  | a (ip : List UInt8)
  | aaaa (ip : List UInt8)
  /-- PTR and CNAME -/
  | ptr (target : Name)
  | srv (prio weight port : Nat) (target : Name)
  | txt (b : List UInt8)
  | other (b : List UInt8)
  deriving Repr, DecidableEq, Inhabited

structure Record where
  name : Name
  type : Nat
  /-- low 15 bits of CLASS -/
  cls : Nat
  /-- top bit of CLASS (mDNS cache-flush) -/
  flush : Bool
  ttl : Nat
  rdata : RData
  deriving Repr, DecidableEq, Inhabited

structure Msg where
  id : Nat
  flags : Nat
  questions : List Question
  answers : List Record
  authorities : List Record
  additionals : List Record
  deriving Repr, DecidableEq, Inhabited

def readQuestion (d : Bytes) (off : Nat) : Option (Question × Nat) :=
  match readName d off with
  | none => none
  | some (n, o) =>
    match u16 d o, u16 d (o + 2) with
    | some t, some c => some ({ name := n, qtype := t, qclass := c }, o + 4)
    | _, _ => none

/-- RDATA of `len` bytes at `off`, by type -/
def readRData (d : Bytes) (type off len : Nat) : Option RData :=
  if type = 1 then
    if len = 4 then (bytesAt d off 4).map .a else none
  else if type = 28 then
    if len = 16 then (bytesAt d off 16).map .aaaa else none
  else if type = 12 ∨ type = 5 then
    match readName d off with
    | some (n, e) => if e = off + len then some (.ptr n) else none
    | none => none
  else if type = 33 then
    if len < 6 then none
    else
      match u16 d off, u16 d (off + 2), u16 d (off + 4), readName d (off + 6) with
      | some p, some w, some port, some (n, e) => if e = off + len then some (.srv p w port n) else none
      | _, _, _, _ => none
  else if type = 16 then (bytesAt d off len).map .txt
  else (bytesAt d off len).map .other

def readRecord (d : Bytes) (off : Nat) : Option (Record × Nat) :=
  match readName d off with
  | none => none
  | some (n, o) =>
    match u16 d o, u16 d (o + 2), u32 d (o + 4), u16 d (o + 8) with
    | some t, some c, some ttl, some len =>
      if o + 10 + len ≤ d.size then
        match readRData d t (o + 10) len with
        | some rd => some ({ name := n, type := t, cls := c % 32768, flush := decide (c ≥ 32768),
                             ttl := ttl, rdata := rd }, o + 10 + len)
        | none => none
      else none
    | _, _, _, _ => none

/-- `count` entries one after the other -/
def readMany {α : Type} (f : Nat → Option (α × Nat)) : Nat → Nat → Option (List α × Nat)
  | 0, off => some ([], off)
  | count + 1, off =>
    match f off with
    | none => none
    | some (x, o) =>
      match readMany f count o with
      | some (xs, e) => some (x :: xs, e)
      | none => none

/-- the whole message; `none` unless every count is matched and the last entry ends the packet -/
def parse (d : Bytes) : Option Msg :=
  match u16 d 0, u16 d 2, u16 d 4, u16 d 6, u16 d 8, u16 d 10 with
  | some id, some flags, some nq, some nan, some nau, some nad =>
    match readMany (readQuestion d) nq 12 with
    | none => none
    | some (qs, o1) =>
      match readMany (readRecord d) nan o1 with
      | none => none
      | some (an, o2) =>
        match readMany (readRecord d) nau o2 with
        | none => none
        | some (au, o3) =>
          match readMany (readRecord d) nad o3 with
          | none => none
          | some (ad, o4) =>
            if o4 = d.size then
              some { id := id, flags := flags, questions := qs, answers := an, authorities := au, additionals := ad }
            else none
  | _, _, _, _, _, _ => none

end Mdns.Ref
