import Mdns.Model.Cache
import Mdns.Model.Decode
/-
  Line-protocol executor and monitors for the record / cache ops (C11 and C10):
  `rec-life`, `suppress`, `suppress-msg`, `cache-seq` (formats in harness/src/c11.rs).
-/
namespace Mdns.Driver.C11
open Mdns Mdns.Rec Mdns.Cache

/-! ### tokens -/

def rdataToks : RData → List String
  | .addr ip n i => ["addr", hexOfBytes ip, hexOfBytes n, toString i]
  | .ptr a => ["ptr", hexOfBytes a]
  | .srv p w port h => ["srv", toString p, toString w, toString port, hexOfBytes h]
  | .txt b => ["txt", hexOfBytes b]
  | .hinfo c o => ["hinfo", hexOfBytes c, hexOfBytes o]
  | .nsec n b => ["nsec", hexOfBytes n, hexOfBytes b]

def pRData : P RData
  | "addr" :: ts => do
    let (ip, ts) ← P.hex ts
    let (n, ts) ← P.hex ts
    let (i, ts) ← P.nat ts
    if ip.length = 4 ∨ ip.length = 16 then pure (.addr ip n i, ts) else none
  | "ptr" :: ts => (P.hex ts).map fun (b, ts) => (.ptr b, ts)
  | "txt" :: ts => (P.hex ts).map fun (b, ts) => (.txt b, ts)
  | "srv" :: ts => do
    let (p, ts) ← P.nat ts
    let (w, ts) ← P.nat ts
    let (port, ts) ← P.nat ts
    let (h, ts) ← P.hex ts
    pure (.srv p w port h, ts)
  | "hinfo" :: ts => do
    let (c, ts) ← P.hex ts
    let (o, ts) ← P.hex ts
    pure (.hinfo c o, ts)
  | "nsec" :: ts => do
    let (n, ts) ← P.hex ts
    let (b, ts) ← P.hex ts
    pure (.nsec n b, ts)
  | _ => none

/-- `recdesc`: the record as a function of its creation time -/
def pDesc : P (Nat → Record) := fun ts => do
  let (name, ts) ← P.hex ts
  let (ty, ts) ← P.nat ts
  let (cls, ts) ← P.nat ts
  let (flush, ts) ← P.bool ts
  let (ttl, ts) ← P.nat ts
  let (rd, ts) ← pRData ts
  pure (fun now => Record.new name ty cls flush ttl rd now, ts)

def recToks (r : Record) : List String :=
  [hexOfBytes r.name, toString r.ty, toString r.cls, boolTok r.flush, toString r.ttl, toString r.created,
    toString r.expires, toString r.refresh] ++ rdataToks r.rdata

def entryToks (e : Entry) : List String := recToks e.record ++ [hexOfBytes e.srcName, toString e.srcIdx]

def pEntry : P Entry := fun ts => do
  let (name, ts) ← P.hex ts
  let (ty, ts) ← P.nat ts
  let (cls, ts) ← P.nat ts
  let (flush, ts) ← P.bool ts
  let (ttl, ts) ← P.nat ts
  let (created, ts) ← P.nat ts
  let (expires, ts) ← P.nat ts
  let (refresh, ts) ← P.nat ts
  let (rdata, ts) ← pRData ts
  let (srcName, ts) ← P.hex ts
  let (srcIdx, ts) ← P.nat ts
  pure ({ record := { name, ty, cls, flush, ttl, created, expires, refresh, rdata }, srcName, srcIdx }, ts)

def lifeToks (r : Record) : List String :=
  [toString r.ttl, toString r.created, toString r.expires, toString r.refresh]

def strLe (a b : String) : Bool := !decide (b < a)

/-- `n item…` of the distinct items in byte order (what the harness does with a `HashSet`) -/
def sortedItems (xs : List (List String)) : List String :=
  let ys := ((xs.map joinToks).mergeSort strLe).eraseDups
  toString ys.length :: ys

def sortedNats (xs : List Nat) : List String :=
  let ys := (xs.mergeSort fun a b => decide (a ≤ b)).eraseDups
  toString ys.length :: ys.map toString

def tableToks (t : Table) : List String :=
  let keyed := t.map fun p => (hexOfBytes p.1, p.2)
  let sorted := keyed.mergeSort fun a b => strLe a.1 b.1
  toString sorted.length :: sorted.flatMap fun p => p.1 :: listToks entryToks p.2

def dumpToks (c : Cache) : List String :=
  let subs := ((c.subtype.map fun p => [hexOfBytes p.1, hexOfBytes p.2]).map joinToks).mergeSort strLe
  ["ptr"] ++ tableToks c.ptr ++ ["srv"] ++ tableToks c.srv ++ ["txt"] ++ tableToks c.txt ++
  ["addr"] ++ tableToks c.addr ++ ["nsec"] ++ tableToks c.nsec ++ ["sub", toString subs.length] ++ subs

def pTable : P Table := P.list fun ts => do
  let (k, ts) ← P.hex ts
  let (es, ts) ← P.list pEntry ts
  pure ((k, es), ts)

def pKw (kw : String) : P Unit
  | t :: ts => if t == kw then some ((), ts) else none
  | [] => none

def pDump : P Cache := fun ts => do
  let (_, ts) ← pKw "ptr" ts
  let (ptr, ts) ← pTable ts
  let (_, ts) ← pKw "srv" ts
  let (srv, ts) ← pTable ts
  let (_, ts) ← pKw "txt" ts
  let (txt, ts) ← pTable ts
  let (_, ts) ← pKw "addr" ts
  let (addr, ts) ← pTable ts
  let (_, ts) ← pKw "nsec" ts
  let (nsec, ts) ← pTable ts
  let (_, ts) ← pKw "sub" ts
  let (subtype, ts) ← P.list (fun ts => do
    let (k, ts) ← P.hex ts
    let (v, ts) ← P.hex ts
    pure ((k, v), ts)) ts
  pure ({ ptr, srv, txt, addr, nsec, subtype }, ts)

/-! ### rec-life -/

def LIFE_NAME : BList := "_c11._udp.local.".toUTF8.toList

def lifeRecord (created ttl : Nat) : Record :=
  Record.new LIFE_NAME 12 1 false ttl (.ptr ("i._c11._udp.local.".toUTF8.toList)) created

inductive Step where
  | exp (t : Nat) | soon (t : Nat) | due (t : Nat) | half (t : Nat) | refresh (t : Nat) | upd (t : Nat)
  | nomore | reset (c ttl : Nat) | updttl (t : Nat) | remttl (t : Nat) | sooner (t : Nat) | setexp (t : Nat) | view

def pStep : P Step
  | "exp" :: ts => (P.nat ts).map fun (t, ts) => (.exp t, ts)
  | "soon" :: ts => (P.nat ts).map fun (t, ts) => (.soon t, ts)
  | "due" :: ts => (P.nat ts).map fun (t, ts) => (.due t, ts)
  | "half" :: ts => (P.nat ts).map fun (t, ts) => (.half t, ts)
  | "refresh" :: ts => (P.nat ts).map fun (t, ts) => (.refresh t, ts)
  | "upd" :: ts => (P.nat ts).map fun (t, ts) => (.upd t, ts)
  | "nomore" :: ts => some (.nomore, ts)
  | "reset" :: ts => do
    let (c, ts) ← P.nat ts
    let (ttl, ts) ← P.nat ts
    pure (.reset c ttl, ts)
  | "updttl" :: ts => (P.nat ts).map fun (t, ts) => (.updttl t, ts)
  | "remttl" :: ts => (P.nat ts).map fun (t, ts) => (.remttl t, ts)
  | "sooner" :: ts => (P.nat ts).map fun (t, ts) => (.sooner t, ts)
  | "setexp" :: ts => (P.nat ts).map fun (t, ts) => (.setexp t, ts)
  | "view" :: ts => some (.view, ts)
  | _ => none

/-- one step on the model: the record afterwards and the answer tokens -/
def lifeStep (r : Record) : Step → Record × List String
  | .exp t => (r, [boolTok (r.isExpired t)])
  | .soon t => (r, [boolTok (r.expiresSoon t)])
  | .due t => (r, [boolTok (r.refreshDue t)])
  | .half t => (r, [boolTok (r.halflifePassed t)])
  | .refresh t => (r.refreshed t, [boolTok (r.refreshFires t), toString (r.refreshed t).refresh])
  | .upd t => ((r.updatedRefreshTime t).1, optToks (fun x => [toString x]) (r.updatedRefreshTime t).2)
  | .nomore => (r.refreshNoMore, [toString r.refreshNoMore.refresh])
  | .reset c ttl => (r.resetTtl (lifeRecord c ttl), lifeToks (r.resetTtl (lifeRecord c ttl)))
  | .updttl t =>
    match r.updateTtl t with
    | .ok r' => (r', ["ok", toString r'.ttl])
    | _ => (r, ["panic"])
  | .remttl t =>
    match r.remainingTtl t with
    | .ok n => (r, ["ok", toString n])
    | _ => (r, ["panic"])
  | .sooner t => (r.setExpireSooner t, [toString (r.setExpireSooner t).expires])
  | .setexp t => (r.setExpire t, [toString (r.setExpire t).expires])
  | .view => (r, lifeToks r)

def execLife (ts : List String) : Option String := do
  let (created, ts) ← P.nat ts
  let (ttl, ts) ← P.nat ts
  let (steps, _) ← P.list pStep ts
  let res := steps.foldl (fun (acc : Record × List String) s =>
    let x := lifeStep acc.1 s
    (x.1, acc.2 ++ x.2)) (lifeRecord created ttl, [])
  pure (joinToks res.2)

/-- What the property says about the life of one record, tracked without the record:
    created at `t` with `ttl` seconds, `k` re-queries made, end of life `e`.
    `sched = false` once the TTL was rewritten by `update_ttl` (the schedule clauses no
    longer apply: the marks are then computed from another TTL). -/
structure LifeSpec where
  t : Nat
  ttl : Nat
  k : Nat
  e : Nat
  sched : Bool

def LifeSpec.fires (s : LifeSpec) (now : Nat) : Bool :=
  decide (now < s.e) && decide (s.k < 4) && decide (markAt s.t s.ttl s.k ≤ now)

def takeToks (n : Nat) (ts : List String) : Option (List String × List String) :=
  if ts.length < n then none else some (ts.take n, ts.drop n)

/-- the clauses of C11 (and `written_ttl` of C10) on the answers the real code gave to one step;
    returns the spec state afterwards, the remaining answer tokens and a failing clause -/
def monLifeStep (s : LifeSpec) (st : Step) (ans : List String) : Option (LifeSpec × List String × Option String) :=
  let chk (n : Nat) (f : List String → LifeSpec × Option String) : Option (LifeSpec × List String × Option String) :=
    (takeToks n ans).map fun (a, rest) => ((f a).1, rest, (f a).2)
  let want (a : List String) (exp : List String) (clause : String) : Option String :=
    if a == exp then none else some clause
  match st with
  | .exp now => chk 1 fun a => (s, want a [boolTok (decide (now ≥ s.e))] "C11.used-until-expiry-and-never-after")
  | .soon now => chk 1 fun a => (s, want a [boolTok (decide (now + 1000 ≥ s.e))] "C11.expires-within-one-second")
  | .due now => chk 1 fun a =>
    (s, if s.sched then want a [boolTok (decide (markAt s.t s.ttl s.k ≤ now))] "C11.refresh-due-at-next-mark" else none)
  | .half now => chk 1 fun a =>
    (s, if s.sched then want a [boolTok (decide (now > s.t + 500 * s.ttl))] "C10.half-of-lifetime" else none)
  | .refresh now => chk 2 fun a =>
    if !s.sched || s.ttl == 0 then (s, none) else
    if s.fires now then
      ({ s with k := s.k + 1 },
       if a.head? != some "1" then some "C11.refresh-missed-at-mark"
       else want (a.drop 1) [toString (markAt s.t s.ttl (s.k + 1))] "C11.refresh-field-not-next-mark")
    else (s, if a.head? != some "0" then
      some (if now ≥ s.e then "C11.refresh-at-or-after-expiry" else if s.k ≥ 4 then "C11.more-than-four-refreshes"
            else "C11.refresh-before-mark") else none)
  | .upd now =>
    if !s.sched || s.ttl == 0 then
      match ans with
      | "none" :: rest => some (s, rest, none)
      | "some" :: _ :: rest => some (s, rest, none)
      | _ => none
    else if s.fires now then
      match ans with
      | "some" :: x :: rest =>
        some ({ s with k := s.k + 1 }, rest, want [x] [toString (markAt s.t s.ttl (s.k + 1))] "C11.refresh-field-not-next-mark")
      | "none" :: rest => some ({ s with k := s.k + 1 }, rest, some "C11.refresh-missed-at-mark")
      | _ => none
    else
      match ans with
      | "none" :: rest => some (s, rest, none)
      | "some" :: _ :: rest => some (s, rest, some "C11.refresh-not-due")
      | _ => none
  | .nomore => chk 1 fun a =>
    ({ s with k := 4 }, if s.sched then want a [toString (s.t + 1000 * s.ttl)] "C11.no-more-refresh" else none)
  | .reset c ttl => chk 4 fun a =>
    -- a fresh copy restarts the schedule from the new TTL; TTL <= 1 (goodbye) gets no refresh
    let k := if ttl > 1 then 0 else 4
    ({ t := c, ttl := ttl, k := k, e := c + 1000 * ttl, sched := true },
     want a [toString ttl, toString c, toString (c + 1000 * ttl), toString (markAt c ttl k)] "C11.fresh-copy-restarts-schedule")
  | .updttl now =>
    match ans with
    | "panic" :: rest =>
      some (s, rest, if s.sched && now ≤ s.t + 500 * s.ttl && s.ttl < 4294967296 then some "C10.written-ttl-panics" else none)
    | "ok" :: x :: rest =>
      let s' := if x == toString s.ttl then s else { s with sched := false }
      some (s', rest,
        if s.sched && now ≤ s.t + 1000 * s.ttl && now ≥ s.t && s.ttl < 4294967296 then
          match x.toNat? with
          | some w => if 1000 * w < s.t + 1000 * s.ttl - now + 1000 ∧ s.t + 1000 * s.ttl - now ≤ 1000 * w then none
                      else some "C10.written-ttl-not-remaining-ttl"
          | none => some "unparsable-observation"
        else none)
    | _ => none
  | .remttl now =>
    match ans with
    | "panic" :: rest => some (s, rest, none)
    | "ok" :: x :: rest =>
      some (s, rest,
        if s.sched && now ≤ s.t + 1000 * s.ttl && now ≥ s.t then
          want [x] [toString ((s.t + 1000 * s.ttl - now) / 1000)] "C10.remaining-ttl"
        else none)
    | _ => none
  | .sooner x => chk 1 fun a =>
    let e := if x < s.e then x else s.e
    ({ s with e := e }, want a [toString e] "C11.expire-sooner")
  | .setexp x => chk 1 fun a => ({ s with e := x }, want a [toString x] "C11.set-expire")
  | .view => chk 4 fun a =>
    (s, if s.sched then
      want a [toString s.ttl, toString s.t, toString s.e, toString (markAt s.t s.ttl s.k)] "C11.record-fields"
    else none)

def monLifeGo : LifeSpec → List Step → List String → Option String
  | _, [], [] => none
  | _, [], _ => some "unparsable-observation"
  | s, st :: rest, ans =>
    match ans with
    | ["panic"] => some "C11.lifetime-function-panics"
    | _ =>
      match monLifeStep s st ans with
      | none => some "unparsable-observation"
      | some (_, _, some c) => some c
      | some (s', ans', none) => monLifeGo s' rest ans'

def monLife (ts impl : List String) : Option String :=
  match (do
    let (created, ts) ← P.nat ts
    let (ttl, ts) ← P.nat ts
    let (steps, _) ← P.list pStep ts
    pure (created, ttl, steps) : Option (Nat × Nat × List Step)) with
  | none => some "bad-op"
  | some (created, ttl, steps) =>
    monLifeGo { t := created, ttl := ttl, k := 0, e := created + 1000 * ttl, sched := true } steps impl

/-! ### suppress / suppress-msg -/

def execSuppress (ts : List String) : Option String := do
  let (mine, ts) ← pDesc ts
  let (other, _) ← pDesc ts
  let m := mine 1000000
  let o := other 1000000
  pure (joinToks [boolTok (m.matchesRec o), boolTok (m.rrdataMatch o), boolTok (m.suppressedByAnswer o)])

/-- The responder clause of C10 on what the real code answered: suppressed exactly when the
    known answer is that same record (owner, type, class, RDATA) with a TTL above half.
    Exactly half is not pinned by the statement. -/
def suppressClause (m o : Record) (suppressed : Bool) : Option String :=
  if suppressed then
    if !m.sameRecord o then some "C10.suppressed-by-a-different-record"
    else if 2 * o.ttl < m.ttl then some "C10.suppressed-by-answer-below-half-ttl"
    else none
  else
    if m.sameRecord o && decide (2 * o.ttl > m.ttl) then
      -- (the second clause names the shape of the repaired defect D18: a listed record that
      -- differs only in the cache-flush bit, the owner's letter case or - addresses - the
      -- interface; kept as its own clause so that a regression is named)
      if m.matchesRec o then some "C10.known-answer-not-honoured"
      else some "C10.known-answer-not-honoured-flush-case-or-interface"
    else none

def monSuppress (ts impl : List String) : Option String :=
  match (do
    let (mine, ts) ← pDesc ts
    let (other, _) ← pDesc ts
    pure (mine 1000000, other 1000000) : Option (Record × Record)) with
  | none => some "bad-op"
  | some (m, o) =>
    match impl with
    | [_, _, s] => if s == "1" || s == "0" then suppressClause m o (s == "1") else some "unparsable-observation"
    | ["panic"] => some "C10.suppression-check-panics"
    | _ => some "unparsable-observation"

/-- a decoded known answer as a record received on interface `(ifName, ifIdx)` -/
def ofWire (ifName : BList) (ifIdx : Nat) (r : Wire.Rec) : Record :=
  let rd : RData := match r.rdata with
    | .a ip => .addr ip ifName ifIdx
    | .aaaa ip => .addr ip ifName ifIdx
    | .ptr a => .ptr a
    | .srv p w port h => .srv p w port h
    | .txt b => .txt b
    | .hinfo c o => .hinfo c o
    | .nsec n b => .nsec n b
  Record.new r.name r.ty r.cls r.flush r.ttl rd 1000000

def pSuppressMsg (ts : List String) : Option (Record × BList × Nat × BList) := do
  let (mine, ts) ← pDesc ts
  let (ifName, ts) ← P.hex ts
  let (ifIdx, ts) ← P.nat ts
  let (pkt, _) ← P.hex ts
  pure (mine 1000000, ifName, ifIdx, pkt)

def execSuppressMsg (ts : List String) : Option String := do
  let (m, ifName, ifIdx, pkt) ← pSuppressMsg ts
  pure (match Wire.decode pkt.toArray with
    | .ok msg => "some " ++ boolTok (m.suppressedBy (msg.answers.map (ofWire ifName ifIdx)))
    | .err => "none"
    | .panic => "panic")

/-- suppressed by the message exactly when one of its answers is that same record with a TTL above half -/
def monSuppressMsg (ts impl : List String) : Option String :=
  match pSuppressMsg ts with
  | none => some "bad-op"
  | some (m, ifName, ifIdx, pkt) =>
    match Wire.decode pkt.toArray, impl with
    | .ok msg, ["some", s] =>
      let answers := msg.answers.map (ofWire ifName ifIdx)
      if s == "1" then
        if answers.any fun o => m.sameRecord o && decide (2 * o.ttl ≥ m.ttl) then none
        else some "C10.suppressed-without-matching-known-answer"
      else if answers.any fun o => m.sameRecord o && decide (2 * o.ttl > m.ttl) && m.matchesRec o then
        some "C10.known-answer-not-honoured"
      else if answers.any fun o => m.sameRecord o && decide (2 * o.ttl > m.ttl) then
        some "C10.known-answer-not-honoured-flush-case-or-interface"
      else none
    | _, ["panic"] => some "C10.suppression-check-panics"
    | _, ["none"] => none
    | _, _ => some "unparsable-observation"

/-! ### cache-seq -/

inductive Cmd where
  | add (created now : Nat) (ifName : BList) (ifIdx : Nat) (forUs : Bool) (mk : Nat → Record)
  | evicta (now : Nat) | evicts (now : Nat)
  | known (name : BList) (ty now : Nat)
  | refptr (ty : BList) (now : Nat) | refst (ty : BList) (now : Nat) | refhosts (ty : BList) (now : Nat)
  | refres (host : BList) (now : Nat)
  | rmtype (ty : BList) | verify (inst : BList) (at_ : Option Nat) | dump

def pCmd : P Cmd
  | "add" :: ts => do
    let (created, ts) ← P.nat ts
    let (now, ts) ← P.nat ts
    let (ifName, ts) ← P.hex ts
    let (ifIdx, ts) ← P.nat ts
    let (forUs, ts) ← P.bool ts
    let (mk, ts) ← pDesc ts
    pure (.add created now ifName ifIdx forUs mk, ts)
  | "evicta" :: ts => (P.nat ts).map fun (t, ts) => (.evicta t, ts)
  | "evicts" :: ts => (P.nat ts).map fun (t, ts) => (.evicts t, ts)
  | "known" :: ts => do
    let (name, ts) ← P.hex ts
    let (ty, ts) ← P.nat ts
    let (now, ts) ← P.nat ts
    pure (.known name ty now, ts)
  | "refptr" :: ts => do
    let (ty, ts) ← P.hex ts
    let (now, ts) ← P.nat ts
    pure (.refptr ty now, ts)
  | "refst" :: ts => do
    let (ty, ts) ← P.hex ts
    let (now, ts) ← P.nat ts
    pure (.refst ty now, ts)
  | "refhosts" :: ts => do
    let (ty, ts) ← P.hex ts
    let (now, ts) ← P.nat ts
    pure (.refhosts ty now, ts)
  | "refres" :: ts => do
    let (h, ts) ← P.hex ts
    let (now, ts) ← P.nat ts
    pure (.refres h now, ts)
  | "rmtype" :: ts => (P.hex ts).map fun (t, ts) => (.rmtype t, ts)
  | "verify" :: ts => do
    let (inst, ts) ← P.hex ts
    let (at_, ts) ← P.opt P.nat ts
    pure (.verify inst at_, ts)
  | "dump" :: ts => some (.dump, ts)
  | _ => none

def knownType (ty : Nat) : Bool := [1, 5, 12, 13, 16, 28, 33, 47, 255].contains ty

def itemToks (x : BList × BList × BList × Nat) : List String :=
  [hexOfBytes x.1, hexOfBytes x.2.1, hexOfBytes x.2.2.1, toString x.2.2.2]

def writtenToks (e : Entry) (now : Nat) : List String :=
  match e.record.updateTtl now with
  | .ok r => ["ok", toString r.ttl]
  | _ => ["panic"]

/-- one command on the model: the cache afterwards and the answer tokens -/
def cmdStep (c : Cache) : Cmd → Cache × List String
  | .add created now ifName ifIdx forUs mk =>
    let r := addOrUpdate c ifName ifIdx (mk created) now forUs
    (r.cache,
     (match r.result with
      | none => ["none"]
      | some (e, isNew) => ["some", boolTok isNew] ++ entryToks e) ++ listToks (fun t => [toString t]) r.timers)
  | .evicta now =>
    let r := evictAddr c now
    (r.1, sortedItems (r.2.map itemToks))
  | .evicts now =>
    let r := evictServices c now
    (r.1, sortedItems (r.2.map fun p => [hexOfBytes p.1, hexOfBytes p.2]))
  | .known name ty now =>
    (c, if knownType ty then listToks (fun e => entryToks e ++ writtenToks e now) (knownAnswers c name ty now) else ["badtype"])
  | .refptr ty now =>
    let r := refreshDuePtr c ty now
    (r.1, sortedNats r.2)
  | .refst ty now =>
    let r := refreshDueSrvTxt c ty now
    (r.cache, sortedItems (r.due.map fun p => hexOfBytes p.1 :: listToks (fun t => [toString t]) p.2) ++ sortedNats r.timers)
  | .refhosts ty now =>
    let r := refreshDueHosts c ty now
    (r.cache, sortedItems (r.due.map fun h => [hexOfBytes h]) ++ sortedNats r.timers)
  | .refres host now =>
    let r := refreshDueResolutions c host now
    (r.1, sortedItems (r.2.map itemToks))
  | .rmtype ty => (removeServiceType c ty, ["-"])
  | .verify inst at_ =>
    let r := serviceVerifyQueries c inst at_
    (r.1, listToks (fun p => [hexOfBytes p.1, toString p.2]) r.2)
  | .dump => (c, dumpToks c)

def execSeq (ts : List String) : Option String := do
  let (cmds, _) ← P.list pCmd ts
  let res := cmds.foldl (fun (acc : Cache × List (List String)) cmd =>
    let x := cmdStep acc.1 cmd
    (x.1, acc.2 ++ [x.2])) (({} : Cache), [])
  pure (joinToks (res.2.intersperse [";"]).flatten)

def splitOnTok (sep : String) (ts : List String) : List (List String) :=
  (ts.foldr (fun t (acc : List String × List (List String)) =>
    if t == sep then ([], acc.1 :: acc.2) else (t :: acc.1, acc.2)) ([], [])) |> fun p => p.1 :: p.2

/-- the dumps are compared without the subtype table and with sorted keys -/
def canon (c : Cache) : Cache :=
  let s := fun (t : Table) => t.mergeSort fun a b => strLe (hexOfBytes a.1) (hexOfBytes b.1)
  { ptr := s c.ptr, srv := s c.srv, txt := s c.txt, addr := s c.addr, nsec := s c.nsec, subtype := [] }

/-- equal except for the four lifetime fields of the record -/
def sameBut (ea eb : Entry) : Bool :=
  let r := ea.record
  let r' : Record := { r with ttl := eb.record.ttl, created := eb.record.created, expires := eb.record.expires, refresh := eb.record.refresh }
  { ea with record := r' } == eb

/-- `flush_rule` evaluated on two dumps of the real cache around one `add_or_update` -/
def addClause (before after : Cache) (ifName : BList) (ifIdx : Nat) (inc : Record) (now : Nat) (forUs : Bool)
    (res : List String) : Option String :=
  match slotOf inc.ty with
  | none => if canon after == canon before && res.head? == some "none" then none else some "C11.unknown-type-changes-cache"
  | some s =>
    let key := keyOf s inc.name
    let b := ((before.table s).get key).getD []
    let a := ((after.table s).get key).getD []
    let rest := fun (c : Cache) => canon (c.setTable s ((c.table s).erase key))
    if rest after != rest before then some "C11.add-touches-other-names"
    else if b.isEmpty && !forUs then
      if a.isEmpty && res.head? == some "none" then none else some "C11.record-not-for-us-stored"
    else
      let isNew := !b.any fun e => e.record.matchesRec inc
      let a' := if isNew then a.drop 1 else a
      -- the entry that is the incoming record itself: first one that matches it
      let selfIdx := b.findIdx fun e => e.record.matchesRec inc
      -- reported as new: not held before, or held as a withdrawn copy (TTL <= 1) that is
      -- announced again (repair of D24)
      let revived := !isNew && ((b[selfIdx]?).map fun e => decide (e.record.ttl ≤ 1 ∧ inc.ttl > 1)).getD false
      if res.take 2 != ["some", boolTok (isNew || revived)] then some "C11.add-result"
      else if isNew && a.head? != some { record := inc, srcName := ifName, srcIdx := ifIdx } then some "C11.new-record-not-stored"
      else if a'.length != b.length then some "C11.entries-lost-or-invented"
      else
        let bad := (List.range b.length).find? fun i =>
          match b[i]?, a'[i]? with
          | some eb, some ea =>
            if !isNew && i == selfIdx then
              -- refreshed from the new copy: its TTL and time of arrival, full lifetime again
              !(ea.record.ttl == inc.ttl && ea.record.created == inc.created && ea.record.expires == inc.created + 1000 * inc.ttl &&
                ea.record.refresh == (if inc.ttl > 1 then markAt inc.created inc.ttl 0 else inc.created + 1000 * inc.ttl) &&
                sameBut ea eb)
            else if inc.flush && shouldFlush inc now eb then
              ea != { eb with record := { eb.record with expires := now + 1000 } }
            else ea != eb
          | _, _ => true
        match bad with
        | none => none
        | some i =>
          if !isNew && i == selfIdx then some "C11.fresh-copy-does-not-restart-lifetime"
          else match b[i]? with
            | some eb => if inc.flush && shouldFlush inc now eb then some "C11.cache-flush-not-applied" else some "C11.record-changed-without-cache-flush"
            | none => some "C11.entries-lost-or-invented"

/-- `evict_exact` evaluated on two dumps around an eviction -/
def evictClause (before after : Cache) (addr : Bool) (now : Nat) : Option String :=
  let exp : Cache := if addr then (evictAddr before now).1 else (evictServices before now).1
  if canon after == canon exp then none
  else
    -- which way is it wrong
    let lost := fun (tb ta : Table) => tb.any fun p => p.2.any fun e =>
      decide (e.record.expires > now) && !(((ta.get p.1).getD []).contains e)
    if lost before.ptr after.ptr || lost before.srv after.srv || lost before.txt after.txt || lost before.addr after.addr
        || lost before.nsec after.nsec then
      some "C11.live-record-evicted"
    else some "C11.expired-record-kept"

/-- querier clause of C10 on one `known` answer, against the dump of the real cache before it -/
def knownClause (c : Cache) (name : BList) (ty now : Nat) (ans : List String) : Option String :=
  if !knownType ty then (if ans == ["badtype"] then none else some "unparsable-observation") else
  match P.list (fun ts => do
      let (e, ts) ← pEntry ts
      match ts with
      | "ok" :: w :: ts => (w.toNat?).map fun w => ((e, some w), ts)
      | "panic" :: ts => some ((e, none), ts)
      | _ => none) ans with
  | none => some "unparsable-observation"
  | some (listed, _) =>
    let held := entriesFor c name ty
    let bad := listed.findSome? fun (e, w) =>
      if !held.contains e then some "C10.known-answer-not-held"
      else if e.record.flush then some "C10.unique-record-listed-as-known-answer"
      else if now > e.record.created + 500 * e.record.ttl then some "C10.known-answer-past-half-life"
      else if 2 * (e.record.expires - now) < 1000 * e.record.ttl then some "C10.known-answer-whose-end-was-brought-forward"
      else match w with
        | none => some "C10.written-ttl-panics"
        | some w =>
          let rem := e.record.created + 1000 * e.record.ttl - now
          if now ≥ e.record.created ∧ ¬ (1000 * w < rem + 1000 ∧ rem ≤ 1000 * w) then some "C10.written-ttl-not-remaining-ttl"
          else none
    match bad with
    | some b => some b
    | none =>
      if held.any fun e => !e.record.flush && decide (now < e.record.created + 500 * e.record.ttl) &&
          decide (2 * (e.record.expires - now) ≥ 1000 * e.record.ttl) && !(listed.any fun p => p.1 == e) then
        some "C10.shared-record-with-more-than-half-left-not-listed"
      else none

structure Pending where
  before : Cache
  check : Cache → Option String

/-- walk the commands with the answers of the real code -/
def monSeqGo : Option Cache → Option Pending → List Cmd → List (List String) → Option String
  | _, _, [], _ => none
  | _, _, _ :: _, [] => some "unparsable-observation"
  | prev, pend, cmd :: cmds, ans :: rest =>
    if ans == ["panic"] then some "C11.cache-function-panics" else
    match cmd with
    | .dump =>
      match pDump ans with
      | none => some "unparsable-observation"
      | some (d, _) =>
        match pend.bind fun p => p.check d with
        | some clause => some clause
        | none => monSeqGo (some d) none cmds rest
    | .add created now ifName ifIdx forUs mk =>
      monSeqGo none (prev.map fun b => { before := b, check := fun a => addClause b a ifName ifIdx (mk created) now forUs ans }) cmds rest
    | .evicta now => monSeqGo none (prev.map fun b => { before := b, check := fun a => evictClause b a true now }) cmds rest
    | .evicts now => monSeqGo none (prev.map fun b => { before := b, check := fun a => evictClause b a false now }) cmds rest
    | .known name ty now =>
      match prev.bind fun c => knownClause c name ty now ans with
      | some clause => some clause
      | none => monSeqGo prev pend cmds rest
    | .verify _ none => monSeqGo prev pend cmds rest
    | _ => monSeqGo none none cmds rest

def monSeq (ts impl : List String) : Option String :=
  match P.list pCmd ts with
  | none => some "bad-op"
  | some (cmds, _) => monSeqGo none none cmds (splitOnTok ";" impl)

/-! ### dispatch -/

def isOp (op : String) : Bool := op == "rec-life" || op == "suppress" || op == "suppress-msg" || op == "cache-seq"

def exec (op : String) (ts : List String) : Option String :=
  match op with
  | "rec-life" => execLife ts
  | "suppress" => execSuppress ts
  | "suppress-msg" => execSuppressMsg ts
  | "cache-seq" => execSeq ts
  | _ => none

def monitor (op : String) (ts impl : List String) : Option String :=
  match op with
  | "rec-life" => monLife ts impl
  | "suppress" => monSuppress ts impl
  | "suppress-msg" => monSuppressMsg ts impl
  | "cache-seq" => monSeq ts impl
  | _ => some "unknown-op"

end Mdns.Driver.C11
