import Mdns.Driver.Sim
import Mdns.Model.Txt
/-
  Monitors of the client-side history properties on REAL traces: C03 (resolved events are
  live received data), C04 (everything advertised is found and resolved, follow-ups),
  C05 (removals on time and only when true), C17 (hostname resolution), C20 (bounded state).

  They are written from the property statements over what was DELIVERED to the daemon
  (the `rx` items of the trace) - independent of the daemon's cache.
-/
namespace Mdns.Driver.MonClient
open Mdns Mdns.Trace Mdns.Driver.Sim

/-- a record as delivered to daemon `d`: iteration index, time, interface, the record
    (TTL 0 already stored as 1 by the decoder for responses) -/
structure Deliv where
  k : Nat
  t : Nat
  ifi : Nat
  /-- the packet's answer-section PTR owner names (for the "for us" rule) -/
  ptrAnswers : List BList
  r : Wire.Rec
  /-- section of the packet the record was in: 0 answer, 1 authority, 2 additional -/
  sect : Nat := 0
  /-- owner names (lower case) of the A / AAAA records in the packet's answer section -/
  addrAnswers : List BList := []
  deriving Repr, Inhabited

def deliveriesOn (links : Option (List (Nat × Bool))) (iters : List Iter) (d : Nat) : List Deliv :=
  iters.zipIdx.flatMap fun ((it, k) : Iter × Nat) =>
    if it.d != d then [] else
    it.rx.flatMap fun ((ifi, v4, _, b) : Nat × Bool × String × BList) =>
      -- a datagram on an interface / family the daemon does not have is dropped by handle_read
      if (links.map fun l => !l.contains (ifi, v4)).getD false then [] else
      match Wire.decode b.toArray with
      | .ok m =>
        if m.flags / 32768 % 2 == 1 then
          let ptrs := (m.answers.filter (·.ty == 12)).map (·.name)
          let addrs := (m.answers.filter fun r => r.ty == 1 || r.ty == 28).map fun r => lower r.name
          let mk (sect : Nat) (r : Wire.Rec) : Deliv := { k, t := it.now, ifi, ptrAnswers := ptrs, r, sect, addrAnswers := addrs }
          m.answers.map (mk 0) ++ m.authorities.map (mk 1) ++ m.additionals.map (mk 2)
        else []
      | _ => []

/-- (interface index, family) pairs of daemon `d` according to the script's `daemon` commands
    (`none` if the script changes interface tables later: then nothing is filtered) -/
def linksOf (script : List Cmd) (d : Nat) : Option (List (Nat × Bool)) :=
  if script.any (fun c => match c with | .ifaces .. => true | _ => false) then none
  else
    ((script.filterMap fun c => match c with | .daemon ifs => some ifs | _ => none)[d]?).map
      fun ifs => ifs.map fun i => (i.index, i.v4)

def deliveries (iters : List Iter) (d : Nat) : List Deliv := deliveriesOn none iters d

/-- the same record: owner (any letter case), type, class, RDATA - and the cache-flush bit,
    because the daemon keeps a copy received with the bit and one received without it as
    two records with their own lifetimes (each justifies what is built from it) -/
def sameKey (a b : Wire.Rec) : Bool :=
  lower a.name == lower b.name && a.ty == b.ty && a.cls == b.cls && a.rdata == b.rdata && a.flush == b.flush

def sameSet (a b : Wire.Rec) : Bool :=
  lower a.name == lower b.name && a.ty == b.ty && a.cls == b.cls

/-- Until when is the record of delivery `x` usable, judging from everything delivered up
    to iteration `kMax` (inclusive): its latest copy's TTL, shortened to one second after a
    cache-flush record of the same name/type/class (same interface for addresses) with other
    RDATA that arrived more than one second after that copy. -/
def validUntilOf (keep : Deliv → Bool) (ds : List Deliv) (x : Deliv) (kMax : Nat) : Nat :=
  let copies := ds.filter fun y => y.k ≤ kMax && sameKey y.r x.r && (!(x.r.ty == 1 || x.r.ty == 28) || y.ifi == x.ifi)
  -- A LOWER bound when `keep` is not constantly true.  A copy the daemon certainly takes in
  -- (`keep`) resets the lifetime.  Another copy - in a packet that is "not for us" - is taken in
  -- exactly when something is still cached under that name, which the monitor does not track:
  -- the record then lives until the earlier of the two possibilities.
  let lb := copies.foldl (fun (acc : Option (Nat × Deliv)) y =>
    let e := y.t + 1000 * y.r.ttl
    if keep y then some (e, y) else acc.map fun ((b, l) : Nat × Deliv) => (min b e, l)) none
  match lb with
  | none => 0
  | some (base, last) =>
    let flushes := ds.filter fun f =>
      f.k ≤ kMax && f.r.flush && sameSet f.r x.r && !sameKey f.r x.r &&
      (!(x.r.ty == 1 || x.r.ty == 28) || f.ifi == x.ifi) &&
      (f.k > last.k || (f.k == last.k && f.t ≥ last.t)) && f.t > last.t + 1000
    flushes.foldl (fun acc f => min acc (f.t + 1000)) base

def validUntil (ds : List Deliv) (x : Deliv) (kMax : Nat) : Nat := validUntilOf (fun _ => true) ds x kMax

/-! ### event token parsers -/

structure AddrTok where
  ip : BList
  ifs : List (BList × Nat)
  deriving Repr, Inhabited, BEq

def pAddrTok : P AddrTok := fun ts => do
  let (ip, ts) ← P.hex ts
  let (ifs, ts) ← P.list (fun ts => do
    let (n, ts) ← P.hex ts
    let (i, ts) ← P.nat ts
    pure ((n, i), ts)) ts
  pure ({ ip, ifs }, ts)

structure Resolved where
  ty : BList
  fullname : BList
  host : BList
  port : Nat
  addrs : List AddrTok
  props : List Txt.TProp
  deriving Repr, Inhabited

def pTProp : P Txt.TProp := fun ts => do
  let (k, ts) ← P.hex ts
  let (v, ts) ← P.opt P.hex ts
  pure ({ key := k, val := v }, ts)

def parseResolved (toks : List String) : Option Resolved :=
  match toks with
  | "resolved" :: ts => do
    let (ty, ts) ← P.hex ts
    let (_, ts) ← P.opt P.hex ts
    let (fullname, ts) ← P.hex ts
    let (host, ts) ← P.hex ts
    let (port, ts) ← P.nat ts
    let (addrs, ts) ← P.list pAddrTok ts
    let (props, _) ← P.list pTProp ts
    pure { ty, fullname, host, port, addrs, props }
  | _ => none

/-- the instance a `resolved` event is about (the subtype token shifts positions) -/
def resolvedName (toks : List String) : Option BList := (parseResolved toks).map (·.fullname)

def ipOf (r : Wire.Rec) : Option BList :=
  match r.rdata with
  | .a ip | .aaaa ip => some ip
  | _ => none

/-! ### C03 -/

/-- `ok_C03`: every ServiceResolved event of daemon `d` is built from records that were
    delivered to it and are still usable at the time of the event. -/
def monitorC03 (script : List Cmd) (iters : List Iter) (d : Nat) : Option String :=
  let ds := deliveriesOn (linksOf script d) iters d
  iters.zipIdx.findSome? fun ((it, k) : Iter × Nat) =>
    if it.d != d then none else
    it.evs.findSome? fun ((_, toks) : Nat × List String) =>
      if toks.headD "" != "resolved" then none else
      match parseResolved toks with
      | none => some "unparsable-resolved-event"
      | some ev =>
        let t := it.now
        -- usable = more than a second of life left: a record in its last second is a goodbye
        -- (TTL 0 is kept for one second), a flushed record, or about to expire - the statement's
        -- "never built from" cases - and the daemon itself never uses such a record
        -- (the event is assembled somewhere between the packets of iteration `k`: a goodbye or a
        -- cache-flush of this very iteration may not have been read yet)
        let live (x : Deliv) : Bool := x.k ≤ k &&
          (decide (t + 1000 < validUntil ds x k) || (x.k < k && decide (t + 1000 < validUntil ds x (k - 1))) ||
           -- ... nor a later copy of this iteration that shortens the life (a goodbye after an
           -- announcement in two packets of one iteration)
           (ds.any fun y => y.k == k && sameKey y.r x.r && (!(x.r.ty == 1 || x.r.ty == 28) || y.ifi == x.ifi) &&
              decide (t + 1000 < y.t + 1000 * y.r.ttl)))
        let srvOk := ds.any fun x => live x && x.r.ty == 33 && lower x.r.name == lower ev.fullname &&
          (match x.r.rdata with | .srv _ _ port h => port == ev.port && lower h == lower ev.host | _ => false)
        if ev.host.isEmpty || ev.addrs.isEmpty then some "resolved-without-host-or-address"
        else if !srvOk then some s!"resolved-host-port-not-from-live-SRV inst={hexOfBytes ev.fullname} t={t}"
        else
          let badAddr := ev.addrs.find? fun a =>
            !(ds.any fun x => live x && (x.r.ty == 1 || x.r.ty == 28) && lower x.r.name == lower ev.host && ipOf x.r == some a.ip)
          match badAddr with
          | some a => some s!"resolved-address-not-live ip={hexOfBytes a.ip} inst={hexOfBytes ev.fullname} t={t}"
          | none =>
            let badIf := ev.addrs.find? fun a =>
              a.ifs.any fun ((_, idx) : BList × Nat) =>
                !(ds.any fun x => live x && x.ifi == idx && (x.r.ty == 1 || x.r.ty == 28) &&
                    lower x.r.name == lower ev.host && ipOf x.r == some a.ip)
            match badIf with
            | some a => some s!"resolved-address-tagged-with-interface-where-it-is-not-live ip={hexOfBytes a.ip} t={t}"
            | none =>
              if ev.props.isEmpty then none
              else
                let txtOk := ds.any fun x => live x && x.r.ty == 16 && lower x.r.name == lower ev.fullname &&
                  (match x.r.rdata with
                   | .txt b => (match Txt.decodeTxtUnique b with | .ok ps => ps == ev.props | _ => false)
                   | _ => false)
                if txtOk then none else some s!"resolved-txt-not-from-live-TXT inst={hexOfBytes ev.fullname} t={t}"

/-! ### C04 -/

/-- is the packet that carried `x` "for us" given the browsed types: it has no PTR answers,
    or one of them is for a browsed type -/
def forUs (browsed : List BList) (x : Deliv) : Bool :=
  x.ptrAnswers.isEmpty || x.ptrAnswers.any fun n => browsed.contains n

/-- types certainly being browsed by daemon `d` when iteration `k` handles its packets: a
    browse processed in an earlier iteration and no stop of it (nor a shutdown) up to `k` -/
def browsedAt (calls : List (Cmd × Nat)) (d k : Nat) : List BList :=
  calls.filterMap fun ((c, k0) : Cmd × Nat) =>
    match c with
    | .browse d' _ ty _ =>
      if d' == d && k0 < k && !(calls.any fun ((c', k') : Cmd × Nat) =>
          match c' with
          | .stopBrowse d'' ty' => d'' == d && ty' == ty && k' ≥ k0 && k' ≤ k
          | .shutdown d'' _ => d'' == d && k' ≤ k
          | _ => false) then some ty else none
    | _ => none

/-- `stop_browse` purges the cache of the type's PTR records, of the SRV / TXT records of their
    instances and of the addresses of their hosts (`remove_service_type`): a record delivered
    in iteration `kx` may be gone at iteration `k` if daemon `d` processed a stop in between -/
def purgedBetween (calls : List (Cmd × Nat)) (d kx k : Nat) : Bool :=
  calls.any fun ((c, ks) : Cmd × Nat) =>
    match c with
    | .stopBrowse d' _ => d' == d && kx ≤ ks && ks ≤ k
    | _ => false

/-- `ok_C04` on loss-free scripted histories of daemon `d`: completeness at every
    iteration boundary for the FIRST browse of each type, and the three follow-up queries. -/
def monitorC04 (script : List Cmd) (iters : List Iter) (d : Nat) : Option String :=
  let ds := deliveriesOn (linksOf script d) iters d
  let calls := processedCalls script iters cmdDaemon
  let itArr := iters.toArray
  let browses := calls.filterMap fun ((c, k0) : Cmd × Nat) =>
    match c with | .browse d' ch ty false => if d' == d then some (ty, ch, k0) else none | _ => none
  let firstBrowses := browses.filter fun ((ty, _, k0) : BList × Nat × Nat) =>
    !(browses.any fun ((ty', _, k') : BList × Nat × Nat) => ty' == ty && k' < k0)
  firstBrowses.findSome? fun ((ty, ch, k0) : BList × Nat × Nat) =>
    -- the browse ends at the first stop / later browse / shutdown of the daemon
    let kEnd := (calls.filterMap fun ((c, k) : Cmd × Nat) =>
      match c with
      | .stopBrowse d' ty' => if d' == d && ty' == ty && k ≥ k0 then some k else none
      | .browse d' _ ty' _ => if d' == d && ty' == ty && k > k0 then some k else none
      | .shutdown d' _ => if d' == d then some k else none
      | .verify d' .. => if d' == d then some k else none      -- verify shortens lifetimes: stop judging
      | _ => none).foldl min itArr.size
    let evs := chanEvents iters d ch
    -- a packet is certainly "for us" when one of its PTR answers is for this browse or for another
    -- type that is certainly being browsed when it arrives (two searches may reach one instance:
    -- its type and a subtype of it)
    let mine (x : Deliv) : Bool := forUs (ty :: browsedAt calls d x.k) x
    (List.range itArr.size).findSome? fun k =>
      if k ≤ k0 || k ≥ kEnd || (itArr[k]?.map (·.d != d)).getD true then none else
      let t := (itArr[k]?.map (·.now)).getD 0
      -- usable, with the one-second margin the daemon itself applies
      let live (x : Deliv) : Bool :=
        x.k > k0 && x.k ≤ k && mine x && !purgedBetween calls d x.k k &&
        -- a copy in a packet that is not for us refreshes a cached record only while one is
        -- still cached; on the safe side it never counts as a refresh here
        decide (t + 1000 < validUntilOf mine ds x k)
      let insts := (ds.filter fun x => live x && x.r.ty == 12 && x.r.name == ty).filterMap fun x =>
        match x.r.rdata with | .ptr n => some n | _ => none
      insts.eraseDups.findSome? fun f =>
        let srvs := ds.filter fun x => live x && x.r.ty == 33 && lower x.r.name == lower f
        let txtLive := ds.any fun x => live x && x.r.ty == 16 && lower x.r.name == lower f
        let hosts := srvs.filterMap fun x => match x.r.rdata with | .srv _ _ _ h => some h | _ => none
        -- the daemon looks addresses up under the host name exactly as the SRV spells it, lower-cased
        let addrLive := hosts.any fun h => ds.any fun x => live x && x.r.ty == 1 && lower x.r.name == lower h
        if srvs.isEmpty || !txtLive || !addrLive then none
        else
          let found := evs.any fun e => e.1 ≤ k && e.2.headD "" == "found" && e.2[2]? == some (hexOfBytes f)
          let resolved := evs.any fun e => e.1 ≤ k && resolvedName e.2 == some f
          -- known finding D24: an instance whose PTR is first seen as a goodbye (TTL 0/1)
          let goodbyeFirst := ((ds.find? fun x => x.r.ty == 12 && (match x.r.rdata with | .ptr g => g == f | _ => false)).map
            fun x => decide (x.r.ttl ≤ 1)).getD false
          if !found && goodbyeFirst then some s!"advertised-instance-not-found-after-goodbye-first inst={hexOfBytes f} t={t}"
          else if !found then some s!"advertised-instance-not-found inst={hexOfBytes f} by-iteration={k} t={t}"
          else if !resolved then
            -- known finding D35: the set became complete through the refresh of a record that was
            -- in its last second (so unusable) when the rest of the set was there; the refreshed
            -- copy is "not new", so nothing looks at the instance again
            let inSet (x : Deliv) : Bool :=
              (x.r.ty == 12 && x.r.name == ty && (match x.r.rdata with | .ptr g => g == f | _ => false)) ||
              ((x.r.ty == 33 || x.r.ty == 16) && lower x.r.name == lower f) ||
              (x.r.ty == 1 && hosts.any fun h => lower x.r.name == lower h)
            let lateRefresh := ds.any fun x => live x && inSet x && ds.any fun y =>
              y.k < x.k && sameKey y.r x.r && y.r.ttl > 1 &&
              decide (x.t < validUntil ds y (x.k - 1)) && decide (validUntil ds y (x.k - 1) ≤ x.t + 1000)
            if lateRefresh then
              some s!"advertised-instance-not-resolved-after-last-second-refresh inst={hexOfBytes f} by-iteration={k} t={t}"
            else some s!"advertised-instance-not-resolved inst={hexOfBytes f} by-iteration={k} t={t}"
          else none

/-- follow-up queries: a PTR for a browsed type arrives for an instance of which no SRV was
    delivered before nor within the next 1.6 s, and stays usable: the daemon asks `ANY inst`
    at +500, +1000 and +1500 ms (event-driven run: exactly) -/
def monitorC04Followups (script : List Cmd) (iters : List Iter) (d : Nat) : Option String :=
  let ds := deliveriesOn (linksOf script d) iters d
  let calls := processedCalls script iters cmdDaemon
  let browses := calls.filterMap fun ((c, k0) : Cmd × Nat) =>
    match c with | .browse d' _ ty false => if d' == d then some (ty, k0) else none | _ => none
  -- (a browse_cache of a type makes it cache-only - the last browse / browse_cache call decides,
  -- repair of D23 / D23b - and a cache-only browse asks nothing: it ends the active browse)
  let ends := calls.filterMap fun ((c, k) : Cmd × Nat) =>
    match c with
    | .stopBrowse d' _ | .shutdown d' _ => if d' == d then some k else none
    | .browse d' _ _ true => if d' == d then some k else none
    | _ => none
  let tEnd := (iters.getLast?.map (·.now)).getD 0
  ds.findSome? fun x =>
    match x.r.rdata with
    | .ptr f =>
      -- the type is being browsed ACTIVELY when the PTR arrives (a browse stopped before does not
      -- count, nor one replaced by a browse_cache: the last call for the type, in processing
      -- order, up to the PTR's iteration must be an active browse)
      let lastKind := (calls.filterMap fun ((c, k0) : Cmd × Nat) =>
        match c with
        | .browse d' _ ty co => if d' == d && ty == x.r.name && k0 ≤ x.k then some co else none
        | _ => none).getLast?
      let browsed := (browses.any fun ((ty, k0) : BList × Nat) => ty == x.r.name && k0 < x.k) &&
        (browsedAt calls d x.k).contains x.r.name && lastKind == some false
      let firstPtr := !(ds.any fun y => y.k < x.k && y.r.ty == 12 && (match y.r.rdata with | .ptr g => lower g == lower f | _ => false))
      let srvSoon := ds.any fun y => y.r.ty == 33 && lower y.r.name == lower f && y.t ≤ x.t + 1600
      let stoppedSoon := ends.any fun k => k ≥ x.k && ((iters.toArray[k]?.map (·.now)).getD 0) ≤ x.t + 1600
      if x.r.ty != 12 || !browsed || !firstPtr || srvSoon || stoppedSoon || x.r.ttl < 4 || !forUs [x.r.name] x
          || x.t + 1600 > tEnd || (f.filter (· == 0x2E)).length < 4 then none
      else
        let asked (at_ : Nat) : Bool := iters.any fun it => it.d == d && it.now == at_ && askedIn it f [255]
        if asked (x.t + 500) && asked (x.t + 1000) && asked (x.t + 1500) then none
        else some s!"missing-follow-up-query inst={hexOfBytes f} ptr-at={x.t}"
    | _ => none

/-! ### C05 -/

/-- `ok_C05`: removals only when true, on time after a goodbye / PTR expiry, quiet afterwards. -/
def monitorC05 (script : List Cmd) (iters : List Iter) (d : Nat) : Option String :=
  let ds := deliveriesOn (linksOf script d) iters d
  let calls := processedCalls script iters cmdDaemon
  let itArr := iters.toArray
  let verified := calls.any fun ((c, _) : Cmd × Nat) => match c with | .verify d' .. => d' == d | _ => false
  let ifaceChange := script.any fun c => match c with | .ifaces .. => true | _ => false
  -- soundness
  let unsound := iters.zipIdx.findSome? fun ((it, k) : Iter × Nat) =>
    if it.d != d then none else
    it.evs.findSome? fun ((_, toks) : Nat × List String) =>
      match toks with
      | ["removed", tyH, instH] =>
        match bytesOfHex tyH, bytesOfHex instH with
        | some ty, some f =>
          let t := it.now
          -- "live" with the one-second margin of a goodbye: a record with at most a second
          -- left (TTL 0 or 1 just received) counts as withdrawn
          -- ... and only records of packets the daemon certainly took in: no PTR answers, or
          -- one for a type being browsed then (the parenthesis in C04's statement: packets that
          -- are solely answers to someone else's browse are not cached)
          -- (a copy in such a packet refreshes a cached record only while one is cached: here,
          -- on the safe side, it never counts as a refresh, but its cache-flush bit does count)
          let us (x : Deliv) : Bool := forUs (browsedAt calls d x.k) x
          -- The event is emitted somewhere inside iteration `k`, between its packets: only what
          -- was delivered in EARLIER iterations can be held against it, and a goodbye or a
          -- cache-flush inside iteration `k` may already have taken effect.
          -- a verify request caps the lifetime of the instance's SRV and address records at
          -- request + timeout until an answer renews them: a record not delivered again after
          -- the request (in a later iteration) may be gone from that deadline on
          let capped (x : Deliv) : Bool := calls.any fun ((c, kv) : Cmd × Nat) =>
            match c with
            | .verify d' _ ms =>
              d' == d && kv ≤ k && decide (((itArr[kv]?.map (·.now)).getD 0) + ms ≤ t + 1000) &&
              !(ds.any fun y => us y && y.k > kv && y.k < k && sameKey y.r x.r)
            | _ => false
          let live (x : Deliv) : Bool := x.k < k && us x && !purgedBetween calls d x.k k && !capped x &&
            decide (t + 1000 < validUntilOf us ds x (k - 1)) && decide (t + 1000 < validUntilOf us ds x k) &&
            !(ds.any fun y => y.k == k && sameKey y.r x.r && y.r.ttl ≤ 1)
          let ptrLive := ds.any fun x => live x && x.r.ty == 12 && x.r.name == ty &&
            (match x.r.rdata with | .ptr g => g == f | _ => false)
          let srvs := ds.filter fun x => live x && x.r.ty == 33 && lower x.r.name == lower f
          let addrLive := srvs.any fun s =>
            match s.r.rdata with
            | .srv _ _ _ h => ds.any fun x => live x && (x.r.ty == 1 || x.r.ty == 28) && lower x.r.name == lower h
            | _ => false
          if ptrLive && !srvs.isEmpty && addrLive && !ifaceChange then
            -- known finding D43: an instance with several live SRV records (different targets):
            -- the daemon looks at the first usable one only
            let targets := (srvs.map fun s => s.r.rdata).eraseDups
            if targets.length ≥ 2 then some s!"removed-while-another-SRV-and-its-address-live inst={hexOfBytes f} t={t}"
            else some s!"removed-while-PTR-SRV-and-address-live inst={hexOfBytes f} t={t}"
          else none
        | _, _ => some "unparsable-removed-event"
      | _ => none
  -- timeliness after a goodbye of the PTR of a reported instance
  let late := ds.findSome? fun x =>
    match x.r.rdata with
    | .ptr f =>
      -- a goodbye: TTL 1 (was 0 on the wire) for a PTR whose earlier copy had a longer life
      let earlier := ds.any fun y => y.k < x.k && sameKey y.r x.r && y.r.ttl > 1 && decide (x.t < validUntil ds y (x.k - 1))
      -- another copy (a repeated goodbye or a re-announcement) within the second restarts the clock
      let renewed := ds.any fun y => y.k > x.k && sameKey y.r x.r && y.t ≤ x.t + 1000
      -- the browse channel on which it was reported, still open one second later
      let reportedOn := calls.findSome? fun ((c, k0) : Cmd × Nat) =>
        match c with
        | .browse d' ch ty false =>
          if d' == d && ty == x.r.name && k0 < x.k &&
             (chanEvents iters d ch).any (fun e => e.1 ≤ x.k && e.2.headD "" == "found" && e.2[2]? == some (hexOfBytes f)) &&
             !(chanEvents iters d ch).any (fun e => e.2.headD "" == "stopped") &&
             !(calls.any fun ((c', k') : Cmd × Nat) =>
                 match c' with | .browse d'' _ ty' _ => d'' == d && ty' == ty && k' > k0 | .shutdown d'' _ => d'' == d | _ => false)
          then some ch else none
        | _ => none
      let tEnd := (iters.getLast?.map (·.now)).getD 0
      if x.r.ty != 12 || x.r.ttl != 1 || !earlier || renewed || x.t + 1000 > tEnd then none
      else match reportedOn with
        | none => none
        | some ch =>
          let due := x.t + 1000
          let got := (chanEvents iters d ch).any fun e =>
            e.2 == ["removed", hexOfBytes x.r.name, hexOfBytes f] &&
            ((itArr[e.1]?.map (·.now)).getD 0) ≥ x.t && ((itArr[e.1]?.map (·.now)).getD 0) ≤ due
          if got then none else some s!"no-ServiceRemoved-one-second-after-goodbye inst={hexOfBytes f} goodbye-at={x.t}"
    | _ => none
  -- quiet after a removal: a later resolved needs a delivery in between
  let noisy := iters.zipIdx.findSome? fun ((it, k) : Iter × Nat) =>
    if it.d != d then none else
    it.evs.findSome? fun ((ch, toks) : Nat × List String) =>
      match toks with
      | ["removed", _, instH] =>
        let later := (chanEvents iters d ch).find? fun e => e.1 > k && (resolvedName e.2).map hexOfBytes == some instH
        match later with
        | none => none
        | some e =>
          -- (packets of iteration `k` itself may have been read after the removal was sent)
          if ds.any (fun x => x.k ≥ k && x.k ≤ e.1) then none
          else some s!"ServiceResolved-after-ServiceRemoved-without-new-records inst={instH}"
      | _ => none
  -- completeness at the expiry of the last SRV record: an instance that a still open browse has
  -- reported, whose PTR stays alive, loses its ONLY SRV record by plain TTL expiry (no goodbye,
  -- no flush, no verify, never refreshed): ServiceRemoved is owed at that moment
  let verifiedAny := calls.any fun ((c, _) : Cmd × Nat) => match c with | .verify d' .. => d' == d | _ => false
  let tEnd := (iters.getLast?.map (·.now)).getD 0
  let srvGone := if verifiedAny || ifaceChange then none else ds.findSome? fun x =>
    match x.r.rdata with
    | .srv .. =>
      let f := x.r.name
      -- the only SRV record ever delivered for this instance (any copies of it included)
      let others := ds.any fun y => y.r.ty == 33 && lower y.r.name == lower f && !sameKey y.r x.r
      let lastCopy := !(ds.any fun y => sameKey y.r x.r && (y.k > x.k))
      let e := x.t + 1000 * x.r.ttl
      let taken := forUs (browsedAt calls d x.k) x
      if others || !lastCopy || x.r.ttl ≤ 1 || !taken || e + 1500 > tEnd then none else
      -- a browse channel that found the instance before and is open until after `e`
      let chans := calls.filterMap fun ((c, k0) : Cmd × Nat) =>
        match c with
        | .browse d' ch ty false =>
          let found := (chanEvents iters d ch).any fun ev => ev.2.headD "" == "found" && ev.2[2]? == some (hexOfBytes f) &&
            ((itArr[ev.1]?.map (·.now)).getD 0) < e
          let closed := (chanEvents iters d ch).any (fun ev => ev.2.headD "" == "stopped") ||
            calls.any fun ((c', k') : Cmd × Nat) =>
              match c' with
              | .browse d'' _ ty' _ => d'' == d && ty' == ty && k' > k0
              | .stopBrowse d'' ty' => d'' == d && ty' == ty
              | .shutdown d'' _ => d'' == d
              | _ => false
          if d' == d && found && !closed then some (ch, ty) else none
        | _ => none
      chans.findSome? fun ((ch, ty) : Nat × BList) =>
        -- its PTR (for that type) is alive well beyond `e`
        let ptrAlive := ds.any fun y => y.r.ty == 12 && y.r.name == ty && (match y.r.rdata with | .ptr g => lower g == lower f | _ => false) &&
          decide (e + 2000 < validUntil ds y (iters.length))
        -- removed already (for another reason) or at the expiry
        let removedBy := (chanEvents iters d ch).any fun ev =>
          ev.2.headD "" == "removed" && ev.2[2]? == some (hexOfBytes f) && ((itArr[ev.1]?.map (·.now)).getD 0) ≤ e + 1000
        if ptrAlive && !removedBy then some s!"no-ServiceRemoved-when-the-last-SRV-ran-out inst={hexOfBytes f} expiry={e}"
        else none
    | _ => none
  unsound <|> late <|> noisy <|> srvGone

/-! ### C17 -/

def parseAddrsEvent (toks : List String) : Option (String × BList × List AddrTok) :=
  match toks with
  | kind :: ts => do
    let (host, ts) ← P.hex ts
    let (addrs, _) ← P.list pAddrTok ts
    pure (kind, host, addrs)
  | [] => none

/-- `ok_C17`: AddressesFound only lists usable addresses received for that host (any letter
    case), tagged with the receiving interface; AddressesRemoved only lists addresses whose
    records are no longer usable; an address reported and then expiring while the search is
    open is reported removed at its expiry. -/
def monitorC17 (script : List Cmd) (iters : List Iter) (d : Nat) : Option String :=
  let ds := deliveriesOn (linksOf script d) iters d
  let itArr := iters.toArray
  iters.zipIdx.findSome? fun ((it, k) : Iter × Nat) =>
    if it.d != d then none else
    it.evs.findSome? fun ((_, toks) : Nat × List String) =>
      let kind := toks.headD ""
      if kind != "hfound" && kind != "hremoved" then none else
      match parseAddrsEvent toks with
      | none => some "unparsable-address-event"
      | some (_, host, addrs) =>
        let t := it.now
        if kind == "hfound" then
          -- unexpired at the instant of the event, the expiry millisecond included (`<`, as
          -- `Props.C17.hfound_unexpired`): events are assembled before the eviction of the same
          -- iteration, so this is `get_addresses_for_host`'s own expiry filter (repair of D44)
          let bad := addrs.find? fun a =>
            !(ds.any fun x => x.k ≤ k && (x.r.ty == 1 || x.r.ty == 28) && lower x.r.name == lower host &&
                ipOf x.r == some a.ip && decide (t < validUntil ds x k) &&
                a.ifs.all fun ((_, idx) : BList × Nat) => ds.any fun y => y.k ≤ k && y.ifi == idx && sameKey y.r x.r)
          match bad with
          | some a =>
            -- (was the known finding D44, repaired: a failing clause like the other) the label
            -- tells the histories in which the script moved the clock by hand - a late iteration -
            -- from the rest
            if script.any (fun c => match c with | .now _ => true | _ => false) then
              some s!"AddressesFound-lists-expired-address-on-late-iteration ip={hexOfBytes a.ip} t={t}"
            else some s!"AddressesFound-lists-address-not-live-or-wrong-interface ip={hexOfBytes a.ip} t={t}"
          | none => if addrs.isEmpty then some "AddressesFound-empty" else none
        else
          -- some record of that address must have run out by now
          let verified := script.any fun c => match c with | .verify .. => true | _ => false
          let bad := addrs.find? fun a =>
            !(ds.any fun x => x.k ≤ k && (x.r.ty == 1 || x.r.ty == 28) && lower x.r.name == lower host &&
                ipOf x.r == some a.ip && decide (validUntil ds x k ≤ t))
          match bad with
          | some a =>
            if verified || !(itArr[k]?.map (fun i => i.rx.isEmpty)).getD true then none
            else some s!"AddressesRemoved-lists-address-with-no-expired-record ip={hexOfBytes a.ip} t={t}"
          | none => none

/-- `ok_C17`, completeness: while a search for a host name is open, an address record for that
    name (any letter case) that reaches the daemon - for the first time in the history, with a
    TTL above one second, in a packet the daemon takes in (no PTR answers, or a PTR answer of a
    browsed type, or an address answer for a searched host: `handle_response`'s "for us" rule;
    or any packet once accept_unsolicited is on) - is reported through AddressesFound on the
    search's channel in the very iteration that reads the packet. -/
def monitorC17Complete (script : List Cmd) (iters : List Iter) (d : Nat) : Option String :=
  let ds := deliveriesOn (linksOf script d) iters d
  let calls := processedCalls script iters cmdDaemon
  let itArr := iters.toArray
  let timeOf (k : Nat) := (itArr[k]?.map (·.now)).getD 0
  -- searches of daemon d: (channel, host lower-cased, first iteration, last iteration it is certainly open)
  let openAt (h : BList) (k0 : Nat) (to : Option Nat) (k : Nat) : Bool :=
    k0 < k &&
    !(calls.any fun ((c', k') : Cmd × Nat) =>
        match c' with
        | .stopResolve d' h' => d' == d && lower h' == lower h && k' ≥ k0 && k' ≤ k
        | .resolve d' _ h' _ => d' == d && lower h' == lower h && k' > k0 && k' ≤ k
        | .shutdown d' _ => d' == d && k' ≤ k
        | _ => false) &&
    (match to with | some ms => decide (timeOf k + 1 < timeOf k0 + ms) | none => true)
  let searches := calls.filterMap fun ((c, k0) : Cmd × Nat) =>
    match c with | .resolve d' ch h to => if d' == d then some (ch, h, k0, to) else none | _ => none
  let ifaceChange := script.any fun c => match c with | .ifaces .. => true | _ => false
  if ifaceChange then none else
  searches.findSome? fun ((ch, h, k0, to) : Nat × BList × Nat × Option Nat) =>
    ds.findSome? fun x =>
      if !((x.r.ty == 1 || x.r.ty == 28) && lower x.r.name == lower h && x.r.ttl > 1 && openAt h k0 to x.k) then none else
      let searchedHosts := searches.filterMap fun ((_, h', k0', to') : Nat × BList × Nat × Option Nat) =>
        if openAt h' k0' to' x.k then some (lower h') else none
      let takenIn := x.ptrAnswers.isEmpty || (x.ptrAnswers.any fun n => (browsedAt calls d x.k).contains n) ||
        x.addrAnswers.any fun n => searchedHosts.contains n
      let firstEver := !(ds.any fun y => y.k < x.k && (y.r.ty == 1 || y.r.ty == 28) && lower y.r.name == lower h &&
        ipOf y.r == ipOf x.r)
      if !takenIn || !firstEver then none else
      match ipOf x.r with
      | none => none
      | some ip =>
        let reported := (chanEvents iters d ch).any fun e =>
          e.1 == x.k && e.2.headD "" == "hfound" &&
          (match parseAddrsEvent e.2 with
           | some (_, _, addrs) => addrs.any fun a => a.ip == ip
           | none => false)
        if reported then none
        else some s!"address-of-searched-host-not-reported host={hexOfBytes h} ip={hexOfBytes ip} t={x.t}"

/-! ### C20 -/

def metricOf (toks : List String) (key : String) : Nat :=
  ((toks.find? (·.startsWith (key ++ "="))).bind fun t => (t.drop (key.length + 1)).toString.toNat?).getD 0

/-- `ok_C20`, first clause: at a `metrics` reading taken when every search of the daemon has
    ended and every delivered record's life is over, the daemon reports no cached record
    and no timer beyond the periodic interface check. -/
def monitorC20 (script : List Cmd) (iters : List Iter) (d : Nat) : Option String :=
  let ds := deliveriesOn (linksOf script d) iters d
  let calls := processedCalls script iters cmdDaemon
  iters.zipIdx.findSome? fun ((it, k) : Iter × Nat) =>
    if it.d != d then none else
    it.evs.findSome? fun ((_, toks) : Nat × List String) =>
      if toks.headD "" != "metrics" then none else
      let t := it.now
      -- searches open at this point
      let openBrowse := calls.any fun ((c, k0) : Cmd × Nat) =>
        match c with
        | .browse d' _ ty _ =>
          d' == d && k0 ≤ k && !(calls.any fun ((c', k') : Cmd × Nat) =>
            match c' with | .stopBrowse d'' ty' => d'' == d && ty' == ty && k' ≥ k0 && k' ≤ k | _ => false)
        | .resolve d' _ h to =>
          d' == d && k0 ≤ k && !(calls.any fun ((c', k') : Cmd × Nat) =>
            match c' with | .stopResolve d'' h' => d'' == d && lower h' == lower h && k' ≥ k0 && k' ≤ k | _ => false) &&
          (match to with
           | some ms => decide (t < ((iters.toArray[k0]?.map (·.now)).getD 0) + ms)
           | none => true)
        | _ => false
      let allOver := ds.all fun x => x.k ≤ k && decide (x.t + 1000 * x.r.ttl + 1000 < t)
      -- timers of retransmissions that a stop removed stay in the heap until their time (at
      -- most one hour later): the timer clause is judged only an hour after the last command
      -- (metrics readings arm nothing: they do not count, nor do calls after this reading)
      let lastCall := (calls.filterMap fun ((c', k') : Cmd × Nat) =>
        match c' with
        | .metrics .. => none
        | _ => if k' ≤ k then some ((iters.toArray[k']?.map (·.now)).getD 0) else none).foldl max 0
      if openBrowse || !allOver then none
      else
        let m (key : String) := metricOf toks key
        if m "cached-ptr" > 0 || m "cached-addr" > 0 then
          some s!"expired-data-not-forgotten cached-ptr={m "cached-ptr"} cached-addr={m "cached-addr"} t={t}"
        else if m "cached-srv" > 0 || m "cached-txt" > 0 || m "cached-nsec" > 0 then
          -- known finding D19: SRV/TXT/NSEC records that no PTR points to are never evicted
          some s!"expired-orphan-srv-txt-nsec-not-forgotten cached-srv={m "cached-srv"} cached-txt={m "cached-txt"} cached-nsec={m "cached-nsec"} t={t}"
        else if m "timer" > 1 && t > lastCall + 3700000 then
          some s!"timers-left-after-everything-expired timer={m "timer"} t={t}"
        else none

/-- `ok_C20`, second clause: at every `metrics` reading the number of cached records is at
    most the number of usable delivered records that some search of this history needs:
    PTRs of browsed types, SRV/TXT of the instances they point to, addresses of the hosts
    of those SRVs and of resolved host names. -/
def monitorC20Unrequested (script : List Cmd) (iters : List Iter) (d : Nat) : Option String :=
  let ds := deliveriesOn (linksOf script d) iters d
  let calls := processedCalls script iters cmdDaemon
  let browsed := calls.filterMap fun ((c, _) : Cmd × Nat) =>
    match c with | .browse d' _ ty _ => if d' == d then some ty else none | _ => none
  let hostsAsked := calls.filterMap fun ((c, _) : Cmd × Nat) =>
    match c with | .resolve d' _ h _ => if d' == d then some (lower h) else none | _ => none
  let insts := (ds.filter fun x => x.r.ty == 12 && browsed.contains x.r.name).filterMap fun x =>
    match x.r.rdata with | .ptr n => some (lower n) | _ => none
  let hosts := hostsAsked ++ ((ds.filter fun x => x.r.ty == 33 && insts.contains (lower x.r.name)).filterMap fun x =>
    match x.r.rdata with | .srv _ _ _ h => some (lower h) | _ => none)
  let needed (x : Deliv) : Bool :=
    (x.r.ty == 12 && browsed.contains x.r.name) ||
    ((x.r.ty == 33 || x.r.ty == 16 || x.r.ty == 47) && insts.contains (lower x.r.name)) ||
    ((x.r.ty == 1 || x.r.ty == 28 || x.r.ty == 47) && hosts.contains (lower x.r.name))
  iters.zipIdx.findSome? fun ((it, k) : Iter × Nat) =>
    if it.d != d then none else
    it.evs.findSome? fun ((_, toks) : Nat × List String) =>
      if toks.headD "" != "metrics" then none else
      let t := it.now
      -- distinct needed records delivered so far (an upper bound of what the searches need)
      let neededKeys := (ds.filter fun x => x.k ≤ k && needed x).foldl
        (fun (acc : List Wire.Rec) x => if acc.any (sameKey · x.r) then acc else x.r :: acc) []
      let cachedTotal := ["cached-ptr", "cached-srv", "cached-txt", "cached-addr", "cached-nsec"].foldl
        (fun acc key => acc + metricOf toks key) 0
      -- the subtype table (instance -> subtype) is filled from subtype PTR records "for us" only:
      -- at most one entry per instance named by a PTR whose owner has `._sub.` and whose packet
      -- the daemon takes in (a browsed type among its PTR answers, or accept_unsolicited on)
      let accept := script.any fun c => match c with | .other ("accept" :: _) => true | _ => false
      let isSub (n : BList) : Bool := decide (((String.ofList (n.map fun b => Char.ofNat b.toNat)).splitOn "._sub.").length ≥ 2)
      let subInsts := ((ds.filter fun x => x.k ≤ k && x.r.ty == 12 && isSub x.r.name &&
          (accept || x.ptrAnswers.isEmpty || x.ptrAnswers.any fun n => browsed.contains n)).filterMap fun x =>
        match x.r.rdata with | .ptr n => some n | _ => none).eraseDups
      if cachedTotal > neededKeys.length then
        some s!"unrequested-data-kept cached={cachedTotal} needed<={neededKeys.length} t={t}"
      else if metricOf toks "cached-subtype" > subInsts.length then
        some s!"subtype-table-holds-entries-nobody-asked-for cached-subtype={metricOf toks "cached-subtype"} for-us<={subInsts.length} t={t}"
      else none

/-- `ok_C17`, removals: an address that was reported on an open search and whose every record
    ran out by plain TTL expiry (never refreshed, no goodbye, no flush; the only address record
    of that host with that address) is reported through AddressesRemoved at that moment. -/
def monitorC17Removed (script : List Cmd) (iters : List Iter) (d : Nat) : Option String :=
  let ds := deliveriesOn (linksOf script d) iters d
  let calls := processedCalls script iters cmdDaemon
  let itArr := iters.toArray
  let timeOf (k : Nat) := (itArr[k]?.map (·.now)).getD 0
  let tEnd := (iters.getLast?.map (·.now)).getD 0
  let odd := script.any fun c => match c with | .ifaces .. | .now _ | .verify .. | .shutdown .. => true | _ => false
  if odd then none else
  let searches := calls.filterMap fun ((c, k0) : Cmd × Nat) =>
    match c with | .resolve d' ch h to => if d' == d then some (ch, h, k0, to) else none | _ => none
  searches.findSome? fun ((ch, h, k0, to) : Nat × BList × Nat × Option Nat) =>
    -- the search stays open to the end of the history
    let ended := to.isSome || calls.any fun ((c', k') : Cmd × Nat) =>
      match c' with
      | .stopResolve d' h' => d' == d && lower h' == lower h && k' ≥ k0
      | .resolve d' _ h' _ => d' == d && lower h' == lower h && k' > k0
      | _ => false
    if ended then none else
    ds.findSome? fun x =>
      if !((x.r.ty == 1 || x.r.ty == 28) && lower x.r.name == lower h && x.r.ttl > 1 && x.k > k0) then none else
      -- the only delivery of an address record of this host with this address (any spelling, bit)
      let only := !(ds.any fun y => (y.r.ty == 1 || y.r.ty == 28) && lower y.r.name == lower h && ipOf y.r == ipOf x.r &&
        !(y.k == x.k && y.t == x.t && y.r == x.r))
      -- nothing flushes it: no other address record of the host with the cache-flush bit later
      let flushed := ds.any fun y => y.k > x.k && y.r.flush && y.r.ty == x.r.ty && lower y.r.name == lower h
      let e := x.t + 1000 * x.r.ttl
      match ipOf x.r with
      | none => none
      | some ip =>
        let listed (kind : String) (lo hi : Nat) : Bool := (chanEvents iters d ch).any fun ev =>
          ev.2.headD "" == kind && timeOf ev.1 ≥ lo && timeOf ev.1 ≤ hi &&
          (match parseAddrsEvent ev.2 with | some (_, _, addrs) => addrs.any fun a => a.ip == ip | none => false)
        if !only || flushed || e + 1500 > tEnd || !listed "hfound" 0 e then none
        else if listed "hremoved" (e - 1000) (e + 1000) then none
        else some s!"no-AddressesRemoved-when-the-address-ran-out host={hexOfBytes h} ip={hexOfBytes ip} expiry={e}"

end Mdns.Driver.MonClient
