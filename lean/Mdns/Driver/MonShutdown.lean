import Mdns.Driver.Sim
/-
  Monitor of C14 on real traces: `sim C14` bursts (a shutdown at some position of a queue
  of commands of daemon 1) and `stress-shutdown` runs on real threads.
-/
namespace Mdns.Driver.MonShutdown
open Mdns Mdns.Trace Mdns.Driver.Sim

/-- decode with the QR bit cleared, so that a TTL of 0 is not turned into 1 -/
def decodeRaw (b : BList) : Option Wire.Msg :=
  match b with
  | i0 :: i1 :: f0 :: rest =>
    match Wire.decode (i0 :: i1 :: (f0 &&& 0x7F) :: rest).toArray with
    | .ok m => some m
    | _ => none
  | _ => none

def escapeLabel (l : BList) : BList :=
  l.flatMap fun b => if b == 0x2E || b == 0x5C then [0x5C, b] else [b]

/-- (daemon, lower-case full name as on the wire) of a `register` command -/
def registerOf : Cmd → Option (Nat × BList)
  | .register d ty inst .. =>
    -- the base type (after `._sub.` if any)
    let tyS := String.ofList (ty.map fun b => Char.ofNat b.toNat)
    let base := match tyS.splitOn "._sub." with
      | [_, b] => b.toList.map fun c => UInt8.ofNat c.toNat
      | _ => ty
    some (d, lower (inst ++ [0x2E] ++ base))
  | _ => none

def cmdChan : Cmd → Option (Nat × Nat)
  | .browse d ch .. | .resolve d ch .. | .unregister d ch _ | .monitor d ch | .shutdown d ch
  | .status d ch | .metrics d ch => some (d, ch)
  | _ => none

/-- `ok_C14` on a burst history; the daemon under test is `dut` -/
def monitorBurst (script : List Cmd) (iters : List Iter) (dut : Nat) : Option String :=
  let cmdArr := script.toArray
  let itArr := iters.toArray
  -- API calls of the daemon under test: (command index, result, processing iteration)
  let calls : List (Nat × String × Option Nat) := iters.zipIdx.flatMap fun ((it, k) : Iter × Nat) =>
    it.calls.filterMap fun ((i, r) : Nat × String) =>
      match cmdArr[i]? with
      | some c =>
        let d := match c with
          | .register d .. => some d
          | _ => cmdDaemon c
        if d == some dut then some (i, r, procIter iters k dut) else none
      | none => none
  let shutIdx := calls.findSome? fun ((i, r, _) : Nat × String × Option Nat) =>
    match cmdArr[i]? with | some (.shutdown ..) => if r == "ok" then some i else none | _ => none
  match shutIdx with
  | none => none
  | some si =>
    let kStar := ((calls.find? (·.1 == si)).bind (·.2.2)).getD (10 ^ 9)
    let endIters := (iters.zipIdx.filter fun ((it, _) : Iter × Nat) => it.d == dut && it.ended.isSome).map (·.2)
    let evsOf (ch : Nat) := chanEvents iters dut ch
    let closedCh (ch : Nat) := iters.any fun it => it.closed.contains ch
    if endIters != [kStar] then some s!"thread-does-not-end-exactly-once-with-the-shutdown ends={endIters} shutdown-iteration={kStar}"
    else if (itArr[kStar]?.bind (·.ended)) == some true then some "daemon-thread-panicked"
    else
      -- (1) the caller of shutdown gets Shutdown
      let shutCh := (cmdArr[si]?.bind cmdChan).map (·.2)
      let gotStatus := shutCh.any fun ch => (evsOf ch).any fun e => e.2 == ["status", "shutdown"]
      if !gotStatus then some "no-Shutdown-status-for-the-caller-of-shutdown" else
      -- (2) a goodbye for every service that was announced and is still registered
      let announced (name : BList) : Bool := iters.zipIdx.any fun ((it, k) : Iter × Nat) =>
        k < kStar && it.d == dut && it.evs.any fun e => e.2.headD "" == "announce" && (e.2[1]?.bind bytesOfHex).map lower == some name
      let unregisteredBefore (name : BList) : Bool := calls.any fun ((i, r, _) : Nat × String × Option Nat) =>
        i < si && r == "ok" && (match cmdArr[i]? with | some (.unregister _ _ n) => lower n == name | _ => false)
      let services := (calls.filterMap fun ((i, r, k) : Nat × String × Option Nat) =>
        if r == "ok" && k.any (· < kStar) then (cmdArr[i]?.bind registerOf).map (·.2) else none).eraseDups
      let goodbyeFor (name : BList) : Bool := (itArr[kStar]?.map fun it => it.tx.any fun ((_, _, _, b) : Nat × Bool × String × BList) =>
        match decodeRaw b with
        | some m => m.answers.any fun r => r.ty == 12 && r.ttl == 0 && (match r.rdata with | .ptr n => lower n == name | _ => false)
        | none => false).getD false
      match services.find? fun n => announced n && !unregisteredBefore n && !goodbyeFor n with
      | some n => some s!"no-goodbye-at-shutdown service={hexOfBytes n}"
      | none =>
        -- (3) SearchStopped, last, on every search channel opened before the shutdown
        -- a search replaced by a later search for the same type / host (any letter case for
        -- hosts) or stopped by a later stop call is not open any more
        let laterSame (i : Nat) (c : Cmd) : Bool := calls.any fun ((j, r, _) : Nat × String × Option Nat) =>
          j > i && j < si && r == "ok" &&
          (match c, cmdArr[j]? with
           | .browse _ _ ty _, some (.browse _ _ ty' _) => ty == ty'
           | .browse _ _ ty _, some (.stopBrowse _ ty') => ty == ty'
           | .resolve _ _ h _, some (.resolve _ _ h' _) => lower h == lower h'
           | .resolve _ _ h _, some (.stopResolve _ h') => lower h == lower h'
           | _, _ => false)
        let searchChans := calls.filterMap fun ((i, r, k) : Nat × String × Option Nat) =>
          if r == "ok" && i < si && k.any (· ≤ kStar) then
            match cmdArr[i]? with
            | some (.browse d ch ty false) => if laterSame i (.browse d ch ty false) then none else some (ch, "stopped")
            | some (.resolve d ch h t) => if laterSame i (.resolve d ch h t) then none else some (ch, "hstopped")
            | _ => none
          else none
        let badSearch := searchChans.find? fun ((ch, stop) : Nat × String) =>
          let evs := evsOf ch
          -- a search that had already ended (stop_browse, time-out, replaced) is not open
          let endedBefore := evs.any fun e => e.1 < kStar && e.2.headD "" == stop
          let replaced := closedCh ch && evs.all fun e => e.1 < kStar
          !evs.isEmpty && !endedBefore && !replaced &&
            !((evs.getLast?.map fun e => e.1 == kStar && e.2.headD "" == stop).getD false)
        match badSearch with
        | some (ch, _) => some s!"open-search-without-final-SearchStopped-at-shutdown ch={ch}"
        | none =>
          -- (4) every command of the queue is settled: value (in front of Exit) or closed (behind)
          let queue := calls.filter fun ((i, r, k) : Nat × String × Option Nat) => r == "ok" && k == some kStar && i != si
          let unsettled := queue.find? fun ((i, _, _) : Nat × String × Option Nat) =>
            match cmdArr[i]? with
            | some c =>
              match c, cmdChan c with
              | .metrics .., some (_, ch) | .status .., some (_, ch) | .unregister .., some (_, ch) | .shutdown .., some (_, ch) =>
                let gotValue := !(evsOf ch).isEmpty
                if i < si then !gotValue else gotValue || !closedCh ch
              | _, _ => false
            | none => false
          match unsettled with
          | some (i, _, _) => some s!"queued-command-neither-answered-nor-closed cmd={i} {if i < si then "in-front-of" else "behind"}-shutdown"
          | none =>
            -- (5) calls after the end fail with DaemonShutdown; status() reports Shutdown
            let late := calls.filter fun ((i, _, k) : Nat × String × Option Nat) => k.isNone && i > si
            let badLate := late.find? fun ((i, r, _) : Nat × String × Option Nat) =>
              match cmdArr[i]? with
              | some (.status _ ch) => !(r == "ok" && (evsOf ch).any fun e => e.2 == ["status", "shutdown"]) &&
                                       !(iters.any fun it => it.evs.any fun e => e.1 == ch && e.2 == ["status", "shutdown"])
              | _ => r != "shutdown"
            match badLate with
            | some (i, r, _) => some s!"call-after-shutdown-does-not-fail-with-DaemonShutdown cmd={i} result={r}"
            | none => none

def measureOf (key : String) (ts : List String) : Option Nat :=
  (ts.find? (·.startsWith (key ++ "="))).bind fun t => (t.drop (key.length + 1)).toString.toNat?

/-- `ok_C14` on a real-thread run: no panic, no call or reply left hanging, nothing succeeds
    after the Shutdown status was seen, the status arrives -/
def monitorStress (impl : List String) : Option String :=
  let (obs, meas) := impl.span (· != "|")
  if obs != ["ok"] then some "stress-run-failed"
  else if (measureOf "panics" meas).getD 1 > 0 then some "call-panics-during-shutdown"
  else if (measureOf "blocked" meas).getD 1 > 0 || (measureOf "stuck-threads" meas).getD 1 > 0 then
    some "call-or-reply-blocks-for-ever"
  else if (measureOf "after-ok" meas).getD 1 > 0 then some "call-succeeds-after-Shutdown-status"
  else if (measureOf "shutdown-status" meas).getD 0 != 1 then some "no-Shutdown-status"
  else none

end Mdns.Driver.MonShutdown
