import Mdns.Model.Delay
/-
  Line-protocol executor and monitor for the C19 component op (harness/src/c19.rs):
  backoff <browse|hostname> <namehex> <t0> <k>  ->  ok <first offset> <k-1> <gap ms>*
-/
namespace Mdns.Driver.C19
open Mdns Mdns.Delay

def pOp : P Nat := fun ts => do
  let (_, ts) ← P.tok ts
  let (_, ts) ← P.hex ts
  let (_, ts) ← P.nat ts
  P.nat ts

def exec (op : String) (ts : List String) : Option String :=
  match op with
  | "backoff" => do
    let (k, _) ← pOp ts
    -- no query asked for: the harness has no first send time to report
    if k = 0 then pure "err" else
    pure (match gaps (k - 1) with
      | .ok gs => joinToks (["ok", "0"] ++ listToks (fun g => [toString g]) gs)
      | .err => "err"
      | .panic => "panic")
  | _ => none

/-- `delay_seq` / `delay_closed` on the observed gaps: the first query goes out at once, gap
    number `n` is `1000 * min (2^n) 3600` ms: never 0, never shrinking, never above one hour. -/
def monitor (op : String) (ts impl : List String) : Option String :=
  match op with
  | "backoff" =>
    match pOp ts with
    | none => some "bad-op"
    | some (k, _) =>
      match impl with
      | ["panic"] => some "search-panics"
      | "ok" :: first :: rest =>
        match P.list P.nat rest with
        | none => some "unparsable-observation"
        | some (gs, _) =>
          if first != "0" then some "first-query-not-sent-at-once"
          else if gs.length + 1 != k && k != 0 then some "search-stops-querying"
          else if gs != (List.range gs.length).map (fun n => 1000 * min (2 ^ n) 3600) then
            some "gaps-are-not-1-2-4-capped-at-one-hour"
          else none
      | _ => some "unparsable-observation"
  | _ => some "unknown-op"

end Mdns.Driver.C19
