import Mdns.Driver.MonResponder
import Mdns.Driver.MonClient
import Mdns.Model.Names
/-
  C08 at daemon level (`sim C08` histories): two or three daemons on one loss-free link claim the
  same instance and host name with different data.  Judged on the real traces of all daemons:

  * outcome: at the end exactly one daemon holds the contested instance name, every daemon is
    announced, no two daemons announce the same instance name or (letter case aside) the same
    host name with different addresses;
  * renames are the ones the statement asks for (`Names.nameChange` / `hostnameChange`, the
    functions the theorems of Props/C08 are about) and are reported by a NameChange event;
  * after its rename a daemon uses the new names in everything it sends.
-/
namespace Mdns.Driver.MonDuel
open Mdns Mdns.Trace Mdns.Driver.Sim Mdns.Driver.MonResponder

/-- registrations of the script: (daemon, full instance name lower-cased, host lower-cased, ips) -/
def scriptRegs (script : List Cmd) : List (Nat × BList × BList × List String) :=
  script.filterMap fun c => match c with
    | .register d ty inst host _ ips .. => some (d, fullOf ty inst, lower host, ips)
    | _ => none

def daemonsOf (script : List Cmd) : Nat :=
  (script.filter fun c => match c with | .daemon _ => true | _ => false).length

/-- unsolicited announcements of daemon `d`, in order: (iteration, instance lower, host lower, addresses) -/
def announcedBy (iters : List Iter) (d : Nat) : List (Nat × BList × BList × List BList) :=
  (sentBy iters d).filterMap fun p =>
    if !(p.resp && p.dest == "m") then none else
    match p.m.answers.find? fun r => r.ty == 12 && r.ttl > 0 with
    | none => none
    | some ptr =>
      match ptr.rdata with
      | .ptr inst =>
        match p.m.answers.find? fun r => r.ty == 33 && r.ttl > 0 && lower r.name == lower inst with
        | some srv =>
          match srv.rdata with
          | .srv _ _ _ h =>
            some (p.k, lower inst, lower h,
              (p.m.answers.filter fun r => (r.ty == 1 || r.ty == 28) && lower r.name == lower h).filterMap MonClient.ipOf)
          | _ => none
        | none => none
      | _ => none

/-- name change events of daemon `d`: (iteration, old, new, rrtype) -/
def nameChanges (iters : List Iter) (d : Nat) : List (Nat × BList × BList × Nat) :=
  iters.zipIdx.flatMap fun ((it, k) : Iter × Nat) =>
    if it.d != d then [] else
    it.evs.filterMap fun ((_, toks) : Nat × List String) =>
      match toks with
      | ["namechange", o, n, ty, _] => do pure (k, ← bytesOfHex o, ← bytesOfHex n, ← ty.toNat?)
      | _ => none

/-- the names the statement allows a loser to end with: the original counted up 1..4 times -/
def renamesOf (host : Bool) (orig : BList) : List BList :=
  let step (s : BList) : BList :=
    match (if host then Names.hostnameChange s else Names.nameChange s) with
    | .ok s' => s'
    | _ => s
  let r1 := step orig
  let r2 := step r1
  let r3 := step r2
  [r1, r2, r3, step r3]

def monitor (script : List Cmd) (iters : List Iter) : Option String :=
  let nd := daemonsOf script
  let regs := scriptRegs script
  let quiet := !(script.any fun c => match c with
    | .unregister .. | .shutdown .. | .ifaces .. | .now _ | .inject .. => true
    | _ => false)
  if nd < 2 || !quiet || !plainNames script then none else
  -- the end of the history is the script's last `run` (idle daemons make no iterations)
  let tEnd := script.foldl (fun acc c => match c with | .run u => max acc u | _ => acc) 0
  -- time of the last registration (the script's clock at that command)
  let lastReg := (script.foldl (fun (acc : Nat × Nat) c => match c with
    | .run u => (u, acc.2)
    | .register .. => (acc.1, acc.1)
    | _ => acc) (0, 0)).2
  let settled := tEnd ≥ lastReg + 10000
  -- groups of daemons claiming one instance name
  let names := (regs.map (·.2.1)).eraseDups
  let outcome := names.findSome? fun full =>
    let ds := ((regs.filter fun o => o.2.1 == full).map (·.1)).eraseDups
    if ds.length < 2 || !settled then none else
    -- same data on both sides is no conflict
    let finals := ds.map fun d => (d, (announcedBy iters d).getLast?)
    match finals.find? fun f => f.2.isNone with
    | some f => some s!"duel-daemon-never-announced d={f.1} name={hexOfBytes full}"
    | none =>
      let fin := finals.filterMap fun f => f.2.map fun a => (f.1, a.2.1, a.2.2.1, a.2.2.2)
      let holders := fin.filter fun f => f.2.1 == full
      let dupInst := fin.find? fun a => fin.any fun b => a.1 != b.1 && a.2.1 == b.2.1
      let dupHost := fin.find? fun a => fin.any fun b => a.1 != b.1 && a.2.2.1 == b.2.2.1 && a.2.2.2 != b.2.2.2
      let origAsApi := ((script.filterMap fun c => match c with
        | .register _ ty inst .. => if fullOf ty inst == full then some (inst ++ [0x2E] ++ baseType ty) else none
        | _ => none).head?).getD full
      let allowed := (renamesOf false origAsApi).map lower
      let odd := fin.find? fun f => f.2.1 != full && !allowed.contains f.2.1
      -- sub-cases with their own clause names (known findings D38 / D39): host names that the
      -- daemons spell in different letter case; instance names with upper-case letters
      let hostSpellings := ((script.filterMap fun c => match c with
        | .register _ ty inst host .. => if fullOf ty inst == full then some host else none
        | _ => none).eraseDups)
      let caseVariantHosts := hostSpellings.any fun a => hostSpellings.any fun b => a != b && lower a == lower b
      let mixedCaseInst := origAsApi != lower origAsApi
      if holders.length != 1 then some s!"duel-not-exactly-one-holder-of-the-name name={hexOfBytes full} holders={holders.map (·.1)}"
      else match dupInst, dupHost, odd with
        | some a, _, _ =>
          if mixedCaseInst then some s!"duel-two-daemons-announce-one-instance-name-with-upper-case-letters name={hexOfBytes a.2.1}"
          else some s!"duel-two-daemons-announce-one-instance-name name={hexOfBytes a.2.1}"
        | _, some a, _ =>
          -- a host name nobody registered: two losers chose the same new name (known finding D42)
          let renamedHost := !(hostSpellings.any fun h => lower h == a.2.2.1)
          if caseVariantHosts then some s!"duel-host-name-in-two-letter-cases-held-by-two-daemons host={hexOfBytes a.2.2.1}"
          else if renamedHost then some s!"duel-renamed-host-name-held-by-two-daemons host={hexOfBytes a.2.2.1}"
          else some s!"duel-host-name-held-by-two-daemons-with-different-addresses host={hexOfBytes a.2.2.1}"
        | _, _, some f => some s!"duel-loser-name-not-counted-up d={f.1} name={hexOfBytes f.2.1}"
        | _, _, _ => none
  -- renames: as specified, and used from then on
  let renames := (List.range nd).findSome? fun d =>
    let pk := sentBy iters d
    (nameChanges iters d).findSome? fun ((k, o, n, ty) : Nat × BList × BList × Nat) =>
      let host := ty == 1 || ty == 28
      -- (after several conflicts in a row the event names the original and the latest name)
      if !(renamesOf host o).contains n then
        some s!"rename-not-as-specified d={d} old={hexOfBytes o} new={hexOfBytes n}"
      else
        -- a later registration of the old name by this daemon makes it legitimate again
        let old := lower o
        let stale := pk.find? fun p => p.k > k && p.resp &&
          (p.m.answers ++ p.m.additionals).any fun r =>
            (lower r.name == old && (r.ty == 33 || r.ty == 16 || r.ty == 1 || r.ty == 28)) ||
            (match r.rdata with | .ptr t => lower t == old | .srv _ _ _ h => host && lower h == old | _ => false)
        -- ... unless the old name came back through another rename chain (not in these histories)
        match stale with
        | some p => some s!"old-name-used-after-rename d={d} old={hexOfBytes o} t={p.t}"
        | none => none
  outcome <|> renames

/-- C08, one daemon against an injected responder: "if, while probing, a daemon sees a response
    claiming one of its names with different data, it does not take the name".  Judged on
    histories with ONE registration (no re-registration, unregister, shutdown, clock jump):

    a response read in iteration `k` carries a record (TTL > 1) of type SRV / TXT / A / AAAA whose
    owner - any letter case - is a name the daemon has been PROBING for (its own record of that
    name and type was in the authority section of a probe query sent before `k`), with RDATA that
    none of the daemon's own records of that name and type has, and the daemon has not announced
    the name yet - all on ONE interface.  Then the daemon never announces (unsolicited multicast
    response, TTL > 0) a record of that name and type on that interface afterwards: it has to pick
    a new name there. -/
def monitorConflict (script : List Cmd) (iters : List Iter) (d : Nat) : Option String :=
  let nreg := (script.filter fun c => match c with | .register .. => true | _ => false).length
  let calm := !(script.any fun c => match c with
    | .unregister .. | .shutdown .. | .ifaces .. | .now _ => true
    | .other ("enable" :: _) | .other ("disable" :: _) => true
    | _ => false)
  if daemonsOf script != 1 || nreg != 1 || !calm || !plainNames script then none else
  let pk := sentBy iters d
  let rxs := readBy iters d
  rxs.findSome? fun x =>
    if !x.resp then none else
    (x.m.answers ++ x.m.additionals).findSome? fun r' =>
      if r'.ttl ≤ 1 || !(r'.ty == 33 || r'.ty == 16 || r'.ty == 1 || r'.ty == 28) then none else
      -- our own records of that name and type, as the probes sent before `k` carried them
      -- (names are claimed per link: every interface has its own registry, a conflict seen on
      -- one interface renames there; other interfaces are not judged)
      let ours := (pk.filter fun q => q.k < x.k && !q.resp && q.ifi == x.ifi).flatMap fun q =>
        q.m.authorities.filter fun o => lower o.name == lower r'.name && o.ty == r'.ty
      if ours.isEmpty || ours.any (fun o => o.rdata == r'.rdata) then none else
      let announcedBefore := pk.any fun p => p.k < x.k && p.resp && p.dest == "m" && p.ifi == x.ifi &&
        p.m.answers.any fun o => lower o.name == lower r'.name && o.ty == r'.ty && o.ttl > 0
      if announcedBefore then none else
      (pk.find? fun p => p.k ≥ x.k && p.resp && p.dest == "m" && p.ifi == x.ifi &&
          (iters.toArray[p.k]?.map fun it => it.rx.isEmpty || p.k > x.k).getD false &&
          p.m.answers.any fun o => lower o.name == lower r'.name && o.ty == r'.ty && o.ttl > 0).map fun p =>
        s!"conflict-while-probing-but-name-kept name={hexOfBytes r'.name} ty={r'.ty} conflict-at={x.t} announced-at={p.t}"

/-- The converse of `monitorConflict`: no rename without a conflict.  In a calm history with one
    registration, when NO response read by the daemon carries, under one of the names the daemon
    probes for (any letter case), a record whose RDATA differs from every record of that name
    and type the daemon itself probes with - a peer that repeats our own data, with or without
    the cache-flush bit, in whatever spelling, claims nothing - the daemon keeps its names: no
    NameChange event. -/
def monitorNoRename (script : List Cmd) (iters : List Iter) (d : Nat) : Option String :=
  let nreg := (script.filter fun c => match c with | .register .. => true | _ => false).length
  let calm := !(script.any fun c => match c with
    | .unregister .. | .shutdown .. | .ifaces .. | .now _ => true
    | .other ("enable" :: _) | .other ("disable" :: _) => true
    | _ => false)
  if daemonsOf script != 1 || nreg != 1 || !calm || !plainNames script then none else
  let pk := sentBy iters d
  let rxs := readBy iters d
  let mine := (pk.filter fun q => !q.resp).flatMap fun q => q.m.authorities
  -- our names and addresses as registered (a doubled `.local.` is cut by the crate)
  let regs := scriptRegs script
  let dbl : BList := [0x2E, 0x6C, 0x6F, 0x63, 0x61, 0x6C, 0x2E, 0x6C, 0x6F, 0x63, 0x61, 0x6C, 0x2E]
  let hostForms := regs.flatMap fun o => [o.2.2.1, if dbl.isSuffixOf o.2.2.1 then o.2.2.1.take (o.2.2.1.length - 6) else o.2.2.1]
  let ourIps := regs.flatMap fun o => o.2.2.2.filterMap SimResponder.parseIp
  let fulls := regs.map (·.2.1)
  let claims := rxs.any fun x =>
    -- (a competing PROBE - a query with authority records - is a tiebreak, not judged here)
    (!x.resp && !x.m.authorities.isEmpty) ||
    (x.resp && (x.m.answers ++ x.m.additionals).any fun r' =>
      match r'.rdata with
      | .a ip | .aaaa ip =>
        -- ours on this link: registered AND inside a subnet of the receiving interface (an address
        -- of the service that the daemon does not use on this link is somebody else's there)
        let onLink := (MonResponder.ifaceTable script d).getD [] |>.any fun i => i.index == x.ifi &&
          (match SimResponder.parseIp i.ip with
           | some ifIp => ifIp.length == ip.length && Intf.validIpOnIntf ip ifIp (SimResponder.maskOctets ip.length i.prefixLen)
           | none => false)
        hostForms.contains (lower r'.name) && !(ourIps.contains ip && onLink)
      | _ =>
        (r'.ty == 33 || r'.ty == 16) && fulls.contains (lower r'.name) &&
          !(mine.any fun o => lower o.name == lower r'.name && o.ty == r'.ty && o.rdata == r'.rdata))
  if claims then none else
  (nameChanges iters d).head?.map fun ((_, o, n, _) : Nat × BList × BList × Nat) =>
    s!"renamed-although-nobody-claimed-the-name-with-different-data old={hexOfBytes o} new={hexOfBytes n}"

end Mdns.Driver.MonDuel
