import Mdns.Model.Decode
/-
  Token rendering / parsing of messages, the `decode` op and the C01 monitor.
-/
namespace Mdns.Driver.Wire
open Mdns Mdns.Wire

def rdataToks : RData → List String
  | .a ip => ["a", hexOfBytes ip]
  | .aaaa ip => ["aaaa", hexOfBytes ip]
  | .ptr n => ["ptr", hexOfBytes n]
  | .srv p w port h => ["srv", toString p, toString w, toString port, hexOfBytes h]
  | .txt b => ["txt", hexOfBytes b]
  | .hinfo c o => ["hinfo", hexOfBytes c, hexOfBytes o]
  | .nsec n b => ["nsec", hexOfBytes n, hexOfBytes b]

def recToks (r : Rec) : List String :=
  [hexOfBytes r.name, toString r.ty, toString r.cls, boolTok r.flush, toString r.ttl] ++ rdataToks r.rdata

def qToks (q : Question) : List String :=
  [hexOfBytes q.name, toString q.ty, toString q.cls, boolTok q.flush]

def msgToks (m : Msg) : List String :=
  [toString m.id, toString m.flags] ++ listToks qToks m.questions ++ listToks recToks m.answers ++
    listToks recToks m.authorities ++ listToks recToks m.additionals

def pRData : P RData
  | "a" :: ts => (P.hex ts).map fun (b, ts) => (.a b, ts)
  | "aaaa" :: ts => (P.hex ts).map fun (b, ts) => (.aaaa b, ts)
  | "ptr" :: ts => (P.hex ts).map fun (b, ts) => (.ptr b, ts)
  | "txt" :: ts => (P.hex ts).map fun (b, ts) => (.txt b, ts)
  | "srv" :: ts => do
    let (p, ts) ← P.nat ts
    let (w, ts) ← P.nat ts
    let (port, ts) ← P.nat ts
    let (h, ts) ← P.hex ts
    pure (.srv p w port h, ts)
  | "hinfo" :: ts => do
    let (c, ts) ← P.hex ts
    let (o, ts) ← P.hex ts
    pure (.hinfo c o, ts)
  | "nsec" :: ts => do
    let (n, ts) ← P.hex ts
    let (b, ts) ← P.hex ts
    pure (.nsec n b, ts)
  | _ => none

def pRec : P Rec := fun ts => do
  let (name, ts) ← P.hex ts
  let (ty, ts) ← P.nat ts
  let (cls, ts) ← P.nat ts
  let (flush, ts) ← P.bool ts
  let (ttl, ts) ← P.nat ts
  let (rd, ts) ← pRData ts
  pure ({ name, ty, cls, flush, ttl, rdata := rd, start := 0, stop := 0 }, ts)

def pQ : P Question := fun ts => do
  let (name, ts) ← P.hex ts
  let (ty, ts) ← P.nat ts
  let (cls, ts) ← P.nat ts
  let (flush, ts) ← P.bool ts
  pure ({ name, ty, cls, flush }, ts)

def pMsg : P Msg := fun ts => do
  let (id, ts) ← P.nat ts
  let (flags, ts) ← P.nat ts
  let (qs, ts) ← P.list pQ ts
  let (an, ts) ← P.list pRec ts
  let (au, ts) ← P.list pRec ts
  let (ad, ts) ← P.list pRec ts
  pure ({ id, flags, questions := qs, answers := an, authorities := au, additionals := ad }, ts)

def exec (op : String) (ts : List String) : Option String :=
  match op with
  | "decode" => do
    let (b, _) ← P.hex ts
    pure (match decode b.toArray with
      | .ok m => joinToks ("ok" :: msgToks m)
      | .err => "err"
      | .panic => "panic")
  | _ => none

def measure (key : String) (ts : List String) : Option Nat :=
  (ts.find? (·.startsWith (key ++ "="))).bind fun t => (t.drop (key.length + 1)).toString.toNat?

/-- `ok_C01`: outcome is a message or an error; every name is at most 255 bytes; entry
    counts and copied bytes are linear in the datagram length (the conclusion of
    `decode_linear`); responses carry no TTL 0; the measured peak allocation of the real
    decoder stays under `256 * len + 64 KiB`. -/
def monitor (op : String) (ts impl : List String) : Option String :=
  match op with
  | "decode" =>
    match P.hex ts with
    | none => some "bad-op"
    | some (b, _) =>
      let (obs, meas) := impl.span (· != "|")
      let memOk := match measure "peak" meas with
        | some p => p ≤ 256 * b.length + 65536
        | none => true
      match obs with
      | ["panic"] => some "decode-panics"
      | ["hang"] => some "decode-does-not-terminate"
      | ["abort"] => some "decode-aborts-process"
      | ["err"] => if memOk then none else some "allocation-not-linear"
      | "ok" :: rest =>
        match pMsg rest with
        | none => some "unparsable-observation"
        | some (m, _) =>
          let recs := m.answers ++ m.authorities ++ m.additionals
          if (msgNames m).any (·.length > MAX_NAME_LEN) then some "name-longer-than-255"
          else if 12 + 5 * m.questions.length + 11 * recs.length > b.length then some "more-entries-than-bytes"
          else if (recs.map (rdataBytes ·.rdata)).sum > b.length then some "rdata-larger-than-datagram"
          else if m.flags / 32768 % 2 == 1 && recs.any (·.ttl == 0) then some "ttl0-in-response"
          else if !memOk then some "allocation-not-linear"
          else none
      | _ => some "unparsable-observation"
  | _ => some "unknown-op"

end Mdns.Driver.Wire
