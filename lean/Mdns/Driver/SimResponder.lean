import Mdns.Spec.Trace
import Mdns.Model.Responder
/-
  `sim` ops with registrations on ONE daemon: correspondence of the responder model
  (`Model/Responder.lean`) with real daemon histories.

  The model is run over the implementation's iteration times, API calls (those that
  returned ok), datagrams read (`Iter.rx`) and jitter values; per iteration the canonical
  projections are compared:
    packets   (ifIdx, family, destination, id, flags, sorted questions, per section the sorted
              records WITH class, cache-flush bit, TTL and RDATA, names in their letter case) -
              the real bytes are decoded by the Lean wire decoder (`Model/Decode.lean`);
    events    monitor events, unregister replies, the shutdown reply, the end of the thread;
    wake-up   the earliest timer requested at the next gate.
  Packets of one iteration are compared as a multiset, records inside a section as a set
  with multiplicity (sorted): the Rust iterates hash maps there.
-/
namespace Mdns.Driver.SimResponder
open Mdns Mdns.Trace

/-! ### textual IP addresses -/

def parseV4 (s : String) : Option BList :=
  let parts := s.splitOn "."
  if parts.length != 4 then none
  else parts.mapM fun p => do
    let n ← p.toNat?
    if n < 256 then some (UInt8.ofNat n) else none

def hexGroup (s : String) : Option Nat :=
  if s.isEmpty || s.length > 4 then none
  else s.toList.foldlM (fun acc c => (hexVal c).map (acc * 16 + ·)) 0

def groupsOf (s : String) : Option (List Nat) :=
  if s.isEmpty then some [] else (s.splitOn ":").mapM hexGroup

/-- `Ipv6Addr::from_str` for the forms the generators use (hex groups, one optional `::`) -/
def parseV6 (s : String) : Option BList :=
  let gs : Option (List Nat) :=
    match s.splitOn "::" with
    | [all] => (groupsOf all).bind fun g => if g.length == 8 then some g else none
    | [l, r] => do
      let gl ← groupsOf l
      let gr ← groupsOf r
      if gl.length + gr.length > 7 then none
      else some (gl ++ List.replicate (8 - gl.length - gr.length) 0 ++ gr)
    | _ => none
  gs.map fun g => g.flatMap fun x => [UInt8.ofNat (x / 256), UInt8.ofNat (x % 256)]

def parseIp (s : String) : Option BList := if s.contains ':' then parseV6 s else parseV4 s

/-- the octets of the netmask of a prefix length -/
def maskOctets (bytes p : Nat) : BList :=
  (List.range bytes).map fun k =>
    let bits := if p ≥ 8 * (k + 1) then 8 else if p ≤ 8 * k then 0 else p - 8 * k
    UInt8.ofNat (256 - 2 ^ (8 - bits))

/-- `Zeroconf::new`: interfaces grouped by index, in the order of the table -/
def buildIntfs (ifs : List Iface) : Option (List Responder.MyIntf) :=
  ifs.foldlM (fun (acc : List Responder.MyIntf) i => do
    let ip ← parseIp i.ip
    let a := (ip, maskOctets ip.length i.prefixLen)
    if acc.any (·.index == i.index) then
      some (acc.map fun m => if m.index == i.index && !m.addrs.contains a then { m with addrs := m.addrs ++ [a] } else m)
    else some (acc ++ [{ name := i.name, index := i.index, addrs := [a] }])) []

/-! ### canonical text of packets and events -/

def rdataStr : Wire.RData → String
  | .a ip => "a:" ++ hexOfBytes ip
  | .aaaa ip => "aaaa:" ++ hexOfBytes ip
  | .ptr n => "ptr:" ++ hexOfBytes n
  | .srv p w port h => s!"srv:{p}:{w}:{port}:" ++ hexOfBytes h
  | .txt b => "txt:" ++ hexOfBytes b
  | .hinfo c o => "hinfo:" ++ hexOfBytes c ++ ":" ++ hexOfBytes o
  | .nsec n b => "nsec:" ++ hexOfBytes n ++ ":" ++ hexOfBytes b

def recStr (sec : String) (r : Wire.Rec) : String :=
  s!"{sec}:{hexOfBytes r.name}:{r.ty}:{r.cls}:{boolTok r.flush}:{r.ttl}:{rdataStr r.rdata}"

def pktStr (id flags : Nat) (qs : List (BList × Nat × Nat)) (an ns ar : List Wire.Rec) : String :=
  s!"id={id} fl={flags} " ++ ",".intercalate (sortStrings (
    (qs.map fun (n, t, c) => s!"q:{hexOfBytes n}:{t}:{c}") ++
    an.map (recStr "an") ++ ns.map (recStr "ns") ++ ar.map (recStr "ar")))

/-- the name as it reads after a trip over the wire: `write_name` splits the text into labels
    (`parse_escaped_name`), the decoder joins the labels with dots WITHOUT escaping -/
def wireName (n : BList) : BList := (Names.wireLabels n).flatMap (· ++ [0x2E])

def wireRData : Wire.RData → Wire.RData
  | .ptr n => .ptr (wireName n)
  | .srv p w port h => .srv p w port (wireName h)
  | r => r

def wireRec (r : Responder.RR) : Wire.Rec := { r.wire with name := wireName r.getName, rdata := wireRData r.rdata }

def modelPktStr (p : Responder.Packet) : String :=
  pktStr p.id p.flags (p.questions.map fun (n, t) => (wireName n, t, 1)) (p.answers.map wireRec)
    (p.authorities.map wireRec) (p.additionals.map wireRec)

/-- the real packet, decoded with the QR bit cleared so that the decoder keeps the TTLs as
    they are on the wire (`DnsIncoming` turns TTL 0 of a response into 1) -/
def implPktStr (b : BList) : String :=
  match b with
  | i0 :: i1 :: f0 :: rest =>
    match Wire.decode (i0 :: i1 :: (f0 &&& 0x7F) :: rest).toArray with
    | .ok m =>
      pktStr m.id (m.flags + (if f0 ≥ 0x80 then 32768 else 0))
        (m.questions.map fun q => (q.name, q.ty, q.cls + (if q.flush then 32768 else 0)))
        m.answers m.authorities m.additionals
    | _ => "raw:" ++ hexOfBytes b
  | _ => "raw:" ++ hexOfBytes b

/-- events of one iteration are compared as a multiset: the order of `NameChange` and
    `Announce` events inside one iteration comes from hash iteration (`probing`,
    `waiting_services`, `my_services`) -/
def numberEvents (evs : List (Nat × String)) : List String := evs.map fun e => s!"e {e.1} {e.2}"

def sortedIps (ips : List BList) : String := joinToks (sortStrings (ips.map hexOfBytes))

/-- the `Announce` payload of `register_service` is `format!("{:?}", Vec<IpAddr>)`; its order
    comes from hash iteration, so the addresses are parsed and sorted -/
def announceInfo (info : BList) : String :=
  match String.fromUTF8? info.toByteArray with
  | some s =>
    if s.startsWith "[" && s.endsWith "]" then
      let inner := String.ofList ((s.toList.drop 1).dropLast)
      match (inner.splitOn ", ").mapM parseIp with
      | some ips => "ips " ++ sortedIps ips
      | none => "at " ++ hexOfBytes info
    else "at " ++ hexOfBytes info
  | none => "at " ++ hexOfBytes info

/-- Mask: the name in an `Announce` event of `probing_handler` is the entry of the
    `waiting_services` hash set that happens to come first among those that lower-case to the
    service's key; after registrations of one name in several letter cases its letter case
    depends on hash order, so the name is compared lower-cased. -/
def implEvent (toks : List String) : String :=
  match toks with
  | ["announce", n, info] =>
    let i := announceInfo ((bytesOfHex info).getD [])
    if i.startsWith "at " then s!"announce {hexOfBytes (lower ((bytesOfHex n).getD []))} " ++ i else s!"announce {n} " ++ i
  | _ => joinToks toks

def modelEvent : Responder.Event → String
  | .announceAddrs n ips => s!"announce {hexOfBytes n} ips " ++ sortedIps ips
  | .announceAt n h i => s!"announce {hexOfBytes (lower n)} at " ++ hexOfBytes (h ++ [0x3A] ++ i)
  | .nameChange o n ty i => s!"namechange {hexOfBytes o} {hexOfBytes n} {ty} {hexOfBytes i}"
  | .respond i => s!"respond {hexOfBytes i}"
  | .error => "error"

def implProj (it : Iter) : List String :=
  let txs := it.tx.map fun (ifi, v4, dest, b) => s!"tx {ifi} {boolTok v4} {dest} {implPktStr b}"
  let evs := it.evs.map fun (ch, toks) => (ch, implEvent toks)
  sortStrings (txs ++ numberEvents evs ++ (match it.ended with | some p => [if p then "end panic" else "end ok"] | none => []))

def modelProj (outs : List Responder.Out) (ended : Bool) : List String :=
  let txs := outs.filterMap fun o =>
    match o with
    | .send ifi v4 dest p =>
      let d := match dest with
        | some a => (String.fromUTF8? a.toByteArray).getD "?"
        | none => "m"
      some s!"tx {ifi} {boolTok v4} {d} {modelPktStr p}"
    | _ => none
  let evs := outs.filterMap fun o =>
    match o with
    | .event ch e => some (ch, modelEvent e)
    | .unregReply ch ok => some (ch, if ok then "unreg ok" else "unreg notfound")
    | .shutdownReply ch => some (ch, "status shutdown")
    | _ => none
  sortStrings (txs ++ numberEvents evs ++ (if ended then ["end ok"] else []))

/-! ### script -> model inputs -/

def isCall : Cmd → Bool
  | .register .. | .unregister .. | .monitor .. | .shutdown .. | .ipint .. => true
  | _ => false

/-- Is the script inside the fragment: one daemon (number 0), only the commands the model
    covers, every `jit` directly followed by an API call (which pins its place in the trace)? -/
def inFragment (script : List Cmd) : Bool :=
  (script.filter fun c => match c with | .daemon _ => true | _ => false).length == 1 &&
  (script.all fun c =>
    match c with
    | .daemon _ | .now _ | .run _ => true
    | .step d | .jit d _ | .inject d .. | .register d .. | .unregister d .. | .monitor d _ | .shutdown d _ | .ipint d _ => d == 0
    | .other ["quiet", _] => true
    | _ => false) &&
  (script.zip (script.drop 1 ++ [.now 0])).all (fun (c, nxt) =>
    match c with
    | .jit .. => isCall nxt
    | _ => true) &&
  -- an injected response must carry a PTR answer: the daemon (which browses nothing) then
  -- takes it as "not for us" and caches nothing; the cache is not part of this model
  script.all fun c =>
    match c with
    | .inject _ _ _ _ _ bytes =>
      match Wire.decode bytes.toArray with
      | .ok m => m.flags / 32768 % 2 == 0 || m.answers.any (·.ty == 12)
      | _ => true
    | _ => true

def toCommand : Cmd → Option Responder.Command
  | .register _ ty inst host port ips props probe auto => do
    let ips ← ips.mapM parseIp
    match Responder.Service.new ty inst host port ips (props.map fun (k, v) => { key := k, val := v }) probe auto with
    | .ok svc => some (.register svc)
    | _ => none
  | .unregister _ ch name => some (.unregister name ch)
  | .monitor _ ch => some (.monitor ch)
  | .shutdown _ ch => some (.exit ch)
  | .ipint _ s => some (.ipInterval (s * 1000))
  | _ => none

/-- the jitter in force once every call with index `≤ maxCall` has been issued -/
def jitterAt (script : Array Cmd) (maxCall : Nat) : Nat :=
  (List.range script.size).foldl (fun j q =>
    match (script[q]? : Option Cmd) with
    | some (Cmd.jit _ v) => if q + 1 ≤ maxCall then v else j
    | _ => j) 0

def rxOf (r : Nat × Bool × String × BList) : Option Responder.RxPkt :=
  let (ifi, v4, src, bytes) := r
  match Wire.decode bytes.toArray with
  | .ok m =>
    let port := ((src.splitOn ":").getLast?.bind (·.toNat?)).getD 0
    some { ifIdx := ifi, sockV4 := v4, src := src.toUTF8.toList, srcV4 := !(src.startsWith "["), srcPort := port, msg := m }
  | _ => none

/-- virtual time at which the daemon was created -/
def creationTime (script : List Cmd) : Nat :=
  let rec go : List Cmd → Nat → Nat
    | [], t => t
    | .daemon _ :: _, t => t
    | .now t :: rest, _ => go rest t
    | .run t :: rest, t0 => go rest (max t t0)
    | _ :: rest, t => go rest t
  go script 1000000

/-- Runs the responder model over the implementation's iterations.  Outer `none`: the script
    is outside the fragment; `some none`: every iteration agrees; `some (some diff)`: the first
    differing iteration with both projections. -/
def responderCorrespondence (script : List Cmd) (iters : List Iter) : Option (Option String) :=
  if !inFragment script then none
  else
    match (script.filterMap fun c => match c with | .daemon ifs => some ifs | _ => none).head?.bind buildIntfs with
    | none => none
    | some intfs =>
      let cmdArr := script.toArray
      let rec go (s : Responder.State) (its : List Iter) (k maxCall : Nat) : Option String :=
        match its with
        | [] => none
        | it :: rest =>
          let maxCall' := it.calls.foldl (fun m c => max m c.1) maxCall
          let cmds := it.calls.filterMap fun (i, r) => if r == "ok" then (cmdArr[i]?).bind toCommand else none
          let rx := (it.rx.filter (·.2.1)) ++ (it.rx.filter (!·.2.1))
          let inp : Responder.Input :=
            { now := it.now, jitter := jitterAt cmdArr maxCall', rx := rx.filterMap rxOf, cmds := cmds }
          let (s', outs) := Responder.iter s inp
          let mp := modelProj outs (s'.stopped && !s.stopped)
          let ip := implProj it
          if mp != ip then
            some s!"MODEL-DIFF iteration {k} now={it.now} model=[{" | ".intercalate mp}] impl=[{" | ".intercalate ip}]"
          else if Responder.wake s' != it.wake && it.ended.isNone then
            some s!"MODEL-DIFF iteration {k} now={it.now} wake model={Responder.wake s'} impl={it.wake}"
          else go s' rest (k + 1) maxCall'
      some (go (Responder.init (creationTime script) intfs) iters 0 0)

end Mdns.Driver.SimResponder
