import Mdns.Model.Encode
import Mdns.Spec.Expect
import Mdns.Driver.Wire
/-
  Line-protocol executor and monitor for the encoder ops (C02).

    encode <flags> <id> <nq> (<namehex> <qtype>)* <nan> (<recdesc> <now>)* <nauth> <recdesc>* <nadd> <recdesc>*
        recdesc = <namehex> <ty> <class-with-flush-bit> <ttl> <rdata>      (rdata as `Driver.Wire.rdataToks`)
      observation:  ok <npackets> <hex>* ; (ok <msg toks> | err | panic)*      |  panic
    escape <hex>           observation: ok <hex>
    parse-escaped <hex>    observation: ok <n> <hex>*

  Names are the crate's textual names (UTF-8, escaped form) exactly as given to the API.
  Records are created at the virtual time `CREATED` (the harness sets the crate's clock).
-/
namespace Mdns.Driver.C02
open Mdns Mdns.Enc

/-- `created` of every record of an `encode` op (ms); the harness sets the virtual clock to it -/
def CREATED : Nat := 1000000000

/-! ### fast hex (packets of several 10 kB) -/

def hexArr (s : String) : Option (Array UInt8) :=
  if s == "-" then some #[] else
  let r := s.foldl (init := (some (Array.mkEmpty (s.length / 2)), none))
    fun (acc : Option (Array UInt8) × Option Nat) c =>
      match acc with
      | (none, _) => (none, none)
      | (some a, pend) =>
        match hexVal c, pend with
        | none, _ => (none, none)
        | some v, none => (some a, some v)
        | some v, some hi => (some (a.push (UInt8.ofNat (hi * 16 + v))), none)
  match r with
  | (some a, none) => some a
  | _ => none

def pHexArr : P (Array UInt8)
  | t :: ts => (hexArr t).map (·, ts)
  | [] => none

def pHexL : P BList := fun ts => (pHexArr ts).map fun (a, ts) => (a.toList, ts)

def hexDigits : Array Char := "0123456789abcdef".toList.toArray

def hexOfArr (a : Array UInt8) : String :=
  if a.isEmpty then "-" else
  a.foldl (init := "") fun s b =>
    (s.push (hexDigits[b.toNat / 16]!)).push (hexDigits[b.toNat % 16]!)

/-! ### op parsing -/

structure RecDesc where
  name : BList
  ty : Nat
  cls16 : Nat
  ttl : Nat
  rdata : Wire.RData
  deriving Inhabited

structure MsgDesc where
  flags : Nat
  id : Nat
  qs : List (BList × Nat)
  an : List (RecDesc × Nat)
  au : List RecDesc
  ad : List RecDesc
  deriving Inhabited

def pRData : P Wire.RData
  | "a" :: ts => (pHexL ts).bind fun (b, ts) => if b.length = 4 then some (.a b, ts) else none
  | "aaaa" :: ts => (pHexL ts).bind fun (b, ts) => if b.length = 16 then some (.aaaa b, ts) else none
  | "ptr" :: ts => (pHexL ts).map fun (b, ts) => (.ptr b, ts)
  | "txt" :: ts => (pHexL ts).map fun (b, ts) => (.txt b, ts)
  | "srv" :: ts => do
    let (p, ts) ← P.nat ts
    let (w, ts) ← P.nat ts
    let (port, ts) ← P.nat ts
    let (h, ts) ← pHexL ts
    if p < 65536 ∧ w < 65536 ∧ port < 65536 then pure (.srv p w port h, ts) else none
  | _ => none

/-- as `verif::parser::build_record`: SRV and TXT constructors fix the type themselves -/
def pRecDesc : P RecDesc := fun ts => do
  let (name, ts) ← pHexL ts
  let (ty, ts) ← P.nat ts
  let (cls16, ts) ← P.nat ts
  let (ttl, ts) ← P.nat ts
  let (rd, ts) ← pRData ts
  if !(Wire.knownType ty) || cls16 ≥ 65536 || ttl ≥ 4294967296 then none
  else
    let ty := match rd with
      | .srv .. => 33
      | .txt .. => 16
      | _ => ty
    pure ({ name, ty, cls16, ttl, rdata := rd }, ts)

def pQ : P (BList × Nat) := fun ts => do
  let (name, ts) ← pHexL ts
  let (ty, ts) ← P.nat ts
  if Wire.knownType ty then pure ((name, ty), ts) else none

def pAns : P (RecDesc × Nat) := fun ts => do
  let (r, ts) ← pRecDesc ts
  let (now, ts) ← P.nat ts
  pure ((r, now), ts)

def pMsgDesc : P MsgDesc := fun ts => do
  let (flags, ts) ← P.nat ts
  let (id, ts) ← P.nat ts
  let (qs, ts) ← P.list pQ ts
  let (an, ts) ← P.list pAns ts
  let (au, ts) ← P.list pRecDesc ts
  let (ad, ts) ← P.list pRecDesc ts
  if flags < 65536 ∧ id < 65536 then pure ({ flags, id, qs, an, au, ad }, ts) else none

def recIn (r : RecDesc) : RecIn := mkRec r.name r.ty r.cls16 r.ttl CREATED r.rdata

/-- the `add_*` calls of `verif::parser::build_outgoing` -/
def build (d : MsgDesc) : OutMsg :=
  let o := OutMsg.new d.flags d.id
  let o := d.qs.foldl (fun o (q : BList × Nat) => o.addQuestion q.1 q.2) o
  let o := d.an.foldl (fun o (a : RecDesc × Nat) => o.addAnswerAtTime (recIn a.1) a.2) o
  let o := d.au.foldl (fun o r => o.addAuthority (recIn r)) o
  d.ad.foldl (fun o r => o.addAdditional (recIn r)) o

/-! ### model observation -/

def decToks (pkt : Data) : List String :=
  match Wire.decode pkt with
  | .ok m => "ok" :: Driver.Wire.msgToks m
  | .err => ["err"]
  | .panic => ["panic"]

/-- names of a record as label sequences -/
def recNames (r : Ref.Record) : List Ref.Name :=
  r.name :: (match r.rdata with | .ptr n => [n] | .srv _ _ _ n => [n] | _ => [])

/-- every name of the message (owner names, PTR and SRV targets) as a label sequence -/
def allNames (o : OutMsg) : List Ref.Name :=
  o.questions.map (fun q => labelsOf q.name) ++
    (o.answers.map (fun a => expRec a.1 a.2) ++ o.authorities.map (expRec · 0) ++
      o.additionals.map (expRec · 0)).flatMap recNames

/-- the domain of the property: every label has 1..=63 bytes (the reader of escaped names
    never yields an empty label); outside of it the encoder asserts (D10, property C15) -/
def labelsFit (o : OutMsg) : Bool :=
  (allNames o).all fun n => n.all fun l => l.length < 64

def exec (op : String) (ts : List String) : Option String :=
  match op with
  | "encode" => do
    let (d, rest) ← pMsgDesc ts
    if !rest.isEmpty then none
    -- labels of more than 63 bytes are outside the modelled domain (the encoder cuts them
    -- since the repair of its `assert!`): only "does not panic" is predicted
    if !((allNames (build d)).all fun n => n.all fun l => l.length < 64) then pure "long-label ok" else
    match encode (build d) with
    | .panic => pure "panic"
    | .err => pure "err"
    | .ok pkts =>
      pure (joinToks (["ok", toString pkts.length] ++ pkts.map hexOfArr ++ [";"] ++ pkts.flatMap decToks))
  | "escape" => do
    let (b, _) ← pHexL ts
    pure (joinToks ["ok", hexOfBytes (escape b)])
  | "parse-escaped" => do
    let (b, _) ← pHexL ts
    pure (joinToks ("ok" :: listToks (fun l => [hexOfBytes l]) (parseEscaped b)))
  | _ => none

/-! ### monitor -/

/-- RFC 1035 2.3.4: a name has at most 255 octets -/
def namesFit (o : OutMsg) : Bool :=
  (allNames o).all fun n => Ref.wireLen n ≤ 255

/-- largest possible encoding of a record (no compression) -/
def maxSize (r : Ref.Record) : Nat :=
  Ref.wireLen r.name + 10 + (match r.rdata with
    | .a _ => 4 | .aaaa _ => 16 | .ptr n => Ref.wireLen n | .srv _ _ _ n => 6 + Ref.wireLen n
    | .txt b => b.length | .other b => b.length)

/-- the crate's own decoder observations after the `;` -/
def pDecs : Nat → P (List (Option Wire.Msg))
  | 0 => fun ts => some ([], ts)
  | n + 1 => fun ts =>
    match ts with
    | "ok" :: rest => do
      let (m, rest) ← Driver.Wire.pMsg rest
      let (ms, rest) ← pDecs n rest
      pure (some m :: ms, rest)
    | "err" :: rest => do
      let (ms, rest) ← pDecs n rest
      pure (none :: ms, rest)
    | "panic" :: rest => do
      let (ms, rest) ← pDecs n rest
      pure (none :: ms, rest)
    | _ => none

def firstSome {α : Type} : List (Option α) → Option α
  | [] => none
  | some a :: _ => some a
  | none :: rest => firstSome rest

/-- `ok_C02` on what the real encoder produced (`pkts`) and what the crate's decoder read
    from it (`decs`); `none` = every clause holds, `some c` = clause `c` fails. -/
def okC02 (o : OutMsg) (pkts : List Ref.Bytes) (decs : List (Option Wire.Msg)) : Option String :=
  if pkts.isEmpty then some "no-packet"
  else if pkts.any (·.size > MAX_MSG_ABSOLUTE) then some "packet-over-8972"
  else if !namesFit o then some "name-over-255-octets-emitted"
  else
    let parsed := pkts.map Ref.parse
    if parsed.any Option.isNone then some "not-rfc1035-or-counts-differ"
    else
      let ms := parsed.filterMap id
      let n := ms.length
      let resp := o.isResponse
      -- every packet but the last has TC; the flags are otherwise those of the message
      if (ms.zipIdx.any fun (m, i) => m.flags != (if i + 1 < n then o.flags ||| FLAGS_TC else o.flags)) then some "tc-flag"
      else if ms.flatMap (·.questions) != o.questions.map expQ then some "questions-differ"
      else
        match leftOut (ms.flatMap (·.answers)) (o.answers.map fun a => expRec a.1 a.2),
              leftOut (ms.flatMap (·.authorities)) (o.authorities.map (expRec · 0)),
              leftOut (ms.flatMap (·.additionals)) (o.additionals.map (expRec · 0)) with
        | some dan, some dau, some dad =>
          let s1 := (pkts.head?.map (·.size)).getD 0
          -- a record may be left out only if it did not fit
          if (dan ++ dau).any (fun r => s1 + maxSize r ≤ MAX_MSG_ABSOLUTE) then some "dropped-record-that-fits"
          else if resp && (match dad.head? with
              | some r => decide (s1 + maxSize r ≤ MAX_MSG_ABSOLUTE) | none => false) then some "dropped-record-that-fits"
          else if !resp && dad.any (fun r => 12 + maxSize r ≤ MAX_MSG_ABSOLUTE) then some "dropped-record-that-fits"
          else if resp && n > 1 then some "response-split"
          else if decs.length != n then some "unparsable-observation"
          else
            -- The clauses above name what fails.  `soundCore` is the PROVEN predicate (conclusion
            -- of `encode_sound`, theorem `soundCore_holds`); here `allSome (pkts.map Ref.parse) =
            -- some ms` and every size is within the limit, so `soundCore o pkts = coreOn o ms`.
            if !coreOn o ms then some "sound-core-false"
            else
            firstSome ((ms.zip decs).map fun (m, d) =>
              match d with
              | none => some "own-decoder-rejects"
              | some v => if viewMsg m == some v then none else some "own-decoder-differs")
        | none, _, _ => some "answer-not-added-or-out-of-order"
        | _, none, _ => some "authority-not-added-or-out-of-order"
        | _, _, none => some "additional-not-added-or-out-of-order"

def monitor (op : String) (ts impl : List String) : Option String :=
  match op with
  | "encode" =>
    match pMsgDesc ts with
    | none => some "bad-op"
    | some (d, _) =>
      let o := build d
      match impl with
      | ["panic"] => if labelsFit o then some "encoder-panics" else none
      | ["long-label", "panic"] => some "encoder-panics-on-long-label"
      | ["long-label", "ok"] => none
      | "ok" :: rest =>
        match (do
          let (n, rest) ← P.nat rest
          let (pkts, rest) ← P.many pHexArr n rest
          match rest with
          | ";" :: rest =>
            let (decs, _) ← pDecs n rest
            pure (pkts, decs)
          | _ => none : Option (List Ref.Bytes × List (Option Wire.Msg))) with
        | none => some "unparsable-observation"
        | some (pkts, decs) =>
          okC02 o pkts decs
      | _ => some "unparsable-observation"
  | "escape" =>
    -- the escaped form reads back as the one label it was made from
    match pHexL ts, impl with
    | some (b, _), ["ok", h] =>
      match bytesOfHex h with
      | some e => if parseEscaped e == (if b.isEmpty then [] else [b]) then none else some "escape-not-inverted"
      | none => some "unparsable-observation"
    | _, _ => some "unparsable-observation"
  | "parse-escaped" =>
    -- no empty label is ever produced
    match (match impl with | "ok" :: rest => (P.list P.hex) rest | _ => none) with
    | some (ls, _) => if ls.any (·.isEmpty) then some "empty-label" else none
    | none => some "unparsable-observation"
  | _ => some "unknown-op"

end Mdns.Driver.C02
