import Mdns.Driver.MonClient
import Mdns.Driver.MonResponder
import Mdns.Model.Intf
/-
  C18 at daemon level (`sim C18` histories): "each interface is its own link; nothing leaks or
  outlives its removal", judged on real traces.

  The set of enabled interface addresses at any point of a history is COMPUTED with the model
  of the selection rule (`Intf.selected`: selections in call order, the last match wins - the
  function the theorems of Props/C18 are about) from the script's interface table and the
  enable / disable calls processed so far.  Against it:

  * no datagram leaves on an interface and family that has no enabled address;
  * an address record of our own host is sent only inside the subnet of an enabled address of
    the interface it leaves on;
  * after a disable call that takes the last enabled address (of a family) from an interface,
    no event reports an address (of that family) that was learned there and not received
    again since;
  * after an interface has vanished from the table and the interface check has run, no event
    reports an address learned only there, and an instance whose PTR was learned only there is
    reported removed on every open browse that had found it.
-/
namespace Mdns.Driver.MonLink
open Mdns Mdns.Trace Mdns.Driver.Sim Mdns.Driver.MonClient

def toIface (i : Trace.Iface) : Option Intf.Iface :=
  (SimResponder.parseIp i.ip).map fun ip => { name := i.name, index := some i.index, ip, prefixLen := i.prefixLen }

def parseKind (ts : List String) : Option Intf.IfKind :=
  match ts with
  | ["all"] => some .all
  | ["v4"] => some .ipv4
  | ["v6"] => some .ipv6
  | ["name", n] => (bytesOfHex n).map .name
  | ["addr", ip] => (SimResponder.parseIp ip).map .addr
  | ["lo4"] => some .loopbackV4
  | ["lo6"] => some .loopbackV6
  | ["idx4", i] => i.toNat?.map .indexV4
  | ["idx6", i] => i.toNat?.map .indexV6
  | _ => none

/-- enable / disable calls of the script as (command index, daemon, selection) -/
def selectionCmds (script : List Cmd) : List (Nat × Nat × Intf.Selection) :=
  script.zipIdx.filterMap fun ((c, i) : Cmd × Nat) =>
    match c with
    | .other ("enable" :: d :: k) => do pure (i, ← d.toNat?, (← parseKind k, true))
    | .other ("disable" :: d :: k) => do pure (i, ← d.toNat?, (← parseKind k, false))
    | _ => none

/-- iteration in which API call `i` (a command index) was processed by daemon `d`, if it
    returned ok -/
def processedAt (iters : List Iter) (i d : Nat) : Option Nat :=
  iters.zipIdx.findSome? fun ((it, k) : Iter × Nat) =>
    if it.calls.any (fun c => c.1 == i && c.2 == "ok") then procIter iters k d else none

/-- selections of daemon `d` processed in iterations `< k` (strict) or `≤ k` -/
def selsBefore (script : List Cmd) (iters : List Iter) (d k : Nat) (incl : Bool) : List Intf.Selection :=
  (selectionCmds script).filterMap fun ((i, d', s) : Nat × Nat × Intf.Selection) =>
    if d' != d then none else
    match processedAt iters i d with
    | some kp => if kp < k || (incl && kp == k) then some s else none
    | none => none

def isV4ip (ip : BList) : Bool := ip.length == 4

/-- has interface `idx` an enabled address (of the family, if one is given)? -/
def hasEnabled (table : List Intf.Iface) (sels : List Intf.Selection) (idx : Nat) (fam : Option Bool) : Bool :=
  table.any fun i => i.index == some idx && Intf.selected sels i &&
    (match fam with | some v4 => isV4ip i.ip == v4 | none => true)

def staticTable (script : List Cmd) (d : Nat) : Option (List Intf.Iface) :=
  if script.any (fun c => match c with | .ifaces .. => true | _ => false) then none
  else ((script.filterMap fun c => match c with | .daemon ifs => some ifs | _ => none)[d]?).map fun ifs => ifs.filterMap toIface

/-- addresses listed by an event: (ip, interface indexes) -/
def eventAddrs (toks : List String) : List (BList × List Nat) :=
  match toks.headD "" with
  | "resolved" => ((parseResolved toks).map fun r => r.addrs.map fun a => (a.ip, a.ifs.map (·.2))).getD []
  | "hfound" => ((parseAddrsEvent toks).map fun (_, _, addrs) => addrs.map fun a => (a.ip, a.ifs.map (·.2))).getD []
  | _ => []

/-- `ok_C18` on histories with an unchanging interface table -/
def monitorStatic (script : List Cmd) (iters : List Iter) (d : Nat) : Option String :=
  match staticTable script d with
  | none => none
  | some table =>
    let ds := deliveries iters d
    let pk := MonResponder.sentBy iters d
    let calls := processedCalls script iters MonResponder.cmdDaemonR
    let regs := MonResponder.registers calls d
    -- (1) nothing leaves on an interface and family without an enabled address
    let leak := pk.findSome? fun p =>
      let sels := selsBefore script iters d p.k false
      -- a call processed in this very iteration may not have taken effect yet when the
      -- packet left: it must be disabled both before and after the iteration's calls
      if !hasEnabled table sels p.ifi (some p.v4) && !hasEnabled table (selsBefore script iters d p.k true) p.ifi (some p.v4) then
        some s!"datagram-sent-on-interface-without-enabled-address if={p.ifi} v4={p.v4} t={p.t}"
      else none
    -- (2) own addresses only inside the subnet of an enabled address of that interface
    let offLink := pk.findSome? fun p =>
      if !p.resp then none else
      let sels := selsBefore script iters d p.k true
      (p.m.answers ++ p.m.additionals).findSome? fun r =>
        match r.rdata with
        | .a ip | .aaaa ip =>
          let ours := regs.any fun o => o.2.2.1 == lower r.name
          let auto := regs.any fun o => o.2.2.2.2.2
          let inSubnet := table.any fun i => i.index == some p.ifi && i.ip.length == ip.length &&
            Intf.validIpOnIntf ip i.ip (SimResponder.maskOctets ip.length i.prefixLen)
          let _ := sels
          if ours && !auto && r.ttl > 0 && !inSubnet then
            some s!"own-address-sent-outside-the-subnet-of-the-interface ip={hexOfBytes ip} if={p.ifi} t={p.t}"
          else none
        | _ => none
    -- (3) addresses learned on a disabled interface / family are no longer reported
    let selTimes := (selectionCmds script).filterMap fun ((i, d', s) : Nat × Nat × Intf.Selection) =>
      if d' != d || s.2 then none else processedAt iters i d
    let stale := iters.zipIdx.findSome? fun ((it, k) : Iter × Nat) =>
      if it.d != d then none else
      it.evs.findSome? fun ((_, toks) : Nat × List String) =>
        (eventAddrs toks).findSome? fun ((ip, idxs) : BList × List Nat) =>
          idxs.findSome? fun idx =>
            let fam := isV4ip ip
            selTimes.findSome? fun kd =>
              if kd ≥ k then none else
              let before := selsBefore script iters d kd false
              let after := selsBefore script iters d kd true
              let nowS := selsBefore script iters d k true
              let deadByIt := hasEnabled table before idx none && !hasEnabled table after idx none && !hasEnabled table nowS idx none
              let famByIt := hasEnabled table before idx (some fam) && !hasEnabled table after idx (some fam) &&
                !hasEnabled table nowS idx (some fam)
              let again := ds.any fun x => x.k > kd && x.k ≤ k && x.ifi == idx && ipOf x.r == some ip
              if (deadByIt || famByIt) && !again then
                some s!"address-learned-on-disabled-interface-still-reported ip={hexOfBytes ip} if={idx} t={it.now}"
              else none
    leak <|> offLink <|> stale

/-- `ok_C18` when the interface table changes: an interface index that vanished -/
def monitorVanished (script : List Cmd) (iters : List Iter) (d : Nat) : Option String :=
  let changes := script.zipIdx.filterMap fun ((c, i) : Cmd × Nat) =>
    match c with | .ifaces d' ifs => if d' == d then some (i, ifs) else none | _ => none
  if changes.isEmpty then none else
  let ds := deliveries iters d
  -- the interface check period in ms (the last `ipint` of the script; 0 = never; default 5 s)
  let ipint := (script.filterMap fun c => match c with | .ipint d' s => if d' == d then some s else none | _ => none).getLast?.getD 5
  if ipint == 0 || ipint > 10 then none else
  -- time of command `i`: the time of the last iteration before the first call with a larger index
  let cmdTime (i : Nat) : Nat :=
    ((iters.filter fun it => it.calls.any fun c => c.1 ≤ i).getLast?.map (·.now)).getD
      ((script.take i).foldl (fun acc c => match c with | .run u => u | .now u => u | _ => acc) 0)
  let scriptTime (i : Nat) : Nat := max (cmdTime i)
    ((script.take i).foldl (fun acc c => match c with | .run u => u | .now u => u | _ => acc) 0)
  changes.findSome? fun ((ci, ifs) : Nat × List Trace.Iface) =>
    let tc := scriptTime ci
    -- a later table may bring the index back: judge only until then
    let tNext := ((changes.filter fun c => c.1 > ci).map fun c => scriptTime c.1).foldl min (10 ^ 12)
    -- the first interface check of a daemon is armed 5 s after its start whatever the period
    -- set later; from then on the checks are `ipint` apart: one has certainly run by then
    let tStart := (iters.head?.map (·.now)).getD 0
    let effective := max tc (tStart + 5000) + ipint * 1000 + 1000
    let prevIdx := ((ds.map (·.ifi)).eraseDups)
    prevIdx.findSome? fun idx =>
      if ifs.any (fun i => i.index == idx) then none else
      iters.zipIdx.findSome? fun ((it, k) : Iter × Nat) =>
        if it.d != d || it.now < effective || it.now ≥ tNext then none else
        it.evs.findSome? fun ((_, toks) : Nat × List String) =>
          (eventAddrs toks).findSome? fun ((ip, idxs) : BList × List Nat) =>
            let again := ds.any fun x => x.t > tc && x.k ≤ k && x.ifi == idx && ipOf x.r == some ip
            if idxs.contains idx && !again then
              some s!"address-learned-on-vanished-interface-still-reported ip={hexOfBytes ip} if={idx} t={it.now}"
            else none

/-- "with automatic addressing the service follows addresses as they appear and disappear":
    histories of one daemon with an auto-addressed service (`register … <addrauto>=1`), no
    enable / disable call, and changes of the OS interface table (`ifaces`).  For every change,
    once the interface check has certainly run and the three probes and the announcement have
    had their time (`effective`), and until the next change:

    * an address that APPEARED (in the new table, not in the one before) has been sent in a
      response on its interface and family - the announcement of the service there;
    * an address that DISAPPEARED is in no response (TTL > 0) sent after `effective`. -/
def monitorAuto (script : List Cmd) (iters : List Iter) (d : Nat) : Option String :=
  let autoReg := script.any fun c => match c with | .register d' _ _ _ _ _ _ _ auto => d' == d && auto | _ => false
  let selections := script.any fun c => match c with
    | .other ("enable" :: _) | .other ("disable" :: _) | .unregister .. | .shutdown .. => true | _ => false
  if !autoReg || selections then none else
  let changes := script.zipIdx.filterMap fun ((c, i) : Cmd × Nat) =>
    match c with | .ifaces d' ifs => if d' == d then some (i, ifs) else none | _ => none
  if changes.isEmpty then none else
  let table0 := ((script.filterMap fun c => match c with | .daemon ifs => some ifs | _ => none)[d]?).getD []
  let ipint := (script.filterMap fun c => match c with | .ipint d' s => if d' == d then some s else none | _ => none).getLast?.getD 5
  if ipint == 0 || ipint > 10 then none else
  let pk := MonResponder.sentBy iters d
  let scriptTime (i : Nat) : Nat := (script.take i).foldl (fun acc c => match c with | .run u => u | .now u => u | _ => acc) 0
  let tEnd := script.foldl (fun acc c => match c with | .run u => max acc u | _ => acc) 0
  let tStart := (iters.head?.map (·.now)).getD 0
  -- the time of the registration: the service must be up before the change is judged
  let regAt := (script.zipIdx.filterMap fun ((c, i) : Cmd × Nat) =>
    match c with | .register .. => some (scriptTime i) | _ => none).foldl max 0
  let tables := table0 :: changes.map (·.2)
  (changes.zipIdx).findSome? fun (((ci, ifs), n) : (Nat × List Trace.Iface) × Nat) =>
    let before := (tables[n]?).getD []
    let tc := max (scriptTime ci) regAt
    let tNext := ((changes.filter fun c => c.1 > ci).map fun c => scriptTime c.1).foldl min tEnd
    -- interface check (the first one 5 s after the start, then `ipint` apart) + 3 probes 250 ms
    -- apart + announcement + slack
    let effective := max tc (tStart + 5000) + ipint * 1000 + 2000
    if effective ≥ tNext then none else
    let appeared := ifs.filter fun i => !(before.any fun j => j.index == i.index && j.ip == i.ip)
    let gone := before.filter fun j => !(ifs.any fun i => j.index == i.index && i.ip == j.ip) &&
      -- (the same address on another interface of the new table is still ours)
      !(ifs.any fun i => i.ip == j.ip)
    let carries (p : MonResponder.Pkt) (ip : BList) : Bool :=
      p.resp && (p.m.answers ++ p.m.additionals).any fun r =>
        r.ttl > 0 && (match r.rdata with | .a x | .aaaa x => x == ip | _ => false)
    let missing := appeared.findSome? fun i =>
      match SimResponder.parseIp i.ip with
      | none => none
      | some ip =>
        -- loopback and the like are never used; judge only plain addresses of the generators
        if pk.any fun p => p.t > scriptTime ci && p.t < tNext && p.ifi == i.index && p.v4 == i.v4 && carries p ip then none
        else some s!"new-address-not-followed-by-auto-addressed-service ip={i.ip} if={i.index} by={effective}"
    let stale := gone.findSome? fun j =>
      match SimResponder.parseIp j.ip with
      | none => none
      | some ip =>
        (pk.find? fun p => p.t ≥ effective && p.t < tNext && carries p ip).map fun p =>
          s!"removed-address-still-sent-by-auto-addressed-service ip={j.ip} t={p.t}"
    missing <|> stale

/-- "instances that lost other records are resolved again with what is left": an interface
    vanishes from the table.  An instance whose LAST ServiceResolved on an open browse channel
    before the change tags an address with that interface and also with one that stays, and whose
    PTR, SRV and TXT were delivered on an interface that stays (the instance is not removed, it
    can still be resolved), gets - once the interface check has run - a new ServiceResolved on that
    channel that tags no address with the vanished interface (or a ServiceRemoved).  Judged in
    histories without selections, stops, shutdown and registrations. -/
def monitorReresolved (script : List Cmd) (iters : List Iter) (d : Nat) : Option String :=
  let changes := script.zipIdx.filterMap fun ((c, i) : Cmd × Nat) =>
    match c with | .ifaces d' ifs => if d' == d then some (i, ifs) else none | _ => none
  let busy := script.any fun c => match c with
    | .other ("enable" :: _) | .other ("disable" :: _) | .stopBrowse .. | .shutdown .. | .register .. | .verify .. => true
    | _ => false
  -- (one change of the table per history: after a second one, what was heard where before the
  -- first is no longer what the cache holds)
  if changes.length != 1 || busy then none else
  let table0 := ((script.filterMap fun c => match c with | .daemon ifs => some ifs | _ => none)[d]?).getD []
  let ipint := (script.filterMap fun c => match c with | .ipint d' s => if d' == d then some s else none | _ => none).getLast?.getD 5
  if ipint == 0 || ipint > 10 then none else
  let ds := deliveries iters d
  let calls := processedCalls script iters cmdDaemon
  let itArr := iters.toArray
  let timeOfIter (k : Nat) : Nat := (itArr[k]?.map (·.now)).getD 0
  let scriptTime (i : Nat) : Nat := (script.take i).foldl (fun acc c => match c with | .run u => u | .now u => u | _ => acc) 0
  let tEnd := script.foldl (fun acc c => match c with | .run u => max acc u | _ => acc) 0
  let tStart := (iters.head?.map (·.now)).getD 0
  let tables := table0 :: changes.map (·.2)
  let browses := calls.filterMap fun ((c, k0) : Cmd × Nat) =>
    match c with | .browse d' ch ty false => if d' == d then some (ty, ch, k0) else none | _ => none
  (changes.zipIdx).findSome? fun (((ci, ifs), n) : (Nat × List Trace.Iface) × Nat) =>
    let before := (tables[n]?).getD []
    let tc := scriptTime ci
    let tNext := ((changes.filter fun c => c.1 > ci).map fun c => scriptTime c.1).foldl min tEnd
    let effective := max tc (tStart + 5000) + ipint * 1000 + 1000
    if effective ≥ tNext then none else
    let gone := ((before.map (·.index)).eraseDups).filter fun idx => !(ifs.any fun i => i.index == idx)
    let stays (idx : Nat) : Bool := ifs.any fun i => i.index == idx
    gone.findSome? fun idx =>
      browses.findSome? fun ((ty, ch, k0) : BList × Nat × Nat) =>
        if timeOfIter k0 ≥ tc then none else
        -- a later browse of the same type replaces the channel: judged up to then
        let tLimit := ((browses.filter fun b => b.1 == ty && b.2.2 > k0).map fun b => timeOfIter b.2.2).foldl min tNext
        if effective ≥ tLimit then none else
        let evs := (chanEvents iters d ch).map fun e => (timeOfIter e.1, e.2)
        let resolvedEvs := evs.filterMap fun e => (parseResolved e.2).map fun r => (e.1, r)
        let names := (resolvedEvs.map fun e => e.2.fullname).eraseDups
        names.findSome? fun f =>
          match (resolvedEvs.filter fun e => e.1 < tc && e.2.fullname == f).getLast? with
          | none => none
          | some (_, r) =>
            let tagged := r.addrs.any fun a => a.ifs.any fun i => i.2 == idx
            let alsoElsewhere := r.addrs.any fun a => a.ifs.any fun i => i.2 != idx && stays i.2
            let heardOnStaying (p : Deliv → Bool) : Bool := ds.any fun x => x.t < tc && x.ifi != idx && stays x.ifi && p x
            let ptrStays := heardOnStaying fun x => x.r.ty == 12 && (match x.r.rdata with | .ptr g => lower g == lower f | _ => false)
            let srvStays := heardOnStaying fun x => x.r.ty == 33 && lower x.r.name == lower f
            let txtStays := heardOnStaying fun x => x.r.ty == 16 && lower x.r.name == lower f
            if !(tagged && alsoElsewhere && ptrStays && srvStays && txtStays) then none else
            let again := evs.any fun e => e.1 ≥ tc && e.1 ≤ tLimit &&
              ((match parseResolved e.2 with
                | some r' => r'.fullname == f && !(r'.addrs.any fun a => a.ifs.any fun i => i.2 == idx)
                | none => false) ||
               (e.2.headD "" == "removed" && e.2[2]? == some (hexOfBytes f)))
            if again then none
            else some s!"instance-not-resolved-again-without-the-vanished-interface inst={hexOfBytes f} ch={ch} if={idx} by={effective}"

def monitor (script : List Cmd) (iters : List Iter) (d : Nat) : Option String :=
  monitorStatic script iters d <|> monitorVanished script iters d <|> monitorAuto script iters d <|>
    monitorReresolved script iters d

end Mdns.Driver.MonLink
