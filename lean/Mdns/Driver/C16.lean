import Mdns.Model.Txt
/-
  Line-protocol executor and monitor for the TXT ops (C16).
-/
namespace Mdns.Driver.C16
open Mdns Mdns.Txt

def pProp : P TProp := fun ts => do
  let (k, ts) ← P.hex ts
  let (v, ts) ← P.opt P.hex ts
  pure ({ key := k, val := v }, ts)

def pProps : P (List TProp) := P.list pProp

def propToks (p : TProp) : List String := hexOfBytes p.key :: optToks (fun v => [hexOfBytes v]) p.val

def propsToks (ps : List TProp) : List String := listToks propToks ps

/-- what `IntoTxtProperties` stores for each input kind -/
def stored (kind : String) (ps : List TProp) : List TProp :=
  if kind == "slice" then dedupCI ps else ps

/-- The order in which a `HashMap` input is stored is decided by the process-random hash
    seed: it is an input from the environment.  For the map kinds the stored order is read
    from the implementation's observation, after checking that it is a permutation of
    the input. -/
def mapOrder (ps : List TProp) (impl : List String) : List TProp :=
  match impl with
  | "ok" :: rest =>
    match pProps rest with
    | some (st, _) => if st.length == ps.length && st.all ps.contains && ps.all st.contains then st else ps
    | none => ps
  | _ => ps

def tripLine (kind : String) (ps : List TProp) : String :=
  let st := stored kind ps
  match create st with
  | .err => "err"
  | .panic => "panic"
  | .ok txt =>
    match decodeTxtUnique txt with
    | .ok dec => joinToks (["ok"] ++ propsToks st ++ [hexOfBytes txt] ++ propsToks dec)
    | _ => joinToks (["ok"] ++ propsToks st ++ [hexOfBytes txt, "panic"])

def resProps : Res (List TProp) → String
  | .ok ps => joinToks ("ok" :: propsToks ps)
  | .err => "err"
  | .panic => "panic"

/-- Model observation for one op. -/
def exec (op : String) (ts : List String) (impl : List String) : Option String :=
  match op with
  | "txt-trip" => do
    let (kind, ts) ← P.tok ts
    let (ps, _) ← pProps ts
    let ps := if kind == "map" || kind == "optmap" then mapOrder ps impl else ps
    pure (tripLine kind ps)
  | "txt-decode" => do
    let (b, _) ← P.hex ts
    pure (resProps (decodeTxt b))
  | "txt-decode-unique" => do
    let (b, _) ← P.hex ts
    pure (resProps (decodeTxtUnique b))
  | "txt-get" => do
    let (ps, ts) ← pProps ts
    let (k, _) ← P.hex ts
    pure (match lookup ps k with
      | none => "none"
      | some p => joinToks ("some" :: propToks p))
  | "txt-getters" => do
    let (ps, ts) ← pProps ts
    let (k, _) ← P.hex ts
    -- get_property / get_property_val / get_property_val_str all answer for the FIRST property
    -- whose key equals the wanted one case-insensitively; a key without a value has the value
    -- `None` and the string "" (so that presence and absence of a key stay apart)
    -- (the model functions `getVal` / `getValStr` of Model/Txt, `Props.C16.getters_spec`)
    pure (match getVal ps k, getValStr ps k with
      | some none, some s => s!"1 novalue str {hexOfBytes s}"
      | some (some v), some s =>
        let st := if v.any (· ≥ 0x80) then "?" else hexOfBytes s
        s!"1 val {hexOfBytes v} str {st}"
      | _, _ => "0 none none")
  | _ => none

/-- every length-prefixed string of an encoded TXT stays inside the buffer (and is
    therefore at most 255 bytes long) -/
def wellFramed : BList → Bool
  | [] => true
  | len :: rest =>
    if len.toNat > rest.length then false
    else wellFramed (rest.drop len.toNat)
termination_by l => l.length
decreasing_by simp [List.length_drop]; omega

/-- Monitor `ok_C16` on the behaviour observed from the real code:
    the conclusions of the theorems in `Props/C16.lean`, evaluated on implementation output.
    Returns `none` if the behaviour is fine, `some clause` otherwise. -/
def monitor (op : String) (ts : List String) (impl : List String) : Option String :=
  match op with
  | "txt-trip" =>
    match (do
      let (kind, ts) ← P.tok ts
      let (ps, _) ← pProps ts
      pure (kind, ps) : Option (String × List TProp)) with
    | none => some "bad-op"
    | some (kind, ps) =>
      let ps := if kind == "map" || kind == "optmap" then mapOrder ps impl else ps
      let st := stored kind ps
      match impl with
      | ["panic"] => some "create-panics"
      | ["err"] => if accepted st then some "accepted-properties-refused" else none
      | "ok" :: rest =>
        if !accepted st then some "unrepresentable-properties-accepted" else
        match (do
          let (st', ts) ← pProps rest
          let (txt, ts) ← P.hex ts
          match ts with
          | ["panic"] => pure (st', txt, none)
          | _ => do
            let (dec, _) ← pProps ts
            pure (st', txt, some dec) : Option (List TProp × BList × Option (List TProp))) with
        | none => some "unparsable-observation"
        | some (st', txt, dec) =>
          if st' != st then some "stored-properties-differ-from-input"
          else if !wellFramed txt then some "encoded-string-over-255-or-out-of-frame"
          else match dec with
            | none => some "decode-panics"
            | some dec =>
              if dec != dedupCI st then some "roundtrip-differs" else none
      | _ => some "unparsable-observation"
  | "txt-decode" | "txt-decode-unique" =>
    match impl with
    | ["panic"] => some "decode-panics"
    | "ok" :: _ => none
    | _ => some "unparsable-observation"
  | "txt-get" =>
    match (do
      let (ps, ts) ← pProps ts
      let (k, _) ← P.hex ts
      pure (ps, k) : Option (List TProp × BList)) with
    | none => some "bad-op"
    | some (ps, k) =>
      match impl with
      | ["panic"] => some "get-panics"
      | ["none"] => if ps.any (fun p => lower p.key == lower k) then some "lookup-misses-key" else none
      | "some" :: rest =>
        match pProp rest with
        | some (p, _) =>
          -- the first property whose key equals the wanted one, case-insensitively
          if lookup ps k == some p then none else some "lookup-not-first-ci-match"
        | none => some "unparsable-observation"
      | _ => some "unparsable-observation"
  | "txt-getters" =>
    match (do
      let (ps, ts) ← pProps ts
      let (k, _) ← P.hex ts
      pure (ps, k) : Option (List TProp × BList)) with
    | none => some "bad-op"
    | some (ps, k) =>
      match impl, lookup ps k with
      | ["panic"], _ => some "get-panics"
      | "0" :: _, some _ => some "lookup-misses-key"
      | "1" :: _, none => some "lookup-finds-absent-key"
      | ["0", "none", "none"], none => none
      | "0" :: _, none => some "getters-disagree-on-absent-key"
      | "1" :: rest, some p =>
        -- "the difference between no value and an empty value stays intact", through every getter
        (match p.val, rest with
         | none, ["novalue", "str", "-"] => none
         | some v, ["val", v', "str", s] =>
           if bytesOfHex v' == some v && (s == "?" || bytesOfHex s == some v) then none
           else some "getter-returns-other-value"
         | none, _ => some "key-without-value-not-reported-as-present-with-empty-string"
         | some _, _ => some "getter-returns-other-value")
      | _, _ => some "unparsable-observation"
  | _ => some "unknown-op"

end Mdns.Driver.C16
