import Mdns.Model.Intf
/-
  Line-protocol executor and monitor for the C18 component ops (harness/src/c18.rs):
  if-match, select, resolve-addr, select-at, valid-ip, addrs-on-intf.
-/
namespace Mdns.Driver.C18
open Mdns Mdns.Intf

def pIp : P Ip := fun ts => do
  let (b, ts) ← P.hex ts
  if b.length == 4 || b.length == 16 then pure (b, ts) else none

def pKind : P IfKind
  | "all" :: ts => some (.all, ts)
  | "ipv4" :: ts => some (.ipv4, ts)
  | "ipv6" :: ts => some (.ipv6, ts)
  | "name" :: ts => (P.hex ts).map fun (n, ts) => (.name n, ts)
  | "addr" :: ts => (pIp ts).map fun (a, ts) => (.addr a, ts)
  | "lo4" :: ts => some (.loopbackV4, ts)
  | "lo6" :: ts => some (.loopbackV6, ts)
  | "idx4" :: ts => (P.nat ts).map fun (i, ts) => (.indexV4 i, ts)
  | "idx6" :: ts => (P.nat ts).map fun (i, ts) => (.indexV6 i, ts)
  | "pred-prefix" :: ts => (P.hex ts).map fun (p, ts) => (.predPrefix p, ts)
  | "pred-parity" :: ts => (P.bool ts).map fun (b, ts) => (.predParity b, ts)
  | _ => none

def kindToks : IfKind → List String
  | .all => ["all"]
  | .ipv4 => ["ipv4"]
  | .ipv6 => ["ipv6"]
  | .name n => ["name", hexOfBytes n]
  | .addr a => ["addr", hexOfBytes a]
  | .loopbackV4 => ["lo4"]
  | .loopbackV6 => ["lo6"]
  | .indexV4 i => ["idx4", toString i]
  | .indexV6 i => ["idx6", toString i]
  | .predPrefix p => ["pred-prefix", hexOfBytes p]
  | .predParity b => ["pred-parity", boolTok b]

def pIface : P Iface := fun ts => do
  let (name, ts) ← P.hex ts
  let (index, ts) ← P.opt P.nat ts
  let (ip, ts) ← pIp ts
  let (prefixLen, ts) ← P.nat ts
  pure ({ name, index, ip, prefixLen }, ts)

def pSel : P Selection := fun ts => do
  let (k, ts) ← pKind ts
  let (on, ts) ← P.bool ts
  pure ((k, on), ts)

def pSelAt : P (Selection × List Iface) := fun ts => do
  let (s, ts) ← pSel ts
  let (table, ts) ← P.list pIface ts
  pure ((s, table), ts)

def pIfAddr : P (Ip × Ip) := fun ts => do
  let (ip, ts) ← pIp ts
  let (mask, ts) ← pIp ts
  if ip.length == mask.length then pure ((ip, mask), ts) else none

def boolsLine (bs : List Bool) : String := joinToks ("ok" :: listToks (fun b => [boolTok b]) bs)

/-- `Vec<u8>` order of the harness' `sort()` -/
def bytesLt : BList → BList → Bool
  | [], [] => false
  | [], _ :: _ => true
  | _ :: _, [] => false
  | a :: as, b :: bs => if a < b then true else if b < a then false else bytesLt as bs

def insertBytes (x : BList) : List BList → List BList
  | [] => [x]
  | y :: ys => if bytesLt x y then x :: y :: ys else y :: insertBytes x ys

def sortBytes (xs : List BList) : List BList := xs.foldr insertBytes []

structure AddrsOp where
  v4 : Bool
  svc : List Ip
  ifs : List (Ip × Ip)

def pAddrsOp : P AddrsOp := fun ts => do
  let (v4, ts) ← P.bool ts
  let (svc, ts) ← P.list pIp ts
  let (ifs, ts) ← P.list pIfAddr ts
  pure ({ v4, svc, ifs }, ts)

/-- selections as the daemon stores them, each resolved against the table of its call -/
def storedSelections (calls : List (Selection × List Iface)) : List Selection :=
  calls.map fun (s, table) => (resolveAddr s.1 table, s.2)

def exec (op : String) (ts : List String) : Option String :=
  match op with
  | "if-match" => do
    let (k, ts) ← pKind ts
    let (i, _) ← pIface ts
    pure (joinToks ["ok", boolTok (k.matches i)])
  | "select" => do
    let (sels, ts) ← P.list pSel ts
    let (intfs, _) ← P.list pIface ts
    pure (boolsLine (selectedMarks sels intfs))
  | "resolve-addr" => do
    let (k, ts) ← pKind ts
    let (intfs, _) ← P.list pIface ts
    pure (joinToks ("ok" :: kindToks (resolveAddr k intfs)))
  | "select-at" => do
    let (calls, ts) ← P.list pSelAt ts
    let (intfs, _) ← P.list pIface ts
    pure (boolsLine (selectedMarks (storedSelections calls) intfs))
  | "valid-ip" => do
    let (ip, ts) ← pIp ts
    let ((ifip, mask), _) ← pIfAddr ts
    pure (joinToks ["ok", boolTok (validIpOnIntf ip ifip mask)])
  | "addrs-on-intf" => do
    let (o, _) ← pAddrsOp ts
    pure (joinToks ("ok" :: listToks (fun a => [hexOfBytes a]) (sortBytes (addrsOnIntf o.v4 o.svc o.ifs))))
  | _ => none

def pBools : P (List Bool) := P.list P.bool

/-- The conclusions of the theorems of `Props/C18.lean`, evaluated on what the real code
    answered. -/
def monitor (op : String) (ts impl : List String) : Option String :=
  match impl with
  | ["panic"] => some "selection-logic-panics"
  | "ok" :: obs =>
    match op with
    | "if-match" =>
      match (do
        let (k, ts) ← pKind ts
        let (i, _) ← pIface ts
        pure (k, i) : Option (IfKind × Iface)) with
      | none => some "bad-op"
      | some (k, i) =>
        -- the documented meaning of each kind (`IfKind` doc comments)
        if obs != [boolTok (k.matches i)] then some "kind-does-not-match-as-documented" else none
    | "resolve-addr" =>
      match (do
        let (k, ts) ← pKind ts
        let (intfs, _) ← P.list pIface ts
        pure (k, intfs) : Option (IfKind × List Iface)) with
      | none => some "bad-op"
      | some (k, intfs) =>
        -- `resolve_addr_spec`
        if obs != kindToks (resolveAddr k intfs) then some "addr-selection-not-stored-as-index-and-family" else none
    | "select" =>
      match (do
        let (sels, ts) ← P.list pSel ts
        let (intfs, _) ← P.list pIface ts
        pure (sels, intfs) : Option (List Selection × List Iface)) with
      | none => some "bad-op"
      | some (sels, intfs) =>
        match pBools obs with
        | none => some "unparsable-observation"
        | some (marks, _) =>
          -- `selected_iff`: last matching selection wins, default enabled, per interface
          if marks != intfs.map (selected sels) then some "last-matching-selection-does-not-win" else none
    | "select-at" =>
      match (do
        let (calls, ts) ← P.list pSelAt ts
        let (intfs, _) ← P.list pIface ts
        pure (calls, intfs) : Option (List (Selection × List Iface) × List Iface)) with
      | none => some "bad-op"
      | some (calls, intfs) =>
        match pBools obs with
        | none => some "unparsable-observation"
        | some (marks, _) =>
          if marks != intfs.map (selected (storedSelections calls)) then
            some "last-matching-selection-does-not-win"
          else none
    | "valid-ip" =>
      match (do
        let (ip, ts) ← pIp ts
        let ((ifip, mask), _) ← pIfAddr ts
        pure (ip, ifip, mask) : Option (Ip × Ip × Ip)) with
      | none => some "bad-op"
      | some (ip, ifip, mask) =>
        match obs with
        | [v] =>
          -- `validIp_iff_bytes`: same family and equal octet by octet under the mask
          let want := ip.length == ifip.length &&
            (List.zipWith (· &&& ·) ip mask == List.zipWith (· &&& ·) ifip mask)
          if v != boolTok want then some "subnet-test-is-not-masked-equality" else none
        | _ => some "unparsable-observation"
    | "addrs-on-intf" =>
      match pAddrsOp ts with
      | none => some "bad-op"
      | some (o, _) =>
        match P.list pIp obs with
        | none => some "unparsable-observation"
        | some (found, _) =>
          -- `addrsOnIntf_iff`: exactly the service's addresses of that family in a subnet of the interface
          let want := fun a => (isV4 a == o.v4) && o.ifs.any fun x => validIpOnIntf a x.1 x.2
          if !found.all (fun a => o.svc.contains a && want a) then some "address-outside-the-link-published"
          else if !(o.svc.filter want).all found.contains then some "address-on-the-link-missing"
          else none
    | _ => some "unknown-op"
  | _ => some "unparsable-observation"

end Mdns.Driver.C18
