import Mdns.Driver.C08
import Mdns.Driver.Sim
import Mdns.Model.Label
/-
  C15: "no API argument and no packet can crash a caller or kill the daemon".
  * `c15-call <fn> ...`: one call of a function every public entry point goes through (the
    name checks, the renaming functions, the label writer) on a hostile string; the model
    side is the C08 / Label model of that function, the monitor asks only for "no panic".
  * `sim C15 ...`: a daemon-level history (hostile API arguments, hostile packets, conflicts
    that force renames, then enough virtual time for the deferred work), judged by
    `monitorCrash`.
-/
namespace Mdns.Driver.C15
open Mdns Mdns.Trace

def exec (ts impl : List String) : Option String :=
  match ts with
  | ["cut-label", h] => (bytesOfHex h).map fun s => joinToks ["ok", hexOfBytes (Label.writeUtf8 s)]
  | op :: rest => Driver.C08.exec op rest impl
  | [] => none

def monitorCall (impl : List String) : Option String :=
  match impl with
  | ["panic"] => some "public-function-panics"
  | "ok" :: _ => none
  | ["err"] => none
  | _ => some "unparsable-observation"

/-! ### daemon-level histories -/

/-- a call made by the test thread panicked in that thread -/
def callerPanicked (obs : List Obs) : Bool :=
  obs.any fun o => match o with | .ret _ r => r == "panic" | _ => false

/-- the daemon thread of `d` ended (by a panic or otherwise) -/
def threadEnded (obs : List Obs) (d : Nat) : Bool :=
  obs.any fun o => match o with | .ended d' _ => d' == d | _ => false

/-- the history asks daemon `d` to shut down -/
def shutdownAsked (script : List Cmd) (d : Nat) : Bool :=
  script.any fun c => match c with | .shutdown d' _ => d' == d | _ => false

/-- daemons of a history: `daemon` commands number them 0, 1, ... -/
def daemonCount (script : List Cmd) : Nat :=
  (script.filter fun c => match c with | .daemon _ => true | _ => false).length

/-- the requests "after the input" that a live daemon must answer: every `status` and
    `metrics` command of the history addressed to a daemon that is never asked to shut down -/
def probes (script : List Cmd) : List (Nat × Nat × Bool) :=
  script.filterMap fun c => match c with
    | .status d ch => if shutdownAsked script d then none else some (d, ch, true)
    | .metrics d ch => if shutdownAsked script d then none else some (d, ch, false)
    | _ => none

/-- `status()` answered `Running` / `get_metrics()` answered, on the channel of the request -/
def answered (obs : List Obs) (p : Nat × Nat × Bool) : Bool :=
  obs.any fun o => match o with
    | .ev d ch toks => d == p.1 && ch == p.2.1 &&
        (if p.2.2 then toks == ["status", "running"] else toks.headD "" == "metrics")
    | _ => false

/-- The verdict of C15 on one history. -/
def monitorCrash (script : List Cmd) (obs : List Obs) : Option String :=
  if callerPanicked obs then some "calling-thread-panicked"
  else if (List.range (daemonCount script)).any fun d => threadEnded obs d && !shutdownAsked script d then
    some "daemon-thread-ended"
  else if !(probes script).all (answered obs) then some "daemon-not-serving-after-the-input"
  else none

end Mdns.Driver.C15
