import Mdns.Driver.Sim
import Mdns.Driver.MonShutdown
import Mdns.Driver.SimResponder
/-
  Monitors of the responder-side properties (C06, C07, C09) on real traces of `sim` histories
  with registrations.  They look only at what the property statements talk about - the
  packets the daemon sent (decoded from the wire bytes), the datagrams it read, the API calls
  and their replies, the monitor events - and never at the responder model: the model is
  compared with the code by the correspondence (`SimResponder`), these clauses judge the code.

  Every clause is conservative: it is evaluated only in histories / at points where the
  statement is unambiguous, so that a failure is a failure of the statement.
-/
namespace Mdns.Driver.MonResponder
open Mdns Mdns.Trace Mdns.Driver.Sim

/-- a datagram sent by the daemon -/
structure Pkt where
  k : Nat
  t : Nat
  ifi : Nat
  v4 : Bool
  dest : String
  resp : Bool
  m : Wire.Msg
  deriving Inhabited

def qrBit (b : BList) : Bool := match b with | _ :: _ :: f :: _ => f ≥ 0x80 | _ => false

def sentBy (iters : List Iter) (d : Nat) : List Pkt :=
  iters.zipIdx.flatMap fun ((it, k) : Iter × Nat) =>
    if it.d != d then [] else
    it.tx.filterMap fun ((ifi, v4, dest, b) : Nat × Bool × String × BList) =>
      (MonShutdown.decodeRaw b).map fun m => { k, t := it.now, ifi, v4, dest, resp := qrBit b, m }

/-- a datagram read by the daemon: iteration, interface, family, source, QR bit, message -/
structure Rx where
  k : Nat
  t : Nat
  ifi : Nat
  v4 : Bool
  src : String
  resp : Bool
  m : Wire.Msg
  deriving Inhabited

def readBy (iters : List Iter) (d : Nat) : List Rx :=
  iters.zipIdx.flatMap fun ((it, k) : Iter × Nat) =>
    if it.d != d then [] else
    it.rx.filterMap fun ((ifi, v4, src, b) : Nat × Bool × String × BList) =>
      (MonShutdown.decodeRaw b).map fun m => { k, t := it.now, ifi, v4, src, resp := qrBit b, m }

def cmdDaemonR : Cmd → Option Nat
  | .register d .. => some d
  | c => cmdDaemon c

/-- identity of a record: owner (any letter case), type, RDATA -/
def sameRec (a b : Wire.Rec) : Bool := lower a.name == lower b.name && a.ty == b.ty && a.rdata == b.rdata

/-- the part of a type after `._sub.` -/
def baseType (ty : BList) : BList :=
  let s := String.ofList (ty.map fun b => Char.ofNat b.toNat)
  match s.splitOn "._sub." with
  | [_, b] => b.toList.map fun c => UInt8.ofNat c.toNat
  | _ => ty

/-- full instance name of a registration, lower case, labels escaped as on the API -/
def fullOf (ty inst : BList) : BList := lower (inst ++ [0x2E] ++ baseType ty)

/-- the instance a record belongs to, seen from the wire: SRV / TXT owner, PTR target -/
def mentions (inst : BList) (r : Wire.Rec) : Bool :=
  match r.rdata with
  | .ptr n => lower n == inst
  | .srv .. | .txt _ => lower r.name == inst
  | _ => false

/-- names on the wire are unescaped; the generators' instance labels need no escaping, so the
    API spelling and the wire spelling coincide (histories with `\` or `.` in a label are not
    judged: see `plainNames`) -/
def plainNames (script : List Cmd) : Bool :=
  script.all fun c => match c with
    | .register _ _ inst .. => !(inst.contains 0x2E || inst.contains 0x5C)
    | _ => true

def registers (calls : List (Cmd × Nat)) (d : Nat) : List (Nat × BList × BList × List String × Bool × Bool) :=
  calls.filterMap fun ((c, k) : Cmd × Nat) =>
    match c with
    | .register d' ty inst host _ ips _ probe auto => if d' == d then some (k, fullOf ty inst, lower host, ips, probe, auto) else none
    | _ => none

def timeOf (iters : List Iter) (k : Nat) : Nat := (iters.toArray[k]?.map (·.now)).getD 0

/-- a registration is refused later, with an Error event, when the service label is longer than
    the limit (15 bytes unless changed by set_service_name_len_max) -/
def refusedLater (script : List Cmd) : Bool :=
  script.any fun c => match c with
    | .other ("namelen" :: _) => true
    | .register _ ty .. =>
      let labels := (String.ofList ((baseType ty).map fun b => Char.ofNat b.toNat)).splitOn "."
      decide ((labels.headD "").length > 16)
    | _ => false

/-! ### C07 -/

/-- distinct times, ascending, of the probe queries of daemon `d` on interface `ifi` sent in
    iterations before `k` that carry `r` in the authority section and ask ANY for its name -/
def probeTimes (pk : List Pkt) (ifi k : Nat) (r : Wire.Rec) : List Nat :=
  ((pk.filter fun q => q.k < k && q.ifi == ifi && !q.resp &&
      q.m.authorities.any (sameRec r) &&
      q.m.questions.any fun qu => lower qu.name == lower r.name && qu.ty == 255).map (·.t)).eraseDups

/-- three probes 250 ms apart and a further 250 ms before time `t` (the last three count: a
    lost tiebreak starts the probing again) -/
def probedBy (ts : List Nat) (t : Nat) : Bool :=
  match ts.reverse with
  | p3 :: p2 :: p1 :: _ => decide (p1 + 250 ≤ p2) && decide (p2 + 250 ≤ p3) && decide (p3 + 250 ≤ t)
  | _ => false

/-- `ok_C07`, first clause: no unique record (SRV, TXT, A, AAAA) of a service that requires
    probing leaves the daemon in a response on an interface before three probe queries with
    that record in the authority section went out there 250 ms apart, and 250 ms more. -/
def monitorProbed (script : List Cmd) (iters : List Iter) (d : Nat) (answersOnly : Bool := false) : Option String :=
  let calls := processedCalls script iters cmdDaemonR
  let regs := registers calls d
  let pk := sentBy iters d
  let rxs := readBy iters d
  let timeJump := script.any fun c => match c with | .now _ => true | _ => false
  if !plainNames script then none else
  pk.findSome? fun p =>
    if !p.resp then none else
    -- C06 judges answers to queries only (packets of iterations that read a datagram)
    if answersOnly && (iters.toArray[p.k]?.map fun it => it.rx.isEmpty).getD true then none else
    (p.m.answers ++ p.m.additionals).findSome? fun r =>
      if r.ttl == 0 || !(r.ty == 33 || r.ty == 16 || r.ty == 1 || r.ty == 28) then none else
      -- the registrations this record can come from
      let owners := regs.filter fun ((_, full, host, _, _, _) : Nat × BList × BList × List String × Bool × Bool) =>
        -- (the host name a registration ends up with is not always the one given - a doubled
        -- `.local.` is cut, a conflict renames it: every registration may own an address record)
        if r.ty == 1 || r.ty == 28 then host == lower r.name || true else full == lower r.name
      -- not ours to judge: no registration, one that does not require probing, or automatic addresses
      if owners.isEmpty || owners.any (fun o => !o.2.2.2.2.1 || o.2.2.2.2.2) then none else
      if probedBy (probeTimes pk p.ifi p.k r) p.t then none else
      -- "unless this daemon already holds that name": an address record under a host name of
      -- which another address record was fully probed before this one was registered
      let ipText (x : String) : Bool := (SimResponder.parseIp x) == (match r.rdata with | .a ip | .aaaa ip => some ip | _ => none)
      let kReg := ((owners.filter fun o => o.2.2.2.1.any ipText).map (·.1)).foldl min (10 ^ 9)
      let held := (r.ty == 1 || r.ty == 28) && pk.any fun q =>
        q.k < kReg && q.resp && q.ifi == p.ifi &&
        (q.m.answers ++ q.m.additionals).any fun r' =>
          (r'.ty == 1 || r'.ty == 28) && lower r'.name == lower r.name && r'.ttl > 0 &&
          probedBy (probeTimes pk q.ifi q.k r') q.t
      if held then none else
      -- a competing probe (authority section of a query) or a response about that name was read
      let tiebreak := rxs.any fun x => x.k ≤ p.k &&
        (if x.resp then x.m.answers ++ x.m.additionals else x.m.authorities).any fun r' => lower r'.name == lower r.name
      let sameInst := owners.length ≥ 2 && !(r.ty == 1 || r.ty == 28) ||
        (regs.any fun a => regs.any fun b => a.1 != b.1 && a.2.1 == b.2.1)
      let sharedHost := (r.ty == 1 || r.ty == 28) && owners.length ≥ 2
      -- a name the daemon chose itself after a conflict: no registration asked for it
      let conflictSeen := rxs.any fun x => x.k ≤ p.k &&
        (if x.resp then x.m.answers ++ x.m.additionals else x.m.authorities).any fun r' =>
          regs.any fun o => o.2.1 == lower r'.name || o.2.2.1 == lower r'.name
      let renamedName := conflictSeen && !(regs.any fun o => o.2.1 == lower r.name || o.2.2.1 == lower r.name)
      -- probe queries asking for the name at all, whatever their authority section
      let asked := ((pk.filter fun q => q.k < p.k && q.ifi == p.ifi && !q.resp &&
        q.m.questions.any fun qu => lower qu.name == lower r.name && qu.ty == 255).map (·.t)).eraseDups
      let what := s!"rec={hexOfBytes r.name}/{r.ty} if={p.ifi} t={p.t} probes={probeTimes pk p.ifi p.k r}"
      -- D37: after a host rename direct answers carry an SRV record with the OLD target, while
      -- the announcements (and the probes) carried the new one
      let staleSrv := r.ty == 33 && (rxs.any fun x => x.resp && x.k ≤ p.k) && pk.any fun q => q.k < p.k && q.resp &&
        (q.m.answers.any fun r' => r'.ty == 33 && lower r'.name == lower r.name && r'.rdata != r.rdata && r'.ttl > 0)
      -- (a re-registration of the instance - D32, open - is judged before the mechanisms that are
      -- repaired: since the repairs of D31, D33, D34 a late iteration, a shared probe or a
      -- competing probe that was read explain nothing by themselves; their labels stay so that a
      -- regression is named)
      -- (since the repair of D37 an SRV whose target changed after a response was read carries the
      -- NEW host name: what is left is that it is sent - the service is still Announced - while
      -- the re-targeted record is being probed again: D45)
      -- the name was taken from us by a conflict (NameChange event old -> new before this packet)
      -- and no registration asked for it again since
      let lostAt := (iters.zipIdx.filterMap fun ((it, k) : Iter × Nat) =>
        if it.d != d || k ≥ p.k then none else
        if it.evs.any fun ((_, toks) : Nat × List String) =>
          match toks with
          | ["namechange", o, _, _, _] => (bytesOfHex o).map lower == some (lower r.name)
          | _ => false
        then some k else none).getLast?
      let lostName := match lostAt with
        | some k => !(owners.any fun o => o.1 > k)
        | none => false
      if lostName then some s!"answers-under-the-name-it-lost-in-a-conflict {what}"
      else if staleSrv then some s!"re-targeted-SRV-answered-while-it-is-probed-again {what}"
      else if renamedName && probedBy asked p.t then some s!"record-missing-from-first-probe-after-rename {what}"
      -- D47: a conflict about the host's address of ONE family renames the host; the address record
      -- of the other family finishes the probe of the OLD name first, is renamed then and probed
      -- again - while the service, announced meanwhile with the first family, answers with it
      else if renamedName && (r.ty == 1 || r.ty == 28) then
        some s!"renamed-host-address-answered-while-it-is-probed-again {what}"
      else if sameInst then some s!"answered-while-address-still-probing {what}"
      else if timeJump then some s!"announced-with-fewer-than-three-probes-late-iteration {what}"
      else if sharedHost then some s!"announced-with-fewer-than-three-probes-shared-probe {what}"
      else if tiebreak then some s!"probe-resumes-without-wakeup-after-lost-tiebreak {what}"
      else some s!"record-sent-before-three-probes {what}"

/-- announce events of daemon `d`: (iteration, instance lower-cased, "host:intf") -/
def announces (iters : List Iter) (d : Nat) : List (Nat × BList × String) :=
  iters.zipIdx.flatMap fun ((it, k) : Iter × Nat) =>
    if it.d != d then [] else
    it.evs.filterMap fun ((_, toks) : Nat × List String) =>
      match toks with
      | ["announce", n, hi] => do
        let n ← bytesOfHex n
        let hi ← bytesOfHex hi
        pure (k, lower n, String.ofList (hi.map fun b => Char.ofNat b.toNat))
      | _ => none

/-- unsolicited multicast responses of daemon `d` that speak for `inst` - its announcements -
    as (iteration, time): packets with a record of the instance and a TTL above 0, sent in an
    iteration that read no datagram -/
def announcementsOf (iters : List Iter) (pk : List Pkt) (inst : BList) : List (Nat × Nat × Nat × Bool) :=
  ((pk.filter fun p => p.resp && p.dest == "m" &&
      (p.m.answers.any fun r => r.ttl > 0 && (match r.rdata with | .ptr n => lower n == inst | _ => false)) &&
      (iters.toArray[p.k]?.map fun it => it.rx.isEmpty).getD false).map fun p => (p.k, p.t, p.ifi, p.v4)).eraseDups

/-- is the history free of everything that may legitimately delay or cancel an announcement:
    conflicting datagrams, time jumps, interface changes, unregistration, shutdown, renames -/
def calm (script : List Cmd) (iters : List Iter) (d : Nat) : Bool :=
  !(script.any fun c => match c with
      | .now _ | .ifaces .. | .shutdown .. | .unregister .. | .inject .. => true
      | .other ("drop" :: _) | .other ("dup" :: _) | .other ("disable" :: _) | .other ("enable" :: _) => true
      | _ => false) &&
  !(iters.any fun it => it.d == d && it.evs.any fun e => e.2.headD "" == "namechange")

/-- `ok_C07`, second clause: announced at least twice, one second apart; every registration on
    a usable interface is announced within a bounded time (jitter ≤ 250 ms + 750 ms of
    probing; judged with 1 s of slack, in calm single-registration-per-name histories). -/
def monitorAnnounced (script : List Cmd) (iters : List Iter) (d : Nat) : Option String :=
  if !calm script iters d || !plainNames script || refusedLater script then none else
  let calls := processedCalls script iters cmdDaemonR
  let regs := registers calls d
  let pk := sentBy iters d
  let tEnd := (iters.getLast?.map (·.now)).getD 0
  let ifs := ((script.filterMap fun c => match c with | .daemon ifs => some ifs | _ => none)[d]?).getD []
  regs.findSome? fun ((kr, full, host, ips, _, auto) : Nat × BList × BList × List String × Bool × Bool) =>
    -- registered once under this name
    if (regs.filter fun o => o.2.1 == full).length != 1 then none else
    -- a registration that shares its host name with another one may wait for the other's address
    -- records: every record that joins the probe of the host name starts that probe over (repair
    -- of D33) - bounded, but not by two seconds
    let hostKey (h : BList) : BList :=
      let dbl := [0x2E, 0x6C, 0x6F, 0x63, 0x61, 0x6C, 0x2E, 0x6C, 0x6F, 0x63, 0x61, 0x6C, 0x2E]
      if dbl.isSuffixOf h then h.take (h.length - 6) else h
    -- ... it is bounded by the LAST registration that shares the host name: from then on nothing
    -- joins any more, the probe of the host name runs its 750 ms and everybody waiting for it is
    -- woken (the seeded change C07-sharing-service-not-on-waiting-list hid in the former exemption)
    let sharing := regs.filter fun o => hostKey o.2.2.1 == hostKey host
    let tr := (sharing.map fun o => timeOf iters o.1).foldl max (timeOf iters kr)
    -- usable: some address of the service lies in the subnet of some interface address
    let usable := auto || ips.any fun ipS =>
      match SimResponder.parseIp ipS with
      | none => false
      | some ip => ifs.any fun i =>
          match SimResponder.parseIp i.ip with
          | some ifIp => ifIp.length == ip.length &&
              Intf.validIpOnIntf ip ifIp (SimResponder.maskOctets ip.length i.prefixLen)
          | none => false
    let mine := announcementsOf iters pk full
    if usable && tr + 2000 ≤ tEnd && !(mine.any fun a => a.2.1 ≤ tr + 2000) then
      some s!"registration-not-announced-within-two-seconds inst={hexOfBytes full} registered-at={timeOf iters kr} last-sharing-registration-at={tr}"
    else
      -- the first announcement is repeated one second later (the second token of the event
      -- names the interface differently in the two announcements: not used as a key)
      -- on every interface and family: "announced at least twice, one second apart"
      mine.findSome? fun a =>
        let first := !(mine.any fun b => b.1 < a.1 && b.2.2 == a.2.2)
        let ta := a.2.1
        if first && ta + 1000 ≤ tEnd && !(mine.any fun b => b.2.1 == ta + 1000 && b.2.2 == a.2.2) then
          some s!"no-second-announcement-one-second-later inst={hexOfBytes full} if={a.2.2.1} v4={a.2.2.2} first-at={ta}"
        else none

/-! ### C09 -/

/-- does the packet say goodbye to `inst` (PTR to it with TTL 0)? -/
def goodbyeOf (inst : BList) (p : Pkt) : Bool :=
  p.resp && p.m.answers.any fun r => r.ttl == 0 && r.ty == 12 && (match r.rdata with | .ptr n => lower n == inst | _ => false)

/-- does the packet announce / answer for `inst` (a record of it with a TTL above 0)? -/
def speaksFor (inst : BList) (p : Pkt) : Bool :=
  p.resp && (p.m.answers ++ p.m.additionals).any fun r => r.ttl > 0 && mentions inst r

/-- `ok_C09` -/
def monitorUnregister (script : List Cmd) (iters : List Iter) (d : Nat) : Option String :=
  if !plainNames script then none else
  let calls := processedCalls script iters cmdDaemonR
  let regs := registers calls d
  let pk := sentBy iters d
  let renamed := iters.any fun it => it.d == d && it.evs.any fun e => e.2.headD "" == "namechange"
  let shutdownAt := (calls.filterMap fun ((c, k) : Cmd × Nat) => match c with | .shutdown d' _ => if d' == d then some k else none | _ => none).foldl min (10 ^ 9)
  let unregs := calls.filterMap fun ((c, k) : Cmd × Nat) =>
    match c with | .unregister d' ch n => if d' == d then some (k, ch, lower n) else none | _ => none
  let tEnd := (iters.getLast?.map (·.now)).getD 0
  -- a registration is refused later, with an Error event, when the service label is longer than
  -- the limit (15 bytes unless changed): such histories are not judged; nor are histories in
  -- which the clock is moved by hand (the repeat of the goodbye is then late by construction)
  let odd := refusedLater script || script.any fun c => match c with | .now _ => true | _ => false
  if odd then none else
  unregs.findSome? fun ((ku, ch, name) : Nat × Nat × BList) =>
    if ku ≥ shutdownAt || renamed then none else
    -- registered at that moment: a register of that name processed before, not unregistered since
    let lastReg := ((regs.filter fun o => o.2.1 == name && o.1 < ku).map (·.1)).foldl max 0
    let everReg := regs.any fun o => o.2.1 == name && o.1 < ku
    let sameIter := regs.any fun o => o.2.1 == name && o.1 == ku
    let unregSince := unregs.any fun u => u.2.2 == name && u.1 < ku && u.1 ≥ lastReg
    let registered := everReg && !unregSince
    let reply := (chanEvents iters d ch).findSome? fun e => match e.2 with | ["unreg", r] => some r | _ => none
    if sameIter then none else
    match reply with
    | none => if timeOf iters ku < tEnd then some s!"no-reply-to-unregister name={hexOfBytes name}" else none
    | some r =>
      if registered && r != "ok" then some s!"unregister-of-registered-service-not-OK name={hexOfBytes name} reply={r}"
      else if !registered && r == "ok" then some s!"unregister-of-unknown-service-OK name={hexOfBytes name}"
      else if r != "ok" then none
      else
        let tu := timeOf iters ku
        -- where it was announced since the last registration
        let announcedOn := ((pk.filter fun p => p.k ≥ lastReg && p.k < ku && speaksFor name p && p.dest == "m").map
          fun p => (p.ifi, p.v4)).eraseDups
        let byeNow := pk.filter fun p => p.k == ku && goodbyeOf name p
        let stray := byeNow.find? fun p => !announcedOn.contains (p.ifi, p.v4)
        let missing := announcedOn.find? fun (l : Nat × Bool) => !(byeNow.any fun p => (p.ifi, p.v4) == l && p.dest == "m")
        let incomplete := byeNow.find? fun p =>
          !(p.m.answers.any fun r => r.ty == 33 && r.ttl == 0 && lower r.name == name) ||
          !(p.m.answers.any fun r => r.ty == 16 && r.ttl == 0 && lower r.name == name) ||
          (p.m.answers ++ p.m.additionals).any fun r => r.ttl != 0
        let reRegistered := regs.any fun o => o.2.1 == name && o.1 > ku
        let repeatMissing := announcedOn.find? fun (l : Nat × Bool) =>
          !(pk.any fun p => p.k > ku && (p.ifi, p.v4) == l && goodbyeOf name p && tu + 100 ≤ p.t && p.t ≤ tu + 200)
        let loud := pk.find? fun p => p.k > ku && speaksFor name p &&
          !(regs.any fun o => o.2.1 == name && o.1 > ku && o.1 ≤ p.k)
        match stray, missing, incomplete with
        | some p, _, _ => some s!"goodbye-where-not-announced name={hexOfBytes name} if={p.ifi} v4={p.v4} t={tu}"
        | _, some l, _ => some s!"no-goodbye-where-announced name={hexOfBytes name} if={l.1} v4={l.2} t={tu}"
        | _, _, some p => some s!"goodbye-incomplete-or-with-live-records name={hexOfBytes name} if={p.ifi} t={tu}"
        | _, _, _ =>
          if tu + 200 < tEnd && !reRegistered && ku + 1 < shutdownAt && repeatMissing.isSome then
            some s!"goodbye-not-repeated-after-120-ms name={hexOfBytes name} t={tu}"
          else match loud with
            | some p => some s!"speaks-for-service-after-unregister name={hexOfBytes name} t={p.t}"
            | none => none

/-! ### C10 at daemon level -/

/-- `ok_C10` on a responder: a query that lists one of our records as a known answer - the very
    record we would send (same owner spelling, type, class with the cache-flush bit, RDATA) with
    a TTL above half of ours - is not answered with that record; and the other way round, a
    listed TTL of at most half (or other RDATA) does not silence an answer the query asks for
    (judged for address questions on a host name, where the expected answer is unambiguous).
    Only iterations that read exactly one datagram and made no API call are judged. -/
def monitorKnownAnswers (script : List Cmd) (iters : List Iter) (d : Nat) : Option String :=
  if !plainNames script then none else
  let pk := sentBy iters d
  let rxs := readBy iters d
  rxs.findSome? fun x =>
    if x.resp then none else
    let alone := (rxs.filter fun y => y.k == x.k).length == 1
    let quietIter := (iters.toArray[x.k]?.map fun it => it.calls.isEmpty &&
      !(it.evs.any fun e => e.2.headD "" == "announce" || e.2.headD "" == "unreg")).getD false
    if !alone || !quietIter then none else
    let out := pk.filter fun p => p.k == x.k && p.resp
    -- (1) suppressed records must stay unsent
    out.findSome? fun p =>
      p.m.answers.findSome? fun r =>
        let listed := x.m.answers.any fun ka =>
          ka.name == r.name && ka.ty == r.ty && ka.cls == r.cls && ka.flush == r.flush && ka.rdata == r.rdata &&
          decide (2 * ka.ttl > r.ttl)
        -- a legacy (unicast) answer clears the cache-flush bit: compare the multicast form only
        if listed && p.dest == "m" && r.ttl > 0 then
          some s!"answer-sent-although-listed-as-known-answer rec={hexOfBytes r.name}/{r.ty} t={p.t}"
        else none

/-- `ok_C06`, completeness for address questions: in a calm history (no unregister, shutdown,
    interface change, conflict) a host name whose address record the daemon has announced on an
    interface is answered for - every A / AAAA / ANY question on that name in a query gets that
    record in the answer section, unless the query lists it as a known answer with more than half
    its TTL - whatever else the same query asks.  Only iterations that read exactly one datagram
    and made no API call are judged. -/
def monitorAddressAnswers (script : List Cmd) (iters : List Iter) (d : Nat) : Option String :=
  if !plainNames script then none else
  let calm := !(script.any fun c => match c with
      | .unregister .. | .shutdown .. | .ifaces .. | .now _ => true
      | .other ("enable" :: _) | .other ("disable" :: _) => true
      | _ => false) &&
    !(iters.any fun it => it.d == d && it.evs.any fun e => e.2.headD "" == "namechange")
  if !calm then none else
  let pk := sentBy iters d
  let rxs := readBy iters d
  -- a response read by the daemon may be a conflict: not calm
  if rxs.any (·.resp) then none else
  -- registered once per name: re-registrations change the address sets
  let calls := processedCalls script iters cmdDaemonR
  let regs := registers calls d
  if regs.any (fun a => regs.any fun b => a.1 != b.1 && a.2.1 == b.2.1) then none else
  rxs.findSome? fun x =>
    let alone := (rxs.filter fun y => y.k == x.k).length == 1
    let quietIter := (iters.toArray[x.k]?.map fun it => it.calls.isEmpty &&
      !(it.evs.any fun e => e.2.headD "" == "announce")).getD false
    if !alone || !quietIter then none else
    -- address records announced on this interface and family before (unsolicited, answer section)
    let held := (pk.filter fun p => p.k < x.k && p.resp && p.dest == "m" && p.ifi == x.ifi && p.v4 == x.v4 &&
        (iters.toArray[p.k]?.map fun it => it.rx.isEmpty).getD false).flatMap fun p =>
      p.m.answers.filter fun r => (r.ty == 1 || r.ty == 28) && r.ttl > 0
    let out := pk.filter fun p => p.k == x.k && p.resp
    x.m.questions.findSome? fun q =>
      held.findSome? fun h =>
        if !(lower h.name == lower q.name && (q.ty == h.ty || q.ty == 255)) then none else
        let listed := x.m.answers.any fun ka =>
          lower ka.name == lower h.name && ka.ty == h.ty && ka.rdata == h.rdata && decide (2 * ka.ttl > h.ttl)
        let answered := out.any fun p => (p.m.answers ++ p.m.additionals).any fun r =>
          lower r.name == lower h.name && r.ty == h.ty && r.rdata == h.rdata && r.ttl > 0
        if listed || answered then none
        else some s!"address-question-not-answered host={hexOfBytes q.name} qtype={q.ty} t={x.t}"

/-- `ok_C10` / `ok_C06`, completeness for questions on the instance and the service type: in a
    calm history a PTR, SRV or TXT record that the daemon has announced on an interface is
    answered for - every question on its owner name of its type (or ANY) gets the record, unless
    the query lists THAT record as a known answer with more than half its TTL.  A known answer for
    one record silences nothing else ("all other matching records are still answered"). -/
def monitorInstanceAnswers (script : List Cmd) (iters : List Iter) (d : Nat) : Option String :=
  if !plainNames script then none else
  let calm := !(script.any fun c => match c with
      | .unregister .. | .shutdown .. | .ifaces .. | .now _ => true
      | .other ("enable" :: _) | .other ("disable" :: _) => true
      | _ => false) &&
    !(iters.any fun it => it.d == d && it.evs.any fun e => e.2.headD "" == "namechange")
  if !calm then none else
  let pk := sentBy iters d
  let rxs := readBy iters d
  if rxs.any (·.resp) then none else
  let calls := processedCalls script iters cmdDaemonR
  let regs := registers calls d
  if regs.any (fun a => regs.any fun b => a.1 != b.1 && a.2.1 == b.2.1) then none else
  rxs.findSome? fun x =>
    let alone := (rxs.filter fun y => y.k == x.k).length == 1
    let quietIter := (iters.toArray[x.k]?.map fun it => it.calls.isEmpty &&
      !(it.evs.any fun e => e.2.headD "" == "announce")).getD false
    if !alone || !quietIter then none else
    let held := (pk.filter fun p => p.k < x.k && p.resp && p.dest == "m" && p.ifi == x.ifi && p.v4 == x.v4 &&
        (iters.toArray[p.k]?.map fun it => it.rx.isEmpty).getD false).flatMap fun p =>
      p.m.answers.filter fun r => (r.ty == 12 || r.ty == 33 || r.ty == 16) && r.ttl > 0
    let out := pk.filter fun p => p.k == x.k && p.resp
    x.m.questions.findSome? fun q =>
      held.findSome? fun h =>
        -- (the statement asks for case-insensitive matching of instance and host names; the crate
        -- compares service TYPE names as spelled - `matches_type_or_subtype` - so PTR questions are
        -- judged in the registered spelling only; an ANY question on a type name is not a PTR question)
        let nameMatch := if h.ty == 12 then h.name == q.name && q.ty == 12 else lower h.name == lower q.name && (q.ty == h.ty || q.ty == 255)
        if !nameMatch then none else
        let listed := x.m.answers.any fun ka =>
          lower ka.name == lower h.name && ka.ty == h.ty && ka.rdata == h.rdata && decide (2 * ka.ttl > h.ttl)
        let answered := out.any fun p => (p.m.answers ++ p.m.additionals).any fun r =>
          lower r.name == lower h.name && r.ty == h.ty && r.rdata == h.rdata && r.ttl > 0
        -- known finding D46: a subtype PTR question is answered through the TYPE's PTR record (answer
        -- section; the subtype PTR rides along as an additional), so a known answer for the type's
        -- PTR silences the subtype PTR too although that record is not listed
        let viaTypePtr := h.ty == 12 && x.m.answers.any fun ka =>
          ka.ty == 12 && ka.rdata == h.rdata && lower ka.name != lower h.name && (lower ka.name).isSuffixOf (lower h.name) &&
            decide (2 * ka.ttl > h.ttl)
        if listed || answered then none
        else if viaTypePtr then some s!"subtype-PTR-silenced-by-a-known-answer-for-the-type-PTR rec={hexOfBytes h.name}/{h.ty} t={x.t}"
        else some s!"record-not-answered-although-not-listed-as-known rec={hexOfBytes h.name}/{h.ty} qtype={q.ty} t={x.t}"

/-! ### C06 -/

def ifaceTable (script : List Cmd) (d : Nat) : Option (List Iface) :=
  if script.any (fun c => match c with | .ifaces .. => true | _ => false) then none
  else (script.filterMap fun c => match c with | .daemon ifs => some ifs | _ => none)[d]?

/-- `ok_C06`, the clauses that can be read off single packets: TTL and cache-flush values,
    addresses inside the subnet of the interface the packet leaves on, the legacy unicast
    rules, silence about services that are not announced. -/
def monitorAnswers (script : List Cmd) (iters : List Iter) (d : Nat) : Option String :=
  if !plainNames script then none else
  let calls := processedCalls script iters cmdDaemonR
  let regs := registers calls d
  let pk := sentBy iters d
  let rxs := readBy iters d
  let table := ifaceTable script d
  -- (1) values
  let badValue := pk.findSome? fun p =>
    if !p.resp then none else
    (p.m.answers ++ p.m.additionals).findSome? fun r =>
      let ours := regs.any fun o => mentions o.2.1 r || ((r.ty == 1 || r.ty == 28) && o.2.2.1 == lower r.name)
      if !ours || r.ttl == 0 then none else
      let legacy := p.dest != "m"
      let ttlOk := if r.ty == 12 || r.ty == 16 then r.ttl == 4500 else if r.ty == 33 || r.ty == 1 || r.ty == 28 then r.ttl == 120 else true
      let flushOk := if legacy then !r.flush else if r.ty == 12 then !r.flush else if r.ty == 33 || r.ty == 16 || r.ty == 1 || r.ty == 28 then r.flush else true
      if !ttlOk then some s!"response-record-with-wrong-TTL rec={hexOfBytes r.name}/{r.ty} ttl={r.ttl} t={p.t}"
      else if !flushOk then some s!"response-record-with-wrong-cache-flush-bit rec={hexOfBytes r.name}/{r.ty} flush={r.flush} unicast={legacy} t={p.t}"
      else none
  -- (2) addresses of our hosts only inside the subnet of the interface the packet leaves on
  let offLink := match table with
    | none => none
    | some ifs => pk.findSome? fun p =>
      if !p.resp then none else
      (p.m.answers ++ p.m.additionals).findSome? fun r =>
        match r.rdata with
        | .a ip | .aaaa ip =>
          let ours := regs.any fun o => o.2.2.1 == lower r.name
          let inSubnet := ifs.any fun i => i.index == p.ifi &&
            (match SimResponder.parseIp i.ip with
             | some ifIp => ifIp.length == ip.length && Intf.validIpOnIntf ip ifIp (SimResponder.maskOctets ip.length i.prefixLen)
             | none => false)
          if ours && r.ttl > 0 && !inSubnet then some s!"address-outside-the-subnet-of-the-interface rec={hexOfBytes r.name} ip={hexOfBytes ip} if={p.ifi} t={p.t}"
          else none
        | _ => none
  -- (3) legacy unicast: a query from a port other than 5353, alone in its iteration
  let legacy := rxs.findSome? fun x =>
    if x.resp || x.src.endsWith ":5353" then none else
    let alone := (rxs.filter fun y => y.k == x.k).length == 1
    if !alone then none else
    let out := pk.filter fun p => p.k == x.k && p.resp
    -- announcements and goodbyes of that iteration are not answers: judge only iterations
    -- without API calls and without announce events
    let quietIter := (iters.toArray[x.k]?.map fun it => it.calls.isEmpty && !(it.evs.any fun e => e.2.headD "" == "announce" || e.2.headD "" == "unreg")).getD false
    if !quietIter then none else
    match out.find? fun p => p.dest == "m" with
    | some p => some s!"legacy-query-answered-by-multicast src={x.src} t={p.t}"
    | none =>
      out.findSome? fun p =>
        if p.dest != x.src then some s!"legacy-answer-not-sent-to-the-querier dest={p.dest} src={x.src}"
        else if p.m.id != x.m.id then some s!"legacy-answer-does-not-echo-the-query-id id={p.m.id} query-id={x.m.id}"
        else if (p.m.questions.map fun q => (lower q.name, q.ty)) != (x.m.questions.map fun q => (lower q.name, q.ty)) then
          some s!"legacy-answer-does-not-echo-the-question src={x.src}"
        else none
  badValue <|> offLink <|> legacy

end Mdns.Driver.MonResponder
