import Mdns.Model.Compare
import Mdns.Model.Names
import Mdns.Driver.Wire
/-
  Line-protocol executor and monitor for the C08 component ops (harness/src/c08.rs):
  rec-compare, tiebreak, probe-time, probe-run, name-change, hostname-change, check-name, split-sub,
  escaped-labels.
-/
namespace Mdns.Driver.C08
open Mdns Mdns.Wire Mdns.Compare Mdns.Names

/-- `recdesc = <namehex> <ty> <class> <ttl> <rdata>`, class including the cache-flush bit -/
def pRecDesc : P Rec := fun ts => do
  let (name, ts) ← P.hex ts
  let (ty, ts) ← P.nat ts
  let (cls, ts) ← P.nat ts
  let (ttl, ts) ← P.nat ts
  let (rd, ts) ← Driver.Wire.pRData ts
  pure ({ name, ty, cls := cls % 32768, flush := decide (cls ≥ 32768), ttl, rdata := rd, start := 0, stop := 0 }, ts)

def ordTok : Ordering → String
  | .lt => "-1"
  | .eq => "0"
  | .gt => "1"

def pOrd : P Ordering
  | "-1" :: ts => some (.lt, ts)
  | "0" :: ts => some (.eq, ts)
  | "1" :: ts => some (.gt, ts)
  | _ => none

/-! ### tiebreak -/

structure TbOp where
  start : Nat
  now : Nat
  name : BList
  a : List Rec
  b : List Rec

def pTb : P TbOp := fun ts => do
  let (start, ts) ← P.nat ts
  let (now, ts) ← P.nat ts
  let (name, ts) ← P.hex ts
  let (a, ts) ← P.list pRecDesc ts
  let (b, ts) ← P.list pRecDesc ts
  pure ({ start, now, name, a, b }, ts)

/-- one side of the implementation's observation: record order, verdict, times -/
structure SideObs where
  order : List Nat
  lost : Bool
  start : Nat
  next : Nat

def pSide : P SideObs := fun ts => do
  let (order, ts) ← P.list P.nat ts
  let (v, ts) ← P.tok ts
  let lost ← (if v == "lost" then some true else if v == "kept" then some false else none)
  let (start, ts) ← P.nat ts
  let (next, ts) ← P.nat ts
  pure ({ order, lost, start, next }, ts)

def isPermOfRange (order : List Nat) (n : Nat) : Bool :=
  order.length == n && (List.range n).all order.contains

/-- Is `order` (indices into `recs`) an order `insert_record` may produce: a permutation that
    is sorted by (class, type)?  The position among records with equal keys is not specified
    by `binary_search_by`. -/
def probeOrderOk (recs : List Rec) (order : List Nat) : Bool :=
  isPermOfRange order recs.length && sortedByKey (order.filterMap (recs[·]?))

/-- The model's probe for `recs`: built with `insertRecord`; if the implementation shows
    another admissible order of equal-key records, that order is taken (an environment input,
    like hash order). -/
def probeRecords (recs : List Rec) (implOrder : Option (List Nat)) : List Rec × List Nat :=
  match implOrder with
  | some order =>
    if probeOrderOk recs order then (order.filterMap (recs[·]?), order)
    else modelOrder
  | none => modelOrder
where
  modelOrder : List Rec × List Nat :=
    let idx := (List.range recs.length).zip recs
    let sorted := idx.foldl (fun acc (x : Nat × Rec) => insertIdx x acc) []
    (sorted.map (·.2), sorted.map (·.1))
  insertIdx (x : Nat × Rec) : List (Nat × Rec) → List (Nat × Rec)
    | [] => [x]
    | y :: ys => if cmpKey y.2 x.2 == .gt then x :: y :: ys else y :: insertIdx x ys

def sideToks (order : List Nat) (p0 p : Probe) : List String :=
  listToks (fun i => [toString i]) order ++
    [if (p.start, p.next) != (p0.start, p0.next) then "lost" else "kept", toString p.start, toString p.next]

def implSides (impl : List String) : Option (SideObs × SideObs) :=
  match impl with
  | "ok" :: rest => do
    let (sa, rest) ← pSide rest
    let (sb, _) ← pSide rest
    pure (sa, sb)
  | _ => none

def tiebreakLine (op : TbOp) (impl : List String) : String :=
  let obs := implSides impl
  let (ra, oa) := probeRecords op.a (obs.map (·.1.order))
  let (rb, ob) := probeRecords op.b (obs.map (·.2.order))
  let pa0 : Probe := { records := ra, start := op.start, next := op.start }
  let pb0 : Probe := { records := rb, start := op.start, next := op.start }
  -- each side receives the other side's records in the order of the other's probe
  let pa := pa0.tiebreaking rb op.name op.now
  let pb := pb0.tiebreaking ra op.name op.now
  joinToks (["ok"] ++ sideToks oa pa0 pa ++ sideToks ob pb0 pb)

/-! ### executor -/

def resLine : Res BList → String
  | .ok b => "ok " ++ hexOfBytes b
  | .err => "err"
  | .panic => "panic"

def unitLine : Res Unit → String
  | .ok () => "ok"
  | .err => "err"
  | .panic => "panic"

def checkName (which : String) (limit : Nat) (s : BList) : Option (Res Unit) :=
  match which with
  | "len" => some (checkServiceNameLength s limit)
  | "suffix" => some (checkDomainSuffix s)
  | "service" => some (checkServiceName s)
  | "hostname" => some (checkHostname s)
  | "instance" => some (if validInstanceName s then .ok () else .err)
  | _ => none

def pCheck : P (String × Nat × BList) := fun ts => do
  let (which, ts) ← P.tok ts
  let (limit, ts) ← (if which == "len" then P.nat ts else some (0, ts))
  let (s, ts) ← P.hex ts
  pure ((which, limit, s), ts)

def exec (op : String) (ts impl : List String) : Option String :=
  match op with
  | "rec-compare" => do
    let (a, ts) ← pRecDesc ts
    let (b, _) ← pRecDesc ts
    pure (joinToks ["ok", ordTok (compareRec a b), ordTok (compareRec b a)])
  | "tiebreak" => do
    let (t, _) ← pTb ts
    pure (tiebreakLine t impl)
  | "probe-time" => do
    let (start, ts) ← P.nat ts
    let (now, _) ← P.nat ts
    let p := Probe.new start
    pure (joinToks ["ok", toString p.next, boolTok (p.expired now), toString (p.updateNextSend now).next])
  | "probe-run" => do
    let (start, ts) ← P.nat ts
    let (n, ts) ← P.nat ts
    let times := (ts.take n).filterMap String.toNat?
    if times.length != n then none else
    let r := (Probe.new start).run times
    let acts := r.1.map fun (e : Bool × Nat) => (if e.1 then "s" else "e") ++ toString e.2
    pure (joinToks ["ok", if acts.isEmpty then "-" else ",".intercalate acts, toString r.2.start, toString r.2.next])
  | "name-change" => do
    let (s, _) ← P.hex ts
    pure (resLine (nameChange s))
  | "hostname-change" => do
    let (s, _) ← P.hex ts
    pure (resLine (hostnameChange s))
  | "check-name" => do
    let ((which, limit, s), _) ← pCheck ts
    let r ← checkName which limit s
    pure (unitLine r)
  | "split-sub" => do
    let (s, _) ← P.hex ts
    let (ty, sub) := splitSubDomain s
    pure (joinToks (["ok", hexOfBytes ty] ++ optToks (fun x => [hexOfBytes x]) sub))
  | "escaped-labels" => do
    let (s, _) ← P.hex ts
    pure (joinToks ("ok" :: listToks (fun l => [hexOfBytes l]) (parseEscapedGo s [] false)))
  | _ => none

/-! ### monitor -/

/-- the text before the first `.` (what the renaming functions work on) and the rest -/
def firstPart (s : BList) : BList := s.takeWhile (· != DOT)

/-- The statement's reading of "an existing '(N)' suffix", independent of how the code looks
    for it: some split `f = base ++ " (" ++ num ++ ")"` with `num` a `u32` literal. -/
def parenSuffix (f : BList) : Option (BList × Nat) :=
  (List.range (f.length + 1)).findSome? fun i =>
    if SP_LPAREN.isPrefixOf (f.drop i) && (f.drop i).getLast? == some RPAREN && (f.drop i).length ≥ 3 then
      (parseU32 ((f.drop (i + 2)).dropLast)).map fun n => (f.take i, n)
    else none

/-- ... and of "an existing '-N' suffix": `f = base ++ "-" ++ num`. -/
def hyphenSuffix (f : BList) : Option (BList × Nat) :=
  (List.range (f.length + 1)).findSome? fun i =>
    if (f.drop i).head? == some HYPHEN then (parseU32 (f.drop (i + 1))).map fun n => (f.take i, n)
    else none

/-- the name the statement asks for (`name_change_spec` / `hostname_change_spec`) -/
def renamed (host : Bool) (orig : BList) : BList :=
  let f := firstPart orig
  let rest := orig.dropWhile (· != DOT)
  if host then
    match hyphenSuffix f with
    | some (base, n) =>
      -- a counter that cannot be counted up as a `u32` gets a fresh suffix (repair of D14)
      if n ≥ U32_MAX then f ++ HYPHEN2 ++ rest else base ++ [HYPHEN] ++ decimal (n + 1) ++ rest
    | none => f ++ HYPHEN2 ++ rest
  else
    match parenSuffix f with
    | some (base, n) =>
      if n ≥ U32_MAX then f ++ PAREN2 ++ rest
      else base ++ SP_LPAREN ++ decimal (n + 1) ++ [RPAREN] ++ rest
    | none => f ++ PAREN2 ++ rest

/-- Monitor of a rename, on the name the real code returned.
    * `rename-does-not-count-up`: 'x' -> 'x (2)' -> 'x (3)', 'h' -> 'h-2' -> 'h-3'.
    * `rename-panics`: the call must return.
    * `suffix-inside-escaped-label`: on the wire the name must keep its labels, only the
      first one may change (the suffix goes to the end of the first *label*, and `\.` is not
      a label boundary).
    * `renamed-label-over-63` / `renamed-name-over-255`: an encodable name stays encodable.
    * `rename-unchanged`: the new name differs from the old one. -/
def renameMonitor (host : Bool) (orig : BList) (impl : List String) : Option String :=
  match impl with
  | ["panic"] => some "rename-panics"
  | ["ok", h] =>
    match bytesOfHex h with
    | none => some "unparsable-observation"
    | some new =>
      let lo := wireLabels orig
      let ln := wireLabels new
      if new == orig then some "rename-unchanged"
      else if new != renamed host orig then some "rename-does-not-count-up"
      else if orig.head? != some DOT && !lo.isEmpty && ln.drop 1 != lo.drop 1 then some "suffix-inside-escaped-label"
      else if lo.all (·.length < 64) && !ln.all (·.length < 64) then some "renamed-label-over-63"
      else if orig.length ≤ 255 && new.length > 255 then some "renamed-name-over-255"
      else none
  | _ => some "unparsable-observation"

def swapOrd : Ordering → Ordering
  | .lt => .gt
  | .eq => .eq
  | .gt => .lt

def monitor (op : String) (ts impl : List String) : Option String :=
  match op with
  | "rec-compare" =>
    match (do
      let (a, ts) ← pRecDesc ts
      let (b, _) ← pRecDesc ts
      pure (a, b) : Option (Rec × Rec)) with
    | none => some "bad-op"
    | some (a, b) =>
      match impl with
      | ["panic"] => some "compare-panics"
      | ["ok", x, y] =>
        match pOrd [x], pOrd [y] with
        | some (cab, _), some (cba, _) =>
          -- the conclusions of `compare_antisymm` and `compare_eq_iff` on the real answers
          let compat := !(a.cls == b.cls && a.ty == b.ty) || kind a.rdata == kind b.rdata
          if compat && cba != swapOrd cab then some "compare-not-antisymmetric"
          else if (cab == .eq) != (a.cls == b.cls && a.ty == b.ty && a.rdata == b.rdata) then
            some "compare-equal-iff-same-data"
          else if a.cls != b.cls && cab != cmpNat a.cls b.cls then some "class-does-not-decide-first"
          else if a.cls == b.cls && a.ty != b.ty && cab != cmpNat a.ty b.ty then some "type-does-not-decide-second"
          else none
        | _, _ => some "unparsable-observation"
      | _ => some "unparsable-observation"
  | "tiebreak" =>
    match pTb ts with
    | none => some "bad-op"
    | some (t, _) =>
      let (obs, _) := impl.span (· != "|")
      match obs with
      | ["panic"] => some "tiebreak-panics"
      | _ =>
        match implSides obs with
        | none => some "unparsable-observation"
        | some (sa, sb) =>
          if !probeOrderOk t.a sa.order || !probeOrderOk t.b sb.order then some "probe-records-not-sorted"
          else
            let ra := sa.order.filterMap (t.a[·]?)
            let rb := sb.order.filterMap (t.b[·]?)
            let started := t.start < t.now
            let allNamed := (t.a ++ t.b).all (·.name == t.name)
            let compat := ra.all fun x => rb.all fun y =>
              !(x.cls == y.cls && x.ty == y.ty) || kind x.rdata == kind y.rdata
            -- the conclusions of `tiebreak_opposite`, `tiebreak_tie_iff`, `tiebreak_lost_times`
            -- `tiebreaking_spec`: the prober yields iff it has started and its records are earlier
            -- (first differing pair: class, type, RDATA; else fewer records)
            let wantA := started && zipCmp ra (incomingFor rb t.name) == .lt
            let wantB := started && zipCmp rb (incomingFor ra t.name) == .lt
            if sa.lost != wantA || sb.lost != wantB then some "yielding-prober-is-not-the-lexicographically-earlier"
            else if allNamed && sa.lost && sb.lost then some "both-probers-lose"
            else if !started && (sa.lost || sb.lost) then some "tiebreak-before-probe-started"
            else if sa.lost && (sa.start != t.now + 1000 || sa.next != t.now + 1000) then some "loser-does-not-wait-one-second"
            else if sb.lost && (sb.start != t.now + 1000 || sb.next != t.now + 1000) then some "loser-does-not-wait-one-second"
            else if !sa.lost && (sa.start != t.start || sa.next != t.start) then some "winner-changes-its-schedule"
            else if !sb.lost && (sb.start != t.start || sb.next != t.start) then some "winner-changes-its-schedule"
            else if started && allNamed && compat && !sa.lost && !sb.lost &&
                (ra.map fun r => (r.cls, r.ty, r.rdata)) != (rb.map fun r => (r.cls, r.ty, r.rdata)) then
              some "different-data-but-nobody-yields"
            else if started && allNamed && (sa.lost || sb.lost) &&
                (ra.map fun r => (r.cls, r.ty, r.rdata)) == (rb.map fun r => (r.cls, r.ty, r.rdata)) then
              some "same-data-but-somebody-yields"
            else none
  | "probe-time" =>
    match impl with
    | ["panic"] => some "probe-time-panics"
    | "ok" :: _ => none
    | _ => some "unparsable-observation"
  | "probe-run" =>
    -- whatever the instants: at most three queries, 250 ms apart, and an end only after three
    match impl with
    | ["panic"] => some "probe-run-panics"
    | ["ok", acts, _, _] =>
      let toks := if acts == "-" then [] else acts.splitOn ","
      let sends := toks.filterMap fun a => if a.startsWith "s" then (a.drop 1).toNat? else none
      let ended := toks.any fun a => a.startsWith "e"
      let endAt := (toks.filterMap fun a => if a.startsWith "e" then (a.drop 1).toNat? else none).headD 0
      let apart := (sends.zip (sends.drop 1)).all fun (x : Nat × Nat) => x.1 + 250 ≤ x.2
      if sends.length > 3 then some "more-than-three-probe-queries"
      else if !apart then some "probe-queries-less-than-250-ms-apart"
      else if ended && sends.length != 3 then some "probe-ends-before-three-queries"
      else if ended && !(sends.all fun x => x + 250 ≤ endAt) then some "probe-ends-less-than-250-ms-after-a-query"
      else none
    | _ => some "unparsable-observation"
  | "name-change" | "hostname-change" =>
    match P.hex ts with
    | none => some "bad-op"
    | some (s, _) => renameMonitor (op == "hostname-change") s impl
  | "check-name" | "split-sub" | "escaped-labels" =>
    -- helpers of the model's own predicates; panics of the checks belong to C15
    match impl with
    | ["panic"] => none
    | "ok" :: _ => none
    | ["err"] => none
    | _ => some "unparsable-observation"
  | _ => some "unknown-op"

end Mdns.Driver.C08
