import Mdns.Spec.Trace
import Mdns.Model.Client
import Mdns.Model.Txt
/-
  `sim` ops with a scripted responder: correspondence of the client model
  (`Mdns/Model/Client.lean`) with real daemon histories.

  Canonical comparison (DESIGN.md 3.2), per loop iteration:
  * packets as a multiset (the order of packets of one iteration, of the questions of one
    query and of its known answers stems from hash iteration or is irrelevant);
  * events per channel AND per subject (the instance a found / resolved / removed event is
    about) in the order they were sent; events of different instances on one channel are
    compared as a multiset, because `resolve_updated_instances` / `notify_service_removal` /
    the eviction loop walk hash maps and hash sets; likewise `AddressesFound` / `AddressesRemoved`
    for differently spelled owner names of one host.  Question names are compared in lower
    case (which spelling of a host `refresh_due_hosts` asks for depends on hash order when the
    SRV targets differ only in case).  Search-level events (`started`,
    `stopped`, the hostname events, `metrics`) keep their position relative to the instance
    events of their channel.
-/
namespace Mdns.Driver.SimClient
open Mdns Mdns.Trace

/-! ### rendering -/

def wireRdataKey : Wire.RData → String
  | .a ip => "addr:" ++ hexOfBytes ip
  | .aaaa ip => "addr:" ++ hexOfBytes ip
  | .ptr n => "ptr:" ++ hexOfBytes n
  | .srv p w port h => s!"srv:{p}:{w}:{port}:" ++ hexOfBytes h
  | .txt b => "txt:" ++ hexOfBytes b
  | .hinfo c o => "hinfo:" ++ hexOfBytes c ++ ":" ++ hexOfBytes o
  | .nsec n b => "nsec:" ++ hexOfBytes n ++ ":" ++ hexOfBytes b

def recRdataKey : Rec.RData → String
  | .addr ip _ _ => "addr:" ++ hexOfBytes ip
  | .ptr n => "ptr:" ++ hexOfBytes n
  | .srv p w port h => s!"srv:{p}:{w}:{port}:" ++ hexOfBytes h
  | .txt b => "txt:" ++ hexOfBytes b
  | .hinfo c o => "hinfo:" ++ hexOfBytes c ++ ":" ++ hexOfBytes o
  | .nsec n b => "nsec:" ++ hexOfBytes n ++ ":" ++ hexOfBytes b

def kaOfWire (r : Wire.Rec) : String :=
  s!"{hexOfBytes r.name}:{r.ty}:{r.cls}:{boolTok r.flush}:{r.ttl}:{wireRdataKey r.rdata}"

def kaOfRec (r : Rec.Record) : String :=
  s!"{hexOfBytes r.name}:{r.ty}:{r.cls}:{boolTok r.flush}:{r.ttl}:{recRdataKey r.rdata}"

def qsStr (qs : List (BList × Nat)) : String :=
  ",".intercalate (sortStrings (qs.map fun (n, t) => hexOfBytes (lower n) ++ ":" ++ toString t))

def kaStr (kas : List String) : String := ",".intercalate (sortStrings kas)

def dedupStrings (xs : List String) : List String :=
  xs.foldl (fun acc x => if acc.contains x then acc else acc ++ [x]) []

/-- one `ScopedIp` of an `AddressesFound` / `AddressesRemoved` set -/
def addrItemStr (a : Client.AddrItem) : String := s!"{hexOfBytes a.1} 1 {hexOfBytes a.2.1} {a.2.2}"

def hostAddrToks (addrs : List Client.AddrItem) : String :=
  let v := sortStrings (dedupStrings (addrs.map addrItemStr))
  joinToks (toString v.length :: v)

/-- the address set of a `ResolvedService`: IPv4 addresses merged over interfaces -/
def resolvedAddrToks (addrs : List Client.AddrItem) : String :=
  let v4 := addrs.filter fun a => a.1.length == 4
  let v6 := addrs.filter fun a => a.1.length != 4
  let ips := (v4.map (·.1)).eraseDups
  let v4s := ips.map fun ip =>
    let ids := sortStrings (dedupStrings ((v4.filter (·.1 == ip)).map fun a => s!"{hexOfBytes a.2.1} {a.2.2}"))
    joinToks ([hexOfBytes ip, toString ids.length] ++ ids)
  let v := sortStrings (v4s ++ dedupStrings (v6.map addrItemStr))
  joinToks (toString v.length :: v)

def txtToks (b : BList) : String :=
  match Txt.decodeTxtUnique b with
  | .ok ps => joinToks (listToks (fun (p : Txt.TProp) => hexOfBytes p.key :: optToks (fun v => [hexOfBytes v]) p.val) ps)
  | _ => "panic"

def metricsStr (m : Client.Metrics) : String :=
  s!"metrics cached-addr={m.addr} cached-nsec={m.nsec} cached-ptr={m.ptr} cached-srv={m.srv} cached-subtype={m.subtype} cached-txt={m.txt} timer={m.timer}"

/-- (subject, text) of a model event -/
def evStr : Client.Ev → String × String
  | .started => ("-", "started")
  | .found ty inst => (hexOfBytes inst, s!"found {hexOfBytes ty} {hexOfBytes inst}")
  | .resolved r =>
    (hexOfBytes r.fullname,
     s!"resolved {hexOfBytes r.ty} {joinToks (optToks (fun s => [hexOfBytes s]) r.sub)} {hexOfBytes r.fullname} {hexOfBytes r.host} {r.port} {resolvedAddrToks r.addrs} {txtToks r.txt}")
  | .removed ty inst => (hexOfBytes inst, s!"removed {hexOfBytes ty} {hexOfBytes inst}")
  | .stopped ty => ("-", s!"stopped {hexOfBytes ty}")
  | .hstarted => ("-", "hstarted")
  | .hfound h a => (hexOfBytes h, s!"hfound {hexOfBytes h} {hostAddrToks a}")
  | .hremoved h a => (hexOfBytes h, s!"hremoved {hexOfBytes h} {hostAddrToks a}")
  | .htimeout h => ("-", s!"htimeout {hexOfBytes h}")
  | .hstopped h => ("-", s!"hstopped {hexOfBytes h}")
  | .metrics m => ("-", metricsStr m)

def metricKeys : List String :=
  ["cached-addr", "cached-nsec", "cached-ptr", "cached-srv", "cached-subtype", "cached-txt", "timer"]

/-- (subject, text) of an observed event -/
def implEvStr (toks : List String) : String × String :=
  match toks with
  | "found" :: _ :: inst :: _ => (inst, joinToks toks)
  | "removed" :: _ :: inst :: _ => (inst, joinToks toks)
  | "resolved" :: _ :: "none" :: full :: _ => (full, joinToks toks)
  | "resolved" :: _ :: "some" :: _ :: full :: _ => (full, joinToks toks)
  | "hfound" :: h :: _ => (h, joinToks toks)
  | "hremoved" :: h :: _ => (h, joinToks toks)
  | "metrics" :: _ :: kvs =>
    let get := fun (k : String) =>
      ((kvs.find? fun kv => kv.startsWith (k ++ "=")).map fun kv => (kv.drop (k.length + 1)).toString).getD "0"
    ("-", "metrics " ++ joinToks (metricKeys.map fun k => k ++ "=" ++ get k))
  | _ => ("-", joinToks toks)

/-- number the events per (channel, subject); a search-level event also records how many
    instance events of its channel precede it -/
def numberEvents (evs : List (Nat × String × String)) : List String :=
  let (_, _, out) := evs.foldl
    (fun (st : List ((Nat × String) × Nat) × List (Nat × Nat) × List String) (e : Nat × String × String) =>
      let (cnt, inst, out) := st
      let key := (e.1, e.2.1)
      let k := ((cnt.find? (·.1 == key)).map (·.2)).getD 0
      let n := ((inst.find? (·.1 == e.1)).map (·.2)).getD 0
      let cnt' := (key, k + 1) :: cnt.filter (·.1 != key)
      if e.2.1 == "-" then (cnt', inst, out ++ [s!"e {e.1} - {k} @{n} {e.2.2}"])
      else (cnt', (e.1, n + 1) :: inst.filter (·.1 != e.1), out ++ [s!"e {e.1} {e.2.1} {k} {e.2.2}"]))
    ([], [], [])
  out

/-- implementation side of one iteration -/
def implProj (it : Iter) : List String :=
  let qs := it.tx.map fun (ifi, v4, dest, b) =>
    match Wire.decode b.toArray with
    | .ok m =>
      if m.flags / 32768 % 2 == 0 then
        s!"q {ifi} {boolTok v4} {dest} {qsStr (m.questions.map fun q => (q.name, q.ty))} ka={kaStr (m.answers.map kaOfWire)}"
      else s!"r {ifi} {boolTok v4} {dest}"
    | _ => s!"unparsable {ifi}"
  let evs := it.evs.map fun (ch, toks) => (ch, implEvStr toks)
  sortStrings (qs ++ numberEvents evs)

/-- model side: every query goes out once per (interface index, family with an address) -/
def modelProj (links : List (Nat × Bool)) (outs : List Client.Out) : List String :=
  let qs := outs.flatMap fun o =>
    match o with
    | .query qs kas => links.map fun (ifi, v4) => s!"q {ifi} {boolTok v4} m {qsStr qs} ka={kaStr (kas.map kaOfRec)}"
    | _ => []
  let evs := outs.filterMap fun o =>
    match o with
    | .event ch e => some (ch, evStr e)
    | _ => none
  sortStrings (qs ++ numberEvents evs)

/-! ### the fragment -/

def clientCommand : Cmd → Option Client.Command
  | .browse _ ch ty co => some (.browse ty ch co)
  | .stopBrowse _ ty => some (.stopBrowse ty)
  | .resolve _ ch h t => some (.resolveHost h ch t)
  | .stopResolve _ h => some (.stopResolve h)
  | .ipint _ s => some (.ipInterval (s * 1000))
  | .verify _ inst ms => some (.verify inst ms)
  | .metrics _ ch => some (.metrics ch)
  | .other ["accept", _, a] => some (.acceptUnsolicited (a == "1"))
  | _ => none

/-- Is this script inside the fragment the client model covers exactly: one daemon, an
    unchanging interface table, no registrations, only search commands and injected traffic? -/
def inFragment (script : List Cmd) : Bool :=
  (script.filter fun c => match c with | .daemon _ => true | _ => false).length == 1 &&
  script.all fun c =>
    match c with
    | .daemon _ | .now _ | .run _ | .step _ | .inject .. | .browse .. | .stopBrowse .. | .resolve ..
    | .stopResolve .. | .ipint .. | .verify .. | .metrics .. | .monitor .. => true
    | .other ["quiet", _] => true
    | .other ["accept", _, _] => true
    | _ => false

def dedupNats (xs : List Nat) : List Nat :=
  xs.foldl (fun acc x => if acc.contains x then acc else acc ++ [x]) []

def intfsOf (ifs : List Iface) : List Client.Intf :=
  (dedupNats (ifs.map (·.index))).map fun idx =>
    let mine := ifs.filter (·.index == idx)
    { idx, name := (mine.head?.map (·.name)).getD [], v4 := mine.any (·.v4), v6 := mine.any (!·.v4) }

def linksOf (intfs : List Client.Intf) : List (Nat × Bool) :=
  intfs.flatMap fun i => (if i.v4 then [(i.idx, true)] else []) ++ (if i.v6 then [(i.idx, false)] else [])

def decodeRx (rx : List (Nat × Bool × String × BList)) : List Client.Packet :=
  rx.filterMap fun (ifi, v4, _, b) =>
    match Wire.decode b.toArray with
    | .ok m => some { ifIdx := ifi, v4, msg := m }
    | _ => none

/-- the datagrams of an iteration in the order the daemon reads them (IPv4 socket first),
    decoded; undecodable datagrams are dropped by `handle_read` -/
def packetsOf (it : Iter) : List Client.Packet :=
  decodeRx (it.rx.filter (·.2.1)) ++ decodeRx (it.rx.filter (!·.2.1))

/-- The two sockets are drained one after the other, each completely; which one comes first is
    the poller's choice (under the simulation seam: IPv4 first, unless the real IPv6 socket
    happened to be readable - stray traffic on the machine - then `handle_poller_events` drains
    the injected IPv6 queue first).  Both orders are legitimate behaviours of the code. -/
def packetOrders (it : Iter) : List (List Client.Packet) :=
  let v4 := decodeRx (it.rx.filter (·.2.1))
  let v6 := decodeRx (it.rx.filter (!·.2.1))
  if v4.isEmpty || v6.isEmpty then [v4 ++ v6] else [v4 ++ v6, v6 ++ v4]

/-- Runs the client model over the implementation's iteration times, datagrams and API
    calls.  Outer `none`: the script is outside the fragment; `some none`: every iteration
    agrees (projection and requested wake-up); `some (some diff)`: the first difference. -/
def clientCorrespondence (script : List Cmd) (iters : List Iter) : Option (Option String) :=
  if !inFragment script then none
  else
    let ifs := (script.filterMap fun c => match c with | .daemon ifs => some ifs | _ => none).headD []
    let intfs := intfsOf ifs
    let links := linksOf intfs
    let cmdArr := script.toArray
    let rec go (s : Client.State) (its : List Iter) (k : Nat) : Option String :=
      match its with
      | [] => none
      | it :: rest =>
        let cmds := it.calls.filterMap fun (i, r) =>
          if r == "ok" then (cmdArr[i]?).bind clientCommand else none
        let ip := implProj it
        -- the first socket order under which the model agrees (projection and wake-up)
        let tries := (packetOrders it).map fun pk =>
          let (s', outs) := Client.iter s it.now pk cmds
          (s', modelProj links outs)
        let agrees := fun (t : Client.State × List String) =>
          t.2 == ip && (Client.wake t.1 == it.wake || it.ended.isSome)
        match tries.find? agrees with
        | some (s', _) => go s' rest (k + 1)
        | none =>
          match tries.head? with
          | none => none
          | some (s', mp) =>
            if mp != ip then
              some s!"MODEL-DIFF iteration {k} now={it.now} model=[{" | ".intercalate mp}] impl=[{" | ".intercalate ip}]"
            else some s!"MODEL-DIFF iteration {k} now={it.now} wake model={Client.wake s'} impl={it.wake}"
    some (go (Client.init 1000000 intfs) iters 0)

end Mdns.Driver.SimClient
