import Mdns.Spec.Trace
import Mdns.Model.Sched
/-
  `sim` ops: correspondence of the scheduler model with real daemon histories on a silent
  network, and the daemon-level monitors.
-/
namespace Mdns.Driver.Sim
open Mdns Mdns.Trace

/-! ### projections -/

def evKindOfToks : List String → Option Sched.EvKind
  | "started" :: _ => some .started
  | "stopped" :: _ => some .stopped
  | "hstarted" :: _ => some .hstarted
  | "htimeout" :: _ => some .htimeout
  | "hstopped" :: _ => some .hstopped
  | _ => none

def evKindStr : Sched.EvKind → String
  | .started => "started" | .stopped => "stopped" | .hstarted => "hstarted"
  | .htimeout => "htimeout" | .hstopped => "hstopped"

def qsStr (qs : List (BList × Nat)) : String :=
  joinToks (sortStrings (qs.map fun (n, t) => hexOfBytes (lower n) ++ ":" ++ toString t))

/-- number each channel's events so that sorting keeps their per-channel order -/
def numberEvents (evs : List (Nat × String)) : List String :=
  let (_, out) := evs.foldl (fun (st : List (Nat × Nat) × List String) (e : Nat × String) =>
    let (cnt, out) := st
    let k := ((cnt.find? (·.1 == e.1)).map (·.2)).getD 0
    ((e.1, k + 1) :: cnt.filter (·.1 != e.1), out ++ [s!"e {e.1} {k} {e.2}"])) ([], [])
  out

/-- implementation side: queries (per interface and family) and search events of one iteration -/
def implProj (it : Iter) : List String :=
  let qs := it.tx.filterMap fun (ifi, v4, dest, b) =>
    match questionsOf b with
    | some (false, qs, nan) => some s!"q {ifi} {boolTok v4} {dest} {qsStr qs} ka={nan}"
    | some (true, _, _) => some s!"r {ifi} {boolTok v4} {dest}"
    | none => some s!"unparsable {ifi}"
  let evs := it.evs.filterMap fun (ch, toks) => (evKindOfToks toks).map fun k => (ch, evKindStr k)
  sortStrings (qs ++ numberEvents evs)

/-- model side: every query goes out once per (interface index, family with an address) -/
def modelProj (links : List (Nat × Bool)) (outs : List Sched.Out) : List String :=
  let qs := outs.flatMap fun o =>
    match o with
    | .query qs => links.map fun (ifi, v4) => s!"q {ifi} {boolTok v4} m {qsStr qs} ka=0"
    | _ => []
  let evs := outs.filterMap fun o =>
    match o with
    | .event ch k => some (ch, evKindStr k)
    | _ => none
  sortStrings (qs ++ numberEvents evs)

def dedupPairs (xs : List (Nat × Bool)) : List (Nat × Bool) :=
  xs.foldl (fun acc x => if acc.contains x then acc else acc ++ [x]) []

def schedCommand : Cmd → Option Sched.Command
  | .browse _ ch ty co => some (.browse ty ch co)
  | .stopBrowse _ ty => some (.stopBrowse ty)
  | .resolve _ ch h t => some (.resolveHost h ch t)
  | .stopResolve _ h => some (.stopResolve h)
  | .ipint _ s => some (.ipInterval (s * 1000))
  | _ => none

/-- Is this script inside the fragment the scheduler model covers exactly: one daemon, no
    injected traffic, no registrations, only search commands? -/
def schedOnly (script : List Cmd) : Bool :=
  (script.filter fun c => match c with | .daemon _ => true | _ => false).length == 1 &&
  script.all fun c =>
    match c with
    | .daemon _ | .now _ | .run _ | .step _ | .browse .. | .stopBrowse .. | .resolve .. | .stopResolve .. | .ipint .. => true
    | .other ["quiet", _] => true
    | _ => false

/-- Runs the scheduler model over the implementation's iteration times and API calls and
    reports the first iteration whose projection or wake-up differs. -/
def schedCorrespondence (script : List Cmd) (iters : List Iter) : Option String :=
  let ifs := (script.filterMap fun c => match c with | .daemon ifs => some ifs | _ => none).headD []
  let links := dedupPairs (ifs.map fun i => (i.index, i.v4))
  let cmdArr := script.toArray
  let rec go (s : Sched.State) (its : List Iter) (k : Nat) : Option String :=
    match its with
    | [] => none
    | it :: rest =>
      let cmds := it.calls.filterMap fun (i, r) =>
        if r == "ok" then (cmdArr[i]?).bind schedCommand else none
      let (s', outs) := Sched.iter s it.now cmds
      let mp := modelProj links outs
      let ip := implProj it
      if mp != ip then
        some s!"MODEL-DIFF iteration {k} now={it.now} model=[{" | ".intercalate mp}] impl=[{" | ".intercalate ip}]"
      else if Sched.wake s' != it.wake && it.ended.isNone then
        some s!"MODEL-DIFF iteration {k} now={it.now} wake model={Sched.wake s'} impl={it.wake}"
      else go s' rest (k + 1)
  go (Sched.init 1000000) iters 0

/-! ### C19 monitor -/

/-- (iteration index, time) of the iterations in which a query containing question
    `(name, ty)` was sent -/
def queryTimes (iters : List Iter) (name : BList) (ty : Nat) : List (Nat × Nat) :=
  iters.zipIdx.filterMap fun (it, k) =>
    if it.tx.any (fun (_, _, _, b) =>
      match questionsOf b with
      | some (false, qs, _) => qs.contains (lower name, ty)
      | _ => false) then some (k, it.now) else none

/-- the schedule a search started at `t0` may follow: sends at `t0`, then gaps of at least
    1 s, 2 s, 4 s, … capped at 3600 s.  `ok` iff the k-th gap is at least the k-th delay. -/
def gapsOk : Nat → List Nat → Bool
  | _, [] => true
  | _, [_] => true
  | delay, t0 :: t1 :: rest => decide (t1 ≥ t0 + delay * 1000) && gapsOk (Sched.nextDelay delay) (t1 :: rest)

/-- In a history without responders every query is a schedule query.  `ok_C19`: for every
    browsed type / resolved host, the sends between two (re)starts of the search follow
    the back-off schedule (the k-th gap is at least the k-th delay 1,2,4,…,3600 s) and the
    first send happens in the very iteration that processes the call.  A start that is
    processed in iteration `k` opens a new segment at `k`: the earlier search is replaced. -/
def monitorC19 (script : List Cmd) (iters : List Iter) : Option String :=
  -- (name, qtype, index of the iteration that processed a start of this search)
  let starts : List (BList × Nat × Nat) := iters.zipIdx.flatMap fun (it, k) =>
    it.calls.filterMap fun (i, r) =>
      if r != "ok" then none else
      match script.toArray[i]? with
      | some (.browse _ _ ty false) => some (ty, 12, k)
      | some (.resolve _ _ h _) => some (h, 1, k)
      | _ => none
  let names := starts.foldl (fun acc (n, t, _) => if acc.contains (lower n, t) then acc else acc ++ [(lower n, t)]) []
  names.findSome? fun (n, ty) =>
    let sends := queryTimes iters n ty
    let st := ((starts.filter fun (m, t, _) => lower m == n && t == ty).map (·.2.2)).eraseDups
    -- split the sends into segments, one per start iteration
    let segs : List (List (Nat × Nat)) := st.zipIdx.map fun ((k0, j) : Nat × Nat) =>
      let k1 := (st[j + 1]?).getD (10 ^ 18)
      sends.filter fun ((k, _) : Nat × Nat) => k0 ≤ k && k < k1
    if sends.any (fun ((k, _) : Nat × Nat) => st.all (k < ·)) then some "query-before-search-started"
    else if (segs.zip st).any (fun ((seg, k0) : List (Nat × Nat) × Nat) => (seg.head?.map (·.1)) != some k0) then
      some s!"no-query-at-once name={hexOfBytes n} ty={ty}"
    else if segs.any (fun seg => !gapsOk 1 (seg.map (·.2))) then
      some s!"query-more-often-than-backoff name={hexOfBytes n} ty={ty} sends={sends.take 12} starts={st}"
    else none

def monitor (prop : String) (script : List Cmd) (obs : List Obs) : Option String :=
  let iters := iterations obs
  if obs.any (fun o => match o with | .other _ => true | _ => false) then some "unparsable-observation"
  else if iters.any (fun it => it.ended == some true) then some "daemon-thread-panicked"
  else
    match prop with
    | "C19" => monitorC19 script iters
    | _ => none

def exec (ts : List String) (impl : List String) : Option String :=
  match ts with
  | _prop :: rest =>
    let script := parseScript rest
    let obs := parseTrace impl
    if schedOnly script then
      match schedCorrespondence script (iterations obs) with
      | none => some (joinToks impl)
      | some diff => some diff
    else some "nomodel"
  | [] => none

def monitorOp (ts : List String) (impl : List String) : Option String :=
  match ts with
  | prop :: rest => monitor prop (parseScript rest) (parseTrace impl)
  | [] => some "bad-op"

end Mdns.Driver.Sim
