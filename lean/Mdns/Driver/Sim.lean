import Mdns.Spec.Trace
import Mdns.Model.Sched
import Mdns.Driver.SimResponder
import Mdns.Driver.SimClient
/-
  `sim` ops: correspondence of the scheduler model with real daemon histories on a silent
  network, and the daemon-level monitors.
-/
namespace Mdns.Driver.Sim
open Mdns Mdns.Trace

/-! ### projections -/

def evKindOfToks : List String → Option Sched.EvKind
  | "started" :: _ => some .started
  | "stopped" :: _ => some .stopped
  | "hstarted" :: _ => some .hstarted
  | "htimeout" :: _ => some .htimeout
  | "hstopped" :: _ => some .hstopped
  | _ => none

def evKindStr : Sched.EvKind → String
  | .started => "started" | .stopped => "stopped" | .hstarted => "hstarted"
  | .htimeout => "htimeout" | .hstopped => "hstopped"

def qsStr (qs : List (BList × Nat)) : String :=
  joinToks (sortStrings (qs.map fun (n, t) => hexOfBytes (lower n) ++ ":" ++ toString t))

/-- number each channel's events so that sorting keeps their per-channel order -/
def numberEvents (evs : List (Nat × String)) : List String :=
  let (_, out) := evs.foldl (fun (st : List (Nat × Nat) × List String) (e : Nat × String) =>
    let (cnt, out) := st
    let k := ((cnt.find? (·.1 == e.1)).map (·.2)).getD 0
    ((e.1, k + 1) :: cnt.filter (·.1 != e.1), out ++ [s!"e {e.1} {k} {e.2}"])) ([], [])
  out

/-- implementation side: queries (per interface and family) and search events of one iteration -/
def implProj (it : Iter) : List String :=
  let qs := it.tx.filterMap fun (ifi, v4, dest, b) =>
    match questionsOf b with
    | some (false, qs, nan) => some s!"q {ifi} {boolTok v4} {dest} {qsStr qs} ka={nan}"
    | some (true, _, _) => some s!"r {ifi} {boolTok v4} {dest}"
    | none => some s!"unparsable {ifi}"
  let evs := it.evs.filterMap fun (ch, toks) => (evKindOfToks toks).map fun k => (ch, evKindStr k)
  sortStrings (qs ++ numberEvents evs)

/-- model side: every query goes out once per (interface index, family with an address) -/
def modelProj (links : List (Nat × Bool)) (outs : List Sched.Out) : List String :=
  let qs := outs.flatMap fun o =>
    match o with
    | .query qs => links.map fun (ifi, v4) => s!"q {ifi} {boolTok v4} m {qsStr qs} ka=0"
    | _ => []
  let evs := outs.filterMap fun o =>
    match o with
    | .event ch k => some (ch, evKindStr k)
    | _ => none
  sortStrings (qs ++ numberEvents evs)

def dedupPairs (xs : List (Nat × Bool)) : List (Nat × Bool) :=
  xs.foldl (fun acc x => if acc.contains x then acc else acc ++ [x]) []

def schedCommand : Cmd → Option Sched.Command
  | .browse _ ch ty co => some (.browse ty ch co)
  | .stopBrowse _ ty => some (.stopBrowse ty)
  | .resolve _ ch h t => some (.resolveHost h ch t)
  | .stopResolve _ h => some (.stopResolve h)
  | .ipint _ s => some (.ipInterval (s * 1000))
  | _ => none

/-- Is this script inside the fragment the scheduler model covers exactly: one daemon, no
    injected traffic, no registrations, only search commands? -/
def schedOnly (script : List Cmd) : Bool :=
  (script.filter fun c => match c with | .daemon _ => true | _ => false).length == 1 &&
  script.all fun c =>
    match c with
    | .daemon _ | .now _ | .run _ | .step _ | .browse .. | .stopBrowse .. | .resolve .. | .stopResolve .. | .ipint .. => true
    | .other ["quiet", _] => true
    | _ => false

/-- Runs the scheduler model over the implementation's iteration times and API calls and
    reports the first iteration whose projection or wake-up differs. -/
def schedCorrespondence (script : List Cmd) (iters : List Iter) : Option String :=
  let ifs := (script.filterMap fun c => match c with | .daemon ifs => some ifs | _ => none).headD []
  let links := dedupPairs (ifs.map fun i => (i.index, i.v4))
  let cmdArr := script.toArray
  let rec go (s : Sched.State) (its : List Iter) (k : Nat) : Option String :=
    match its with
    | [] => none
    | it :: rest =>
      let cmds := it.calls.filterMap fun (i, r) =>
        if r == "ok" then (cmdArr[i]?).bind schedCommand else none
      let (s', outs) := Sched.iter s it.now cmds
      let mp := modelProj links outs
      let ip := implProj it
      if mp != ip then
        some s!"MODEL-DIFF iteration {k} now={it.now} model=[{" | ".intercalate mp}] impl=[{" | ".intercalate ip}]"
      else if Sched.wake s' != it.wake && it.ended.isNone then
        some s!"MODEL-DIFF iteration {k} now={it.now} wake model={Sched.wake s'} impl={it.wake}"
      else go s' rest (k + 1)
  go (Sched.init 1000000) iters 0

/-! ### C19 monitor -/

/-- (iteration index, time) of the iterations in which a query containing question
    `(name, ty)` was sent -/
def queryTimes (iters : List Iter) (name : BList) (ty : Nat) : List (Nat × Nat) :=
  iters.zipIdx.filterMap fun (it, k) =>
    if it.tx.any (fun (_, _, _, b) =>
      match questionsOf b with
      | some (false, qs, _) => qs.contains (lower name, ty)
      | _ => false) then some (k, it.now) else none

/-- the schedule a search started at `t0` may follow: sends at `t0`, then gaps of at least
    1 s, 2 s, 4 s, … capped at 3600 s.  `ok` iff the k-th gap is at least the k-th delay. -/
def gapsOk : Nat → List Nat → Bool
  | _, [] => true
  | _, [_] => true
  | delay, t0 :: t1 :: rest => decide (t1 ≥ t0 + delay * 1000) && gapsOk (Sched.nextDelay delay) (t1 :: rest)

/-- In a history without responders every query is a schedule query.  `ok_C19`: for every
    browsed type / resolved host, the sends between two (re)starts of the search follow
    the back-off schedule (the k-th gap is at least the k-th delay 1,2,4,…,3600 s) and the
    first send happens in the very iteration that processes the call.  A start that is
    processed in iteration `k` opens a new segment at `k`: the earlier search is replaced. -/
def monitorC19 (script : List Cmd) (iters : List Iter) : Option String :=
  -- (name, qtype, index of the iteration that processed a start of this search)
  let starts : List (BList × Nat × Nat) := iters.zipIdx.flatMap fun (it, k) =>
    it.calls.filterMap fun (i, r) =>
      if r != "ok" then none else
      match script.toArray[i]? with
      | some (.browse _ _ ty false) => some (ty, 12, k)
      | some (.resolve _ _ h _) => some (h, 1, k)
      | _ => none
  let names := starts.foldl (fun acc (n, t, _) => if acc.contains (lower n, t) then acc else acc ++ [(lower n, t)]) []
  names.findSome? fun (n, ty) =>
    let sends := queryTimes iters n ty
    let st := ((starts.filter fun (m, t, _) => lower m == n && t == ty).map (·.2.2)).eraseDups
    -- split the sends into segments, one per start iteration
    let segs : List (List (Nat × Nat)) := st.zipIdx.map fun ((k0, j) : Nat × Nat) =>
      let k1 := (st[j + 1]?).getD (10 ^ 18)
      sends.filter fun ((k, _) : Nat × Nat) => k0 ≤ k && k < k1
    if sends.any (fun ((k, _) : Nat × Nat) => st.all (k < ·)) then some "query-before-search-started"
    else if (segs.zip st).any (fun ((seg, k0) : List (Nat × Nat) × Nat) => (seg.head?.map (·.1)) != some k0) then
      some s!"no-query-at-once name={hexOfBytes n} ty={ty}"
    else if segs.any (fun seg => !gapsOk 1 (seg.map (·.2))) then
      some s!"query-more-often-than-backoff name={hexOfBytes n} ty={ty} sends={sends.take 12} starts={st}"
    else
      -- On a silent network, without clock jumps and under the event-driven scheduler (the daemon
      -- runs exactly when it asked to be woken) the schedule is exact: the queries of a search
      -- started at t0 leave at t0, t0+1 s, t0+3 s, t0+7 s, ... (gaps capped at one hour) - each
      -- search by itself, however many run at once - until it is stopped, replaced or timed out.
      let punctual := !(script.any fun c => match c with
        | .inject .. | .now _ | .ifaces .. | .register .. | .verify .. => true
        | .other ("link" :: _) | .other ("dense" :: _) | .other ("drop" :: _) => true
        | _ => false) && (script.filter fun c => match c with | .daemon _ => true | _ => false).length == 1
      if !punctual then none else
      let itArr := iters.toArray
      let timeOfIter (k : Nat) : Nat := (itArr[k]?.map (·.now)).getD 0
      let tEnd := script.foldl (fun acc c => match c with | .run u => max acc u | _ => acc) 0
      -- iterations that end searches of this name: stop calls, a cache-only browse, shutdown; a
      -- hostname search with a time-out is not judged at all
      let hasTimeout := iters.any fun it => it.calls.any fun (i, _) =>
        match script.toArray[i]? with
        | some (.resolve _ _ h (some _)) => ty == 1 && lower h == n
        | _ => false
      if hasTimeout then none else
      let endsAt : List Nat := iters.zipIdx.flatMap fun (it, k) =>
        it.calls.filterMap fun (i, r) =>
          if r != "ok" then none else
          match script.toArray[i]? with
          | some (.stopBrowse _ t') => if ty == 12 && lower t' == n then some k else none
          | some (.browse _ _ t' true) => if ty == 12 && lower t' == n then some k else none
          | some (.stopResolve _ h) => if ty == 1 && lower h == n then some k else none
          | some (.shutdown ..) => some k
          | _ => none
      (st.zipIdx).findSome? fun ((k0, j) : Nat × Nat) =>
        let k1 := (st[j + 1]?).getD (10 ^ 18)
        let kStop := (endsAt.filter fun k => k ≥ k0).foldl min k1
        let segEnd := if kStop < 10 ^ 18 then timeOfIter kStop else tEnd
        let t0 := timeOfIter k0
        let seg := (sends.filter fun ((k, _) : Nat × Nat) => k0 ≤ k && k < k1).map (·.2)
        -- expected instants strictly before the end of the segment
        let rec expected (fuel : Nat) (t delay : Nat) (acc : List Nat) : List Nat :=
          match fuel with
          | 0 => acc.reverse
          | fuel + 1 => if t < segEnd then expected fuel (t + delay * 1000) (Sched.nextDelay delay) (t :: acc) else acc.reverse
        let exp := expected 40 t0 1 []
        match exp.find? fun e => !seg.contains e with
        | some e => some s!"query-later-than-backoff-schedule name={hexOfBytes n} ty={ty} due={e} sends={seg.take 12}"
        | none => none

/-! ### shared helpers for the history monitors -/

/-- index of the iteration of daemon `d` that processes a call attached at iteration index `k` -/
def procIter (iters : List Iter) (k d : Nat) : Option Nat :=
  (iters.zipIdx.find? fun ((it, j) : Iter × Nat) => j ≥ k && it.d == d).map (·.2)

/-- all API calls that returned ok: (command, index of the iteration that processes it) -/
def processedCalls (script : List Cmd) (iters : List Iter) (dOf : Cmd → Option Nat) : List (Cmd × Nat) :=
  iters.zipIdx.flatMap fun ((it, k) : Iter × Nat) =>
    it.calls.filterMap fun ((i, r) : Nat × String) =>
      if r != "ok" then none else
      match script.toArray[i]? with
      | some c => (dOf c).bind fun d => (procIter iters k d).map fun j => (c, j)
      | none => none

def cmdDaemon : Cmd → Option Nat
  | .browse d .. | .stopBrowse d _ | .resolve d .. | .stopResolve d _ | .unregister d .. | .monitor d _
  | .shutdown d _ | .status d _ | .metrics d _ | .verify d .. | .ipint d _ => some d
  | _ => none

/-- events of channel (d, ch) with the index of their iteration -/
def chanEvents (iters : List Iter) (d ch : Nat) : List (Nat × List String) :=
  iters.zipIdx.flatMap fun ((it, k) : Iter × Nat) =>
    if it.d != d then [] else (it.evs.filter (·.1 == ch)).map fun e => (k, e.2)

/-- did daemon `d` send a query with a question for `name` (any letter case, any type in `tys`)
    in iteration `k`? -/
def askedIn (it : Iter) (name : BList) (tys : List Nat) : Bool :=
  it.tx.any fun ((_, _, _, b) : Nat × Bool × String × BList) =>
    match questionsOf b with
    | some (false, qs, _) => qs.any fun ((n, t) : BList × Nat) => n == lower name && tys.contains t
    | _ => false

/-! ### C13 monitor -/

/-- `ok_C13` on one history: channel protocol and finality of stopping.  Returns the
    first failing clause. -/
def monitorC13 (script : List Cmd) (iters : List Iter) : Option String :=
  let calls := processedCalls script iters cmdDaemon
  let itArr := iters.toArray
  -- when does daemon d process a shutdown?
  let shutdownAt (d : Nat) : Option Nat :=
    calls.findSome? fun ((c, k) : Cmd × Nat) => match c with | .shutdown d' _ => if d' == d then some k else none | _ => none
  -- channels whose receiver the client dropped (`dropchan d ch`): nothing is observed on them
  -- afterwards, so the clauses about what must ARRIVE on a channel do not judge them
  let dropped (d ch : Nat) : Bool := script.any fun c =>
    match c with | .other ["dropchan", d', ch'] => d'.toNat? == some d && ch'.toNat? == some ch | _ => false
  -- position of a processed call in processing order (calls of one iteration run in script order)
  let callsIdx := calls.zipIdx
  let browseClause := callsIdx.findSome? fun (((c, k0), p0) : (Cmd × Nat) × Nat) =>
    match c with
    | .browse d ch ty cacheOnly =>
      let evs := chanEvents iters d ch
      let kinds := evs.map fun e => e.2.headD ""
      -- later (re)starts and stops of the same type on the same daemon
      let laterStart := (calls.filterMap fun ((c', k) : Cmd × Nat) =>
        match c' with
        | .browse d' _ ty' _ => if d' == d && ty' == ty && k > k0 then some k else none
        | _ => none).foldl min (10 ^ 18)
      let stopAt := (callsIdx.filterMap fun (((c', k), p) : (Cmd × Nat) × Nat) =>
        match c' with
        | .stopBrowse d' ty' => if d' == d && ty' == ty && p > p0 && k ≥ k0 && k ≤ laterStart then some k else none
        | _ => none).head?
      let endAt := match stopAt, shutdownAt d with
        | some a, some b => some (min a b)
        | some a, none => some a
        | none, some b => if b ≤ laterStart then some b else none
        | none, none => none
      if kinds.head? != none && kinds.head? != some "started" then some s!"first-event-not-SearchStarted ch={ch}"
      -- `resolved <ty> none <fullname> …` / `resolved <ty> some <sub> <fullname> …`
      else if evs.any (fun e => e.2.headD "" == "resolved" &&
          !(evs.any fun f => f.2.headD "" == "found" && f.1 ≤ e.1 &&
              f.2[2]? == (if e.2[2]? == some "some" then e.2[4]? else e.2[3]?))) then
        some s!"ServiceResolved-without-ServiceFound ch={ch}"
      else if !cacheOnly && (kinds.filter (· == "stopped")).length > 1 then some s!"SearchStopped-twice ch={ch}"
      else if !cacheOnly && kinds.contains "stopped" && kinds.getLast? != some "stopped" then
        some s!"event-after-SearchStopped ch={ch}"
      else match endAt with
        | none => none
        | some ke =>
          -- the search was started (its start was processed before the daemon ended)
          if kinds.isEmpty then none
          else if !cacheOnly && !dropped d ch && !(evs.any fun e => e.1 == ke && e.2.headD "" == "stopped") then
            some s!"no-SearchStopped-at-stop ch={ch}"
          else
            -- no further query for that type until it is browsed again
            let bad := (List.range itArr.size).any fun j =>
              j > ke && j < laterStart && (itArr[j]?.map fun it => it.d == d && askedIn it ty [12]).getD false
            if bad then some s!"query-after-stop ty={hexOfBytes ty}" else none
    | _ => none
  let cacheOnlyClause := calls.findSome? fun ((c, k0) : Cmd × Nat) =>
    match c with
    | .browse d _ ty true =>
      let laterStart := (calls.filterMap fun ((c', k) : Cmd × Nat) =>
        match c' with
        | .browse d' _ ty' false => if d' == d && ty' == ty && k > k0 then some k else none
        | _ => none).foldl min (10 ^ 18)
      let bad := (List.range itArr.size).filter fun j =>
        j ≥ k0 && j < laterStart && (itArr[j]?.map fun it => it.d == d && askedIn it ty [12]).getD false
      -- a query in the iteration that starts the search is a schedule query; later ones are
      -- cache refreshes (was the known finding D23, repaired: both are failing clauses;
      -- `Props.C13.no_ptr_query_while_cache_only`)
      if bad.contains k0 then some s!"cache-only-browse-sends-query ty={hexOfBytes ty}"
      else if !bad.isEmpty then some s!"cache-only-browse-refresh-query ty={hexOfBytes ty}"
      else none
    | _ => none
  -- "a cache-only browse never sends a query", all queries: a daemon whose script has
  -- `browse_cache` calls but no `browse`, no `resolve_hostname`, no `verify` and no registration
  -- sends no query packet at all - no refresh (D23), no follow-up for an instance whose PTR came
  -- without SRV / address (D23b); `Props.C13.cache_only_history_silent`
  let coDaemons := (script.filterMap fun c => match c with | .browse d _ _ true => some d | _ => none).eraseDups
  let cacheOnlyDaemonClause := coDaemons.findSome? fun d =>
    let active := script.any fun c =>
      match c with
      | .browse d' _ _ false => d' == d
      | .resolve d' _ _ _ => d' == d
      | .verify d' _ _ => d' == d
      | .register d' .. => d' == d
      | _ => false
    if active then none else
    iters.findSome? fun it =>
      if it.d != d then none else
      it.tx.findSome? fun ((_, _, _, b) : Nat × Bool × String × BList) =>
        match questionsOf b with
        | some (false, qs, _) =>
          some s!"cache-only-daemon-sends-query d={d} t={it.now} q={joinToks (qs.map fun ((n, t) : BList × Nat) => s!"{hexOfBytes n}:{t}")}"
        | _ => none
  let hostClause := callsIdx.findSome? fun (((c, k0), p0) : (Cmd × Nat) × Nat) =>
    match c with
    | .resolve d ch host timeout =>
      let evs := chanEvents iters d ch
      let kinds := evs.map fun e => e.2.headD ""
      let laterStart := (calls.filterMap fun ((c', k) : Cmd × Nat) =>
        match c' with
        | .resolve d' _ h' _ => if d' == d && lower h' == lower host && k > k0 then some k else none
        | _ => none).foldl min (10 ^ 18)
      let stopAt := (callsIdx.filterMap fun (((c', k), p) : (Cmd × Nat) × Nat) =>
        match c' with
        | .stopResolve d' h' => if d' == d && lower h' == lower host && p > p0 && k ≥ k0 && k ≤ laterStart then some k else none
        | _ => none).head?
      -- the deadline, if a time-out was given
      let t0 := (itArr[k0]?.map (·.now)).getD 0
      let timeoutAt := timeout.bind fun t =>
        ((List.range itArr.size).find? fun j =>
          j ≥ k0 && (itArr[j]?.map fun it => it.d == d && it.now ≥ t0 + t).getD false)
      let ends := [stopAt, timeoutAt, (shutdownAt d).bind fun b => if b ≤ laterStart then some b else none].filterMap id
      let endAt := ends.foldl (fun acc x => some (match acc with | some a => min a x | none => x)) none
      if kinds.head? != none && kinds.head? != some "hstarted" then some s!"first-event-not-SearchStarted ch={ch}"
      else if (kinds.filter (· == "hstopped")).length > 1 then some s!"SearchStopped-twice ch={ch}"
      else if kinds.contains "hstopped" && kinds.getLast? != some "hstopped" then some s!"event-after-SearchStopped ch={ch}"
      else if kinds.contains "htimeout" && kinds.dropLast.getLast? != some "htimeout" then
        some s!"SearchTimeout-not-followed-by-SearchStopped ch={ch}"
      else match endAt with
        | none => none
        | some ke =>
          if kinds.isEmpty then none
          else if laterStart ≤ ke then none       -- replaced by a new search before it ended
          else if !dropped d ch && !(evs.any fun e => e.1 == ke && e.2.headD "" == "hstopped") then
            some s!"no-SearchStopped-at-stop-or-timeout ch={ch} iter={ke}"
          else if !dropped d ch && timeoutAt == some ke && stopAt.all (· ≥ ke) &&
              !(evs.any fun e => e.1 == ke && e.2.headD "" == "htimeout") then
            some s!"no-SearchTimeout-at-deadline ch={ch}"
          else
            -- address queries for the host may also come from a browse that resolves an
            -- instance living on that host: the clause is only evaluated when this daemon
            -- has no browse at all in the history
            -- ... nor a verify request (it asks for the SRV of the instance and the addresses of
            -- its host, from whatever is cached)
            let browses := calls.any fun ((c', _) : Cmd × Nat) =>
              match c' with | .browse d' .. => d' == d | .verify d' .. => d' == d | _ => false
            let bad := (List.range itArr.size).any fun j =>
              j > ke && j < laterStart && (itArr[j]?.map fun it => it.d == d && askedIn it host [1, 28]).getD false
            if bad && !browses then some s!"query-after-stop host={hexOfBytes host}" else none
    | _ => none
  -- "forgets the records it cached for the stopped browse": a browse of the type that follows a
  -- stop, with no datagram read by the daemon from the stop's iteration on, starts from an empty
  -- cache - it replays no instance (whatever happened to the stopped search's channel)
  let forgetClause := calls.findSome? fun ((c, ks) : Cmd × Nat) =>
    match c with
    | .stopBrowse d ty =>
      let next := (calls.filterMap fun ((c', k) : Cmd × Nat) =>
        match c' with
        | .browse d' ch' ty' _ => if d' == d && ty' == ty && k > ks then some (k, ch') else none
        | _ => none).foldl (fun (acc : Option (Nat × Nat)) x => match acc with
          | some a => if x.1 < a.1 then some x else some a
          | none => some x) none
      match next with
      | none => none
      | some (kb, ch2) =>
        let silent := (List.range itArr.size).all fun j =>
          j < ks || j > kb || (itArr[j]?.map fun it => it.d != d || it.rx.isEmpty).getD true
        let replayed := (chanEvents iters d ch2).any fun e =>
          e.1 == kb && (e.2.headD "" == "found" || e.2.headD "" == "resolved")
        if silent && replayed then some s!"records-of-a-stopped-browse-still-cached ty={hexOfBytes ty} ch={ch2}" else none
    | _ => none
  browseClause <|> cacheOnlyClause <|> cacheOnlyDaemonClause <|> hostClause <|> forgetClause

/-! ### C12 monitor -/

def rdataKey : Wire.RData → String
  | .a ip => "a:" ++ hexOfBytes ip
  | .aaaa ip => "aaaa:" ++ hexOfBytes ip
  | .ptr n => "ptr:" ++ hexOfBytes (lower n)
  | .srv p w port h => s!"srv:{p}:{w}:{port}:" ++ hexOfBytes (lower h)
  | .txt b => "txt:" ++ hexOfBytes b
  | .hinfo c o => "hinfo:" ++ hexOfBytes c ++ ":" ++ hexOfBytes o
  | .nsec n b => "nsec:" ++ hexOfBytes n ++ ":" ++ hexOfBytes b

/-- canonical content of a packet: sorted questions and records, without TTLs -/
def packetKey (b : BList) : String :=
  match Wire.decode b.toArray with
  | .ok m =>
    let qs := m.questions.map fun q => "q:" ++ hexOfBytes (lower q.name) ++ ":" ++ toString q.ty
    let rs := fun (tag : String) (l : List Wire.Rec) =>
      l.map fun r => tag ++ hexOfBytes (lower r.name) ++ ":" ++ toString r.ty ++ ":" ++ rdataKey r.rdata
    s!"{m.flags / 32768 % 2} " ++ ",".intercalate (sortStrings (qs ++ rs "an:" m.answers ++ rs "ns:" m.authorities ++ rs "ar:" m.additionals))
  | _ => "raw:" ++ hexOfBytes b

/-- every output of a history with its time: packets (canonical content) and client events -/
def outputsOf (iters : List Iter) : List (Nat × String) :=
  iters.flatMap fun it =>
    (it.tx.map fun ((ifi, v4, dest, b) : Nat × Bool × String × BList) =>
      (it.now, s!"tx {it.d} {ifi} {boolTok v4} {dest} {packetKey b}")) ++
    (it.evs.map fun ((ch, toks) : Nat × List String) =>
      -- the payload of some events is printed from a hash set (the address list of the first
      -- Announce of a service, metrics, resolved address sets): keyed by kind and subject only
      let canon := match toks with
        -- (two registrations of one name in different letter case share a probe; which spelling
        -- names the event is hash order: keyed in lower case)
        | "announce" :: n :: _ => ["announce", ((bytesOfHex n).map fun b => hexOfBytes (lower b)).getD n]
        | "metrics" :: _ => ["metrics"]
        | "resolved" :: _ => ["resolved", ((toks[3]?).getD ""), ((toks[2]?).getD "")]
        | "hfound" :: h :: _ => ["hfound", h]
        | "hremoved" :: h :: _ => ["hremoved", h]
        | _ => toks
      (it.now, s!"ev {it.d} {ch} {joinToks canon}")) ++
    (match it.ended with | some p => [(it.now, s!"end {it.d} {p}")] | none => [])

/-- time of the k-th occurrence of `key` -/
def kthTime (outs : List (Nat × String)) (key : String) (k : Nat) : Option Nat :=
  ((outs.filter (·.2 == key))[k]?).map (·.1)

/-- `ok_C12`, lost wake-up clause: the same history is run event-driven (the daemon only
    runs when it asked to be woken or input arrived) and polled every 50 ms.  If polling
    makes any packet or event happen EARLIER than in the event-driven run (or happen at
    all), the daemon had work due for which it had not asked to be woken. -/
def lostWakeup (a b : List Iter) : Option String :=
  let oa := outputsOf a
  let ob := outputsOf b
  let rec go (rest : List (Nat × String)) (seen : List (String × Nat)) : Option String :=
    match rest with
    | [] => none
    | (t, key) :: more =>
      let k := ((seen.find? (·.1 == key)).map (·.2)).getD 0
      match kthTime oa key k with
      | none => some s!"action-only-when-polled t={t} {key.take 120}"
      | some ta =>
        if ta > t then some s!"action-late-without-polling due<={t} done={ta} {key.take 120}"
        else go more ((key, k + 1) :: seen.filter (·.1 != key))
  go ob []

/-- `ok_C12`, spin clause: more than 5 consecutive iterations of one daemon at the same
    instant that do nothing (no packet, no event, no command) and still ask to be woken at
    or before that instant. -/
def spins (iters : List Iter) : Option String :=
  let (_, worst) := iters.foldl (fun (st : List (Nat × Nat × Nat) × Nat) it =>
    let (runs, worst) := st
    let idle := it.tx.isEmpty && it.evs.isEmpty && it.calls.isEmpty && it.ended.isNone &&
      (match it.wake with | some w => decide (w ≤ it.now) | none => false)
    let prev := runs.find? (·.1 == it.d)
    let n := if idle then
        match prev with
        | some (_, t, c) => if t == it.now then c + 1 else 1
        | none => 1
      else 0
    ((it.d, it.now, n) :: runs.filter (·.1 != it.d), max worst n)) ([], 0)
  if worst > 5 then some s!"spins idle-iterations-at-one-instant={worst}" else none

def monitorC12 (obsA : List Obs) (obsB : Option (List Obs)) : Option String :=
  let a := iterations obsA
  if obsA.any (fun o => match o with | .other ["runaway"] => true | _ => false) then some "spins runaway"
  else (spins a) <|> (match obsB with
    | some ob => lostWakeup a (iterations ob)
    | none => none)

def monitor (prop : String) (script : List Cmd) (obs : List Obs) : Option String :=
  let iters := iterations obs
  if obs.any (fun o => match o with | .other ["runaway"] => false | .other _ => true | _ => false) then
    some "unparsable-observation"
  else if iters.any (fun it => it.ended == some true) then some "daemon-thread-panicked"
  else
    match prop with
    | "C19" => monitorC19 script iters
    | "C13" => monitorC13 script iters
    | "C12" => monitorC12 obs none
    | _ => none

def exec (ts : List String) (impl : List String) : Option String :=
  match ts with
  | _prop :: rest =>
    let script := parseScript rest
    let obs := parseTrace impl
    if script.any (fun c => match c with | .register .. => true | _ => false) then
      -- registrations on one daemon: the responder model (outside its fragment: `nomodel`)
      match SimResponder.responderCorrespondence script (iterations obs) with
      | none => some "nomodel"
      | some none => some (joinToks impl)
      | some (some diff) => some diff
    else if script.any (fun c => match c with | .inject .. => true | _ => false) || !schedOnly script then
      -- scripted responder (or commands beyond the scheduler fragment, e.g. metrics / verify):
      -- the client model (scheduler + cache + resolution)
      match SimClient.clientCorrespondence script (iterations obs) with
      | some none => some (joinToks impl)
      | some (some diff) => some diff
      | none => some "nomodel"
    else
      match schedCorrespondence script (iterations obs) with
      | none => some (joinToks impl)
      | some diff => some diff
  | [] => none

def monitorOp (ts : List String) (impl : List String) : Option String :=
  match ts with
  | prop :: rest => monitor prop (parseScript rest) (parseTrace impl)
  | [] => some "bad-op"

/-- `sim2` ops: two traces of one history separated by `;;` -/
def monitorOp2 (ts : List String) (impl : List String) : Option String :=
  match ts with
  | prop :: rest =>
    let (ia, ib) := impl.span (· != ";;")
    let oa := parseTrace ia
    let ob := parseTrace (ib.drop 1)
    match monitor prop (parseScript rest) oa with
    | some c => some c
    | none =>
      if prop == "C12" then monitorC12 oa (some ob) else none
  | [] => some "bad-op"

end Mdns.Driver.Sim
