import Mdns.Driver.Sim
import Mdns.Driver.MonClient
import Mdns.Driver.MonShutdown
import Mdns.Driver.C15
import Mdns.Driver.MonResponder
import Mdns.Driver.MonLink
import Mdns.Driver.MonDuel
/-
  Dispatch of the history monitors by property tag (`sim <TAG> …` / `sim2 <TAG> …`).
-/
namespace Mdns.Driver.SimAll
open Mdns Mdns.Trace Mdns.Driver

/-- known finding D24: ServiceResolved without ServiceFound for an instance whose PTR was
    first seen as a goodbye (TTL 0/1) and re-announced within the second -/
def refineD24 (iters : List Iter) (c : Option String) : Option String :=
  match c with
  | some c =>
    let ds := MonClient.deliveries iters 0
    if c.startsWith "ServiceResolved-without-ServiceFound" &&
        ds.any (fun x => x.r.ty == 12 && decide (x.r.ttl ≤ 1) &&
          !(ds.any fun y => y.k < x.k && MonClient.sameKey y.r x.r)) then
      some ("ServiceResolved-without-ServiceFound-after-goodbye-first " ++ c)
    else some c
  | none => none

/-- the client daemon of a history is daemon 0 -/
def monitorTag (prop : String) (script : List Cmd) (obs : List Obs) : Option String :=
  let iters := iterations obs
  match refineD24 iters (Sim.monitor prop script obs) with
  | some c => some c
  | none =>
    match prop with
    | "C03" => MonClient.monitorC03 script iters 0
    | "C04" => (MonClient.monitorC03 script iters 0) <|> (MonClient.monitorC04 script iters 0) <|>
               (MonClient.monitorC04Followups script iters 0)
    | "C05" => MonClient.monitorC05 script iters 0
    | "C17" => (MonClient.monitorC17 script iters 0) <|> (MonClient.monitorC17Complete script iters 0) <|>
               (MonClient.monitorC17Removed script iters 0) <|>
               refineD24 iters (Sim.monitorC13 script iters)
    | "C14" => MonShutdown.monitorBurst script iters 1
    | "C15" => C15.monitorCrash script obs
    | "C18" => MonLink.monitor script iters 0
    | "C08" => (MonDuel.monitor script iters) <|> (MonDuel.monitorConflict script iters 0) <|>
               (MonDuel.monitorNoRename script iters 0)
    | "C07" => (MonResponder.monitorProbed script iters 0) <|> (MonResponder.monitorAnnounced script iters 0)
    | "C09" => MonResponder.monitorUnregister script iters 0
    | "C06" => (MonResponder.monitorAnswers script iters 0) <|> (MonResponder.monitorProbed script iters 0 true) <|>
               (MonResponder.monitorKnownAnswers script iters 0) <|> (MonResponder.monitorAddressAnswers script iters 0) <|>
               (MonResponder.monitorInstanceAnswers script iters 0)
    | "C10" => (MonResponder.monitorKnownAnswers script iters 0) <|> (MonResponder.monitorInstanceAnswers script iters 0) <|>
               (MonResponder.monitorAddressAnswers script iters 0)
    | "C20" => (MonClient.monitorC20 script iters 0) <|> (MonClient.monitorC20Unrequested script iters 0)
    | _ => none

def monitorOp (ts : List String) (impl : List String) : Option String :=
  match ts with
  | prop :: rest => monitorTag prop (parseScript rest) (parseTrace impl)
  | [] => some "bad-op"

def monitorOp2 (ts : List String) (impl : List String) : Option String :=
  match ts with
  | prop :: rest =>
    let (ia, ib) := impl.span (· != ";;")
    let oa := parseTrace ia
    let ob := parseTrace (ib.drop 1)
    match monitorTag prop (parseScript rest) oa with
    | some c => some c
    | none =>
      if prop == "C12" then
        -- a lost wake-up in a history that registers one name twice (any letter case) on one
        -- daemon gets its own clause: known finding D32, timer side
        let regs := (parseScript rest).filterMap fun c => match c with
          | .register d ty inst .. => some (d, MonResponder.fullOf ty inst)
          | _ => none
        let rereg := regs.any fun a => (regs.filter (· == a)).length ≥ 2
        (Sim.monitorC12 oa (some ob)).map fun m => if rereg && !m.startsWith "spins" then "reregistration-" ++ m else m
      else none
  | [] => some "bad-op"

end Mdns.Driver.SimAll
