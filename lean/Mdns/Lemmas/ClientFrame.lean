import Mdns.Lemmas.Client
/-
  Frame lemmas of the client model (`Mdns/Model/Client.lean`): which fields of the state a
  phase leaves untouched, how the folds over packets / commands split at a position, and
  what the last eviction steps leave in the cache.  Shared by the C12 / C13 / C17 / C20
  lemma files.
-/
namespace Mdns.Client
open Mdns Mdns.Rec Mdns.Cache

/-! ### the searches (queriers, resolvers) are touched by commands and time-outs only -/

@[simp] theorem addRerun_resolvers (s : State) (n : Nat) (c : RCmd) : (addRerun s n c).resolvers = s.resolvers := rfl
@[simp] theorem addRerun_queriers (s : State) (n : Nat) (c : RCmd) : (addRerun s n c).queriers = s.queriers := rfl
@[simp] theorem addTimers_resolvers (s : State) (ts : List Nat) : (addTimers s ts).resolvers = s.resolvers := rfl
@[simp] theorem addTimers_queriers (s : State) (ts : List Nat) : (addTimers s ts).queriers = s.queriers := rfl
@[simp] theorem markResolved_resolvers (s : State) (l : List BList) : (markResolved s l).resolvers = s.resolvers := rfl
@[simp] theorem markResolved_queriers (s : State) (l : List BList) : (markResolved s l).queriers = s.queriers := rfl

@[simp] theorem addPending_resolvers (s : State) (now : Nat) (i : BList) : (addPending s now i).resolvers = s.resolvers := by
  unfold addPending
  split <;> rfl

@[simp] theorem addPending_queriers (s : State) (now : Nat) (i : BList) : (addPending s now i).queriers = s.queriers := by
  unfold addPending
  split <;> rfl

@[simp] theorem addPendings_resolvers (now : Nat) : ∀ (l : List BList) (s : State),
    (addPendings s now l).resolvers = s.resolvers
  | [], _ => rfl
  | i :: rest, s => by
    simp only [addPendings]
    rw [addPendings_resolvers now rest, addPending_resolvers]

@[simp] theorem addPendings_queriers (now : Nat) : ∀ (l : List BList) (s : State),
    (addPendings s now l).queriers = s.queriers
  | [], _ => rfl
  | i :: rest, s => by
    simp only [addPendings]
    rw [addPendings_queriers now rest, addPending_queriers]

@[simp] theorem resolveUpdated_resolvers (s : State) (now : Nat) (u : List BList) :
    (resolveUpdated s now u).1.resolvers = s.resolvers := by
  unfold resolveUpdated
  split
  · rfl
  · simp only [addPendings_resolvers, markResolved_resolvers]

@[simp] theorem resolveUpdated_queriers (s : State) (now : Nat) (u : List BList) :
    (resolveUpdated s now u).1.queriers = s.queriers := by
  unfold resolveUpdated
  split
  · rfl
  · simp only [addPendings_queriers, markResolved_queriers]

@[simp] theorem handleResponse_resolvers (s : State) (now : Nat) (intf : Intf) (m : Wire.Msg) :
    (handleResponse s now intf m).1.resolvers = s.resolvers := by
  simp only [handleResponse, resolveUpdated_resolvers, addTimers_resolvers]

@[simp] theorem handleResponse_queriers (s : State) (now : Nat) (intf : Intf) (m : Wire.Msg) :
    (handleResponse s now intf m).1.queriers = s.queriers := by
  simp only [handleResponse, resolveUpdated_queriers, addTimers_queriers]

@[simp] theorem handleRead_resolvers (s : State) (now : Nat) (p : Packet) :
    (handleRead s now p).1.resolvers = s.resolvers := by
  unfold handleRead
  repeat' split
  all_goals first | rfl | exact handleResponse_resolvers _ _ _ _

@[simp] theorem handleRead_queriers (s : State) (now : Nat) (p : Packet) :
    (handleRead s now p).1.queriers = s.queriers := by
  unfold handleRead
  repeat' split
  all_goals first | rfl | exact handleResponse_queriers _ _ _ _

@[simp] theorem ingress_resolvers (now : Nat) : ∀ (pkts : List Packet) (s : State),
    (ingress s now pkts).1.resolvers = s.resolvers
  | [], _ => rfl
  | p :: rest, s => by
    simp only [ingress]
    rw [ingress_resolvers now rest, handleRead_resolvers]

@[simp] theorem ingress_queriers (now : Nat) : ∀ (pkts : List Packet) (s : State),
    (ingress s now pkts).1.queriers = s.queriers
  | [], _ => rfl
  | p :: rest, s => by
    simp only [ingress]
    rw [ingress_queriers now rest, handleRead_queriers]

@[simp] theorem handleResponse_cache (s : State) (now : Nat) (intf : Intf) (m : Wire.Msg) :
    (handleResponse s now intf m).1.cache =
      (ingestAll s.queriers intf.name intf.idx now (isForUs s m.answers)
        { cache := s.cache, timers := [], changes := [], outs := [] }
        (m.answers ++ m.authorities ++ m.additionals)).cache := by
  simp only [handleResponse, resolveUpdated_cache, addTimers_cache]

/-! ### the folds split at a position -/

theorem ingress_append (now : Nat) : ∀ (a b : List Packet) (s : State),
    ingress s now (a ++ b) =
      ((ingress (ingress s now a).1 now b).1, (ingress s now a).2 ++ (ingress (ingress s now a).1 now b).2)
  | [], b, s => by simp [ingress]
  | p :: a, b, s => by
    simp only [List.cons_append, ingress]
    rw [ingress_append now a b]
    simp only [List.append_assoc]

theorem runCommands_append (now : Nat) : ∀ (a b : List Command) (s : State),
    runCommands s now (a ++ b) =
      ((runCommands (runCommands s now a).1 now b).1,
       (runCommands s now a).2 ++ (runCommands (runCommands s now a).1 now b).2)
  | [], b, s => by simp [runCommands]
  | c :: a, b, s => by
    simp only [List.cons_append, runCommands]
    rw [runCommands_append now a b]
    simp only [List.append_assoc]

theorem deliveries_append (now : Nat) : ∀ (a b : List Packet) (s : State),
    deliveries s now (a ++ b) = deliveries s now a ++ deliveries (ingress s now a).1 now b
  | [], b, s => by simp [deliveries, ingress]
  | p :: a, b, s => by
    simp only [List.cons_append, deliveries, ingress]
    rw [deliveries_append now a b]
    simp only [List.append_assoc]

/-- an output of the ingress phase is an output of one datagram, read in the state the
    datagrams before it left -/
theorem mem_ingress_outs (now : Nat) (o : Out) : ∀ (pkts : List Packet) (s : State), o ∈ (ingress s now pkts).2 →
    ∃ pre p post, pkts = pre ++ p :: post ∧ o ∈ (handleRead (ingress s now pre).1 now p).2
  | [], _, h => by simp [ingress] at h
  | p :: rest, s, h => by
    simp only [ingress, List.mem_append] at h
    rcases h with h | h
    · exact ⟨[], p, rest, rfl, h⟩
    · obtain ⟨pre, q, post, hp, ho⟩ := mem_ingress_outs now o rest _ h
      refine ⟨p :: pre, q, post, by simp [hp], ?_⟩
      simpa [ingress] using ho

/-- an output of the command phase is an output of one command, executed in the state the
    commands before it left -/
theorem mem_runCommands_outs (now : Nat) (o : Out) : ∀ (cmds : List Command) (s : State),
    o ∈ (runCommands s now cmds).2 →
    ∃ pre c post, cmds = pre ++ c :: post ∧ o ∈ (execCommand (runCommands s now pre).1 now c).2
  | [], _, h => by simp [runCommands] at h
  | c :: rest, s, h => by
    simp only [runCommands, List.mem_append] at h
    rcases h with h | h
    · exact ⟨[], c, rest, rfl, h⟩
    · obtain ⟨pre, q, post, hp, ho⟩ := mem_runCommands_outs now o rest _ h
      refine ⟨c :: pre, q, post, by simp [hp], ?_⟩
      simpa [runCommands] using ho

/-! ### what the two eviction steps leave: unexpired entries only -/

/-- every entry of every table of the cache -/
def CacheAll (Q : Entry → Prop) (c : Cache) : Prop := ∀ s : Slot, ∀ p ∈ c.table s, ∀ e ∈ p.2, Q e

theorem CacheAll.mono {Q Q' : Entry → Prop} (h : ∀ e, Q e → Q' e) {c : Cache} (hc : CacheAll Q c) : CacheAll Q' c :=
  fun s p hp e he => h e (hc s p hp e he)

theorem cacheAll_empty (Q : Entry → Prop) : CacheAll Q {} := by
  intro s p hp
  cases s <;> simp [Cache.table] at hp

theorem mem_evictLive (now : Nat) (t : Table) (p : BList × List Entry) (hp : p ∈ evictLive now t) :
    ∃ q ∈ t, p.1 = q.1 ∧ p.2 = q.2.filter (live now) ∧ p.2 ≠ [] := by
  simp only [evictLive, List.mem_filterMap] at hp
  obtain ⟨q, hq, he⟩ := hp
  split at he
  · cases he
  · rename_i hne
    cases he
    refine ⟨q, hq, rfl, rfl, ?_⟩
    simpa using hne

/-- after `evict_expired_services` and `evict_expired_addr` at `now` every cached entry has
    `expires > now` and no name is left without entries -/
theorem evict_allLive (c : Cache) (now : Nat) :
    CacheAll (fun e => now < e.record.expires) (evictAddr (evictServices c now).1 now).1 ∧
    ∀ s : Slot, ∀ p ∈ ((evictAddr (evictServices c now).1 now).1).table s, p.2 ≠ [] := by
  have hl : ∀ (t : Table) (p : BList × List Entry), p ∈ evictLive now t →
      (∀ e ∈ p.2, now < e.record.expires) ∧ p.2 ≠ [] := by
    intro t p hp
    obtain ⟨q, _, _, h2, h3⟩ := mem_evictLive now t p hp
    refine ⟨?_, h3⟩
    intro e he
    rw [h2] at he
    exact (live_iff now e).mp (List.mem_filter.mp he).2
  have ha : ∀ (t : Table) (p : BList × List Entry), p ∈ evictTable now t →
      (∀ e ∈ p.2, now < e.record.expires) ∧ p.2 ≠ [] := by
    intro t p hp
    obtain ⟨k, es'⟩ := p
    obtain ⟨es, _, h2, h3⟩ := (mem_evictTable now t k es').mp hp
    refine ⟨?_, h3⟩
    intro e he
    simp only [h2] at he
    exact (live_iff now e).mp (List.mem_filter.mp he).2
  refine ⟨?_, ?_⟩
  · intro s p hp e he
    cases s
    · exact (hl _ p hp).1 e he
    · exact (hl _ p hp).1 e he
    · exact (hl _ p hp).1 e he
    · exact (ha _ p hp).1 e he
    · exact (hl _ p hp).1 e he
  · intro s p hp
    cases s
    · exact (hl _ p hp).2
    · exact (hl _ p hp).2
    · exact (hl _ p hp).2
    · exact (ha _ p hp).2
    · exact (hl _ p hp).2

@[simp] theorem evictAddrHosts_cache (now : Nat) (items : List (BList × BList × BList × Nat)) :
    ∀ (hosts : List BList) (s : State), (evictAddrHosts s now items hosts).1.cache = s.cache
  | [], _ => rfl
  | h :: rest, s => by
    simp only [evictAddrHosts]
    rw [evictAddrHosts_cache now items rest, resolveUpdated_cache]

/-- the cache an iteration leaves: the cache before the eviction phases, evicted -/
theorem iter_cache_evicted (s : State) (now : Nat) (pkts : List Packet) (cmds : List Command) :
    ∃ c, (iter s now pkts cmds).1.cache = (evictAddr (evictServices c now).1 now).1 := by
  simp only [iter, runIpCheck_cache, evictAddrPhase, evictAddrHosts_cache, evictServicesPhase]
  exact ⟨_, rfl⟩

/-- **Evicted at once**: after an iteration at `now` every cached entry has `expires > now`,
    and no name is left without entries. -/
theorem iter_allLive (s : State) (now : Nat) (pkts : List Packet) (cmds : List Command) :
    CacheAll (fun e => now < e.record.expires) (iter s now pkts cmds).1.cache ∧
    ∀ sl : Slot, ∀ p ∈ (iter s now pkts cmds).1.cache.table sl, p.2 ≠ [] := by
  obtain ⟨c, hc⟩ := iter_cache_evicted s now pkts cmds
  rw [hc]
  exact evict_allLive c now

/-! ### entry-wise invariants of the cache: what each operation needs -/

def TableAll (Q : Entry → Prop) (t : Table) : Prop := ∀ p ∈ t, ∀ e ∈ p.2, Q e

theorem cacheAll_iff (Q : Entry → Prop) (c : Cache) :
    CacheAll Q c ↔ TableAll Q c.ptr ∧ TableAll Q c.srv ∧ TableAll Q c.txt ∧ TableAll Q c.addr ∧ TableAll Q c.nsec := by
  constructor
  · intro h
    exact ⟨h .ptr, h .srv, h .txt, h .addr, h .nsec⟩
  · rintro ⟨h1, h2, h3, h4, h5⟩ s
    cases s
    · exact h1
    · exact h2
    · exact h3
    · exact h4
    · exact h5

theorem TableAll.sub {Q : Entry → Prop} {t t' : Table} (h : TableAll Q t) (hs : ∀ p ∈ t', p ∈ t) : TableAll Q t' :=
  fun p hp e he => h p (hs p hp) e he

theorem TableAll.erase {Q : Entry → Prop} {t : Table} (h : TableAll Q t) (k : BList) : TableAll Q (t.erase k) :=
  h.sub fun _ hp => (List.mem_filter.mp hp).1

theorem TableAll.modify {Q : Entry → Prop} {t : Table} (h : TableAll Q t) (k : BList) (f : List Entry → List Entry)
    (hf : ∀ es, (∀ e ∈ es, Q e) → ∀ e ∈ f es, Q e) : TableAll Q (t.modify k f) := by
  intro p' hp' e' he'
  simp only [Table.modify, List.mem_map] at hp'
  obtain ⟨p, hp, rfl⟩ := hp'
  split at he'
  · exact hf p.2 (h p hp) e' he'
  · exact h p hp e' he'

theorem TableAll.set {Q : Entry → Prop} {t : Table} (h : TableAll Q t) (k : BList) (v : List Entry)
    (hv : ∀ e ∈ v, Q e) : TableAll Q (t.set k v) := by
  intro p hp e he
  rcases mem_set t k v p hp with rfl | hp
  · exact hv e he
  · exact h p hp e he

theorem TableAll.foldl {Q : Entry → Prop} {α} (f : Table → α → Table) (hf : ∀ t a, TableAll Q t → TableAll Q (f t a)) :
    ∀ (l : List α) (t : Table), TableAll Q t → TableAll Q (l.foldl f t)
  | [], _, h => h
  | a :: l, t, h => TableAll.foldl f hf l (f t a) (hf t a h)

theorem TableAll.evictLive {Q : Entry → Prop} {t : Table} (h : TableAll Q t) (now : Nat) :
    TableAll Q (Cache.evictLive now t) := by
  intro p hp e he
  obtain ⟨q, hq, _, h2, _⟩ := mem_evictLive now t p hp
  rw [h2] at he
  exact h q hq e (List.mem_filter.mp he).1

theorem TableAll.evictTable {Q : Entry → Prop} {t : Table} (h : TableAll Q t) (now : Nat) :
    TableAll Q (Cache.evictTable now t) := by
  intro p hp e he
  obtain ⟨k, es'⟩ := p
  obtain ⟨es, hes, h2, _⟩ := (mem_evictTable now t k es').mp hp
  simp only [h2] at he
  exact h (k, es) hes e (List.mem_filter.mp he).1

theorem tableAll_getD {Q : Entry → Prop} {t : Table} (h : TableAll Q t) (k : BList) : ∀ e ∈ (t.get k).getD [], Q e := by
  intro e he
  obtain ⟨p, hp, _, hpe⟩ := mem_getD t k e he
  exact h p hp e hpe

/-- `remove_service_type` only removes -/
theorem cacheAll_removeServiceType {Q : Entry → Prop} {c : Cache} (h : CacheAll Q c) (ty : BList) :
    CacheAll Q (removeServiceType c ty) := by
  rw [cacheAll_iff] at h ⊢
  obtain ⟨h1, h2, h3, h4, h5⟩ := h
  unfold removeServiceType
  split
  · exact ⟨h1, h2, h3, h4, h5⟩
  · refine ⟨h1.erase ty, ?_, ?_, ?_, h5⟩
    · exact TableAll.foldl _ (fun t i ht => ht.erase i) _ _ h2
    · exact TableAll.foldl _ (fun t i ht => ht.erase i) _ _ h3
    · apply TableAll.foldl _ _ _ _ h4
      intro t hst ht
      split
      · exact ht
      · exact ht.erase hst

/-- `service_verify_queries`: entries are kept or get the sooner expiry -/
theorem cacheAll_serviceVerifyQueries {Q : Entry → Prop} {c : Cache} (h : CacheAll Q c) (inst : BList)
    (at_ : Option Nat) (hq : ∀ t e, at_ = some t → Q e → Q (soonerEntry t e)) :
    CacheAll Q (serviceVerifyQueries c inst at_).1 := by
  unfold serviceVerifyQueries
  split
  · exact h
  · split
    · exact h
    · rename_i t
      rw [cacheAll_iff] at h ⊢
      obtain ⟨h1, h2, h3, h4, h5⟩ := h
      have hm : ∀ es : List Entry, (∀ e ∈ es, Q e) → ∀ e ∈ es.map (soonerEntry t), Q e := by
        intro es hes e he
        obtain ⟨e0, he0, rfl⟩ := List.mem_map.mp he
        exact hq t e0 rfl (hes e0 he0)
      refine ⟨h1, h2.modify _ _ hm, h3, ?_, h5⟩
      apply TableAll.foldl _ _ _ _ h4
      intro tb hst ht
      exact ht.modify _ _ hm

/-- `add_or_update`: the entries afterwards are old ones (possibly flushed), the matching one
    with its TTL reset, or the new one -/
theorem cacheAll_addOrUpdate {Q : Entry → Prop} {c : Cache} (h : CacheAll Q c) (srcName : BList) (srcIdx : Nat)
    (inc : Record) (now : Nat) (forUs : Bool)
    (hflush : ∀ e, Q e → Q (flushOne inc now e))
    (hreset : ∀ e, Q e → e.record.matchesRec inc = true → Q { e with record := e.record.resetTtl inc })
    (hnew : Q ⟨inc, srcName, srcIdx⟩) :
    CacheAll Q (addOrUpdate c srcName srcIdx inc now forUs).cache := by
  have h1 : CacheAll Q (noteSubtype c inc forUs) := by
    intro s p hp e he
    rw [table_noteSubtype] at hp
    exact h s p hp e he
  unfold addOrUpdate
  split
  · exact h1
  · rename_i s hs
    simp only []
    have hold : ∀ e ∈ (((noteSubtype c inc forUs).table s).get (keyOf s inc.name)).getD [], Q e :=
      tableAll_getD (h1 s) _
    have hfl : ∀ e ∈ flushList inc now ((((noteSubtype c inc forUs).table s).get (keyOf s inc.name)).getD []), Q e := by
      intro e he
      unfold flushList at he
      split at he
      · obtain ⟨e0, he0, rfl⟩ := List.mem_map.mp he
        exact hflush e0 (hold e0 he0)
      · exact hold e he
    split
    · intro s' p hp e he
      rw [table_setTable] at hp
      split at hp
      · rename_i hss
        subst hss
        exact TableAll.set (h1 s) _ _ hold p hp e he
      · exact h1 s' p hp e he
    · intro s' p hp e he
      rw [table_setTable] at hp
      split at hp
      · rename_i hss
        subst hss
        refine TableAll.set (h1 s) _ _ ?_ p hp e he
        intro e' he'
        unfold upsert at he'
        split at he'
        · rcases mem_resetFirst _ _ _ he' with h2 | ⟨e0, he0, hm, rfl⟩
          · exact hfl e' h2
          · exact hreset e0 (hfl e0 he0) hm
        · rcases List.mem_cons.mp he' with rfl | h2
          · exact hnew
          · exact hfl e' h2
      · exact h1 s' p hp e he

/-! ### the re-run phase does not touch the cache -/

theorem serviceVerifyQueries_none (c : Cache) (inst : BList) : (serviceVerifyQueries c inst none).1 = c := by
  unfold serviceVerifyQueries
  split <;> rfl

theorem execBrowse_cache (s : State) (now : Nat) (rep : Bool) (ty : BList) (d : Nat) (co : Bool) (ch : Nat) :
    (execBrowse s now rep ty d co ch).1.cache = s.cache := by
  unfold execBrowse
  cases rep <;> simp only [Bool.false_eq_true, if_false, if_true] <;> split <;>
    simp only [addRerun_cache, queryCacheForService_cache]

theorem execResolveHost_cache (s : State) (now : Nat) (rep : Bool) (host : BList) (d ch : Nat) (t : Option Nat) :
    (execResolveHost s now rep host d ch t).1.cache = s.cache := by
  unfold execResolveHost
  simp only []
  split
  · rfl
  · cases rep <;> simp only [Bool.false_eq_true, if_false, if_true] <;> repeat' split
    all_goals rfl

theorem execResolveInst_cache (s : State) (now : Nat) (inst : BList) (k : Nat) :
    (execResolveInst s now inst k).1.cache = s.cache := by
  unfold execResolveInst
  split
  · rfl
  · simp only []
    split <;> rfl

theorem execVerify_rep_cache (s : State) (now : Nat) (inst : BList) (t : Nat) :
    (execVerify s now true inst t).1.cache = s.cache := by
  unfold execVerify
  simp only [if_true]
  split <;> exact serviceVerifyQueries_none s.cache inst

theorem execRerun_cache (s : State) (now : Nat) (c : RCmd) : (execRerun s now c).1.cache = s.cache := by
  cases c with
  | browse ty d ch => exact execBrowse_cache s now true ty d false ch
  | resolveHost h d ch => exact execResolveHost_cache s now true h d ch none
  | resolve inst k => exact execResolveInst_cache s now inst k
  | verify inst t => exact execVerify_rep_cache s now inst t

theorem runReruns_cache (now : Nat) : ∀ (fuel : Nat) (keep rest : List Rerun) (s : State),
    (runReruns s now fuel keep rest).1.cache = s.cache
  | 0, _, _, _ => rfl
  | _ + 1, _, [], _ => rfl
  | fuel + 1, keep, r :: rest, s => by
    unfold runReruns
    split
    · simp only []
      rw [runReruns_cache now fuel]
      exact execRerun_cache _ now r.cmd
    · exact runReruns_cache now fuel _ _ s

@[simp] theorem rerunPhase_cache (s : State) (now : Nat) : (rerunPhase s now).1.cache = s.cache :=
  runReruns_cache now _ _ _ _

/-! ### entry-wise invariants through the refresh look-ups and the eviction -/

theorem refreshEntries_all {Q : Entry → Prop} (now : Nat)
    (hq : ∀ e, Q e → Q { e with record := e.record.refreshed now }) (es : List Entry) (h : ∀ e ∈ es, Q e) :
    ∀ e ∈ (refreshEntries now es).1, Q e := by
  intro e he
  simp only [refreshEntries, List.mem_map] at he
  obtain ⟨e0, he0, rfl⟩ := he
  exact hq e0 (h e0 he0)

theorem cacheAll_refreshDuePtr {Q : Entry → Prop} {c : Cache} (h : CacheAll Q c) (ty : BList) (now : Nat)
    (hq : ∀ e, Q e → Q { e with record := e.record.refreshed now }) : CacheAll Q (refreshDuePtr c ty now).1 := by
  unfold refreshDuePtr
  split
  · exact h
  · rw [cacheAll_iff] at h ⊢
    exact ⟨h.1.modify _ _ (refreshEntries_all now hq), h.2⟩

theorem cacheAll_refreshSrvTxtGo {Q : Entry → Prop} (now : Nat)
    (hq : ∀ e, Q e → Q { e with record := e.record.refreshed now }) : ∀ (l : List BList) (s : SrvTxtDue),
    CacheAll Q s.cache → CacheAll Q (refreshSrvTxtGo now l s).cache
  | [], _, h => h
  | inst :: rest, s, h => by
    unfold refreshSrvTxtGo
    apply cacheAll_refreshSrvTxtGo now hq rest
    rw [cacheAll_iff] at h ⊢
    exact ⟨h.1, h.2.1.modify _ _ (refreshEntries_all now hq), h.2.2.1.modify _ _ (refreshEntries_all now hq), h.2.2.2⟩

theorem cacheAll_refreshHostsGo {Q : Entry → Prop} (now : Nat)
    (hq : ∀ e, Q e → Q { e with record := e.record.refreshed now }) : ∀ (l : List BList) (s : HostsDue),
    CacheAll Q s.cache → CacheAll Q (refreshHostsGo now l s).cache
  | [], _, h => h
  | hst :: rest, s, h => by
    unfold refreshHostsGo
    apply cacheAll_refreshHostsGo now hq rest
    rw [cacheAll_iff] at h ⊢
    exact ⟨h.1, h.2.1, h.2.2.1, h.2.2.2.1.modify _ _ (refreshEntries_all now hq), h.2.2.2.2⟩

theorem cacheAll_refreshType {Q : Entry → Prop} {c : Cache} (h : CacheAll Q c) (now : Nat) (ty : BList)
    (hq : ∀ e, Q e → Q { e with record := e.record.refreshed now }) : CacheAll Q (refreshType c now ty).1 := by
  unfold refreshType
  simp only []
  exact cacheAll_refreshHostsGo now hq _ _ (cacheAll_refreshSrvTxtGo now hq _ _ (cacheAll_refreshDuePtr h ty now hq))

theorem cacheAll_refreshTypes {Q : Entry → Prop} (now : Nat)
    (hq : ∀ e, Q e → Q { e with record := e.record.refreshed now }) : ∀ (l : List BList) (c : Cache),
    CacheAll Q c → CacheAll Q (refreshTypes c now l).1
  | [], _, h => h
  | ty :: rest, c, h => by
    simp only [refreshTypes]
    exact cacheAll_refreshTypes now hq rest _ (cacheAll_refreshType h now ty hq)

theorem cacheAll_refreshDueResolutions {Q : Entry → Prop} {c : Cache} (h : CacheAll Q c) (host : BList) (now : Nat)
    (hq : ∀ e, Q e → Q { e with record := e.record.refreshNoMore }) : CacheAll Q (refreshDueResolutions c host now).1 := by
  unfold refreshDueResolutions
  rw [cacheAll_iff] at h ⊢
  refine ⟨h.1, h.2.1, h.2.2.1, h.2.2.2.1.modify _ _ ?_, h.2.2.2.2⟩
  intro es hes e he
  obtain ⟨e0, he0, rfl⟩ := List.mem_map.mp he
  split
  · exact hq e0 (hes e0 he0)
  · exact hes e0 he0

theorem cacheAll_refreshResolversGo {Q : Entry → Prop} (now : Nat)
    (hq : ∀ e, Q e → Q { e with record := e.record.refreshNoMore }) : ∀ (l : List BList) (c : Cache),
    CacheAll Q c → CacheAll Q (refreshResolversGo c now l).1
  | [], _, h => h
  | hst :: rest, c, h => by
    simp only [refreshResolversGo]
    exact cacheAll_refreshResolversGo now hq rest _ (cacheAll_refreshDueResolutions h hst now hq)

theorem cacheAll_evictServices {Q : Entry → Prop} {c : Cache} (h : CacheAll Q c) (now : Nat) :
    CacheAll Q (evictServices c now).1 := by
  rw [cacheAll_iff] at h ⊢
  exact ⟨h.1.evictLive now, h.2.1.evictLive now, h.2.2.1.evictLive now, h.2.2.2.1, h.2.2.2.2.evictLive now⟩

theorem cacheAll_evictAddr {Q : Entry → Prop} {c : Cache} (h : CacheAll Q c) (now : Nat) :
    CacheAll Q (evictAddr c now).1 := by
  rw [cacheAll_iff] at h ⊢
  exact ⟨h.1, h.2.1, h.2.2.1, h.2.2.2.1.evictTable now, h.2.2.2.2⟩

/-- an entry-wise invariant that survives a refresh of the `refresh` mark survives the re-run
    and refresh phases of an iteration -/
theorem cacheAll_refreshPhases {Q : Entry → Prop} (s : State) (now : Nat)
    (hq : ∀ e, Q e → Q { e with record := e.record.refreshed now })
    (hq2 : ∀ e, Q e → Q { e with record := e.record.refreshNoMore }) (h : CacheAll Q s.cache) :
    CacheAll Q (refreshResolvers (refreshActive (rerunPhase s now).1 now).1 now).1.cache := by
  have h1 : CacheAll Q (refreshActive (rerunPhase s now).1 now).1.cache := by
    simp only [refreshActive, addTimers_cache]
    exact cacheAll_refreshTypes now hq _ _ (by simpa using h)
  simp only [refreshResolvers]
  exact cacheAll_refreshResolversGo now hq2 _ _ h1

/-! ### more frames -/

@[simp] theorem addPending_ipInterval (s : State) (now : Nat) (i : BList) : (addPending s now i).ipInterval = s.ipInterval := by
  unfold addPending
  split <;> rfl

@[simp] theorem addPendings_ipInterval (now : Nat) : ∀ (l : List BList) (s : State),
    (addPendings s now l).ipInterval = s.ipInterval
  | [], _ => rfl
  | i :: rest, s => by
    simp only [addPendings]
    rw [addPendings_ipInterval now rest, addPending_ipInterval]

@[simp] theorem resolveUpdated_ipInterval (s : State) (now : Nat) (u : List BList) :
    (resolveUpdated s now u).1.ipInterval = s.ipInterval := by
  unfold resolveUpdated
  split
  · rfl
  · simp only [addPendings_ipInterval, markResolved]

theorem evictAddrHosts_ipInterval (now : Nat) (items : List (BList × BList × BList × Nat)) :
    ∀ (hosts : List BList) (s : State), (evictAddrHosts s now items hosts).1.ipInterval = s.ipInterval
  | [], _ => rfl
  | h :: rest, s => by
    simp only [evictAddrHosts]
    rw [evictAddrHosts_ipInterval now items rest, resolveUpdated_ipInterval]

theorem evictAddrHosts_queriers (now : Nat) (items : List (BList × BList × BList × Nat)) :
    ∀ (hosts : List BList) (s : State), (evictAddrHosts s now items hosts).1.queriers = s.queriers
  | [], _ => rfl
  | h :: rest, s => by
    simp only [evictAddrHosts]
    rw [evictAddrHosts_queriers now items rest, resolveUpdated_queriers]

/-! ### the set of cache-only types is touched by `browse` / `browse_cache` / `stop_browse` only -/

@[simp] theorem addRerun_cacheOnly (s : State) (n : Nat) (c : RCmd) : (addRerun s n c).cacheOnly = s.cacheOnly := rfl
@[simp] theorem addTimers_cacheOnly (s : State) (ts : List Nat) : (addTimers s ts).cacheOnly = s.cacheOnly := rfl
@[simp] theorem markResolved_cacheOnly (s : State) (l : List BList) : (markResolved s l).cacheOnly = s.cacheOnly := rfl

@[simp] theorem addPending_cacheOnly (s : State) (now : Nat) (i : BList) : (addPending s now i).cacheOnly = s.cacheOnly := by
  unfold addPending
  split <;> rfl

@[simp] theorem addPendings_cacheOnly (now : Nat) : ∀ (l : List BList) (s : State),
    (addPendings s now l).cacheOnly = s.cacheOnly
  | [], _ => rfl
  | i :: rest, s => by
    simp only [addPendings]
    rw [addPendings_cacheOnly now rest, addPending_cacheOnly]

@[simp] theorem resolveUpdated_cacheOnly (s : State) (now : Nat) (u : List BList) :
    (resolveUpdated s now u).1.cacheOnly = s.cacheOnly := by
  unfold resolveUpdated
  split
  · rfl
  · simp only [addPendings_cacheOnly, markResolved_cacheOnly]

@[simp] theorem queryCacheForService_cacheOnly (s : State) (now : Nat) (ty : BList) (ch : Nat) :
    (queryCacheForService s now ty ch).1.cacheOnly = s.cacheOnly := by
  simp only [queryCacheForService, addPendings_cacheOnly, markResolved_cacheOnly]

@[simp] theorem handleResponse_cacheOnly (s : State) (now : Nat) (intf : Intf) (m : Wire.Msg) :
    (handleResponse s now intf m).1.cacheOnly = s.cacheOnly := by
  simp only [handleResponse, resolveUpdated_cacheOnly, addTimers_cacheOnly]

@[simp] theorem handleRead_cacheOnly (s : State) (now : Nat) (p : Packet) :
    (handleRead s now p).1.cacheOnly = s.cacheOnly := by
  unfold handleRead
  repeat' split
  all_goals first | rfl | exact handleResponse_cacheOnly _ _ _ _

@[simp] theorem ingress_cacheOnly (now : Nat) : ∀ (pkts : List Packet) (s : State),
    (ingress s now pkts).1.cacheOnly = s.cacheOnly
  | [], _ => rfl
  | p :: rest, s => by
    simp only [ingress]
    rw [ingress_cacheOnly now rest, handleRead_cacheOnly]

theorem evictAddrHosts_cacheOnly (now : Nat) (items : List (BList × BList × BList × Nat)) :
    ∀ (hosts : List BList) (s : State), (evictAddrHosts s now items hosts).1.cacheOnly = s.cacheOnly
  | [], _ => rfl
  | h :: rest, s => by
    simp only [evictAddrHosts]
    rw [evictAddrHosts_cacheOnly now items rest, resolveUpdated_cacheOnly]

theorem execRerun_cacheOnly (s : State) (now : Nat) (c : RCmd) : (execRerun s now c).1.cacheOnly = s.cacheOnly := by
  cases c with
  | browse ty d ch => simp [execRerun, execBrowse, addRerun]
  | resolveHost h d ch =>
    simp only [execRerun, execResolveHost]
    split
    · rfl
    · simp only [if_true]
      split <;> rfl
  | resolve inst k =>
    simp only [execRerun, execResolveInst]
    split
    · rfl
    · simp only []
      split <;> rfl
  | verify inst t =>
    simp only [execRerun, execVerify, if_true]
    split <;> rfl

theorem runReruns_cacheOnly (now : Nat) : ∀ (fuel : Nat) (keep rest : List Rerun) (s : State),
    (runReruns s now fuel keep rest).1.cacheOnly = s.cacheOnly
  | 0, _, _, _ => rfl
  | _ + 1, _, [], _ => rfl
  | fuel + 1, keep, r :: rest, s => by
    unfold runReruns
    split
    · simp only []
      rw [runReruns_cacheOnly now fuel]
      exact execRerun_cacheOnly _ now r.cmd
    · exact runReruns_cacheOnly now fuel _ _ s

/-- membership in `insertSet` -/
theorem mem_insertSet (l : List BList) (x y : BList) : y ∈ insertSet l x ↔ y ∈ l ∨ y = x := by
  unfold insertSet
  split
  · rename_i h
    have hx : x ∈ l := by simpa using h
    constructor
    · exact Or.inl
    · rintro (h | rfl)
      · exact h
      · exact hx
  · simp

end Mdns.Client
