import Mdns.Model.Record
/-
  Helper lemmas for C11 / C10 about the record lifetime functions (Model/Record.lean).
-/
namespace Mdns.Rec
open Record

/-- The record `r` follows the schedule of a copy received at `t` with `ttl` seconds and
    has made `k` re-queries: its `refresh` field is the mark number `k`. -/
structure OnSchedule (r : Record) (t ttl k : Nat) : Prop where
  created : r.created = t
  ttl_eq : r.ttl = ttl
  expires : r.expires = t + 1000 * ttl
  refresh : r.refresh = markAt t ttl k
  k_le : k ≤ 4

theorem markPct_eq (k : Nat) : markPct k = if k < 4 then 80 + 5 * k else 100 := by
  match k with
  | 0 => rfl
  | 1 => rfl
  | 2 => rfl
  | 3 => rfl
  | k + 4 => simp [markPct]; omega

theorem markAt_mono (t ttl : Nat) {j k : Nat} (h : j ≤ k) : markAt t ttl j ≤ markAt t ttl k := by
  have hp : markPct j ≤ markPct k := by
    rw [markPct_eq, markPct_eq]
    split <;> split <;> omega
  unfold markAt expTime
  have := Nat.mul_le_mul_left ttl hp
  omega

theorem markAt_four (t ttl k : Nat) (h : 4 ≤ k) : markAt t ttl k = t + 1000 * ttl := by
  unfold markAt expTime
  rw [markPct_eq]
  split <;> omega

theorem markAt_lt_succ (t ttl k : Nat) (hk : k < 4) (httl : 1 ≤ ttl) : markAt t ttl k < markAt t ttl (k + 1) := by
  have : k = 0 ∨ k = 1 ∨ k = 2 ∨ k = 3 := by omega
  rcases this with rfl | rfl | rfl | rfl <;> simp [markAt, expTime, markPct] <;> omega

theorem new_onSchedule (name : BList) (ty cls : Nat) (flush : Bool) (ttl : Nat) (rd : RData) (t : Nat) :
    OnSchedule (Record.new name ty cls flush ttl rd t) t ttl 0 := by
  constructor <;> simp [Record.new, markAt, markPct, expTime] <;> omega

theorem fires_eq_spec {r : Record} {t ttl k : Nat} (h : OnSchedule r t ttl k) (now : Nat) :
    r.refreshFires now = specFires t ttl k now := by
  unfold refreshFires isExpired refreshDue specFires
  rw [h.expires, h.refresh]
  by_cases hk : k < 4
  · by_cases hd : now < t + 1000 * ttl
    · have : ¬ (t + 1000 * ttl ≤ now) := by omega
      simp [hd, this, hk]
    · have : t + 1000 * ttl ≤ now := by omega
      simp [hd, this]
  · have h4 := markAt_four t ttl k (by omega)
    rw [h4]
    by_cases hd : now < t + 1000 * ttl
    · have : ¬ (t + 1000 * ttl ≤ now) := by omega
      simp [hd, this, hk]
    · have : t + 1000 * ttl ≤ now := by omega
      simp [hd, this]

theorem refreshNext_eq {r : Record} {t ttl k : Nat} (h : OnSchedule r t ttl k) (hk : k < 4) (httl : 1 ≤ ttl) :
    r.refreshNext = markAt t ttl (k + 1) := by
  unfold refreshNext
  rw [h.refresh, h.created, h.ttl_eq]
  have : k = 0 ∨ k = 1 ∨ k = 2 ∨ k = 3 := by omega
  rcases this with rfl | rfl | rfl | rfl <;> simp only [markAt, expTime, markPct] <;> (repeat' split) <;> first | omega | simp_all

/-- the next state of the schedule counter -/
def specNext (t ttl k now : Nat) : Nat := if specFires t ttl k now then k + 1 else k

theorem specFires_lt {t ttl k now : Nat} (h : specFires t ttl k now = true) : k < 4 := by
  simp [specFires] at h
  omega

theorem refreshed_onSchedule {r : Record} {t ttl k : Nat} (h : OnSchedule r t ttl k) (httl : 1 ≤ ttl) (now : Nat) :
    OnSchedule (r.refreshed now) t ttl (specNext t ttl k now) := by
  unfold refreshed specNext
  rw [fires_eq_spec h now]
  by_cases hf : specFires t ttl k now = true
  · have hk := specFires_lt hf
    simp only [hf, if_true]
    exact ⟨h.created, h.ttl_eq, h.expires, refreshNext_eq h hk httl, by omega⟩
  · simp only [hf]
    exact h

theorem specRun_cons (t ttl k now : Nat) (rest : List Nat) :
    specRun t ttl k (now :: rest) = specFires t ttl k now :: specRun t ttl (specNext t ttl k now) rest := rfl

/-- number of re-queries in a list of answers -/
def fired (answers : List Bool) : Nat := answers.count true

theorem runRefresh_spec (times : List Nat) : ∀ {r : Record} {t ttl k : Nat}, OnSchedule r t ttl k → 1 ≤ ttl →
    (runRefresh r times).1 = specRun t ttl k times ∧
    OnSchedule (runRefresh r times).2 t ttl (k + fired (specRun t ttl k times)) := by
  induction times with
  | nil => intro r t ttl k h _; exact ⟨rfl, by simpa [runRefresh, specRun, fired] using h⟩
  | cons now rest ih =>
    intro r t ttl k h httl
    have h' := refreshed_onSchedule h httl now
    obtain ⟨ih1, ih2⟩ := ih h' httl
    simp only [runRefresh, specRun_cons]
    refine ⟨by rw [ih1, fires_eq_spec h now], ?_⟩
    have : k + fired (specFires t ttl k now :: specRun t ttl (specNext t ttl k now) rest) =
        specNext t ttl k now + fired (specRun t ttl (specNext t ttl k now) rest) := by
      unfold specNext fired
      cases specFires t ttl k now <;> simp <;> omega
    rw [this]
    exact ih2

/-! ### consequences of the specification of the schedule -/

theorem specRun_length (t ttl : Nat) (times : List Nat) : ∀ k, (specRun t ttl k times).length = times.length := by
  induction times with
  | nil => intro k; rfl
  | cons now rest ih => intro k; simp [specRun_cons, ih]

theorem specRun_fired_le (t ttl : Nat) (times : List Nat) : ∀ k, k ≤ 4 → k + fired (specRun t ttl k times) ≤ 4 := by
  induction times with
  | nil => intro k hk; simpa [specRun, fired] using hk
  | cons now rest ih =>
    intro k hk
    rw [specRun_cons]
    by_cases hf : specFires t ttl k now = true
    · have := specFires_lt hf
      have := ih (k + 1) (by omega)
      simp only [specNext, hf, if_true, fired, List.count_cons_self] at *
      omega
    · have := ih k hk
      simp only [Bool.not_eq_true] at hf
      simp only [specNext, hf, fired] at *
      simpa using this

/-- the observations paired with their answers -/
def paired (times : List Nat) (answers : List Bool) : List (Nat × Bool) := times.zip answers

theorem specRun_before_expiry (t ttl : Nat) (times : List Nat) : ∀ k, ∀ p ∈ paired times (specRun t ttl k times),
    p.2 = true → p.1 < t + 1000 * ttl := by
  induction times with
  | nil => intro k p hp; simp [paired, specRun] at hp
  | cons now rest ih =>
    intro k p hp h2
    simp only [paired, specRun_cons, List.zip_cons_cons, List.mem_cons] at hp
    rcases hp with rfl | hp
    · simp [specFires] at h2
      omega
    · exact ih _ p hp h2

/-- re-queries made at observation times before the mark number `j` -/
def firedBefore (t ttl j : Nat) (ps : List (Nat × Bool)) : Nat :=
  (ps.filter fun p => p.2 && decide (p.1 < markAt t ttl j)).length

theorem specRun_one_per_mark (t ttl j : Nat) (times : List Nat) : ∀ k,
    firedBefore t ttl j (paired times (specRun t ttl k times)) ≤ j - k := by
  induction times with
  | nil => intro k; simp [firedBefore, paired, specRun]
  | cons now rest ih =>
    intro k
    simp only [paired, specRun_cons, List.zip_cons_cons, firedBefore, List.filter_cons]
    by_cases hf : specFires t ttl k now = true
    · have ih' := ih (k + 1)
      simp only [firedBefore, paired] at ih'
      simp only [specNext, hf, if_true, Bool.true_and]
      by_cases hlt : now < markAt t ttl j
      · have hkj : k < j := by
          apply Classical.byContradiction
          intro hn
          have := markAt_mono t ttl (Nat.le_of_not_lt hn)
          simp [specFires] at hf
          omega
        simp only [hlt, decide_true, if_true, List.length_cons]
        omega
      · simp only [hlt, decide_false]
        have : (if false = true then (now, true) :: List.filter (fun p => p.2 && decide (p.1 < markAt t ttl j))
            (rest.zip (specRun t ttl (k + 1) rest)) else List.filter (fun p => p.2 && decide (p.1 < markAt t ttl j))
            (rest.zip (specRun t ttl (k + 1) rest))) = List.filter (fun p => p.2 && decide (p.1 < markAt t ttl j))
            (rest.zip (specRun t ttl (k + 1) rest)) := by simp
        rw [this]
        omega
    · have ih' := ih k
      simp only [firedBefore, paired] at ih'
      simp only [Bool.not_eq_true] at hf
      simp only [specNext, hf, Bool.false_and]
      simpa using ih'

/-- an observation in the window where the first re-query is due: at or after 80 %, before expiry -/
def inWindow (t ttl now : Nat) : Prop := markAt t ttl 0 ≤ now ∧ now < t + 1000 * ttl

theorem specRun_first (t ttl : Nat) (pre : List Nat) (now : Nat) (post : List Nat)
    (hpre : ∀ x ∈ pre, ¬ inWindow t ttl x) (hnow : inWindow t ttl now) :
    specRun t ttl 0 (pre ++ now :: post) = List.replicate pre.length false ++ true :: specRun t ttl 1 post := by
  induction pre with
  | nil =>
    have : specFires t ttl 0 now = true := by
      unfold inWindow at hnow
      simp [specFires]
      omega
    simp [specRun_cons, specNext, this]
  | cons x pre ih =>
    have hx : specFires t ttl 0 x = false := by
      have := hpre x (by simp)
      unfold inWindow at this
      simp [specFires]
      omega
    have := ih (fun y hy => hpre y (by simp [hy]))
    simp [specRun_cons, specNext, hx, this, List.replicate_succ]

/-! ### matches / suppression -/

theorem entryEq_iff (a b : Record) :
    a.entryEq b = true ↔ a.name = b.name ∧ a.ty = b.ty ∧ a.cls = b.cls ∧ a.flush = b.flush := by
  simp [entryEq, and_assoc]

theorem matchesRec_iff (a b : Record) :
    a.matchesRec b = true ↔ a.name = b.name ∧ a.ty = b.ty ∧ a.cls = b.cls ∧ a.flush = b.flush ∧ a.rdata = b.rdata := by
  simp only [matchesRec, Bool.and_eq_true, entryEq_iff, beq_iff_eq]
  constructor
  · rintro ⟨h, h1, h2, h3, h4⟩; exact ⟨h1, h2, h3, h4, h⟩
  · rintro ⟨h1, h2, h3, h4, h⟩; exact ⟨h, h1, h2, h3, h4⟩

theorem matchesRec_comm (a b : Record) : a.matchesRec b = b.matchesRec a := by
  rw [Bool.eq_iff_iff, matchesRec_iff, matchesRec_iff]
  constructor <;> (rintro ⟨h1, h2, h3, h4, h5⟩; exact ⟨h1.symm, h2.symm, h3.symm, h4.symm, h5.symm⟩)

theorem sameRecord_iff (a b : Record) :
    a.sameRecord b = true ↔ lower a.name = lower b.name ∧ a.ty = b.ty ∧ a.cls = b.cls ∧ a.rdata.wire = b.rdata.wire := by
  simp [sameRecord, and_assoc]

theorem halflifePassed_eq_false_iff (r : Record) (now : Nat) :
    r.halflifePassed now = false ↔ now ≤ r.created + 500 * r.ttl := by
  unfold halflifePassed expTime
  rw [decide_eq_false_iff_not]
  omega

theorem half_ttl (mine other : Nat) : other > mine / 2 ↔ 2 * other > mine := by omega

end Mdns.Rec
