import Mdns.Lemmas.ClientHostComplete
/-
  How the scheduling part of the client state (timers, queued re-runs, searches) evolves in a
  phase of `Client.iter`: the relation `Step`.  Every phase only PREPENDS timers (apart from
  `pop_timers_till`), every re-run it queues comes with its timer, every deadline it sets
  comes with its timer.  Shared by C12 (wake-up covers the due work), C13 (a stopped search
  leaves nothing behind) and C20 (timers are bounded).
-/
namespace Mdns.Client
open Mdns Mdns.Rec Mdns.Cache

/-- the search a queued re-run belongs to: (kind, name, channel) -/
def rkey : RCmd → Option (Nat × BList × Nat)
  | .browse ty _ ch => some (0, ty, ch)
  | .resolveHost h _ ch => some (1, h, ch)
  | _ => none

/-- the search a command starts -/
def ckey : Command → Option (Nat × BList × Nat)
  | .browse ty ch _ => some (0, ty, ch)
  | .resolveHost h ch _ => some (1, h, ch)
  | _ => none

/-- the back-off delay of a queued re-run is at least a second and at most one hour -/
def DelayOk (r : Rerun) : Prop :=
  match r.cmd with
  | .browse _ d _ => 1 ≤ d ∧ d ≤ 3600
  | .resolveHost _ d _ => 1 ≤ d ∧ d ≤ 3600
  | _ => True

theorem nextDelay_le (d : Nat) (h : 1 ≤ d) : 1 ≤ Sched.nextDelay d ∧ Sched.nextDelay d ≤ 3600 := by
  simp only [Sched.nextDelay, Sched.MAX_DELAY]
  omega

/-- `s'` is `s` after a phase at `now` that executed (some of) the commands `cmds`:
    * timers are only prepended, and the new ones satisfy `OK`;
    * a queued re-run is an old one, or it is due after `now`, has a timer at its due time, a
      delay between a second and an hour, and a key satisfying `KeyOK`;
    * an open hostname search is an old one, or was started by a `resolve_hostname` of `cmds`
      and its deadline (if any) has a timer;
    * a browse is an old one or was started by a `browse` of `cmds`;
    * the next interface check is untouched. -/
structure Step (now : Nat) (cmds : List Command) (KeyOK : Option (Nat × BList × Nat) → Prop) (OK : Nat → Prop)
    (s s' : State) : Prop where
  timers : ∃ new, s'.timers = new ++ s.timers ∧ ∀ t ∈ new, OK t
  reruns : ∀ r ∈ s'.reruns, r ∈ s.reruns ∨ (r.next ∈ s'.timers ∧ now < r.next ∧ DelayOk r ∧ KeyOK (rkey r.cmd))
  resolvers : ∀ q ∈ s'.resolvers, q ∈ s.resolvers ∨
    ∃ h t, Command.resolveHost h q.2.1 t ∈ cmds ∧ q.1 = lower h ∧ ∀ dl, q.2.2 = some dl → dl ∈ s'.timers
  queriers : ∀ q ∈ s'.queriers, q ∈ s.queriers ∨ ∃ co, Command.browse q.1 q.2 co ∈ cmds
  ip : s'.nextIpCheck = s.nextIpCheck

variable {now : Nat} {cmds : List Command} {KeyOK : Option (Nat × BList × Nat) → Prop} {OK : Nat → Prop}

theorem Step.timers_mono {s s' : State} (h : Step now cmds KeyOK OK s s') : ∀ t ∈ s.timers, t ∈ s'.timers := by
  obtain ⟨new, hn, _⟩ := h.timers
  intro t ht
  rw [hn]
  exact List.mem_append_right _ ht

/-- nothing of the scheduling part is added -/
theorem Step.of_sub {s s' : State} (ht : s'.timers = s.timers) (hr : ∀ r ∈ s'.reruns, r ∈ s.reruns)
    (hv : ∀ q ∈ s'.resolvers, q ∈ s.resolvers) (hq : ∀ q ∈ s'.queriers, q ∈ s.queriers)
    (hi : s'.nextIpCheck = s.nextIpCheck) : Step now cmds KeyOK OK s s' :=
  ⟨⟨[], by simp [ht], fun _ h => by cases h⟩, fun r h => Or.inl (hr r h), fun q h => Or.inl (hv q h),
   fun q h => Or.inl (hq q h), hi⟩

theorem Step.refl (s : State) : Step now cmds KeyOK OK s s :=
  Step.of_sub rfl (fun _ h => h) (fun _ h => h) (fun _ h => h) rfl

theorem Step.trans {a b c : State} (h1 : Step now cmds KeyOK OK a b) (h2 : Step now cmds KeyOK OK b c) :
    Step now cmds KeyOK OK a c := by
  obtain ⟨n1, e1, o1⟩ := h1.timers
  obtain ⟨n2, e2, o2⟩ := h2.timers
  refine ⟨⟨n2 ++ n1, by rw [e2, e1, List.append_assoc], ?_⟩, ?_, ?_, ?_, h2.ip.trans h1.ip⟩
  · intro t ht
    rcases List.mem_append.mp ht with ht | ht
    · exact o2 t ht
    · exact o1 t ht
  · intro r hr
    rcases h2.reruns r hr with h | h
    · rcases h1.reruns r h with h | ⟨h3, h4⟩
      · exact Or.inl h
      · exact Or.inr ⟨h2.timers_mono _ h3, h4⟩
    · exact Or.inr h
  · intro q hq
    rcases h2.resolvers q hq with h | h
    · rcases h1.resolvers q h with h | ⟨h0, t, h3, h4, h5⟩
      · exact Or.inl h
      · exact Or.inr ⟨h0, t, h3, h4, fun dl hd => h2.timers_mono _ (h5 dl hd)⟩
    · exact Or.inr h
  · intro q hq
    rcases h2.queriers q hq with h | h
    · exact h1.queriers q h
    · exact Or.inr h

theorem Step.mono {cmds' : List Command} {KeyOK' : Option (Nat × BList × Nat) → Prop} {OK' : Nat → Prop} {s s' : State}
    (h : Step now cmds KeyOK OK s s') (hc : ∀ c ∈ cmds, c ∈ cmds') (hk : ∀ k, KeyOK k → KeyOK' k)
    (ho : ∀ t, OK t → OK' t) : Step now cmds' KeyOK' OK' s s' := by
  obtain ⟨n1, e1, o1⟩ := h.timers
  refine ⟨⟨n1, e1, fun t ht => ho t (o1 t ht)⟩, ?_, ?_, ?_, h.ip⟩
  · intro r hr
    rcases h.reruns r hr with h | ⟨h1, h0, h2, h3⟩
    · exact Or.inl h
    · exact Or.inr ⟨h1, h0, h2, hk _ h3⟩
  · intro q hq
    rcases h.resolvers q hq with h | ⟨h0, t, h3, h4, h5⟩
    · exact Or.inl h
    · exact Or.inr ⟨h0, t, hc _ h3, h4, h5⟩
  · intro q hq
    rcases h.queriers q hq with h | ⟨co, h⟩
    · exact Or.inl h
    · exact Or.inr ⟨co, hc _ h⟩

/-! ### the building blocks -/

theorem step_addRerun (s : State) (n : Nat) (c : RCmd) (hO : OK n) (hn : now < n) (hd : DelayOk ⟨n, c⟩)
    (hk : KeyOK (rkey c)) : Step now cmds KeyOK OK s (addRerun s n c) := by
  refine ⟨⟨[n], rfl, fun t ht => by simp at ht; exact ht ▸ hO⟩, ?_, fun q h => Or.inl h, fun q h => Or.inl h, rfl⟩
  intro r hr
  simp only [addRerun, List.mem_append, List.mem_singleton] at hr
  rcases hr with hr | rfl
  · exact Or.inl hr
  · exact Or.inr ⟨by simp [addRerun], hn, hd, hk⟩

theorem step_addTimers (s : State) (ts : List Nat) (hO : ∀ t ∈ ts, OK t) :
    Step now cmds KeyOK OK s (addTimers s ts) :=
  ⟨⟨ts, rfl, hO⟩, fun r h => Or.inl h, fun q h => Or.inl h, fun q h => Or.inl h, rfl⟩

theorem step_addPending (s : State) (i : BList) (hO : OK (now + 500)) (hk : KeyOK none) :
    Step now cmds KeyOK OK s (addPending s now i) := by
  unfold addPending
  split
  · exact Step.refl s
  · have h1 : Step now cmds KeyOK OK s (addRerun s (now + RESOLVE_WAIT) (.resolve i 1)) :=
      step_addRerun s _ _ hO (by simp [RESOLVE_WAIT]) trivial hk
    exact h1.trans (Step.of_sub rfl (fun _ h => h) (fun _ h => h) (fun _ h => h) rfl)

theorem step_addPendings (hO : OK (now + 500)) (hk : KeyOK none) : ∀ (l : List BList) (s : State),
    Step now cmds KeyOK OK s (addPendings s now l)
  | [], s => Step.refl s
  | i :: rest, s => by
    simp only [addPendings]
    exact (step_addPending s i hO hk).trans (step_addPendings hO hk rest _)

theorem step_resolveUpdated (s : State) (u : List BList) (hO : OK (now + 500)) (hk : KeyOK none) :
    Step now cmds KeyOK OK s (resolveUpdated s now u).1 := by
  unfold resolveUpdated
  split
  · exact Step.refl s
  · simp only []
    refine Step.trans ?_ (step_addPendings hO hk _ _)
    exact Step.of_sub rfl (fun _ h => h) (fun _ h => h) (fun _ h => h) rfl

/-! ### ingress -/

/-- what the entry returned by `add_or_update` of a decoded record looks like: created now with
    the TTL of the record, expiring at the end of that TTL, refresh mark at 80 % (or none) -/
theorem addOrUpdate_result_times (c : Cache) (ifName : BList) (ifIdx now : Nat) (r : Wire.Rec) (forUs : Bool)
    (e : Entry) (b : Bool)
    (h : (addOrUpdate c ifName ifIdx (ofWire ifName ifIdx now r) now forUs).result = some (e, b)) :
    e.record.created = now ∧ e.record.ttl = r.ttl ∧ e.record.expires = expTime now r.ttl 100 ∧
    (e.record.refresh = expTime now r.ttl 80 ∨ e.record.refresh = expTime now r.ttl 100) := by
  unfold addOrUpdate at h
  split at h
  · cases h
  · simp only [] at h
    split at h
    · cases h
    · simp only [Option.map_eq_some_iff, Prod.mk.injEq] at h
      obtain ⟨e', hget, rfl, _⟩ := h
      unfold upsert upsertIdx at hget
      split at hget
      · rename_i hm
        obtain ⟨pre, e0, post, _, _, _, h4, h5⟩ := resetFirst_spec (ofWire ifName ifIdx now r) _ hm
        rw [h4, h5] at hget
        simp only [List.getElem?_append_right (Nat.le_refl _), Nat.sub_self, List.getElem?_cons_zero,
          Option.some.injEq] at hget
        subst hget
        refine ⟨rfl, rfl, rfl, ?_⟩
        by_cases httl : r.ttl > 1
        · left
          simp [Record.resetTtl, ofWire, Record.new, httl]
        · right
          simp [Record.resetTtl, ofWire, Record.new, httl]
      · simp only [List.getElem?_cons_zero, Option.some.injEq] at hget
        subst hget
        exact ⟨rfl, rfl, rfl, Or.inl rfl⟩

theorem mem_flushTimers (inc : Record) (now : Nat) (es : List Entry) (t : Nat) (h : t ∈ flushTimers inc now es) :
    t = now + 1000 := by
  unfold flushTimers at h
  split at h
  · simp only [List.mem_map] at h
    obtain ⟨_, _, rfl⟩ := h
    rfl
  · cases h

theorem addOrUpdate_timers (c : Cache) (srcName : BList) (srcIdx : Nat) (inc : Record) (now : Nat) (forUs : Bool)
    (t : Nat) (h : t ∈ (addOrUpdate c srcName srcIdx inc now forUs).timers) : t = now + 1000 := by
  unfold addOrUpdate at h
  split at h
  · cases h
  · simp only [] at h
    split at h
    · cases h
    · exact mem_flushTimers _ _ _ _ h

/-- the timers one record adds: one second ahead (cache flush), or the end / the refresh mark
    of the record's own lifetime -/
theorem ingestOne_timers (q : List (BList × Nat)) (ifName : BList) (ifIdx now : Nat) (forUs : Bool) (acc : Ingest)
    (r : Wire.Rec) (t : Nat) (h : t ∈ (ingestOne q ifName ifIdx now forUs acc r).timers) :
    t ∈ acc.timers ∨ t = now + 1000 ∨ t = expTime now r.ttl 100 ∨ t = expTime now r.ttl 80 := by
  unfold ingestOne at h
  simp only [] at h
  have hres := addOrUpdate_timers acc.cache ifName ifIdx (ofWire ifName ifIdx now r) now forUs
  split at h
  · simp only [List.mem_append] at h
    rcases h with h | h
    · exact Or.inl h
    · exact Or.inr (Or.inl (hres t h))
  · rename_i e hr
    obtain ⟨_, _, h3, h4⟩ := addOrUpdate_result_times _ _ _ _ _ _ e false hr
    simp only [List.mem_append, List.mem_cons, List.not_mem_nil, or_false] at h
    rcases h with (h | h) | h | h
    · exact Or.inl h
    · exact Or.inr (Or.inl (hres t h))
    · exact Or.inr (Or.inr (Or.inl (h.trans h3)))
    · rcases h4 with h4 | h4
      · exact Or.inr (Or.inr (Or.inr (h.trans h4)))
      · exact Or.inr (Or.inr (Or.inl (h.trans h4)))
  · rename_i e hr
    obtain ⟨_, _, h3, h4⟩ := addOrUpdate_result_times _ _ _ _ _ _ e true hr
    have hbase : ∀ t, t ∈ acc.timers ++ (addOrUpdate acc.cache ifName ifIdx (ofWire ifName ifIdx now r) now forUs).timers ++
        [e.record.expires, e.record.refresh] →
        t ∈ acc.timers ∨ t = now + 1000 ∨ t = expTime now r.ttl 100 ∨ t = expTime now r.ttl 80 := by
      intro t h
      simp only [List.mem_append, List.mem_cons, List.not_mem_nil, or_false] at h
      rcases h with (h | h) | h | h
      · exact Or.inl h
      · exact Or.inr (Or.inl (hres t h))
      · exact Or.inr (Or.inr (Or.inl (h.trans h3)))
      · rcases h4 with h4 | h4
        · exact Or.inr (Or.inr (Or.inr (h.trans h4)))
        · exact Or.inr (Or.inr (Or.inl (h.trans h4)))
    repeat' split at h
    all_goals first
      | exact hbase t h
      | (rcases List.mem_append.mp h with h | h
         · exact hbase t h
         · simp only [List.mem_cons, List.not_mem_nil, or_false] at h
           rcases h4 with h4 | h4
           · exact Or.inr (Or.inr (Or.inr (h.trans h4)))
           · exact Or.inr (Or.inr (Or.inl (h.trans h4))))

theorem ingestAll_timers (q : List (BList × Nat)) (ifName : BList) (ifIdx now : Nat) (forUs : Bool) :
    ∀ (rs : List Wire.Rec) (acc : Ingest) (t : Nat), t ∈ (ingestAll q ifName ifIdx now forUs acc rs).timers →
      t ∈ acc.timers ∨ t = now + 1000 ∨ ∃ r ∈ rs, t = expTime now r.ttl 100 ∨ t = expTime now r.ttl 80
  | [], _, _, h => Or.inl h
  | r :: rest, acc, t, h => by
    simp only [ingestAll] at h
    rcases ingestAll_timers q ifName ifIdx now forUs rest _ t h with h | h | ⟨r', hr', h⟩
    · rcases ingestOne_timers q ifName ifIdx now forUs acc r t h with h | h | h | h
      · exact Or.inl h
      · exact Or.inr (Or.inl h)
      · exact Or.inr (Or.inr ⟨r, List.mem_cons_self, Or.inl h⟩)
      · exact Or.inr (Or.inr ⟨r, List.mem_cons_self, Or.inr h⟩)
    · exact Or.inr (Or.inl h)
    · exact Or.inr (Or.inr ⟨r', List.mem_cons_of_mem _ hr', h⟩)

/-- the timers a response arms: `now + 1 s` (cache flush), `now + 500 ms` (follow-up), or the
    end / 80 % mark of the lifetime of one of its records -/
def ResponseTimer (now : Nat) (rs : List Wire.Rec) (t : Nat) : Prop :=
  t = now + 1000 ∨ t = now + 500 ∨ ∃ r ∈ rs, t = expTime now r.ttl 100 ∨ t = expTime now r.ttl 80

theorem step_handleResponse (s : State) (intf : Intf) (m : Wire.Msg) (hk : KeyOK none)
    (hO : ∀ t, ResponseTimer now (m.answers ++ m.authorities ++ m.additionals) t → OK t) :
    Step now cmds KeyOK OK s (handleResponse s now intf m).1 := by
  unfold handleResponse
  simp only []
  refine Step.trans ?_ (step_resolveUpdated _ _ (hO _ (Or.inr (Or.inl rfl))) hk)
  refine Step.trans (b := { s with cache := (ingestAll s.queriers intf.name intf.idx now (isForUs s m.answers)
      { cache := s.cache, timers := [], changes := [], outs := [] } (m.answers ++ m.authorities ++ m.additionals)).cache })
    (Step.of_sub rfl (fun _ h => h) (fun _ h => h) (fun _ h => h) rfl) ?_
  apply step_addTimers
  intro t ht
  rcases ingestAll_timers _ _ _ _ _ _ _ t ht with h | h | h
  · cases h
  · exact hO t (Or.inl h)
  · exact hO t (Or.inr (Or.inr h))

/-- the timers the datagrams of an iteration arm -/
def IngressTimer (now : Nat) (ds : List Delivery) (t : Nat) : Prop :=
  t = now + 1000 ∨ t = now + 500 ∨ ∃ d ∈ ds, d.time = now ∧ (t = expTime now d.wire.ttl 100 ∨ t = expTime now d.wire.ttl 80)

theorem step_handleRead (s : State) (p : Packet) (hk : KeyOK none)
    (hO : ∀ t, IngressTimer now (pktDeliveries s now p) t → OK t) :
    Step now cmds KeyOK OK s (handleRead s now p).1 := by
  unfold handleRead
  unfold pktDeliveries at hO
  split
  · exact Step.refl s
  · rename_i intf hfind
    simp only [hfind] at hO
    split
    · exact Step.refl s
    · rename_i hfam
      simp only [hfam] at hO
      split
      · rename_i hresp
        simp only [hresp, if_true] at hO
        apply step_handleResponse s intf p.msg hk
        intro t ht
        apply hO
        rcases ht with h | h | ⟨r, hr, h⟩
        · exact Or.inl h
        · exact Or.inr (Or.inl h)
        · exact Or.inr (Or.inr ⟨⟨now, intf.name, intf.idx, r⟩, List.mem_map.mpr ⟨r, hr, rfl⟩, rfl, h⟩)
      · exact Step.refl s

theorem step_ingress (hk : KeyOK none) : ∀ (pkts : List Packet) (s : State),
    (∀ t, IngressTimer now (deliveries s now pkts) t → OK t) → Step now cmds KeyOK OK s (ingress s now pkts).1
  | [], s, _ => Step.refl s
  | p :: rest, s, hO => by
    simp only [ingress]
    have mono : ∀ (a b : List Delivery) (t : Nat), (∀ d ∈ a, d ∈ b) → IngressTimer now a t → IngressTimer now b t := by
      intro a b t hab h
      rcases h with h | h | ⟨d, hd, h⟩
      · exact Or.inl h
      · exact Or.inr (Or.inl h)
      · exact Or.inr (Or.inr ⟨d, hab d hd, h⟩)
    refine (step_handleRead s p hk fun t ht => hO t ?_).trans (step_ingress hk rest _ fun t ht => hO t ?_)
    · exact mono _ _ t (fun d hd => by simp only [deliveries]; exact List.mem_append_left _ hd) ht
    · exact mono _ _ t (fun d hd => by simp only [deliveries]; exact List.mem_append_right _ hd) ht

/-! ### commands -/

theorem step_queryCacheForService (s : State) (ty : BList) (ch : Nat) (hO : OK (now + 500)) (hk : KeyOK none) :
    Step now cmds KeyOK OK s (queryCacheForService s now ty ch).1 := by
  simp only [queryCacheForService]
  refine Step.trans ?_ (step_addPendings hO hk _ _)
  exact Step.of_sub rfl (fun _ h => h) (fun _ h => h) (fun _ h => h) rfl

theorem step_execBrowse_new (s : State) (ty : BList) (d : Nat) (co : Bool) (ch : Nat) (hd : 1 ≤ d)
    (hc : Command.browse ty ch co ∈ cmds) (hO : OK (now + 500)) (hOd : OK (now + d * 1000)) (hk : KeyOK none)
    (hkb : KeyOK (some (0, ty, ch))) : Step now cmds KeyOK OK s (execBrowse s now false ty d co ch).1 := by
  have h0 : Step now cmds KeyOK OK s
      { s with reruns := s.reruns.filter (fun r => !isBrowseOf ty r),
               queriers := (ty, ch) :: s.queriers.filter (fun q => q.1 != ty),
               cacheOnly := if co then insertSet s.cacheOnly ty else s.cacheOnly.filter (· != ty) } := by
    refine ⟨⟨[], rfl, fun _ h => by cases h⟩, fun r h => Or.inl (List.mem_filter.mp h).1, fun q h => Or.inl h, ?_, rfl⟩
    intro q hq
    rcases List.mem_cons.mp hq with rfl | hq
    · exact Or.inr ⟨co, hc⟩
    · exact Or.inl (List.mem_filter.mp hq).1
  have h1 := h0.trans (step_queryCacheForService _ ty ch hO hk)
  unfold execBrowse
  cases co
  · simp only [Bool.false_eq_true, if_false] at h1 ⊢
    exact h1.trans (step_addRerun _ _ (.browse ty (Sched.nextDelay d) ch) hOd (by omega) (nextDelay_le d hd) hkb)
  · simp only [Bool.false_eq_true, if_false, if_true] at h1 ⊢
    exact h1

theorem step_execBrowse_rep (s : State) (ty : BList) (d : Nat) (ch : Nat) (hd : 1 ≤ d)
    (hOd : OK (now + d * 1000)) (hkb : KeyOK (some (0, ty, ch))) :
    Step now cmds KeyOK OK s (execBrowse s now true ty d false ch).1 := by
  unfold execBrowse
  simp only [if_true, Bool.false_eq_true, if_false]
  exact step_addRerun _ _ (.browse ty (Sched.nextDelay d) ch) hOd (by omega) (nextDelay_le d hd) hkb

theorem step_execResolveHost_new (s : State) (host : BList) (d ch : Nat) (to : Option Nat) (hd : 1 ≤ d)
    (hc : Command.resolveHost host ch to ∈ cmds) (hOt : ∀ t, to = some t → OK (now + t)) (hOd : OK (now + d * 1000))
    (hkb : KeyOK (some (1, host, ch))) : Step now cmds KeyOK OK s (execResolveHost s now false host d ch to).1 := by
  have h0 : ∀ ts : List Nat, (∀ t ∈ ts, OK t) → (∀ dl, to.map (now + ·) = some dl → dl ∈ ts) →
      Step now cmds KeyOK OK s
      { s with reruns := s.reruns.filter (fun r => !isResolveOf (lower host) r),
               resolvers := (lower host, ch, to.map (now + ·)) :: s.resolvers.filter (fun q => q.1 != lower host),
               timers := ts ++ s.timers } := by
    intro ts hts hdl
    refine ⟨⟨ts, rfl, hts⟩, fun r h => Or.inl (List.mem_filter.mp h).1, ?_, fun q h => Or.inl h, rfl⟩
    intro q hq
    rcases List.mem_cons.mp hq with rfl | hq
    · refine Or.inr ⟨host, to, hc, rfl, ?_⟩
      intro dl hd
      exact List.mem_append_left _ (hdl dl hd)
    · exact Or.inl (List.mem_filter.mp hq).1
  unfold execResolveHost
  simp only [Bool.false_and, Bool.false_eq_true, if_false]
  cases to with
  | none =>
    have h1 := h0 [] (fun _ h => by cases h) (fun dl hd => by simp at hd)
    simp only [Option.map_none]
    split
    · exact h1.trans (step_addRerun _ _ (.resolveHost host (Sched.nextDelay d) ch) hOd (by omega) (nextDelay_le d hd) hkb)
    · exact h1
  | some t0 =>
    have h1 := h0 [now + t0] (fun t ht => by simp only [List.mem_singleton] at ht; exact ht ▸ hOt t0 rfl)
      (fun dl hd => by simp only [Option.map_some, Option.some.injEq] at hd; simp [hd])
    simp only [Option.map_some]
    split
    · exact h1.trans (step_addRerun _ _ (.resolveHost host (Sched.nextDelay d) ch) hOd (by omega) (nextDelay_le d hd) hkb)
    · exact h1

theorem step_execResolveHost_rep (s : State) (host : BList) (d ch : Nat) (hd : 1 ≤ d)
    (hOd : OK (now + d * 1000)) (hkb : KeyOK (some (1, host, ch))) :
    Step now cmds KeyOK OK s (execResolveHost s now true host d ch none).1 := by
  unfold execResolveHost
  simp only []
  split
  · exact Step.refl s
  · simp only [if_true]
    split
    · exact step_addRerun _ _ (.resolveHost host (Sched.nextDelay d) ch) hOd (by omega) (nextDelay_le d hd) hkb
    · exact Step.refl s

theorem step_execStopBrowse (s : State) (ty : BList) : Step now cmds KeyOK OK s (execStopBrowse s ty).1 := by
  unfold execStopBrowse
  split
  · exact Step.refl s
  · exact Step.of_sub rfl (fun _ h => (List.mem_filter.mp h).1) (fun _ h => h) (fun _ h => (List.mem_filter.mp h).1) rfl

theorem step_execStopResolve (s : State) (host : BList) : Step now cmds KeyOK OK s (execStopResolve s host).1 := by
  unfold execStopResolve
  simp only []
  split
  · exact Step.refl s
  · exact Step.of_sub rfl (fun _ h => (List.mem_filter.mp h).1) (fun _ h => (List.mem_filter.mp h).1) (fun _ h => h) rfl

theorem step_execResolveInst (s : State) (inst : BList) (k : Nat) (hO : OK (now + 500)) (hk : KeyOK none) :
    Step now cmds KeyOK OK s (execResolveInst s now inst k).1 := by
  unfold execResolveInst
  split
  · exact Step.refl s
  · simp only []
    split
    · exact step_addRerun _ _ _ hO (by simp [RESOLVE_WAIT]) trivial hk
    · exact Step.refl s

theorem step_execVerify_new (s : State) (inst : BList) (to : Nat) (hOt : OK (now + to)) (hO1 : OK (now + 1000))
    (hk : KeyOK none) : Step now cmds KeyOK OK s (execVerify s now false inst to).1 := by
  have h0 : Step now cmds KeyOK OK s { s with cache := (serviceVerifyQueries s.cache inst (some (now + to))).1 } :=
    Step.of_sub rfl (fun _ h => h) (fun _ h => h) (fun _ h => h) rfl
  unfold execVerify
  simp only [Bool.false_eq_true, if_false]
  split
  · exact h0
  · refine (h0.trans (step_addTimers _ [now + to] ?_)).trans (step_addRerun _ _ _ hO1 (by omega) trivial hk)
    intro t ht
    simp only [List.mem_singleton] at ht
    exact ht ▸ hOt

theorem step_execVerify_rep (s : State) (inst : BList) (to : Nat) :
    Step now cmds KeyOK OK s (execVerify s now true inst to).1 := by
  unfold execVerify
  simp only [if_true]
  split <;> exact Step.of_sub rfl (fun _ h => h) (fun _ h => h) (fun _ h => h) rfl

/-- the timers a command arms: the follow-up half a second ahead, the first retransmission / the
    verify resend one second ahead, the deadline the caller gave -/
def CommandTimer (now : Nat) (c : Command) (t : Nat) : Prop :=
  t = now + 500 ∨ t = now + 1000 ∨ (∃ h ch to, c = .resolveHost h ch (some to) ∧ t = now + to) ∨
    (∃ inst to, c = .verify inst to ∧ t = now + to)

theorem step_execCommand (s : State) (c : Command) (hc : c ∈ cmds) (hO : ∀ t, CommandTimer now c t → OK t)
    (hk : KeyOK none) (hkc : KeyOK (ckey c)) : Step now cmds KeyOK OK s (execCommand s now c).1 := by
  cases c with
  | browse ty ch co =>
    exact step_execBrowse_new s ty 1 co ch (Nat.le_refl 1) hc (hO _ (Or.inl rfl)) (hO _ (Or.inr (Or.inl (by omega)))) hk hkc
  | stopBrowse ty => exact step_execStopBrowse s ty
  | resolveHost h ch to =>
    refine step_execResolveHost_new s h 1 ch to (Nat.le_refl 1) hc ?_ (hO _ (Or.inr (Or.inl (by omega)))) hkc
    intro t ht
    exact hO _ (Or.inr (Or.inr (Or.inl ⟨h, ch, t, by rw [ht], rfl⟩)))
  | stopResolve h => exact step_execStopResolve s h
  | ipInterval ms => exact Step.of_sub rfl (fun _ h => h) (fun _ h => h) (fun _ h => h) rfl
  | verify inst to =>
    exact step_execVerify_new s inst to (hO _ (Or.inr (Or.inr (Or.inr ⟨inst, to, rfl, rfl⟩)))) (hO _ (Or.inr (Or.inl rfl))) hk
  | metrics ch => exact Step.refl s
  | acceptUnsolicited on => exact Step.of_sub rfl (fun _ h => h) (fun _ h => h) (fun _ h => h) rfl

theorem step_runCommands (hk : KeyOK none) : ∀ (l : List Command) (s : State), (∀ c ∈ l, c ∈ cmds) →
    (∀ c ∈ l, ∀ t, CommandTimer now c t → OK t) → (∀ c ∈ l, KeyOK (ckey c)) →
    Step now cmds KeyOK OK s (runCommands s now l).1
  | [], s, _, _, _ => Step.refl s
  | c :: rest, s, hc, hO, hkc => by
    simp only [runCommands]
    exact (step_execCommand s c (hc c List.mem_cons_self) (hO c List.mem_cons_self) hk (hkc c List.mem_cons_self)).trans
      (step_runCommands hk rest _ (fun c' h => hc c' (List.mem_cons_of_mem _ h))
        (fun c' h => hO c' (List.mem_cons_of_mem _ h)) (fun c' h => hkc c' (List.mem_cons_of_mem _ h)))

/-! ### re-runs -/

/-- the timers a re-run arms: the next follow-up half a second ahead, or the next
    retransmission `delay` seconds ahead -/
def RerunTimer (now : Nat) (c : RCmd) (t : Nat) : Prop :=
  t = now + 500 ∨ (∃ ty d ch, c = .browse ty d ch ∧ t = now + d * 1000) ∨
    (∃ h d ch, c = .resolveHost h d ch ∧ t = now + d * 1000)

theorem step_execRerun (s : State) (c : RCmd) (hd : DelayOk ⟨0, c⟩) (hO : ∀ t, RerunTimer now c t → OK t) (hk : KeyOK none)
    (hkc : KeyOK (rkey c)) : Step now cmds KeyOK OK s (execRerun s now c).1 := by
  cases c with
  | browse ty d ch => exact step_execBrowse_rep s ty d ch hd.1 (hO _ (Or.inr (Or.inl ⟨ty, d, ch, rfl, rfl⟩))) hkc
  | resolveHost h d ch => exact step_execResolveHost_rep s h d ch hd.1 (hO _ (Or.inr (Or.inr ⟨h, d, ch, rfl, rfl⟩))) hkc
  | resolve inst k => exact step_execResolveInst s inst k (hO _ (Or.inl rfl)) hk
  | verify inst to => exact step_execVerify_rep s inst to

/-- a step made on a state with an empty queue, seen on the state with the queue put back -/
theorem Step.with_queue {a b : State} (h : Step now cmds KeyOK OK a b) (ha : a.reruns = []) (l1 l2 : List Rerun) (r : Rerun) :
    Step now cmds KeyOK OK { a with reruns := l1 ++ r :: l2 } { b with reruns := l1 ++ (l2 ++ b.reruns) } := by
  refine ⟨h.timers, ?_, h.resolvers, h.queriers, h.ip⟩
  intro x hx
  simp only [List.mem_append, List.mem_cons] at hx ⊢
  rcases hx with hx | hx | hx
  · exact Or.inl (Or.inl hx)
  · exact Or.inl (Or.inr (Or.inr hx))
  · rcases h.reruns x hx with h1 | h1
    · rw [ha] at h1
      cases h1
    · exact Or.inr h1

/-- **the re-run loop**: from the state `s0`, with `keep ++ rest` still queued (state `st` holds
    the rest of the state, its own queue empty) -/
theorem step_runReruns (hk : KeyOK none)
    (hO : ∀ r : Rerun, DelayOk r → ∀ t, RerunTimer now r.cmd t → OK t) (s0 : State) :
    ∀ (fuel : Nat) (keep rest : List Rerun) (st : State), st.reruns = [] →
      Step now cmds KeyOK OK s0 { st with reruns := keep ++ rest } →
      (∀ r ∈ keep ++ rest, DelayOk r ∧ KeyOK (rkey r.cmd)) →
      Step now cmds KeyOK OK s0 (runReruns st now fuel keep rest).1
  | 0, keep, rest, st, hs, h, _ => by simpa [runReruns, hs] using h
  | _ + 1, keep, [], st, hs, h, _ => by simpa [runReruns, hs] using h
  | fuel + 1, keep, r :: rest, st, hs, h, hall => by
    unfold runReruns
    have hr := hall r (by simp)
    split
    · have hex : Step now cmds KeyOK OK { st with reruns := [] } (execRerun { st with reruns := [] } now r.cmd).1 :=
        step_execRerun _ r.cmd hr.1 (hO r hr.1) hk hr.2
      have hq := hex.with_queue rfl keep rest r
      have hst : ({ st with reruns := keep ++ r :: rest } : State) =
          { ({ st with reruns := [] } : State) with reruns := keep ++ r :: rest } := rfl
      rw [hst] at h
      have h2 := h.trans hq
      apply step_runReruns hk hO s0 fuel keep _ _ rfl
      · exact h2
      · intro x hx
        simp only [List.mem_append] at hx
        rcases hx with hx | hx | hx
        · exact hall x (by simp [hx])
        · exact hall x (by simp [hx])
        · rcases hex.reruns x hx with h1 | ⟨_, _, h3, h4⟩
          · cases h1
          · exact ⟨h3, h4⟩
    · apply step_runReruns hk hO s0 fuel (keep ++ [r]) rest st hs
      · simpa using h
      · intro x hx
        exact hall x (by simpa using hx)

theorem step_rerunPhase (s : State) (hk : KeyOK none)
    (hO : ∀ r : Rerun, DelayOk r → ∀ t, RerunTimer now r.cmd t → OK t)
    (hall : ∀ r ∈ s.reruns, DelayOk r ∧ KeyOK (rkey r.cmd)) : Step now cmds KeyOK OK s (rerunPhase s now).1 := by
  unfold rerunPhase
  apply step_runReruns hk hO s _ [] s.reruns _ rfl
  · simpa using Step.refl s
  · simpa using hall

/-! ### refresh, eviction -/

/-- some cached entry was created at `cr` with TTL `ttl` -/
def Born (c : Cache) (cr ttl : Nat) : Prop :=
  ∃ sl : Slot, ∃ p ∈ c.table sl, ∃ e ∈ p.2, e.record.created = cr ∧ e.record.ttl = ttl

theorem refreshNext_le (r : Record) : r.refreshNext ≤ expTime r.created r.ttl 100 := by
  unfold Record.refreshNext expTime
  repeat' split
  all_goals omega

theorem refreshEntries_timers (now : Nat) (es : List Entry) (t : Nat) (h : t ∈ (refreshEntries now es).2) :
    ∃ e ∈ es, t ≤ expTime e.record.created e.record.ttl 100 := by
  simp only [refreshEntries, List.mem_filterMap] at h
  obtain ⟨e, he, hx⟩ := h
  split at hx
  · rename_i hf
    simp only [Option.some.injEq] at hx
    refine ⟨e, he, ?_⟩
    rw [← hx]
    simp only [Record.refreshed, hf, if_true]
    exact refreshNext_le e.record
  · cases hx

/-- a refresh timer lies within the lifetime of an entry of the cache -/
def RefreshTimer (c0 : Cache) (t : Nat) : Prop := ∃ cr ttl, Born c0 cr ttl ∧ t ≤ expTime cr ttl 100

theorem refreshType_timers (c0 : Cache) (now : Nat) (c : Cache) (ty : BList)
    (h : CacheAll (fun e => Born c0 e.record.created e.record.ttl) c) :
    ∀ t ∈ (refreshType c now ty).2.2, RefreshTimer c0 t := by
  have hq : ∀ e : Entry, Born c0 e.record.created e.record.ttl →
      Born c0 ({ e with record := e.record.refreshed now } : Entry).record.created
        ({ e with record := e.record.refreshed now } : Entry).record.ttl := by
    intro e he
    unfold Record.refreshed
    split <;> exact he
  have h1 := cacheAll_refreshDuePtr h ty now hq
  intro t ht
  unfold refreshType at ht
  simp only [List.mem_append] at ht
  rcases ht with (ht | ht) | ht
  · unfold refreshDuePtr at ht
    split at ht
    · cases ht
    · rename_i es hes
      obtain ⟨e, he, hle⟩ := refreshEntries_timers now es t ht
      have hb := h .ptr (ty, es) (mem_of_get _ _ _ hes) e he
      exact ⟨_, _, hb, hle⟩
  · -- SRV / TXT
    have : ∀ (l : List BList) (sd : SrvTxtDue), CacheAll (fun e => Born c0 e.record.created e.record.ttl) sd.cache →
        (∀ t ∈ sd.timers, RefreshTimer c0 t) → ∀ t ∈ (refreshSrvTxtGo now l sd).timers, RefreshTimer c0 t := by
      intro l
      induction l with
      | nil => intro sd _ h2; exact h2
      | cons inst rest ih =>
        intro sd hc h2
        unfold refreshSrvTxtGo
        apply ih
        · rw [cacheAll_iff] at hc ⊢
          exact ⟨hc.1, hc.2.1.modify _ _ (refreshEntries_all now hq), hc.2.2.1.modify _ _ (refreshEntries_all now hq),
            hc.2.2.2⟩
        · intro t ht
          simp only [List.mem_append] at ht
          rcases ht with (ht | ht) | ht
          · exact h2 t ht
          · obtain ⟨e, he, hle⟩ := refreshEntries_timers now _ t ht
            exact ⟨_, _, tableAll_getD ((cacheAll_iff _ _).mp hc).2.1 inst e he, hle⟩
          · obtain ⟨e, he, hle⟩ := refreshEntries_timers now _ t ht
            have hc' : TableAll (fun e => Born c0 e.record.created e.record.ttl) sd.cache.txt := ((cacheAll_iff _ _).mp hc).2.2.1
            exact ⟨_, _, tableAll_getD hc' inst e he, hle⟩
    exact this _ _ h1 (fun _ h => by cases h) t ht
  · -- addresses of the hosts
    have h2 := cacheAll_refreshSrvTxtGo now hq (liveInstances (refreshDuePtr c ty now).1 ty now)
      { cache := (refreshDuePtr c ty now).1, due := [], timers := [] } h1
    have : ∀ (l : List BList) (hd : HostsDue), CacheAll (fun e => Born c0 e.record.created e.record.ttl) hd.cache →
        (∀ t ∈ hd.timers, RefreshTimer c0 t) → ∀ t ∈ (refreshHostsGo now l hd).timers, RefreshTimer c0 t := by
      intro l
      induction l with
      | nil => intro hd _ h3; exact h3
      | cons hst rest ih =>
        intro hd hc h3
        unfold refreshHostsGo
        apply ih
        · rw [cacheAll_iff] at hc ⊢
          exact ⟨hc.1, hc.2.1, hc.2.2.1, hc.2.2.2.1.modify _ _ (refreshEntries_all now hq), hc.2.2.2.2⟩
        · intro t ht
          simp only [List.mem_append] at ht
          rcases ht with ht | ht
          · exact h3 t ht
          · obtain ⟨e, he, hle⟩ := refreshEntries_timers now _ t ht
            exact ⟨_, _, tableAll_getD ((cacheAll_iff _ _).mp hc).2.2.2.1 (lower hst) e he, hle⟩
    exact this _ _ h2 (fun _ h => by cases h) t ht

theorem refreshTypes_timers (c0 : Cache) (now : Nat) : ∀ (l : List BList) (c : Cache),
    CacheAll (fun e => Born c0 e.record.created e.record.ttl) c → ∀ t ∈ (refreshTypes c now l).2.2, RefreshTimer c0 t
  | [], _, _ => fun _ h => by cases h
  | ty :: rest, c, h => by
    have hq : ∀ e : Entry, Born c0 e.record.created e.record.ttl →
        Born c0 ({ e with record := e.record.refreshed now } : Entry).record.created
          ({ e with record := e.record.refreshed now } : Entry).record.ttl := by
      intro e he
      unfold Record.refreshed
      split <;> exact he
    intro t ht
    simp only [refreshTypes, List.mem_append] at ht
    rcases ht with ht | ht
    · exact refreshType_timers c0 now c ty h t ht
    · exact refreshTypes_timers c0 now rest _ (cacheAll_refreshType h now ty hq) t ht

theorem cacheAll_born_self (c : Cache) : CacheAll (fun e => Born c e.record.created e.record.ttl) c :=
  fun sl p hp e he => ⟨sl, p, hp, e, he, rfl, rfl⟩

theorem step_refreshActive (s : State) (hO : ∀ t, RefreshTimer s.cache t → OK t) :
    Step now cmds KeyOK OK s (refreshActive s now).1 := by
  unfold refreshActive
  simp only []
  refine Step.trans (b := { s with cache := (refreshTypes s.cache now (activeTypes s)).1 })
    (Step.of_sub rfl (fun _ h => h) (fun _ h => h) (fun _ h => h) rfl) (step_addTimers _ _ ?_)
  intro t ht
  exact hO t (refreshTypes_timers s.cache now _ _ (cacheAll_born_self s.cache) t (List.mem_eraseDups.mp ht))

theorem step_refreshResolvers (s : State) : Step now cmds KeyOK OK s (refreshResolvers s now).1 :=
  Step.of_sub rfl (fun _ h => h) (fun _ h => h) (fun _ h => h) rfl

theorem step_evictServicesPhase (s : State) : Step now cmds KeyOK OK s (evictServicesPhase s now).1 :=
  Step.of_sub rfl (fun _ h => h) (fun _ h => h) (fun _ h => h) rfl

theorem step_evictAddrHosts (items : List (BList × BList × BList × Nat)) (hO : OK (now + 500)) (hk : KeyOK none) :
    ∀ (hosts : List BList) (s : State), Step now cmds KeyOK OK s (evictAddrHosts s now items hosts).1
  | [], s => Step.refl s
  | h :: rest, s => by
    simp only [evictAddrHosts]
    exact (step_resolveUpdated s _ hO hk).trans (step_evictAddrHosts items hO hk rest _)

theorem step_evictAddrPhase (s : State) (hO : OK (now + 500)) (hk : KeyOK none) :
    Step now cmds KeyOK OK s (evictAddrPhase s now).1 := by
  unfold evictAddrPhase
  exact Step.trans (b := { s with cache := (evictAddr s.cache now).1 })
    (Step.of_sub rfl (fun _ h => h) (fun _ h => h) (fun _ h => h) rfl) (step_evictAddrHosts _ hO hk _ _)

end Mdns.Client
