import Mdns.Lemmas.ClientSchedule
/-
  C19 on the client model, hostname searches: the retransmission schedule of ONE
  `resolve_hostname` search through an iteration - the query goes out when due, the next one is
  queued `delay` seconds later with the doubled delay, unless the deadline cuts the schedule (the
  next query would not come before it) or the search has timed out.
-/
namespace Mdns.Client
open Mdns Mdns.Rec Mdns.Cache

/-! ### lists -/

theorem filter_filter_of_imp {α} (p q : α → Bool) (l : List α) (h : ∀ a, q a = true → p a = true) :
    (l.filter p).filter q = l.filter q := by
  rw [List.filter_filter]
  apply List.filter_congr
  intro a _
  cases hq : q a with
  | false => simp
  | true => simp [h a hq]

theorem find_eq_head_filter {α} (p : α → Bool) (l : List α) : l.find? p = (l.filter p).head? :=
  List.head?_filter.symm

theorem any_eq_filter_ne_nil {α} (p : α → Bool) : ∀ (l : List α), l.any p = !(l.filter p).isEmpty
  | [] => rfl
  | a :: l => by
    have ih := any_eq_filter_ne_nil p l
    cases h : p a <;> simp [h, ih]

/-! ### commands for other names leave the search of `key` alone -/

/-- a command that neither searches nor stops the host name `key` leaves the queued retransmission
    of `key` alone -/
theorem hkey_filter_execCommand (key : BList) (s : State) (now : Nat) (c : Command) (hc : touchesHost key c = false) :
    (execCommand s now c).1.reruns.filter (fun r => skey r.cmd == some (true, key)) =
      s.reruns.filter (fun r => skey r.cmd == some (true, key)) := by
  cases c with
  | browse ty' ch co =>
    let x0 : List BList → State := fun cs =>
      { s with reruns := s.reruns.filter (fun r => !isBrowseOf ty' r),
               queriers := (ty', ch) :: s.queriers.filter (fun q => q.1 != ty'), cacheOnly := cs }
    have h0 : ∀ cs, (x0 cs).reruns.filter (fun r => skey r.cmd == some (true, key)) =
        s.reruns.filter (fun r => skey r.cmd == some (true, key)) := by
      intro cs
      apply filter_filter_of_imp
      intro r hr
      rw [isBrowseOf_iff]
      have : skey r.cmd = some (true, key) := by simpa using hr
      simp [this]
    have h1 := fun cs => key_filter_af (af_queryCacheForService (x0 cs) now ty' ch) (true, key)
    show (execBrowse s now false ty' 1 co ch).1.reruns.filter _ = _
    unfold execBrowse
    cases co
    case true =>
      simp only [Bool.false_eq_true, if_false, if_true]
      exact (h1 _).trans (h0 _)
    case false =>
      simp only [Bool.false_eq_true, if_false, addRerun, List.filter_append]
      have : [({ next := now + 1 * 1000, cmd := RCmd.browse ty' (Sched.nextDelay 1) ch } : Rerun)].filter
          (fun r => skey r.cmd == some (true, key)) = [] := by
        simp [skey]
      rw [this, List.append_nil]
      exact (h1 _).trans (h0 _)
  | stopBrowse ty' =>
    simp only [execCommand, execStopBrowse]
    split
    · rfl
    · apply filter_filter_of_imp
      intro r hr
      rw [isBrowseOf_iff]
      have : skey r.cmd = some (true, key) := by simpa using hr
      simp [this]
  | resolveHost h0 ch t =>
    have hne : ¬ lower h0 = key := by simpa [touchesHost] using hc
    have hfil : (s.reruns.filter (fun r => !isResolveOf (lower h0) r)).filter (fun r => skey r.cmd == some (true, key)) =
        s.reruns.filter (fun r => skey r.cmd == some (true, key)) := by
      apply filter_filter_of_imp
      intro r hr
      rw [isResolveOf_iff]
      have : skey r.cmd = some (true, key) := by simpa using hr
      have hne' : ¬ key = lower h0 := fun e => hne e.symm
      simp [this, hne']
    simp only [execCommand, execResolveHost, Bool.false_and, Bool.false_eq_true, if_false]
    cases t with
    | none =>
      simp only [Option.map_none]
      split
      · simp only [addRerun, List.filter_append]
        rw [hfil]
        simp [skey, hne]
      · exact hfil
    | some t0 =>
      simp only [Option.map_some]
      split
      · simp only [addRerun, List.filter_append]
        rw [hfil]
        simp [skey, hne]
      · exact hfil
  | stopResolve h0 =>
    have hne : ¬ lower h0 = key := by simpa [touchesHost] using hc
    simp only [execCommand, execStopResolve]
    split
    · rfl
    · apply filter_filter_of_imp
      intro r hr
      rw [isResolveOf_iff]
      have : skey r.cmd = some (true, key) := by simpa using hr
      have hne' : ¬ key = lower h0 := fun e => hne e.symm
      simp [this, hne']
  | ipInterval ms => rfl
  | verify inst t =>
    simp only [execCommand, execVerify, Bool.false_eq_true, if_false]
    split
    · rfl
    · simp [addRerun, addTimers, List.filter_append, skey]
  | metrics ch => rfl
  | acceptUnsolicited on => rfl

theorem hkey_filter_runCommands (key : BList) (now : Nat) : ∀ (l : List Command) (s : State),
    l.all (fun c => !touchesHost key c) = true →
    (runCommands s now l).1.reruns.filter (fun r => skey r.cmd == some (true, key)) =
      s.reruns.filter (fun r => skey r.cmd == some (true, key))
  | [], _, _ => rfl
  | c :: rest, s, hc => by
    simp only [List.all_cons, Bool.and_eq_true, Bool.not_eq_true'] at hc
    simp only [runCommands]
    rw [hkey_filter_runCommands key now rest _ hc.2, hkey_filter_execCommand key s now c hc.1]

/-- ... and the resolver entries of `key` -/
theorem hres_filter_execCommand (key : BList) (s : State) (now : Nat) (c : Command) (hc : touchesHost key c = false) :
    (execCommand s now c).1.resolvers.filter (fun q => q.1 == key) = s.resolvers.filter (fun q => q.1 == key) := by
  cases c with
  | resolveHost h0 ch' t =>
    have hne : (lower h0 == key) = false := by simpa [touchesHost] using hc
    have h2 : ¬ lower h0 = key := by simpa using hne
    show (execResolveHost s now false h0 1 ch' t).1.resolvers.filter _ = _
    rw [execResolveHost_new_resolvers]
    simp only [List.filter_cons, hne, Bool.false_eq_true, if_false]
    apply filter_filter_of_imp
    intro q hq
    have : q.1 = key := by simpa using hq
    simp only [bne_iff_ne, ne_eq, this]
    exact fun e => h2 e.symm
  | stopResolve h0 =>
    have hne : (lower h0 == key) = false := by simpa [touchesHost] using hc
    have h2 : ¬ lower h0 = key := by simpa using hne
    simp only [execCommand, execStopResolve]
    split
    · rfl
    · simp only []
      apply filter_filter_of_imp
      intro q hq
      have : q.1 = key := by simpa using hq
      simp only [bne_iff_ne, ne_eq, this]
      exact fun e => h2 e.symm
  | browse ty ch' co =>
    rw [execCommand_resolvers_other s now _ (fun _ _ _ e => by cases e) (fun _ e => by cases e)]
  | stopBrowse ty =>
    rw [execCommand_resolvers_other s now _ (fun _ _ _ e => by cases e) (fun _ e => by cases e)]
  | ipInterval ms => rfl
  | verify inst t =>
    rw [execCommand_resolvers_other s now _ (fun _ _ _ e => by cases e) (fun _ e => by cases e)]
  | metrics ch' => rfl
  | acceptUnsolicited on => rfl

theorem hres_filter_runCommands (key : BList) (now : Nat) : ∀ (l : List Command) (s : State),
    l.all (fun c => !touchesHost key c) = true →
    (runCommands s now l).1.resolvers.filter (fun q => q.1 == key) = s.resolvers.filter (fun q => q.1 == key)
  | [], _, _ => rfl
  | c :: rest, s, hc => by
    simp only [List.all_cons, Bool.and_eq_true, Bool.not_eq_true'] at hc
    simp only [runCommands]
    rw [hres_filter_runCommands key now rest _ hc.2, hres_filter_execCommand key s now c hc.1]

/-! ### the re-run loop and one host name -/

/-- nothing of the search `K` queued - nothing of it queued afterwards -/
theorem runReruns_none_of_key (now : Nat) (K : Bool × BList) : ∀ (fuel : Nat) (keep rest : List Rerun) (s : State),
    s.reruns = [] → (keep ++ rest).filter (fun r => skey r.cmd == some K) = [] →
    (runReruns s now fuel keep rest).1.reruns.filter (fun r => skey r.cmd == some K) = []
  | 0, keep, rest, s, hs, h => by simpa [runReruns, hs] using h
  | _ + 1, keep, [], s, hs, h => by simpa [runReruns, hs] using h
  | fuel + 1, keep, r :: rest, s, hs, h => by
    rw [runReruns]
    split
    · apply runReruns_none_of_key now K fuel keep _ _ rfl
      have hr : (skey r.cmd == some K) = false := by
        have : r ∈ keep ++ r :: rest := by simp
        have := (List.filter_eq_nil_iff.mp h) r this
        simpa using this
      have hkr : (keep ++ rest).filter (fun r => skey r.cmd == some K) = [] := by
        rw [List.filter_eq_nil_iff] at h ⊢
        intro x hx
        apply h x
        simp only [List.mem_append, List.mem_cons] at hx ⊢
        rcases hx with hx | hx
        · exact Or.inl hx
        · exact Or.inr (Or.inr hx)
      rw [← List.append_assoc, List.filter_append, hkr, List.nil_append]
      rcases execRerun_queue { s with reruns := [] } rfl now r.cmd with hnil | ⟨r', hr', hk⟩
      · rw [hnil]; rfl
      · rw [hr']
        simp only [List.filter_cons, hk, hr, Bool.false_eq_true, if_false, List.filter_nil]
    · apply runReruns_none_of_key now K fuel (keep ++ [r]) rest s hs
      simpa [List.append_assoc] using h

theorem withinDeadline_congr {a b : State} (h : a.resolvers = b.resolvers) (key : BList) (next : Nat) :
    withinDeadline a key next = withinDeadline b key next := by
  unfold withinDeadline
  rw [h]

/-- what running the due retransmission `ResolveHostname(host, d)` of a search leaves: nothing
    when the search is gone; the query, and the end of the schedule, when the next instant would
    not come before the deadline; the query and the next retransmission otherwise -/
def HostOutcome (st : State) (now : Nat) (host : BList) (d ch : Nat) (res : State × List Out) : Prop :=
  (st.resolvers.any (·.1 == lower host) = false →
    res.1.reruns.filter (fun r => skey r.cmd == some (true, lower host)) = []) ∧
  (st.resolvers.any (·.1 == lower host) = true → withinDeadline st (lower host) (now + d * 1000) = false →
    res.1.reruns.filter (fun r => skey r.cmd == some (true, lower host)) = [] ∧
    ∃ known, Out.query [(host, 1), (host, 28)] known ∈ res.2) ∧
  (st.resolvers.any (·.1 == lower host) = true → withinDeadline st (lower host) (now + d * 1000) = true →
    (⟨now + d * 1000, .resolveHost host (Sched.nextDelay d) ch⟩ : Rerun) ∈ res.1.reruns ∧
    ∃ known, Out.query [(host, 1), (host, 28)] known ∈ res.2)

theorem HostOutcome.congr {st st' : State} {now : Nat} {host : BList} {d ch : Nat} {res : State × List Out}
    (h : HostOutcome st' now host d ch res) (hr : st'.resolvers = st.resolvers) : HostOutcome st now host d ch res := by
  unfold HostOutcome at *
  rw [hr, withinDeadline_congr hr] at h
  exact h

theorem HostOutcome.more_outs {st : State} {now : Nat} {host : BList} {d ch : Nat} {res : State × List Out}
    (h : HostOutcome st now host d ch res) (o : List Out) : HostOutcome st now host d ch (res.1, o ++ res.2) := by
  refine ⟨h.1, ?_, ?_⟩
  · intro h1 h2
    obtain ⟨ha, known, hk⟩ := h.2.1 h1 h2
    exact ⟨ha, known, List.mem_append_right _ hk⟩
  · intro h1 h2
    obtain ⟨ha, known, hk⟩ := h.2.2 h1 h2
    exact ⟨ha, known, List.mem_append_right _ hk⟩

theorem runReruns_host_due (now : Nat) (host : BList) (d ch n : Nat) (hdue : n ≤ now) (hd : 1 ≤ d) :
    ∀ (pre : List Rerun) (fuel : Nat) (keep post : List Rerun) (st : State), pre.length < fuel → st.reruns = [] →
      (keep ++ pre ++ post).filter (fun r => skey r.cmd == some (true, lower host)) = [] →
      HostOutcome st now host d ch (runReruns st now fuel keep (pre ++ ⟨n, .resolveHost host d ch⟩ :: post))
  | [], fuel + 1, keep, post, st, _, hst, hnone => by
    simp only [List.nil_append]
    rw [runReruns]
    have hdue' : now ≥ (⟨n, .resolveHost host d ch⟩ : Rerun).next := hdue
    simp only [hdue', if_true]
    have hkp : (keep ++ post).filter (fun r => skey r.cmd == some (true, lower host)) = [] := by
      simpa using hnone
    refine ⟨?_, ?_, ?_⟩
    · intro hclosed
      have he : execRerun { st with reruns := [] } now (.resolveHost host d ch) = ({ st with reruns := [] }, []) := by
        simp [execRerun, execResolveHost, hclosed]
      simp only [he]
      apply runReruns_none_of_key now (true, lower host) fuel keep _ _ rfl
      simpa using hkp
    · intro hopen hwd
      have hwd' : withinDeadline { st with reruns := [] } (lower host) (now + d * 1000) = false := hwd
      have he1 : (execRerun { st with reruns := [] } now (.resolveHost host d ch)).1.reruns = [] := by
        simp [execRerun, execResolveHost, hopen, hwd']
      have he2 : sendQuery st.cache now [(host, 1), (host, 28)] ∈
          (execRerun { st with reruns := [] } now (.resolveHost host d ch)).2 := by
        simp [execRerun, execResolveHost, hopen]
      refine ⟨?_, _, List.mem_append_left _ he2⟩
      simp only [he1]
      apply runReruns_none_of_key now (true, lower host) fuel keep _ _ rfl
      simpa using hkp
    · intro hopen hwd
      have hwd' : withinDeadline { st with reruns := [] } (lower host) (now + d * 1000) = true := hwd
      have he1 : (execRerun { st with reruns := [] } now (.resolveHost host d ch)).1.reruns =
          [⟨now + d * 1000, .resolveHost host (Sched.nextDelay d) ch⟩] := by
        simp [execRerun, execResolveHost, hopen, hwd', addRerun]
      have he2 : sendQuery st.cache now [(host, 1), (host, 28)] ∈
          (execRerun { st with reruns := [] } now (.resolveHost host d ch)).2 := by
        simp [execRerun, execResolveHost, hopen]
      refine ⟨?_, _, List.mem_append_left _ he2⟩
      simp only [he1]
      apply runReruns_keeps
      · simp
      · simp only
        omega
  | p :: pre', fuel + 1, keep, post, st, hf, hst, hnone => by
    have hf' : pre'.length < fuel := by simpa using hf
    have hp : (skey p.cmd == some (true, lower host)) = false := by
      have : p ∈ keep ++ (p :: pre') ++ post := by simp
      have := (List.filter_eq_nil_iff.mp hnone) p this
      simpa using this
    simp only [List.cons_append]
    rw [runReruns]
    split
    · have hres : ({ (execRerun { st with reruns := [] } now p.cmd).1 with reruns := [] } : State).resolvers = st.resolvers :=
        execRerun_resolvers _ now p.cmd
      have hnone' : (keep ++ pre' ++ (post ++ (execRerun { st with reruns := [] } now p.cmd).1.reruns)).filter
          (fun r => skey r.cmd == some (true, lower host)) = [] := by
        have h1 : (keep ++ pre' ++ post).filter (fun r => skey r.cmd == some (true, lower host)) = [] := by
          rw [List.filter_eq_nil_iff] at hnone ⊢
          intro x hx
          apply hnone x
          simp only [List.mem_append, List.mem_cons] at hx ⊢
          rcases hx with (hx | hx) | hx
          · exact Or.inl (Or.inl hx)
          · exact Or.inl (Or.inr (Or.inr hx))
          · exact Or.inr hx
        rw [← List.append_assoc, List.filter_append, h1, List.nil_append]
        rcases execRerun_queue { st with reruns := [] } rfl now p.cmd with hnil | ⟨r', hr', hk⟩
        · rw [hnil]; rfl
        · rw [hr']
          simp only [List.filter_cons, hk, hp, Bool.false_eq_true, if_false, List.filter_nil]
      have ih := runReruns_host_due now host d ch n hdue hd pre' fuel keep
        (post ++ (execRerun { st with reruns := [] } now p.cmd).1.reruns)
        { (execRerun { st with reruns := [] } now p.cmd).1 with reruns := [] } hf' rfl hnone'
      simp only [List.append_assoc, List.cons_append] at ih ⊢
      exact (ih.congr hres).more_outs _
    · apply runReruns_host_due now host d ch n hdue hd pre' fuel (keep ++ [p]) post st hf' hst
      simpa [List.append_assoc] using hnone

/-- the re-run phase on a state `m` whose queue holds the retransmission of the search, and no
    other one of it -/
theorem rerunPhase_host (host : BList) (d ch n : Nat) (m : State) (now : Nat) (hd : 1 ≤ d) (hone : OneEachC m.reruns)
    (hmem : (⟨n, .resolveHost host d ch⟩ : Rerun) ∈ m.reruns) :
    (now < n → (⟨n, .resolveHost host d ch⟩ : Rerun) ∈ (rerunPhase m now).1.reruns) ∧
    (n ≤ now → HostOutcome m now host d ch (rerunPhase m now)) := by
  unfold rerunPhase
  refine ⟨?_, ?_⟩
  · intro hlt
    exact runReruns_keeps now _ [] m.reruns _ _ (by simpa using hmem) hlt
  · intro hdue
    obtain ⟨pre, post, hpp⟩ := List.append_of_mem hmem
    have hlen : pre.length < m.reruns.length * 2 + 2 := by
      rw [hpp]
      simp only [List.length_append, List.length_cons]
      omega
    have hnone : (([] : List Rerun) ++ pre ++ post).filter (fun r => skey r.cmd == some (true, lower host)) = [] := by
      have h1 : OneEachC (pre ++ ⟨n, .resolveHost host d ch⟩ :: post) := hpp ▸ hone
      simpa using h1.remove_mid.2 (true, lower host) rfl
    have hrun := runReruns_host_due now host d ch n hdue hd pre (m.reruns.length * 2 + 2) [] post
      { m with reruns := [] } hlen rfl hnone
    rw [← hpp] at hrun
    exact hrun.congr rfl

/-! ### the rest of the iteration only appends follow-ups -/

theorem af_tail (x : State) (now : Nat) (post : List Command) :
    AppendsFollowups (rerunPhase (runCommands x now post).1 now).1 (runIpCheck (tailState x now post) now) := by
  obtain ⟨extra, he, hk⟩ := af_evictAddrHosts now
    (evictAddr (evictServicesPhase (refreshResolvers (refreshActive (rerunPhase (runCommands
      x now post).1 now).1 now).1 now).1 now).1.cache now).2
    (((evictAddr (evictServicesPhase (refreshResolvers (refreshActive (rerunPhase (runCommands
      x now post).1 now).1 now).1 now).1 now).1.cache now).2.map (·.1)).eraseDups)
    { (evictServicesPhase (refreshResolvers (refreshActive (rerunPhase (runCommands
      x now post).1 now).1 now).1 now).1 now).1 with
      cache := (evictAddr (evictServicesPhase (refreshResolvers (refreshActive (rerunPhase (runCommands
        x now post).1 now).1 now).1 now).1 now).1.cache now).1 }
  refine ⟨extra, ?_, hk⟩
  rw [(runIpCheck_searches _ now).2.2]
  unfold tailState evictAddrPhase
  rw [he]
  rfl

/-! ### the schedule of one hostname search -/

/-- The retransmission schedule of the search for `host` (filed under `lower host`) on `ch` with
    deadline `dl`: the query number `k` (the one of the call is number 0) went out at `t`; the
    next one is queued for `t + delay k` seconds - an instant before the deadline - and carries
    the delay `delay (k + 1)`; the search is open, with exactly one entry for the name. -/
structure HostSched (host : BList) (ch : Nat) (dl : Option Nat) (t k : Nat) (s : State) : Prop where
  queue : s.reruns.filter (fun r : Rerun => skey r.cmd == some (true, lower host)) =
    [⟨t + Delay.delay k * 1000, .resolveHost host (Delay.delay (k + 1)) ch⟩]
  search : s.resolvers.filter (fun q => q.1 == lower host) = [(lower host, ch, dl)]
  before : ∀ d, dl = some d → t + Delay.delay k * 1000 < d

/-- the schedule of the search for `host` is over: no retransmission of it is queued -/
def HostEnded (host : BList) (s : State) : Prop :=
  s.reruns.filter (fun r : Rerun => skey r.cmd == some (true, lower host)) = []

theorem withinDeadline_of_filter {s : State} {key : BList} {ch : Nat} {dl : Option Nat}
    (h : s.resolvers.filter (fun q => q.1 == key) = [(key, ch, dl)]) (next : Nat) :
    s.resolvers.any (·.1 == key) = true ∧
    withinDeadline s key next = (dl.map fun t => decide (next < t)).getD true := by
  constructor
  · rw [any_eq_filter_ne_nil, h]; rfl
  · unfold withinDeadline
    rw [find_eq_head_filter, h]
    cases dl <;> rfl

/-- the tail of an iteration (the commands `post`, then the re-run phase and the rest) from a
    state `x` in which the retransmission `ResolveHostname(host, d)` of the search is queued for `n` -/
theorem host_tail (host : BList) (ch n d : Nat) (x : State) (now : Nat) (post : List Command) (hd : 1 ≤ d)
    (hone : OneEachC x.reruns)
    (hq : x.reruns.filter (fun r => skey r.cmd == some (true, lower host)) = [⟨n, .resolveHost host d ch⟩])
    (hc : post.all (fun c => !touchesHost (lower host) c) = true) :
    (runIpCheck (tailState x now post) now).resolvers.filter (fun q => q.1 == lower host) =
      x.resolvers.filter (fun q => q.1 == lower host) ∧
    (now < n → (runIpCheck (tailState x now post) now).reruns.filter (fun r => skey r.cmd == some (true, lower host)) =
      [⟨n, .resolveHost host d ch⟩]) ∧
    (n ≤ now →
      (x.resolvers.filter (fun q => q.1 == lower host) = [] → HostEnded host (runIpCheck (tailState x now post) now)) ∧
      (∀ dl, x.resolvers.filter (fun q => q.1 == lower host) = [(lower host, ch, dl)] →
        ((∀ t, dl = some t → now + d * 1000 < t) →
          (runIpCheck (tailState x now post) now).reruns.filter (fun r => skey r.cmd == some (true, lower host)) =
            [⟨now + d * 1000, .resolveHost host (Sched.nextDelay d) ch⟩] ∧
          ∃ known, Out.query [(host, 1), (host, 28)] known ∈ tailOuts x now post) ∧
        ((∃ t, dl = some t ∧ t ≤ now + d * 1000) →
          HostEnded host (runIpCheck (tailState x now post) now) ∧
          ∃ known, Out.query [(host, 1), (host, 28)] known ∈ tailOuts x now post))) := by
  -- the queue and the resolvers when the re-run phase starts
  have hmid : (runCommands x now post).1.reruns.filter (fun r => skey r.cmd == some (true, lower host)) =
      [⟨n, .resolveHost host d ch⟩] := by
    rw [hkey_filter_runCommands (lower host) now post x hc]; exact hq
  have hmem : (⟨n, .resolveHost host d ch⟩ : Rerun) ∈ (runCommands x now post).1.reruns := by
    have : (⟨n, .resolveHost host d ch⟩ : Rerun) ∈
        (runCommands x now post).1.reruns.filter (fun r => skey r.cmd == some (true, lower host)) := by
      rw [hmid]; exact List.mem_cons_self
    exact (List.mem_filter.mp this).1
  have hres : (runCommands x now post).1.resolvers.filter (fun q => q.1 == lower host) =
      x.resolvers.filter (fun q => q.1 == lower host) := hres_filter_runCommands (lower host) now post x hc
  have honeM : OneEachC (runCommands x now post).1.reruns := oneEach_runCommands now post x hone
  have honeR : OneEachC (rerunPhase (runCommands x now post).1 now).1.reruns :=
    oneEach_runReruns now _ [] _ _ rfl (by simpa using honeM)
  have hph := rerunPhase_host host d ch n (runCommands x now post).1 now hd honeM hmem
  have hfin := key_filter_af (af_tail x now post) (true, lower host)
  have houts : ∀ o, o ∈ (rerunPhase (runCommands x now post).1 now).2 → o ∈ tailOuts x now post := by
    intro o ho
    unfold tailOuts
    simp only [List.mem_append]
    left; left; left; left; right
    exact ho
  refine ⟨?_, ?_, ?_⟩
  · rw [tail_resolvers]; exact hres
  · intro hlt
    rw [hfin]
    exact filter_eq_singleton (fun r : Rerun => skey r.cmd == some (true, lower host)) _ _ (hph.1 hlt) (by simp [skey])
      (honeR (true, lower host))
  · intro hdue
    have hout := hph.2 hdue
    refine ⟨?_, ?_⟩
    · intro hgone
      unfold HostEnded
      rw [hfin]
      apply hout.1
      rw [any_eq_filter_ne_nil, hres, hgone]
      rfl
    · intro dl hopen
      obtain ⟨hany, hwd⟩ := withinDeadline_of_filter (hres.trans hopen) (now + d * 1000)
      refine ⟨?_, ?_⟩
      · intro hbefore
        have hwd' : withinDeadline (runCommands x now post).1 (lower host) (now + d * 1000) = true := by
          rw [hwd]
          cases dl with
          | none => rfl
          | some t => simpa using hbefore t rfl
        obtain ⟨hm, known, hk⟩ := hout.2.2 hany hwd'
        refine ⟨?_, known, houts _ hk⟩
        rw [hfin]
        exact filter_eq_singleton (fun r : Rerun => skey r.cmd == some (true, lower host)) _ _ hm (by simp [skey])
          (honeR (true, lower host))
      · intro ⟨t, hdl, hle⟩
        have hwd' : withinDeadline (runCommands x now post).1 (lower host) (now + d * 1000) = false := by
          rw [hwd, hdl]
          simp only [Option.map_some, Option.getD_some, decide_eq_false_iff_not]
          omega
        obtain ⟨hm, known, hk⟩ := hout.2.1 hany hwd'
        refine ⟨?_, known, houts _ hk⟩
        unfold HostEnded
        rw [hfin]
        exact hm

/-- the resolver entries of `key` before the commands of an iteration: the time-out phase removes
    an entry whose deadline has been reached -/
theorem preCommands_search {s : State} {key : BList} {ch : Nat} {dl : Option Nat} (now : Nat) (pkts : List Packet)
    (h : s.resolvers.filter (fun q => q.1 == key) = [(key, ch, dl)]) :
    ((∀ t, dl = some t → now < t) → (preCommands s now pkts).resolvers.filter (fun q => q.1 == key) = [(key, ch, dl)]) ∧
    ((∃ t, dl = some t ∧ t ≤ now) → (preCommands s now pkts).resolvers.filter (fun q => q.1 == key) = []) := by
  simp only [preCommands, runTimeouts, popTimers, ingress_resolvers]
  rw [Sched.filter_filter_comm, h]
  constructor
  · intro hlt
    cases dl with
    | none => rfl
    | some t =>
      have := hlt t rfl
      simp only [List.filter_cons, List.filter_nil]
      have : (!decide (now ≥ t)) = true := by simp; omega
      simp [this]
  · intro ⟨t, hdl, hle⟩
    subst hdl
    simp only [List.filter_cons, List.filter_nil]
    have : (!decide (now ≥ t)) = false := by simp; omega
    simp [this]

theorem preCommands_hkey (s : State) (now : Nat) (pkts : List Packet) (K : Bool × BList) :
    (preCommands s now pkts).reruns.filter (fun r => skey r.cmd == some K) =
      s.reruns.filter (fun r => skey r.cmd == some K) := by
  have : (preCommands s now pkts).reruns = (ingress s now pkts).1.reruns := rfl
  rw [this, key_filter_af (af_ingress now pkts s)]

theorem oneEach_preCommands (s : State) (now : Nat) (pkts : List Packet) (h : OneEachC s.reruns) :
    OneEachC (preCommands s now pkts).reruns :=
  OneEachC.af (s' := (ingress s now pkts).1) h (af_ingress now pkts s)

theorem tailOuts_in_iter (s : State) (now : Nat) (pkts : List Packet) (cmds : List Command) (o : Out)
    (h : o ∈ tailOuts (preCommands s now pkts) now cmds) : o ∈ (Client.iter s now pkts cmds).2 := by
  rw [(iter_tail s now pkts cmds).2]
  exact List.mem_append_right _ h

/-- **One step of the schedule of a hostname search.**  In an iteration at `now` whose commands
    neither search nor stop the name: before the due time nothing changes.  At or after it: if
    `now` has reached the deadline the search has timed out and the schedule is over; otherwise
    the query `[(host, A), (host, AAAA)]` goes out, and the next one is queued `delay (k + 1)`
    seconds after `now` carrying the next delay of the sequence - unless that instant would not
    come before the deadline: then the schedule is over. -/
theorem hostSched_iter (host : BList) (ch : Nat) (dl : Option Nat) (t k : Nat) (s : State) (now : Nat) (pkts : List Packet)
    (cmds : List Command) (h1 : OneEachC s.reruns) (hs : HostSched host ch dl t k s)
    (hc : cmds.all (fun c => !touchesHost (lower host) c) = true) :
    (now < t + Delay.delay k * 1000 → HostSched host ch dl t k (Client.iter s now pkts cmds).1) ∧
    (t + Delay.delay k * 1000 ≤ now →
      ((∀ d, dl = some d → now + Delay.delay (k + 1) * 1000 < d) →
        HostSched host ch dl now (k + 1) (Client.iter s now pkts cmds).1 ∧
        ∃ known, Out.query [(host, 1), (host, 28)] known ∈ (Client.iter s now pkts cmds).2) ∧
      (∀ d, dl = some d → now < d → d ≤ now + Delay.delay (k + 1) * 1000 →
        HostEnded host (Client.iter s now pkts cmds).1 ∧
        ∃ known, Out.query [(host, 1), (host, 28)] known ∈ (Client.iter s now pkts cmds).2) ∧
      (∀ d, dl = some d → d ≤ now → HostEnded host (Client.iter s now pkts cmds).1)) := by
  have hq : (preCommands s now pkts).reruns.filter (fun r => skey r.cmd == some (true, lower host)) =
      [⟨t + Delay.delay k * 1000, .resolveHost host (Delay.delay (k + 1)) ch⟩] := by
    rw [preCommands_hkey]; exact hs.queue
  have hpre := preCommands_search now pkts hs.search
  have htail := host_tail host ch (t + Delay.delay k * 1000) (Delay.delay (k + 1)) (preCommands s now pkts) now cmds
    (Delay.delay_pos (k + 1)) (oneEach_preCommands s now pkts h1) hq hc
  rw [(iter_tail s now pkts cmds).1]
  obtain ⟨hres, hearly, hlate⟩ := htail
  refine ⟨?_, ?_⟩
  · intro hlt
    have hopen := hpre.1 (fun d hd => by have := hs.before d hd; omega)
    exact ⟨hearly hlt, hres.trans hopen, hs.before⟩
  · intro hdue
    obtain ⟨hgone, hopenCase⟩ := hlate hdue
    refine ⟨?_, ?_, ?_⟩
    · intro hbefore
      have hopen := hpre.1 (fun d hd => by have := hbefore d hd; omega)
      obtain ⟨hqueue, known, hk⟩ := (hopenCase dl hopen).1 hbefore
      refine ⟨⟨?_, hres.trans hopen, hbefore⟩, known, tailOuts_in_iter s now pkts cmds _ hk⟩
      rw [hqueue]
      rfl
    · intro d hd hlt hle
      have hopen := hpre.1 (fun d' hd' => by rw [hd] at hd'; cases hd'; exact hlt)
      obtain ⟨hend, known, hk⟩ := (hopenCase dl hopen).2 ⟨d, hd, hle⟩
      exact ⟨hend, known, tailOuts_in_iter s now pkts cmds _ hk⟩
    · intro d hd hle
      exact hgone (hpre.2 ⟨d, hd, hle⟩)

/-- once the schedule of a search is over it stays over while no command searches the name again -/
theorem hostEnded_iter (host : BList) (s : State) (now : Nat) (pkts : List Packet) (cmds : List Command)
    (h : HostEnded host s) (hc : cmds.all (fun c => !touchesHost (lower host) c) = true) :
    HostEnded host (Client.iter s now pkts cmds).1 := by
  unfold HostEnded at *
  rw [(iter_tail s now pkts cmds).1, key_filter_af (af_tail (preCommands s now pkts) now cmds) (true, lower host)]
  unfold rerunPhase
  apply runReruns_none_of_key now (true, lower host) _ [] _ _ rfl
  simp only [List.nil_append]
  rw [hkey_filter_runCommands (lower host) now cmds _ hc, preCommands_hkey]
  exact h

/-! ### the schedule starts -/

/-- the tail of the iteration of a `resolve_hostname` command -/
theorem hostSched_starts (host : BList) (ch : Nat) (timeout : Option Nat) (x : State) (now : Nat) (post : List Command)
    (h1 : OneEachC x.reruns) (hc : post.all (fun c => !touchesHost (lower host) c) = true) :
    ((∀ t, timeout = some t → 1000 < t) →
      HostSched host ch (timeout.map (now + ·)) now 0
        (runIpCheck (tailState (execCommand x now (.resolveHost host ch timeout)).1 now post) now)) ∧
    ((∃ t, timeout = some t ∧ t ≤ 1000) →
      HostEnded host (runIpCheck (tailState (execCommand x now (.resolveHost host ch timeout)).1 now post) now)) := by
  have hone := oneEach_execCommand x now (.resolveHost host ch timeout) h1
  have hfil : (x.reruns.filter (fun r => !isResolveOf (lower host) r)).filter (fun r => skey r.cmd == some (true, lower host)) = [] := by
    have := Sched.filter_not_self (isResolveOf (lower host)) x.reruns
    rw [List.filter_eq_nil_iff] at this ⊢
    intro r hr
    have := this r hr
    rw [isResolveOf_iff] at this
    exact this
  have hresolvers : (execCommand x now (.resolveHost host ch timeout)).1.resolvers.filter (fun q => q.1 == lower host) =
      [(lower host, ch, timeout.map (now + ·))] := by
    show (execResolveHost x now false host 1 ch timeout).1.resolvers.filter _ = _
    rw [execResolveHost_new_resolvers]
    have hnot : (x.resolvers.filter (fun q => q.1 != lower host)).filter (fun q => q.1 == lower host) = [] :=
      Sched.filter_not_self (fun q : BList × Nat × Option Nat => q.1 == lower host) x.resolvers
    simp only [List.filter_cons, beq_self_eq_true, if_true, hnot]
  constructor
  · intro hlong
    have hq : (execCommand x now (.resolveHost host ch timeout)).1.reruns.filter (fun r => skey r.cmd == some (true, lower host)) =
        [⟨now + 1000, .resolveHost host (Sched.nextDelay 1) ch⟩] := by
      cases timeout with
      | none =>
        have e : (execCommand x now (.resolveHost host ch none)).1.reruns =
            x.reruns.filter (fun r => !isResolveOf (lower host) r) ++ [⟨now + 1000, .resolveHost host (Sched.nextDelay 1) ch⟩] := by
          simp [execCommand, execResolveHost, withinDeadline, addRerun]
        rw [e, List.filter_append, hfil]
        simp [skey]
      | some t =>
        have hd : now + 1000 < now + t := by have := hlong t rfl; omega
        have e : (execCommand x now (.resolveHost host ch (some t))).1.reruns =
            x.reruns.filter (fun r => !isResolveOf (lower host) r) ++ [⟨now + 1000, .resolveHost host (Sched.nextDelay 1) ch⟩] := by
          simp [execCommand, execResolveHost, withinDeadline, addRerun, hd]
        rw [e, List.filter_append, hfil]
        simp [skey]
    obtain ⟨hres, hearly, _⟩ := host_tail host ch (now + 1000) (Sched.nextDelay 1) _ now post (by decide) hone hq hc
    refine ⟨?_, hres.trans hresolvers, ?_⟩
    · rw [hearly (by omega)]
      rfl
    · intro d hd
      cases timeout with
      | none => cases hd
      | some t =>
        have := hlong t rfl
        simp only [Option.map_some, Option.some.injEq] at hd
        subst hd
        show now + Delay.delay 0 * 1000 < now + t
        simp only [Delay.delay]
        omega
  · intro ⟨t, ht, hle⟩
    subst ht
    have hq : (execCommand x now (.resolveHost host ch (some t))).1.reruns.filter (fun r => skey r.cmd == some (true, lower host)) = [] := by
      have hd : ¬ now + 1000 < now + t := by omega
      have e : (execCommand x now (.resolveHost host ch (some t))).1.reruns =
          x.reruns.filter (fun r => !isResolveOf (lower host) r) := by
        simp [execCommand, execResolveHost, withinDeadline, hd]
      rw [e, hfil]
    unfold HostEnded
    rw [key_filter_af (af_tail _ now post) (true, lower host)]
    unfold rerunPhase
    apply runReruns_none_of_key now (true, lower host) _ [] _ _ rfl
    simp only [List.nil_append]
    rw [hkey_filter_runCommands (lower host) now post _ hc]
    exact hq

end Mdns.Client
