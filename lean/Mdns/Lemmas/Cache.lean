import Mdns.Model.Cache
import Mdns.Lemmas.Record
/-
  Helper lemmas for C11 / C10 about the cache model (Model/Cache.lean).
-/
namespace Mdns.Cache
open Mdns Mdns.Rec Mdns.Rec.Record

/-! ### association lists -/

/-- the names of a table -/
def Table.keys (t : Table) : List BList := t.map (·.1)

namespace Table

theorem get_set_self (t : Table) (k : BList) (v : List Entry) : (t.set k v).get k = some v := by
  induction t with
  | nil => simp [set, get]
  | cons p rest ih =>
    obtain ⟨k', v'⟩ := p
    cases h : k' == k
    · have h' : (k == k') = false := by
        rw [beq_eq_false_iff_ne] at h ⊢
        exact fun e => h e.symm
      simp only [get] at ih
      simp [set, h, get, List.lookup, h', ih]
    · simp [set, h, get]

theorem get_set_ne (t : Table) (k k2 : BList) (v : List Entry) (hne : k2 ≠ k) : (t.set k v).get k2 = t.get k2 := by
  have hk2 : (k2 == k) = false := by simpa using hne
  induction t with
  | nil => simp [set, get, List.lookup, hk2]
  | cons p rest ih =>
    obtain ⟨k', v'⟩ := p
    simp only [get] at ih
    cases h : k' == k
    · cases h2 : k2 == k' <;> simp [set, h, get, List.lookup, h2, ih]
    · have hk : k' = k := by simpa using h
      subst hk
      simp [set, get, List.lookup, hk2]

@[simp] theorem keys_nil : keys ([] : Table) = [] := rfl
@[simp] theorem keys_cons (p : BList × List Entry) (t : Table) : keys (p :: t) = p.1 :: keys t := rfl

theorem mem_keys_set (t : Table) (k : BList) (v : List Entry) (x : BList) :
    x ∈ (t.set k v).keys ↔ x ∈ t.keys ∨ x = k := by
  induction t with
  | nil => simp [set]
  | cons p rest ih =>
    obtain ⟨k', v'⟩ := p
    cases h : k' == k
    · simp [set, h, ih, or_assoc]
    · have hk : k' = k := by simpa using h
      subst hk
      simp [set]
      exact Or.inl

theorem nodup_set (t : Table) (k : BList) (v : List Entry) (h : t.keys.Nodup) : (t.set k v).keys.Nodup := by
  induction t with
  | nil => simp [set]
  | cons p rest ih =>
    obtain ⟨k', v'⟩ := p
    simp only [keys_cons, List.nodup_cons] at h
    cases hk : k' == k
    · have hne : ¬ k' = k := by simpa using hk
      simp only [set, hk, Bool.false_eq_true, if_false, keys_cons, List.nodup_cons, mem_keys_set]
      exact ⟨fun hm => hm.elim h.1 hne, ih h.2⟩
    · have hk' : k' = k := by simpa using hk
      subst hk'
      simp only [set, beq_self_eq_true, if_true, keys_cons, List.nodup_cons]
      exact h

/-- with distinct names a look-up finds exactly the pairs of the table -/
theorem get_eq_some_iff (t : Table) (h : t.keys.Nodup) (k : BList) (v : List Entry) :
    t.get k = some v ↔ (k, v) ∈ t := by
  induction t with
  | nil => simp [get, List.lookup]
  | cons p rest ih =>
    obtain ⟨k', v'⟩ := p
    simp only [keys_cons, List.nodup_cons] at h
    simp only [get, List.lookup]
    cases hk : k == k'
    · have hne : ¬ k = k' := by simpa using hk
      simp only [List.mem_cons, Prod.mk.injEq, hne, false_and, false_or]
      exact ih h.2
    · have hk' : k = k' := by simpa using hk
      subst hk'
      simp only [Option.some.injEq, List.mem_cons, Prod.mk.injEq, true_and]
      constructor
      · intro e; exact Or.inl e.symm
      · rintro (e | hm)
        · exact e.symm
        · exact absurd (List.mem_map_of_mem (f := (·.1)) hm) h.1

end Table

/-! ### the cache-flush rule -/

/-- the condition of the rule, in words of the property -/
def FlushCond (inc : Record) (now : Nat) (e : Entry) : Prop :=
  inc.cls = e.record.cls ∧ inc.ty = e.record.ty ∧ e.record.created + 1000 < now ∧ now + 1000 < e.record.expires ∧
  ((inc.ty = 1 ∨ inc.ty = 28) → ∀ ip n i ip' n' j, e.record.rdata = .addr ip n i → inc.rdata = .addr ip' n' j → i = j)

theorem shouldFlush_iff (inc : Record) (now : Nat) (e : Entry) : shouldFlush inc now e = true ↔ FlushCond inc now e := by
  unfold shouldFlush FlushCond
  by_cases hty : inc.ty = 1 ∨ inc.ty = 28
  · simp only [hty, if_true, Bool.and_eq_true, beq_iff_eq, decide_eq_true_eq, true_implies]
    cases he : e.record.rdata <;> cases hi : inc.rdata <;> simp <;> grind
  · simp only [hty, if_false, Bool.and_eq_true, beq_iff_eq, decide_eq_true_eq, Bool.and_true, false_implies, and_true]
    omega

theorem flushList_length (inc : Record) (now : Nat) (es : List Entry) : (flushList inc now es).length = es.length := by
  unfold flushList
  split <;> simp

theorem flushList_getElem? (inc : Record) (now : Nat) (es : List Entry) (i : Nat) :
    (flushList inc now es)[i]? = es[i]?.map fun e =>
      if inc.flush = true ∧ shouldFlush inc now e = true then { e with record := { e.record with expires := now + 1000 } } else e := by
  unfold flushList
  by_cases hf : inc.flush = true
  · simp only [hf, if_true, List.getElem?_map, true_and]
    cases es[i]? <;> simp [flushOne, setExpire]
  · have hf' : inc.flush = false := by simpa using hf
    simp only [hf', Bool.false_eq_true, false_and, if_false]
    cases es[i]? <;> simp

theorem flushOne_matches (inc : Record) (now : Nat) (x : Record) (e : Entry) :
    (flushOne inc now e).record.matchesRec x = e.record.matchesRec x := by
  unfold flushOne
  split <;> simp [matchesRec, entryEq, setExpire]

theorem hasMatch_flushList (inc : Record) (now : Nat) (es : List Entry) :
    hasMatch inc (flushList inc now es) = hasMatch inc es := by
  unfold flushList hasMatch
  split
  · simp only [List.any_map]
    congr 1
    funext e
    exact flushOne_matches inc now inc e
  · rfl

theorem resetFirst_spec (inc : Record) (es : List Entry) (h : hasMatch inc es = true) :
    ∃ pre e post, es = pre ++ e :: post ∧ (∀ x ∈ pre, x.record.matchesRec inc = false) ∧
      e.record.matchesRec inc = true ∧
      resetFirst inc es = pre ++ { e with record := e.record.resetTtl inc } :: post ∧
      (es.findIdx fun x => x.record.matchesRec inc) = pre.length := by
  induction es with
  | nil => simp [hasMatch] at h
  | cons x rest ih =>
    by_cases hx : x.record.matchesRec inc = true
    · refine ⟨[], x, rest, rfl, by simp, hx, by simp [resetFirst, hx], by simp [List.findIdx_cons, hx]⟩
    · have hx' : x.record.matchesRec inc = false := by simpa using hx
      have hrest : hasMatch inc rest = true := by
        simpa [hasMatch, hx'] using h
      obtain ⟨pre, e, post, h1, h2, h3, h4, h5⟩ := ih hrest
      refine ⟨x :: pre, e, post, by simp [h1], ?_, h3, by simp [resetFirst, hx', h4], by simp [List.findIdx_cons, hx', h5]⟩
      intro y hy
      rcases List.mem_cons.mp hy with rfl | hy
      · exact hx'
      · exact h2 y hy

/-! ### eviction -/

theorem live_iff (now : Nat) (e : Entry) : live now e = true ↔ now < e.record.expires := by
  simp [live, isExpired]

theorem keys_evictTable_sublist (now : Nat) (t : Table) : (evictTable now t).keys.Sublist t.keys := by
  unfold evictTable Table.keys
  have h1 : ((t.map fun p => (p.1, p.2.filter (live now))).filter fun p => !p.2.isEmpty).Sublist
      (t.map fun p => (p.1, p.2.filter (live now))) := List.filter_sublist
  have h2 := h1.map (·.1)
  simpa [List.map_map, Function.comp_def] using h2

theorem mem_evictTable (now : Nat) (t : Table) (k : BList) (es' : List Entry) :
    (k, es') ∈ evictTable now t ↔ ∃ es, (k, es) ∈ t ∧ es' = es.filter (live now) ∧ es' ≠ [] := by
  unfold evictTable
  simp only [List.mem_filter, List.mem_map, Bool.not_eq_true', List.isEmpty_eq_false_iff]
  constructor
  · rintro ⟨⟨p, hp, he⟩, hne⟩
    obtain ⟨pk, pv⟩ := p
    simp only [Prod.mk.injEq] at he
    obtain ⟨rfl, rfl⟩ := he
    exact ⟨pv, hp, rfl, hne⟩
  · rintro ⟨es, hes, rfl, hne⟩
    exact ⟨⟨(k, es), hes, rfl⟩, hne⟩

theorem keys_map_snd (t : Table) (f : BList × List Entry → List Entry) :
    Table.keys (t.map fun p => (p.1, f p)) = t.keys := by
  simp [Table.keys, List.map_map, Function.comp_def]

end Mdns.Cache
