import Mdns.Lemmas.ClientKept
/-
  C13 on the client model: a daemon that only browses cache-only (`browse_cache`) sends no query
  at all (repairs of D23 - no refresh queries - and D23b - no follow-up queries).
-/
namespace Mdns.Client
open Mdns Mdns.Rec Mdns.Cache

/-- the commands of a daemon that only browses cache-only: `browse_cache`, `stop_browse`,
    `stop_resolve_hostname`, `get_metrics`, the options - no `browse`, no `resolve_hostname`, no
    `verify` -/
def quietCommand : Command → Bool
  | .browse _ _ co => co
  | .resolveHost _ _ _ => false
  | .verify _ _ => false
  | _ => true

/-- every browse is cache-only -/
def AllCacheOnly (s : State) : Prop := ∀ q ∈ s.queriers, q.1 ∈ s.cacheOnly

/-- every browse is cache-only, no hostname search is open, no re-run is queued (no browse or
    hostname retransmission, no follow-up `Resolve`, no `verify` resend) -/
def CacheOnlyDaemon (s : State) : Prop := AllCacheOnly s ∧ s.resolvers = [] ∧ s.reruns = []

theorem AllCacheOnly.of_eq {s s' : State} (h : AllCacheOnly s) (hq : s'.queriers = s.queriers)
    (hc : s'.cacheOnly = s.cacheOnly) : AllCacheOnly s' := by
  intro q hq'
  rw [hc]
  exact h q (hq ▸ hq')

/-! ### no follow-up is queued on behalf of cache-only browses -/

theorem resolveUpdated_co_reruns (s : State) (now : Nat) (u : List BList) (h : AllCacheOnly s) :
    (resolveUpdated s now u).1.reruns = s.reruns := by
  unfold resolveUpdated
  split
  · rfl
  · have hf : ((visits s now u).filter fun v => !visitValid s.cache now v).filter
        (fun v => !s.cacheOnly.contains v.1) = [] := by
      rw [List.filter_eq_nil_iff]
      intro v hv
      have hq := mem_visits_querier s now u v (List.mem_filter.mp hv).1
      have := h _ hq
      simpa using this
    simp only [hf, List.map_nil, List.eraseDups_nil, addPendings]
    rfl

theorem handleRead_co_reruns (s : State) (now : Nat) (p : Packet) (h : AllCacheOnly s) :
    (handleRead s now p).1.reruns = s.reruns := by
  unfold handleRead
  repeat' split
  all_goals first
    | rfl
    | (unfold handleResponse
       simp only []
       exact resolveUpdated_co_reruns _ now _ (h.of_eq rfl rfl))

theorem ingress_co_reruns (now : Nat) : ∀ (pkts : List Packet) (s : State), AllCacheOnly s →
    (ingress s now pkts).1.reruns = s.reruns
  | [], _, _ => rfl
  | p :: rest, s, h => by
    simp only [ingress]
    rw [ingress_co_reruns now rest _ (h.of_eq (handleRead_queriers s now p) (handleRead_cacheOnly s now p)),
      handleRead_co_reruns s now p h]

theorem evictAddrHosts_co_reruns (now : Nat) (items : List (BList × BList × BList × Nat)) :
    ∀ (hosts : List BList) (s : State), AllCacheOnly s → (evictAddrHosts s now items hosts).1.reruns = s.reruns
  | [], _, _ => rfl
  | h :: rest, s, hc => by
    simp only [evictAddrHosts]
    rw [evictAddrHosts_co_reruns now items rest _
      (hc.of_eq (resolveUpdated_queriers s now _) (resolveUpdated_cacheOnly s now _)),
      resolveUpdated_co_reruns s now _ hc]

/-! ### the commands of a cache-only daemon keep it one -/

theorem cacheOnlyDaemon_execCommand (s : State) (now : Nat) (c : Command) (hc : quietCommand c = true)
    (h : CacheOnlyDaemon s) : CacheOnlyDaemon (execCommand s now c).1 := by
  obtain ⟨ha, hv, hr⟩ := h
  cases c with
  | browse ty ch co =>
    have hco : co = true := by simpa [quietCommand] using hc
    subst hco
    have e1 : (execCommand s now (.browse ty ch true)).1.queriers = _ := execBrowse_new_queriers s now ty 1 true ch
    have e2 : (execCommand s now (.browse ty ch true)).1.cacheOnly = _ := execBrowse_new_cacheOnly s now ty 1 true ch
    refine ⟨?_, ?_, ?_⟩
    · intro q hq
      rw [e1] at hq
      rw [e2]
      simp only [if_true]
      rcases List.mem_cons.mp hq with rfl | hq
      · exact (mem_insertSet _ _ _).mpr (Or.inr rfl)
      · exact (mem_insertSet _ _ _).mpr (Or.inl (ha q (List.mem_filter.mp hq).1))
    · rw [show (execCommand s now (.browse ty ch true)).1.resolvers = s.resolvers from
        execBrowse_resolvers s now false ty 1 true ch]
      exact hv
    · have hin : (insertSet s.cacheOnly ty).contains ty = true := by
        simpa using (mem_insertSet s.cacheOnly ty ty).mpr (Or.inr rfl)
      simp only [execCommand, execBrowse, Bool.false_eq_true, if_false, if_true, queryCacheForService, hin, addPendings,
        markResolved, hr, List.filter_nil]
  | stopBrowse ty =>
    simp only [execCommand, execStopBrowse]
    split
    · exact ⟨ha, hv, hr⟩
    · refine ⟨?_, hv, by simp [hr]⟩
      intro q hq
      obtain ⟨hq1, hq2⟩ := List.mem_filter.mp hq
      simp only [List.mem_filter]
      exact ⟨ha q hq1, hq2⟩
  | resolveHost h0 ch t => simp [quietCommand] at hc
  | stopResolve h0 =>
    simp only [execCommand, execStopResolve, hv, List.find?_nil]
    exact ⟨ha, hv, hr⟩
  | ipInterval ms => exact ⟨ha, hv, hr⟩
  | verify inst t => simp [quietCommand] at hc
  | metrics ch => exact ⟨ha, hv, hr⟩
  | acceptUnsolicited on => exact ⟨ha, hv, hr⟩

theorem cacheOnlyDaemon_runCommands (now : Nat) : ∀ (l : List Command) (s : State),
    l.all quietCommand = true → CacheOnlyDaemon s → CacheOnlyDaemon (runCommands s now l).1
  | [], _, _, h => h
  | c :: rest, s, hc, h => by
    simp only [List.all_cons, Bool.and_eq_true] at hc
    simp only [runCommands]
    exact cacheOnlyDaemon_runCommands now rest _ hc.2 (cacheOnlyDaemon_execCommand s now c hc.1 h)

theorem cacheOnlyDaemon_preCommands (s : State) (now : Nat) (pkts : List Packet) (h : CacheOnlyDaemon s) :
    CacheOnlyDaemon (preCommands s now pkts) := by
  obtain ⟨ha, hv, hr⟩ := h
  refine ⟨ha.of_eq (preCommands_queriers s now pkts) (preCommands_cacheOnly s now pkts), ?_, ?_⟩
  · cases hs : (preCommands s now pkts).resolvers with
    | nil => rfl
    | cons q rest =>
      have := preCommands_resolvers_sub s now pkts q (by rw [hs]; exact List.mem_cons_self)
      rw [hv] at this
      cases this
  · show (ingress s now pkts).1.reruns = []
    rw [ingress_co_reruns now pkts s ha]
    exact hr

/-! ### no query has a cause -/

/-- in a cache-only daemon, with quiet commands and no re-run class, a query has no cause -/
theorem no_query_of_cacheOnlyDaemon (x : State) (cmds : List Command) (qs : List (BList × Nat)) (known : List Record)
    (ha : AllCacheOnly x) (hv : x.resolvers = []) (hc : cmds.all quietCommand = true) :
    ¬ Origin x cmds [] (.query qs known) := by
  have hcmd : ∀ c ∈ cmds, quietCommand c = true := fun c hm => List.all_eq_true.mp hc c hm
  have hnb : ¬ Browsing x cmds := by
    rintro (⟨q, hq, hqa⟩ | ⟨ty, ch, hm⟩)
    · exact hqa (ha q hq)
    · simpa [quietCommand] using hcmd _ hm
  have hopen : ∀ key, ¬ HostOpen x cmds key := by
    rintro key (⟨q, hq, _⟩ | ⟨h, ch, t, hm, _⟩)
    · rw [hv] at hq
      cases hq
    · simpa [quietCommand] using hcmd _ hm
  intro h
  generalize ho : Out.query qs known = o at h
  cases h with
  | ptrQuerier q known' h1 h1a => exact h1a (ha q h1)
  | ptrRerun ty ch known' h1 => cases h1
  | ptrCommand ty ch known' h1 => simpa [quietCommand] using hcmd _ h1
  | hostRerun h0 ch known' h1 h2 => cases h1
  | hostCommand h0 ch t known' h1 => simpa [quietCommand] using hcmd _ h1
  | hostFollowup h0 known' h1 => cases h1
  | hostOfService h0 known' h1 => exact hnb h1
  | addrRefresh key t known' h1 h2 => exact hopen key h1
  | anyFollowup inst known' h1 => cases h1
  | srvTxtRefresh inst ts known' h1 h2 => exact hnb h1
  | verifyQuery inst qs' known' h1 =>
    rcases h1 with h1 | ⟨t, h1⟩
    · cases h1
    · simpa [quietCommand] using hcmd _ h1
  | evQuerier => cases ho
  | evResolver => cases ho
  | evRerunB => cases ho
  | evRerunH => cases ho
  | evCommand => cases ho

/-! ### one iteration -/

theorem rerunPhase_empty (x : State) (now : Nat) (hr : x.reruns = []) :
    (rerunPhase x now).1.reruns = [] := by
  have := runReruns_classes now [] (x.reruns.length * 2 + 2) [] x.reruns { x with reruns := [] } rfl
    (by intro y hy; rw [hr] at hy; cases hy)
  cases hs : (rerunPhase x now).1.reruns with
  | nil => rfl
  | cons r rest =>
    have h1 := this r (by
      show r ∈ (rerunPhase x now).1.reruns
      rw [hs]
      exact List.mem_cons_self)
    cases h1

/-- **a cache-only daemon stays one through an iteration with quiet commands, and sends no
    query at all in it** -/
theorem cacheOnlyDaemon_iter (s : State) (now : Nat) (pkts : List Packet) (cmds : List Command)
    (h : CacheOnlyDaemon s) (hc : cmds.all quietCommand = true) :
    (∀ qs known, Out.query qs known ∉ (Client.iter s now pkts cmds).2) ∧ CacheOnlyDaemon (Client.iter s now pkts cmds).1 := by
  have h0 := cacheOnlyDaemon_preCommands s now pkts h
  have h1 := cacheOnlyDaemon_runCommands now cmds _ hc h0
  have hmid : midClasses (preCommands s now pkts) now cmds = [] := by
    simp only [midClasses, h1.2.2, List.map_nil]
  refine ⟨?_, ?_⟩
  · intro qs known hm
    have ho := origin_iter s now pkts cmds _ hm
    rw [hmid] at ho
    exact no_query_of_cacheOnlyDaemon s cmds qs known h.1 h.2.1 hc ho
  · rw [(iter_tail s now pkts cmds).1]
    have hq2 : (rerunPhase (runCommands (preCommands s now pkts) now cmds).1 now).1.queriers =
        (runCommands (preCommands s now pkts) now cmds).1.queriers := runReruns_queriers now _ _ _ _
    have hc2 : (rerunPhase (runCommands (preCommands s now pkts) now cmds).1 now).1.cacheOnly =
        (runCommands (preCommands s now pkts) now cmds).1.cacheOnly := runReruns_cacheOnly now _ _ _ _
    have hr2 := rerunPhase_empty (runCommands (preCommands s now pkts) now cmds).1 now h1.2.2
    have ha5 : AllCacheOnly { (evictServicesPhase (refreshResolvers (refreshActive (rerunPhase
        (runCommands (preCommands s now pkts) now cmds).1 now).1 now).1 now).1 now).1 with
        cache := (evictAddr (evictServicesPhase (refreshResolvers (refreshActive (rerunPhase
          (runCommands (preCommands s now pkts) now cmds).1 now).1 now).1 now).1 now).1.cache now).1 } :=
      h1.1.of_eq hq2 hc2
    refine ⟨?_, ?_, ?_⟩
    · exact h1.1.of_eq (tail_queriers _ now cmds) (tail_cacheOnly _ now cmds)
    · rw [tail_resolvers]
      exact h1.2.1
    · rw [(runIpCheck_searches _ now).2.2]
      unfold tailState evictAddrPhase
      rw [evictAddrHosts_co_reruns now _ _ _ ha5]
      exact hr2

end Mdns.Client
