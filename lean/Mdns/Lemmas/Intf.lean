import Mdns.Model.Intf
/-
  Helper lemmas for C18 (interface selection, subnet membership).
-/
namespace Mdns.Intf
open Mdns

/-! ### the selection loop -/

theorem zipWith_map_self {α β γ} (F : α → β → γ) (g : α → β) :
    ∀ l : List α, List.zipWith F l (l.map g) = l.map (fun a => F a (g a))
  | [] => rfl
  | a :: l => by simp [zipWith_map_self F g l]

theorem applySelection_map (sel : Selection) (intfs : List Iface) (g : Iface → Bool) :
    applySelection sel intfs (intfs.map g) = intfs.map (fun i => if sel.1.matches i then sel.2 else g i) := by
  unfold applySelection
  exact zipWith_map_self _ g intfs

theorem lastMatch_cons (s : Selection) (sels : List Selection) (i : Iface) (d : Bool) :
    (lastMatch (s :: sels) i).getD d = (lastMatch sels i).getD (if s.1.matches i then s.2 else d) := by
  unfold lastMatch
  simp only [List.reverse_cons, List.find?_append]
  cases h : sels.reverse.find? (fun x => x.1.matches i) with
  | some x => simp
  | none =>
    by_cases hm : s.1.matches i = true
    · simp [List.find?, hm]
    · simp [List.find?, hm]

theorem foldl_selection (intfs : List Iface) : ∀ (sels : List Selection) (g : Iface → Bool),
    sels.foldl (fun marks sel => applySelection sel intfs marks) (intfs.map g) =
      intfs.map (fun i => (lastMatch sels i).getD (g i))
  | [], g => by simp [lastMatch]
  | s :: sels, g => by
    simp only [List.foldl_cons, applySelection_map]
    rw [foldl_selection intfs sels]
    apply List.map_congr_left
    intro i _
    rw [lastMatch_cons]

/-! ### big-endian numbers and masks -/

theorem beNat_lt : ∀ l : BList, beNat l < 256 ^ l.length
  | [] => by simp [beNat]
  | b :: bs => by
    have ih := beNat_lt bs
    have hb := b.toNat_lt
    simp only [beNat, List.length_cons, Nat.pow_succ]
    have : b.toNat * 256 ^ bs.length + 256 ^ bs.length ≤ 256 ^ bs.length * 256 := by
      have : (b.toNat + 1) * 256 ^ bs.length ≤ 256 * 256 ^ bs.length := Nat.mul_le_mul_right _ (by omega)
      rw [Nat.add_mul, Nat.one_mul] at this
      rw [Nat.mul_comm (256 ^ bs.length)]
      exact this
    omega

theorem pow256 (n : Nat) : 256 ^ n = 2 ^ (8 * n) := by
  rw [Nat.pow_mul]

/-- AND of two numbers written as high part and low part -/
theorem and_split (k x y x' y' : Nat) (hy : y < 2 ^ k) (hy' : y' < 2 ^ k) :
    (x * 2 ^ k + y) &&& (x' * 2 ^ k + y') = (x &&& x') * 2 ^ k + (y &&& y') := by
  apply Nat.eq_of_testBit_eq
  intro j
  have hyy : y &&& y' < 2 ^ k := Nat.and_lt_two_pow _ hy'
  rw [Nat.testBit_and, Nat.mul_comm x, Nat.mul_comm x', Nat.mul_comm (x &&& x'),
    Nat.testBit_two_pow_mul_add _ hy, Nat.testBit_two_pow_mul_add _ hy', Nat.testBit_two_pow_mul_add _ hyy]
  by_cases hj : j < k <;> simp [hj, Nat.testBit_and]

theorem beNat_and : ∀ (a m : BList), a.length = m.length →
    beNat a &&& beNat m = beNat (List.zipWith (· &&& ·) a m)
  | [], [], _ => by simp [beNat]
  | [], _ :: _, h => by simp at h
  | _ :: _, [], h => by simp at h
  | x :: xs, y :: ys, h => by
    have hl : xs.length = ys.length := by simpa using h
    have ih := beNat_and xs ys hl
    have h1 := beNat_lt xs
    have h2 := beNat_lt ys
    simp only [beNat, List.zipWith_cons_cons, List.length_zipWith, ← hl, Nat.min_self, UInt8.toNat_and]
    rw [pow256] at h1 h2 ⊢
    rw [← hl] at h2
    rw [and_split _ _ _ _ _ h1 h2, ih]

theorem beNat_inj : ∀ (a b : BList), a.length = b.length → beNat a = beNat b → a = b
  | [], [], _, _ => rfl
  | [], _ :: _, h, _ => by simp at h
  | _ :: _, [], h, _ => by simp at h
  | x :: xs, y :: ys, h, e => by
    have hl : xs.length = ys.length := by simpa using h
    have h1 := beNat_lt xs
    have h2 := beNat_lt ys
    simp only [beNat] at e
    rw [hl] at h1 e
    have hpos : 0 < 256 ^ ys.length := Nat.pow_pos (by omega)
    have e1 : x.toNat = y.toNat := by
      have := congrArg (fun t => t / 256 ^ ys.length) e
      rw [Nat.mul_comm x.toNat, Nat.mul_comm y.toNat, Nat.mul_add_div hpos, Nat.mul_add_div hpos,
        Nat.div_eq_of_lt h1, Nat.div_eq_of_lt h2] at this
      omega
    have e2 : beNat xs = beNat ys := by
      rw [e1] at e
      omega
    rw [UInt8.toNat_inj.mp e1, beNat_inj xs ys hl e2]

/-- masking with a prefix mask keeps exactly the leading `p` of `bits` bits -/
theorem and_prefixMask (bits p x : Nat) (hp : p ≤ bits) (hx : x < 2 ^ bits) :
    x &&& prefixMask bits p = x / 2 ^ (bits - p) * 2 ^ (bits - p) := by
  apply Nat.eq_of_testBit_eq
  intro j
  unfold prefixMask
  rw [Nat.testBit_and, Nat.testBit_mul_two_pow, Nat.testBit_mul_two_pow, Nat.testBit_two_pow_sub_one,
    Nat.testBit_div_two_pow]
  by_cases h1 : bits - p ≤ j
  · have e : j - (bits - p) + (bits - p) = j := by omega
    simp only [h1, decide_true, Bool.true_and, e]
    by_cases h2 : j - (bits - p) < p
    · simp [h2]
    · have : x.testBit j = false := by
        apply Nat.testBit_lt_two_pow
        calc x < 2 ^ bits := hx
          _ ≤ 2 ^ j := Nat.pow_le_pow_right (by omega) (by omega)
      simp [h2, this]
  · simp [h1]

end Mdns.Intf
