import Mdns.Model.Compare
/-
  Helper lemmas for C08 (comparison and tiebreaking).
-/
namespace Mdns.Compare
open Mdns Mdns.Wire

/-! ### the primitive orders -/

theorem cmpNat_swap (a b : Nat) : cmpNat b a = (cmpNat a b).swap := by
  unfold cmpNat
  by_cases h1 : a < b <;> by_cases h2 : b < a <;> simp [h1, h2, Ordering.swap]
  omega

theorem cmpNat_eq_iff (a b : Nat) : cmpNat a b = .eq ↔ a = b := by
  unfold cmpNat
  by_cases h1 : a < b <;> by_cases h2 : b < a <;> simp [h1, h2] <;> omega

theorem cmpNat_lt_iff (a b : Nat) : cmpNat a b = .lt ↔ a < b := by
  unfold cmpNat
  by_cases h1 : a < b <;> by_cases h2 : b < a <;> simp [h1, h2]

theorem cmpNat_gt_iff (a b : Nat) : cmpNat a b = .gt ↔ b < a := by
  unfold cmpNat
  by_cases h1 : a < b <;> by_cases h2 : b < a <;> simp [h1, h2]
  omega

theorem cmpBytes_swap : ∀ a b : BList, cmpBytes b a = (cmpBytes a b).swap
  | [], [] => rfl
  | [], _ :: _ => rfl
  | _ :: _, [] => rfl
  | x :: xs, y :: ys => by
    unfold cmpBytes
    by_cases h1 : x < y
    · have h2 : ¬ y < x := UInt8.lt_asymm h1
      simp [h1, h2, Ordering.swap]
    · by_cases h2 : y < x
      · simp [h1, h2, Ordering.swap]
      · simp only [h1, h2, ↓reduceIte]
        exact cmpBytes_swap xs ys

theorem cmpBytes_eq_iff : ∀ a b : BList, cmpBytes a b = .eq ↔ a = b
  | [], [] => by simp [cmpBytes]
  | [], _ :: _ => by simp [cmpBytes]
  | _ :: _, [] => by simp [cmpBytes]
  | x :: xs, y :: ys => by
    unfold cmpBytes
    by_cases h1 : x < y
    · have : x ≠ y := fun h => by subst h; exact UInt8.lt_irrefl _ h1
      simp [h1, this]
    · by_cases h2 : y < x
      · have : x ≠ y := fun h => by subst h; exact UInt8.lt_irrefl _ h2
        simp [h1, h2, this]
      · have hxy : x = y := UInt8.le_antisymm (UInt8.not_lt.mp h2) (UInt8.not_lt.mp h1)
        subst hxy
        simp only [h1, ↓reduceIte, List.cons.injEq, true_and]
        exact cmpBytes_eq_iff xs ys

theorem cmpBytes_refl (a : BList) : cmpBytes a a = .eq := (cmpBytes_eq_iff a a).mpr rfl

/-! ### RDATA and records -/

theorem compareRData_swap (x y : RData) (h : kind x = kind y) :
    compareRData y x = (compareRData x y).swap := by
  cases x <;> cases y <;> simp [kind] at h <;>
    simp only [compareRData, Ordering.swap_then, ← cmpBytes_swap, ← cmpNat_swap] <;> rfl

theorem compareRData_eq_iff (x y : RData) : compareRData x y = .eq ↔ x = y := by
  cases x <;> cases y <;>
    simp [compareRData, Ordering.then_eq_eq, cmpBytes_eq_iff, cmpNat_eq_iff]

theorem then_of_ne_eq (a b : Ordering) (h : a ≠ .eq) : a.then b = a := by
  cases a <;> simp_all [Ordering.then]

theorem compareRec_swap (a b : Rec) (h : compatible a b) : compareRec b a = (compareRec a b).swap := by
  unfold compareRec
  rw [Ordering.swap_then, Ordering.swap_then, ← cmpNat_swap, ← cmpNat_swap]
  by_cases hc : a.cls = b.cls
  · by_cases ht : a.ty = b.ty
    · rw [compareRData_swap _ _ (h hc ht)]
    · have : cmpNat b.ty a.ty ≠ .eq := fun e => ht ((cmpNat_eq_iff _ _).mp e).symm
      rw [then_of_ne_eq _ _ this, then_of_ne_eq _ _ this]
  · have : cmpNat b.cls a.cls ≠ .eq := fun e => hc ((cmpNat_eq_iff _ _).mp e).symm
    rw [then_of_ne_eq _ _ this, then_of_ne_eq _ _ this]

theorem compareRec_eq_iff (a b : Rec) :
    compareRec a b = .eq ↔ a.cls = b.cls ∧ a.ty = b.ty ∧ a.rdata = b.rdata := by
  simp [compareRec, Ordering.then_eq_eq, cmpNat_eq_iff, compareRData_eq_iff]

/-- what is compared: class, type, RDATA (not the owner name, TTL or cache-flush bit) -/
def dataOf (r : Rec) : Nat × Nat × RData := (r.cls, r.ty, r.rdata)

/-! ### transitivity of "earlier" -/

theorem cmpBytes_lt_trans : ∀ a b c : BList, cmpBytes a b = .lt → cmpBytes b c = .lt → cmpBytes a c = .lt
  | [], [], _, h, _ => by simp [cmpBytes] at h
  | [], _ :: _, [], _, h => by simp [cmpBytes] at h
  | [], _ :: _, _ :: _, _, _ => by simp [cmpBytes]
  | _ :: _, [], _, h, _ => by simp [cmpBytes] at h
  | _ :: _, _ :: _, [], _, h => by simp [cmpBytes] at h
  | x :: as, y :: bs, z :: cs, h1, h2 => by
    simp only [cmpBytes] at h1 h2 ⊢
    have ih := cmpBytes_lt_trans as bs cs
    by_cases hxy : x < y
    · by_cases hyz : y < z
      · have : x < z := UInt8.lt_trans hxy hyz
        simp [this]
      · simp only [hyz, if_false] at h2
        by_cases hzy : z < y
        · simp [hzy] at h2
        · have : y = z := by
            have := UInt8.le_antisymm (UInt8.not_lt.mp hzy) (UInt8.not_lt.mp hyz)
            exact this
          subst this; simp [hxy]
    · simp only [hxy, if_false] at h1
      by_cases hyx : y < x
      · simp [hyx] at h1
      · have hxy' : x = y := UInt8.le_antisymm (UInt8.not_lt.mp hyx) (UInt8.not_lt.mp hxy)
        subst hxy'
        simp only [hyx, if_false] at h1
        by_cases hyz : x < z
        · simp [hyz]
        · simp only [hyz, if_false] at h2 ⊢
          by_cases hzy : z < x
          · simp [hzy] at h2
          · simp only [hzy, if_false] at h2 ⊢
            exact ih h1 h2

theorem then_lt_iff (x y : Ordering) : x.then y = .lt ↔ x = .lt ∨ (x = .eq ∧ y = .lt) := by
  cases x <;> simp [Ordering.then]


theorem cmpNat_lt_trans (a b c : Nat) (h1 : cmpNat a b = .lt) (h2 : cmpNat b c = .lt) : cmpNat a c = .lt := by
  rw [cmpNat_lt_iff] at *; omega

theorem compareRData_lt_trans (x y z : RData) (h1 : compareRData x y = .lt) (h2 : compareRData y z = .lt) :
    compareRData x z = .lt := by
  have T := cmpBytes_lt_trans
  cases x <;> cases y <;> simp only [compareRData, reduceCtorEq] at h1 <;>
    cases z <;> simp only [compareRData, reduceCtorEq] at h2 ⊢ <;>
    (try simp only [then_lt_iff, cmpNat_lt_iff, cmpNat_eq_iff, cmpBytes_eq_iff] at h1 h2 ⊢) <;>
    first
      | exact T _ _ _ h1 h2
      | (rcases h1 with h1 | ⟨e1, h1⟩ <;> rcases h2 with h2 | ⟨e2, h2⟩ <;> subst_vars <;>
          first
          | exact Or.inl (T _ _ _ h1 h2)
          | exact Or.inl h1
          | exact Or.inl h2
          | exact Or.inr ⟨rfl, T _ _ _ h1 h2⟩)
      | grind

theorem compareRec_lt_trans (a b c : Rec) (h1 : compareRec a b = .lt) (h2 : compareRec b c = .lt) :
    compareRec a c = .lt := by
  have T := compareRData_lt_trans a.rdata b.rdata c.rdata
  simp only [compareRec, then_lt_iff, cmpNat_lt_iff, cmpNat_eq_iff] at h1 h2 ⊢
  rcases h1 with h1 | ⟨e1, h1 | ⟨e1', h1⟩⟩ <;> rcases h2 with h2 | ⟨e2, h2 | ⟨e2', h2⟩⟩ <;>
    first
    | (left; omega)
    | (right; refine ⟨by omega, ?_⟩; left; omega)
    | (right; exact ⟨by omega, Or.inr ⟨by omega, T h1 h2⟩⟩)

theorem compareRec_eq_iff_data (a b : Rec) : compareRec a b = .eq ↔ dataOf a = dataOf b := by
  rw [compareRec_eq_iff]
  simp [dataOf]

theorem wellTyped_compatible (a b : Rec) (ha : wellTyped a = true) (hb : wellTyped b = true) :
    compatible a b := by
  intro _ ht
  unfold wellTyped at ha hb
  cases hra : a.rdata <;> cases hrb : b.rdata <;> simp [hra, hrb, kind] at ha hb ⊢ <;> omega

/-! ### the zip comparison -/

theorem zipCmp_swap : ∀ (as bs : List Rec), (∀ a ∈ as, ∀ b ∈ bs, compatible a b) →
    zipCmp bs as = (zipCmp as bs).swap
  | [], [], _ => rfl
  | [], _ :: _, _ => rfl
  | _ :: _, [], _ => rfl
  | a :: as, b :: bs, h => by
    have hab := compareRec_swap a b (h a (by simp) b (by simp))
    have ih := zipCmp_swap as bs (fun x hx y hy => h x (by simp [hx]) y (by simp [hy]))
    unfold zipCmp
    rw [hab]
    cases hc : compareRec a b <;> simp [Ordering.swap, ih]

theorem zipCmp_eq_iff : ∀ (as bs : List Rec), zipCmp as bs = .eq ↔ as.map dataOf = bs.map dataOf
  | [], [] => by simp [zipCmp]
  | [], _ :: _ => by simp [zipCmp]
  | _ :: _, [] => by simp [zipCmp]
  | a :: as, b :: bs => by
    unfold zipCmp
    have ih := zipCmp_eq_iff as bs
    have hd := compareRec_eq_iff_data a b
    cases hc : compareRec a b
    · simp only [List.map_cons, List.cons.injEq]
      constructor
      · intro h; cases h
      · intro h; rw [hc] at hd; exact absurd (hd.mpr h.1) (by simp)
    · simp only [List.map_cons, List.cons.injEq]
      rw [hc] at hd
      simp [ih, hd.mp rfl]
    · simp only [List.map_cons, List.cons.injEq]
      constructor
      · intro h; cases h
      · intro h; rw [hc] at hd; exact absurd (hd.mpr h.1) (by simp)

/-- a prober whose records are a proper prefix of the other's yields (the length rule) -/
theorem zipCmp_prefix (as : List Rec) (b : Rec) (rest : List Rec) :
    zipCmp as (as ++ b :: rest) = .lt := by
  induction as with
  | nil => rfl
  | cons a as ih =>
    simp only [List.cons_append]
    unfold zipCmp
    rw [(compareRec_eq_iff a a).mpr ⟨rfl, rfl, rfl⟩]
    exact ih

/-! ### insert_record keeps the probe sorted -/

theorem cmpKey_swap (a b : Rec) : cmpKey b a = (cmpKey a b).swap := by
  unfold cmpKey
  rw [Ordering.swap_then, ← cmpNat_swap, ← cmpNat_swap]

theorem cmpKey_trans_le (a b c : Rec) (h1 : cmpKey a b ≠ .gt) (h2 : cmpKey b c ≠ .gt) :
    cmpKey a c ≠ .gt := by
  unfold cmpKey at *
  have e1 := cmpNat_lt_iff a.cls b.cls
  have e2 := cmpNat_eq_iff a.cls b.cls
  have e3 := cmpNat_gt_iff a.cls b.cls
  have f1 := cmpNat_lt_iff b.cls c.cls
  have f2 := cmpNat_eq_iff b.cls c.cls
  have f3 := cmpNat_gt_iff b.cls c.cls
  have g1 := cmpNat_lt_iff a.cls c.cls
  have g2 := cmpNat_eq_iff a.cls c.cls
  have g3 := cmpNat_gt_iff a.cls c.cls
  have e1' := cmpNat_lt_iff a.ty b.ty
  have e2' := cmpNat_eq_iff a.ty b.ty
  have e3' := cmpNat_gt_iff a.ty b.ty
  have f1' := cmpNat_lt_iff b.ty c.ty
  have f2' := cmpNat_eq_iff b.ty c.ty
  have f3' := cmpNat_gt_iff b.ty c.ty
  have g1' := cmpNat_lt_iff a.ty c.ty
  have g2' := cmpNat_eq_iff a.ty c.ty
  have g3' := cmpNat_gt_iff a.ty c.ty
  cases h : cmpNat a.cls b.cls <;> cases h' : cmpNat b.cls c.cls <;> cases h'' : cmpNat a.cls c.cls <;>
    cases k : cmpNat a.ty b.ty <;> cases k' : cmpNat b.ty c.ty <;> cases k'' : cmpNat a.ty c.ty <;>
    simp_all [Ordering.then] <;> omega

theorem sortedByKey_cons (a : Rec) (l : List Rec) :
    sortedByKey (a :: l) = true ↔ (∀ x ∈ l.head?, cmpKey a x ≠ .gt) ∧ sortedByKey l = true := by
  cases l with
  | nil => simp [sortedByKey]
  | cons b rest => simp [sortedByKey]

theorem insertSorted_head (r : Rec) (a : Rec) : ∀ (l : List Rec), cmpKey a r ≠ .gt →
    (∀ x ∈ l.head?, cmpKey a x ≠ .gt) → ∀ x ∈ (insertSorted r l).head?, cmpKey a x ≠ .gt
  | [], har, _ => by simp [insertSorted]; exact har
  | y :: ys, har, h => by
    unfold insertSorted
    by_cases hy : cmpKey y r = .gt
    · simp [hy]; exact har
    · simp [hy]; exact h y (by simp)

theorem insertSorted_sorted (r : Rec) : ∀ (l : List Rec), sortedByKey l = true →
    sortedByKey (insertSorted r l) = true
  | [], _ => by simp [insertSorted, sortedByKey]
  | x :: xs, h => by
    unfold insertSorted
    rw [sortedByKey_cons] at h
    by_cases hx : cmpKey x r = .gt
    · simp only [hx, beq_self_eq_true, ↓reduceIte]
      rw [sortedByKey_cons]
      refine ⟨?_, (sortedByKey_cons x xs).mpr h⟩
      intro y hy
      simp at hy
      subst hy
      rw [cmpKey_swap, hx]
      simp [Ordering.swap]
    · have hx' : (cmpKey x r == Ordering.gt) = false := by simp [hx]
      simp only [hx', Bool.false_eq_true, ↓reduceIte]
      rw [sortedByKey_cons]
      exact ⟨insertSorted_head r x xs hx h.1, insertSorted_sorted r xs h.2⟩

theorem insertSorted_perm (r : Rec) : ∀ (l : List Rec), (insertSorted r l).Perm (r :: l)
  | [] => by simp [insertSorted]
  | x :: xs => by
    unfold insertSorted
    by_cases hx : cmpKey x r = .gt
    · simp [hx]
    · have hx' : (cmpKey x r == Ordering.gt) = false := by simp [hx]
      simp only [hx', Bool.false_eq_true, ↓reduceIte]
      exact ((insertSorted_perm r xs).cons x).trans (List.Perm.swap r x xs)

/-! ### records that come out of the decoder are well-typed -/

theorem readRData_wellTyped (d : Pkt) (ty off len : Nat) (rd : RData) (o : Nat)
    (h : readRData d ty off len = .ok (some (rd, o))) (r : Rec) (hty : r.ty = ty) (hrd : r.rdata = rd) :
    wellTyped r = true := by
  unfold wellTyped
  rw [hty, hrd]
  unfold readRData at h
  repeat' split at h
  all_goals first
    | (simp at h; done)
    | (simp at h; obtain ⟨h1, _⟩ := h; subst h1; simp_all; try omega)

theorem readRR_wellTyped (d : Pkt) (resp : Bool) (off : Nat) (r : Rec) (o : Nat)
    (h : readRR d resp off = .ok (some r, o)) : wellTyped r = true := by
  unfold readRR at h
  repeat' split at h
  all_goals first
    | (simp at h; done)
    | (simp at h; obtain ⟨h1, _⟩ := h; subst h1
       exact readRData_wellTyped _ _ _ _ _ _ (by assumption) _ rfl rfl)

theorem readRRs_wellTyped (d : Pkt) (resp : Bool) : ∀ (count off : Nat) (rs : List Rec) (o : Nat),
    readRRs d resp count off = .ok (rs, o) → ∀ r ∈ rs, wellTyped r = true
  | 0, off, rs, o, h => by
    simp [readRRs] at h
    intro r hr
    rw [h.1] at hr
    cases hr
  | count + 1, off, rs, o, h => by
    unfold readRRs at h
    split at h
    · simp at h
    · simp at h
    · rename_i r0 o0 h0
      split at h
      · simp at h
      · simp at h
      · rename_i rs' o' h1
        simp at h
        intro r hr
        rw [← h.1] at hr
        rcases List.mem_append.mp hr with hr | hr
        · cases r0 with
          | none => cases hr
          | some r1 =>
            simp at hr
            subst hr
            exact readRR_wellTyped d resp off r o0 h0
        · exact readRRs_wellTyped d resp count o0 rs' o' h1 r hr

/-- Every record `DnsIncoming::new` returns has the type number its RDATA kind is decoded
    for: two decoded records of equal class and type are held by the same Rust struct. -/
theorem decode_wellTyped (d : Pkt) (m : Msg) (h : decode d = .ok m) :
    ∀ r ∈ m.answers ++ m.authorities ++ m.additionals, wellTyped r = true := by
  unfold decode at h
  repeat' split at h
  all_goals first
    | (simp at h; done)
    | skip
  simp at h
  subst h
  intro r hr
  simp only [List.mem_append] at hr
  rcases hr with (hr | hr) | hr
  · exact readRRs_wellTyped _ _ _ _ _ _ (by assumption) r hr
  · exact readRRs_wellTyped _ _ _ _ _ _ (by assumption) r hr
  · exact readRRs_wellTyped _ _ _ _ _ _ (by assumption) r hr

end Mdns.Compare
