import Mdns.Lemmas.ResponderSched
/-
  The two announcements inside the loop: a registered service stays registered (same data) and
  is not `Announced` while one of its unique records is inactive; in the iteration in which its
  probes end it is announced; one second later `RegisterResend` announces it again.
-/
namespace Mdns.Responder
open Mdns

/-! ### the service entry across iterations without commands -/

/-- `u` is `svc` up to the per-interface status -/
def UpToStatus (u svc : Service) : Prop := ∃ st, u = { svc with status := st }

theorem UpToStatus.refl (svc : Service) : UpToStatus svc svc := ⟨svc.status, rfl⟩

theorem UpToStatus.setStatus {u svc : Service} (h : UpToStatus u svc) (k : Nat) (x : Status) : UpToStatus (u.setStatus k x) svc := by
  obtain ⟨st, rfl⟩ := h
  exact ⟨aset k x st, rfl⟩

theorem UpToStatus.uniq {u svc : Service} (h : UpToStatus u svc) (i : MyIntf) (r : Registry) (v : Bool) :
    uniqueRecords u i r v = uniqueRecords svc i r v := by obtain ⟨st, rfl⟩ := h; rfl
theorem UpToStatus.addrs {u svc : Service} (h : UpToStatus u svc) (i : MyIntf) (v : Bool) : addrsOn u i v = addrsOn svc i v := by
  obtain ⟨st, rfl⟩ := h; rfl
theorem UpToStatus.probe {u svc : Service} (h : UpToStatus u svc) : u.probe = svc.probe := by obtain ⟨st, rfl⟩ := h; rfl
theorem UpToStatus.full {u svc : Service} (h : UpToStatus u svc) : u.fullname = svc.fullname := by obtain ⟨st, rfl⟩ := h; rfl
theorem UpToStatus.ptr {u svc : Service} (h : UpToStatus u svc) (t : BList) (ttl : Nat) : ptrRecords u t ttl = ptrRecords svc t ttl := by
  obtain ⟨st, rfl⟩ := h; rfl
theorem UpToStatus.announce {u svc : Service} (h : UpToStatus u svc) (t : BList) (recs : List RR) :
    announcePkt u t recs = announcePkt svc t recs := by obtain ⟨st, rfl⟩ := h; rfl

/-- the service is registered under `key` with the data of `svc` -/
def Entry (s : State) (key : BList) (svc : Service) : Prop := ∃ u, alookup key s.services = some u ∧ UpToStatus u svc

theorem Entry.congr {s s' : State} {key : BList} {svc : Service} (h : Entry s key svc) (e : s'.services = s.services) :
    Entry s' key svc := by
  obtain ⟨u, hu, hs⟩ := h
  exact ⟨u, by rw [e]; exact hu, hs⟩

/-- storing the current entry of some key with another status keeps every entry -/
theorem Entry.aset_status {l : List (BList × Service)} {key k : BList} {svc u0 : Service} (idx : Nat) (x : Status)
    (h : ∃ u, alookup key l = some u ∧ UpToStatus u svc) (h0 : alookup k l = some u0) :
    ∃ u, alookup key (aset k (u0.setStatus idx x) l) = some u ∧ UpToStatus u svc := by
  obtain ⟨u, hu, hs⟩ := h
  by_cases e : key = k
  · subst e
    rw [hu] at h0
    cases h0
    exact ⟨_, alookup_aset_self _ _ _, hs.setStatus idx x⟩
  · exact ⟨u, by rw [alookup_aset_ne _ _ _ _ e]; exact hu, hs⟩

theorem wakeService_entry (now j : Nat) (i : MyIntf) (acc : State × List Out) (name : BList) (key : BList) (svc : Service)
    (h : Entry acc.1 key svc) : Entry (wakeService now j i acc name).1 key svc := by
  unfold wakeService
  simp only []
  split
  · exact h
  · rename_i u0 h0
    split
    · exact h
    · split
      · exact Entry.aset_status i.index .announced h h0
      · exact h

theorem probingOnIntf_entry (now j : Nat) (acc : State × List Out) (i : MyIntf) (key : BList) (svc : Service)
    (h : Entry acc.1 key svc) : Entry (probingOnIntf now j acc i).1 key svc := by
  unfold probingOnIntf
  simp only []
  split
  · exact h
  · exact foldl_inv (fun (a : State × List Out) => Entry a.1 key svc) (wakeService now j i) _ (_, _) (h.congr rfl)
      (fun a nm _ ha => wakeService_entry now j i a nm key svc ha)

theorem probingHandler_entry (s : State) (now j : Nat) (key : BList) (svc : Service) (h : Entry s key svc) :
    Entry (probingHandler s now j).1 key svc := by
  unfold probingHandler
  exact foldl_inv (fun (a : State × List Out) => Entry a.1 key svc) (probingOnIntf now j) _ (s, []) h
    (fun a i _ ha => probingOnIntf_entry now j a i key svc ha)

theorem execRegisterResend_entry (s : State) (now j : Nat) (fullname : BList) (ifIdx : Nat) (key : BList) (svc : Service)
    (h : Entry s key svc) : Entry (execRegisterResend s now j fullname ifIdx).1 key svc := by
  unfold execRegisterResend
  split
  · rename_i u0 r0 i h0 _ _
    simp only []
    split
    · exact Entry.aset_status ifIdx .announced h h0
    · exact h.congr rfl
  · exact h

theorem execRerun_entry (now j : Nat) (acc : State × List Out) (r : ReRun) (key : BList) (svc : Service)
    (h : Entry acc.1 key svc) : Entry (execRerun now j acc r).1 key svc := by
  unfold execRerun
  cases r with
  | registerResend t f k => exact execRegisterResend_entry acc.1 now j f k key svc h
  | unregisterResend t p k v => exact h

theorem runReruns_entry (s : State) (now j : Nat) (key : BList) (svc : Service) (h : Entry s key svc) :
    Entry (runReruns s now j).1 key svc := by
  unfold runReruns
  exact foldl_inv (fun (a : State × List Out) => Entry a.1 key svc) (execRerun now j) _ (_, []) (h.congr rfl)
    (fun a r _ ha => execRerun_entry now j a r key svc ha)

theorem loopTail_entry (s : State) (now j : Nat) (key : BList) (svc : Service) (h : Entry s key svc) :
    Entry (loopTail s now j).1 key svc := by
  unfold loopTail
  exact (probingHandler_entry _ now j key svc (runReruns_entry s now j key svc h)).congr (runIpCheck_services _ now)

theorem iter_idle_entry (s : State) (now j : Nat) (key : BList) (svc : Service) (hrun : s.stopped = false)
    (h : Entry s key svc) : Entry (iter s (idle now j)).1 key svc := by
  rw [iter_idle s now j hrun]
  exact loopTail_entry _ now j key svc (h.congr rfl)

/-! ### the invariant over idle runs -/

theorem idle_plain (now j : Nat) : (idle now j).plain := ⟨fun _ h => by simp [idle] at h, fun _ h => by simp [idle] at h⟩

theorem idleRun_inv (j : Nat) (ts : List Nat) (s : State) (h : Inv s) : Inv (idleRun j s ts).1 := by
  induction ts generalizing s with
  | nil => exact h
  | cons t ts ih => exact ih _ (iter_inv s (idle t j) h (idle_plain t j))

/-! ### the interface is there once -/

/-- a record whose name's `active` entry is as in `r0` is active exactly as in `r0` -/
theorem isActive_of_act {r r0 : Registry} {a : RR} (h : alookup a.getName r.active = alookup a.getName r0.active) :
    r.isActive a = r0.isActive a := by
  simp [Registry.isActive, h]

/-- A registered service that requires probing is NOT `Announced` on the interface while a
    record that belongs to its unique records of BOTH families (SRV or TXT) is inactive there:
    the contrapositive of the invariant `SvcSound`. -/
theorem not_announced_of_inactive {s : State} {i : MyIntf} {l1 l2 : List MyIntf} (hinv : Inv s) (hi : IntfsOk s i l1 l2)
    {key : BList} {u svc : Service} (hu : alookup key s.services = some u) (hs : UpToStatus u svc) (hprobe : svc.probe = true)
    {a : RR} (ha : ∀ v, a ∈ uniqueRecords svc i (s.registry i.index) v) (hin : (s.registry i.index).isActive a = false) :
    u.announcedOn i.index = false := by
  cases hann : u.announcedOn i.index with
  | false => rfl
  | true =>
    obtain ⟨i', hi', hidx, v4, _, hall⟩ := hinv.sound _ (alookup_mem hu) (hs.probe.trans hprobe) i.index hann
    have := hi.unique hi' hidx
    subst this
    have := hall a (by rw [hs.uniq]; exact ha v4)
    rw [hin] at this
    cases this

/-! ### the iteration in which the probes end: the first announcement -/

theorem foldl_sinsert_mem (w : BList) : ∀ (l acc0 : List BList), w ∈ l ∨ w ∈ acc0 → w ∈ l.foldl (fun w x => sinsert x w) acc0 := by
  intro l
  induction l with
  | nil => intro acc0 h; simpa using h
  | cons x l ih =>
    intro acc0 h
    simp only [List.foldl_cons]
    apply ih
    rcases h with h | h
    · rcases List.mem_cons.mp h with rfl | h
      · exact Or.inr ((mem_sinsert _ _ _).mpr (Or.inl rfl))
      · exact Or.inl h
    · exact Or.inr ((mem_sinsert _ _ _).mpr (Or.inr h))

theorem expireProbe_waiting_mono (intfName : BList) (acc : Registry × List Event × List BList) (name w : BList)
    (h : w ∈ acc.2.2) : w ∈ (expireProbe intfName acc name).2.2 := by
  unfold expireProbe
  split
  · exact h
  · simp only []
    split
    · exact h
    · exact foldl_sinsert_mem w _ _ (Or.inr h)

/-- the services that waited for a probe with records are woken when it ends -/
theorem foldl_expire_waiting (intfName : BList) (n : BList) (p : Probe) (hrec : p.records ≠ []) :
    ∀ (expired : List BList) (acc : Registry × List Event × List BList), n ∈ expired →
      alookup n acc.1.probing = some p → NoRen acc.1 →
      ∀ w ∈ p.waiting, w ∈ (expired.foldl (expireProbe intfName) acc).2.2 := by
  intro expired
  induction expired with
  | nil => intro acc h; simp at h
  | cons name rest ih =>
    intro acc hin hl hnr w hw
    simp only [List.foldl_cons]
    by_cases e : name = n
    · subst e
      have h0 := (expireProbe_activates intfName acc name p hl hnr).2.2 hrec w hw
      exact foldl_inv (fun (b : Registry × List Event × List BList) => w ∈ b.2.2) (expireProbe intfName) rest _ h0
        (fun b nm _ hb => expireProbe_waiting_mono intfName b nm w hb)
    · have hin' : n ∈ rest := by
        rcases List.mem_cons.mp hin with h | h
        · exact absurd h.symm e
        · exact h
      have hl' : alookup n (expireProbe intfName acc name).1.probing = some p := by
        rcases expireProbe_probing intfName acc name with h | h
        · rw [h]; exact hl
        · rw [h, alookup_aerase_ne _ _ _ (fun x => e x.symm)]; exact hl
      exact ih _ hin' hl' (expireProbe_spec intfName acc name hnr).1 w hw

theorem wakeService_services_other (now j : Nat) (i : MyIntf) (acc : State × List Out) (name key : BList)
    (h : key ≠ lower name) : alookup key (wakeService now j i acc name).1.services = alookup key acc.1.services := by
  unfold wakeService
  simp only []
  split
  · rfl
  · split
    · rfl
    · split
      · exact alookup_aset_ne _ _ _ _ h
      · rfl

theorem wakeService_reruns_mono (now j : Nat) (i : MyIntf) (acc : State × List Out) (name : BList) (x : ReRun)
    (h : x ∈ acc.1.reruns) : x ∈ (wakeService now j i acc name).1.reruns := by
  unfold wakeService
  simp only []
  split
  · exact h
  · split
    · exact h
    · split
      · simp only [State.setRegistry, List.mem_append]; exact Or.inl h
      · exact h

/-- the service is registered under `key` with the data of `svc` and `Announced` on `idx` -/
def Announced (s : State) (key : BList) (svc : Service) (idx : Nat) : Prop :=
  ∃ u, alookup key s.services = some u ∧ UpToStatus u svc ∧ u.announcedOn idx = true

theorem Announced.aset_status {l : List (BList × Service)} {key k : BList} {svc u0 : Service} (idx idx' : Nat)
    (h : ∃ u, alookup key l = some u ∧ UpToStatus u svc ∧ u.announcedOn idx = true) (h0 : alookup k l = some u0) :
    ∃ u, alookup key (aset k (u0.setStatus idx' .announced) l) = some u ∧ UpToStatus u svc ∧ u.announcedOn idx = true := by
  obtain ⟨u, hu, hs, ha⟩ := h
  by_cases e : key = k
  · subst e
    rw [hu] at h0
    cases h0
    refine ⟨_, alookup_aset_self _ _ _, hs.setStatus idx' .announced, ?_⟩
    rw [announcedOn_setStatus]
    split
    · simp
    · exact ha
  · exact ⟨u, by rw [alookup_aset_ne _ _ _ _ e]; exact hu, hs, ha⟩

theorem wakeService_announced (now j : Nat) (i : MyIntf) (acc : State × List Out) (name key : BList) (svc : Service) (idx : Nat)
    (h : Announced acc.1 key svc idx) : Announced (wakeService now j i acc name).1 key svc idx := by
  unfold wakeService
  simp only []
  split
  · exact h
  · rename_i u0 h0
    split
    · exact h
    · split
      · exact Announced.aset_status idx i.index h h0
      · exact h

/-- what has happened once the service was announced in this `probing_handler` step -/
structure Sent (acc : State × List Out) (i : MyIntf) (svc : Service) (v4 : Bool) (U : List RR) (now : Nat) : Prop where
  packet : Out.send i.index v4 none (announcePkt svc svc.fullname U) ∈ acc.2
  status : Announced acc.1 (lower svc.fullname) svc i.index
  rerun : ReRun.registerResend (now + 1000) svc.fullname i.index ∈ acc.1.reruns

/-- waking the waiting services announces the service: while it is pending (registered, not
    announced on `i`) and its name is still to come in the list of woken names, and its unique
    records `U` are active in the registry of `i` (which has no renames) -/
theorem foldl_wake_announces (now j : Nat) (i : MyIntf) (svc : Service) (v4 : Bool) (hne : addrsOn svc i v4 ≠ []) :
    ∀ (names : List BList) (acc : State × List Out),
      (acc.1.registry i.index).nameChanges = [] →
      (∀ a ∈ uniqueRecords svc i {} v4, (acc.1.registry i.index).isActive a = true) →
      (Sent acc i svc v4 (uniqueRecords svc i {} v4) now ∨
        (svc.fullname ∈ names ∧ ∃ u, alookup (lower svc.fullname) acc.1.services = some u ∧ UpToStatus u svc ∧
          u.announcedOn i.index = false)) →
      Sent (names.foldl (wakeService now j i) acc) i svc v4 (uniqueRecords svc i {} v4) now := by
  intro names
  induction names with
  | nil =>
    intro acc _ _ h
    rcases h with h | ⟨h, _⟩
    · exact h
    · simp at h
  | cons nm rest ih =>
    intro acc hnc hact h
    simp only [List.foldl_cons]
    have hle := (wakeService_stle now j i acc nm).2 i.index
    have hnc' : ((wakeService now j i acc nm).1.registry i.index).nameChanges = [] := hle.1.trans hnc
    have hact' : ∀ a ∈ uniqueRecords svc i {} v4, ((wakeService now j i acc nm).1.registry i.index).isActive a = true :=
      fun a ha => hle.2 a (hact a ha)
    apply ih _ hnc' hact'
    rcases h with h | ⟨hin, u, hu, hs, hnot⟩
    · exact Or.inl ⟨wakeService_mono now j i acc nm _ h.packet, wakeService_announced now j i acc nm _ svc i.index h.status,
        wakeService_reruns_mono now j i acc nm _ h.rerun⟩
    · by_cases e : lower nm = lower svc.fullname
      · left
        have huniq : uniqueRecords u i (acc.1.registry i.index) v4 = uniqueRecords svc i {} v4 := by
          rw [hs.uniq]
          exact uniqueRecords_congr (r := {}) (r' := acc.1.registry i.index) hnc svc i v4
        have hres : (acc.1.registry i.index).resolveName u.fullname = svc.fullname := by
          simp [Registry.resolveName, hnc, alookup, hs.full]
        obtain ⟨hp, ⟨u', hu', ha'⟩, hr, _, _⟩ := wakeService_announces now j i acc nm u v4 (by rw [e]; exact hu) hnot
          (by rw [hs.addrs]; exact hne) (by rw [huniq]; exact hact)
        rw [huniq, hres, hs.announce] at hp
        refine ⟨hp, ⟨u', by rw [← e]; exact hu', ?_, ha'⟩, by rw [← hs.full]; exact hr⟩
        -- the stored entry is the old one with a status changed
        have hent := wakeService_entry now j i acc nm (lower svc.fullname) svc ⟨u, hu, hs⟩
        obtain ⟨u'', hu'', hs''⟩ := hent
        rw [← e] at hu''
        rw [hu'] at hu''
        cases hu''
        exact hs''
      · right
        have hnm : nm ≠ svc.fullname := fun x => e (by rw [x])
        refine ⟨?_, u, ?_, hs, hnot⟩
        · rcases List.mem_cons.mp hin with h | h
          · exact absurd h.symm hnm
          · exact h
        · rw [wakeService_services_other now j i acc nm _ (fun x => e x.symm)]
          exact hu

theorem srv_mem_unique (svc : Service) (i : MyIntf) (v4 : Bool) : ∃ a, a ∈ uniqueRecords svc i {} v4 := by
  unfold uniqueRecords
  exact ⟨_, List.mem_append.mpr (Or.inl (List.mem_cons_self ..))⟩

/-- the step of `probing_handler` for interface `i` in which the probes of ALL unique records of
    a pending service end: the service is announced -/
theorem probingOnIntf_announces (now j : Nat) (acc : State × List Out) (i : MyIntf) (svc u : Service) (v4 : Bool)
    (hpn : KeysNodup (acc.1.registry i.index).probing) (hnr : NoRen (acc.1.registry i.index))
    (hu : alookup (lower svc.fullname) acc.1.services = some u) (hs : UpToStatus u svc) (hnot : u.announcedOn i.index = false)
    (hne : addrsOn svc i v4 ≠ [])
    (hrecs : ∀ a ∈ uniqueRecords svc i {} v4, ∃ p b, alookup a.getName (acc.1.registry i.index).probing = some p ∧
      p.action now = .expire ∧ b ∈ p.records ∧ b.getName = a.getName ∧ a.matchesRR b = true ∧ svc.fullname ∈ p.waiting) :
    Sent (probingOnIntf now j acc i) i svc v4 (uniqueRecords svc i {} v4) now := by
  cases hreg : alookup i.index acc.1.registries with
  | none =>
    exfalso
    obtain ⟨a0, ha0⟩ := srv_mem_unique svc i v4
    obtain ⟨p, _, hp, _⟩ := hrecs a0 ha0
    have : acc.1.registry i.index = {} := by simp [State.registry, hreg]
    rw [this] at hp
    simp [alookup] at hp
  | some r =>
    have hr : acc.1.registry i.index = r := registry_of_lookup hreg
    rw [hr] at hpn hnr hrecs
    have hcpn := checkProbing_noRen hnr now
    have hexnr := (handleExpiredProbes_spec (checkProbing r now).expired i.name (checkProbing r now).reg hcpn).1
    -- every unique record is active after the probes were moved
    have hactive : ∀ a ∈ uniqueRecords svc i {} v4,
        (handleExpiredProbes (checkProbing r now).expired i.name (checkProbing r now).reg).1.isActive a = true := by
      intro a ha
      obtain ⟨p, b, hp, hexp, hb, hbn, hm, _⟩ := hrecs a ha
      have hin : a.getName ∈ (checkProbing r now).expired := by
        simp only [checkProbing, List.mem_map, List.mem_filter]
        exact ⟨(a.getName, p), ⟨alookup_mem hp, by simp [hexp]⟩, rfl⟩
      have hl' : alookup a.getName (checkProbing r now).reg.probing = some (p.step now) := by
        have hm' := alookup_mapVal a.getName (fun _ p => Probe.step p now) r.probing
        rw [checkProbing_probing, hm', hp]; rfl
      have := foldl_expire_activates i.name a.getName (p.step now) (checkProbing r now).expired
        ((checkProbing r now).reg, [], []) hin hl' hcpn b (by rw [Probe.step_records]; exact hb) hbn
      exact isActive_of_matches _ a b hm hbn.symm this
    -- the service is among the woken ones
    have hwoken : svc.fullname ∈ (handleExpiredProbes (checkProbing r now).expired i.name (checkProbing r now).reg).2.2 := by
      obtain ⟨a0, ha0⟩ := srv_mem_unique svc i v4
      obtain ⟨p, b, hp, hexp, hb, _, _, hw⟩ := hrecs a0 ha0
      have hin : a0.getName ∈ (checkProbing r now).expired := by
        simp only [checkProbing, List.mem_map, List.mem_filter]
        exact ⟨(a0.getName, p), ⟨alookup_mem hp, by simp [hexp]⟩, rfl⟩
      have hl' : alookup a0.getName (checkProbing r now).reg.probing = some (p.step now) := by
        have hm' := alookup_mapVal a0.getName (fun _ p => Probe.step p now) r.probing
        rw [checkProbing_probing, hm', hp]; rfl
      have hne' : (p.step now).records ≠ [] := by
        rw [Probe.step_records]; intro e; rw [e] at hb; simp at hb
      have hw' : svc.fullname ∈ (p.step now).waiting := by
        unfold Probe.step; split <;> exact hw
      exact foldl_expire_waiting i.name a0.getName (p.step now) hne' (checkProbing r now).expired
        ((checkProbing r now).reg, [], []) hin hl' hcpn _ hw'
    unfold probingOnIntf
    simp only [hreg]
    have e : ({ (acc.1.setRegistry i.index
        (handleExpiredProbes (checkProbing r now).expired i.name (checkProbing r now).reg).1) with
        timers := acc.1.timers ++ (checkProbing r now).timers } : State).registry i.index =
        (handleExpiredProbes (checkProbing r now).expired i.name (checkProbing r now).reg).1 :=
      registry_setRegistry_self _ _ _
    have hdrain : ∀ (x : State × List Out), Sent x i svc v4 (uniqueRecords svc i {} v4) now →
        Sent (drainNewTimers i.index x) i svc v4 (uniqueRecords svc i {} v4) now :=
      fun x hx => ⟨hx.packet, hx.status, hx.rerun⟩
    apply hdrain
    apply foldl_wake_announces now j i svc v4 hne
    · rw [e]; exact hexnr.1
    · rw [e]; exact hactive
    · exact Or.inr ⟨hwoken, u, hu, hs, hnot⟩

theorem probingOnIntf_announced (now j : Nat) (acc : State × List Out) (i : MyIntf) (key : BList) (svc : Service) (idx : Nat)
    (h : Announced acc.1 key svc idx) : Announced (probingOnIntf now j acc i).1 key svc idx := by
  unfold probingOnIntf
  simp only []
  split
  · exact h
  · exact foldl_inv (fun (a : State × List Out) => Announced a.1 key svc idx) (wakeService now j i) _ (_, _) h
      (fun a nm _ ha => wakeService_announced now j i a nm key svc idx ha)

theorem probingOnIntf_reruns_mono (now j : Nat) (acc : State × List Out) (i : MyIntf) (x : ReRun) (h : x ∈ acc.1.reruns) :
    x ∈ (probingOnIntf now j acc i).1.reruns := by
  unfold probingOnIntf
  simp only []
  split
  · exact h
  · exact foldl_inv (fun (a : State × List Out) => x ∈ a.1.reruns) (wakeService now j i) _ (_, _) h
      (fun a nm _ ha => wakeService_reruns_mono now j i a nm x ha)

theorem Sent.step {acc : State × List Out} {i : MyIntf} {svc : Service} {v4 : Bool} {U : List RR} {now : Nat}
    (h : Sent acc i svc v4 U now) (j : Nat) (i' : MyIntf) : Sent (probingOnIntf now j acc i') i svc v4 U now :=
  ⟨probingOnIntf_mono now j acc i' _ h.packet, probingOnIntf_announced now j acc i' _ svc i.index h.status,
    probingOnIntf_reruns_mono now j acc i' _ h.rerun⟩

/-- `probing_handler` in the iteration in which the probes of all unique records of a registered,
    not yet announced service end on interface `i`: the service is announced there -/
theorem probingHandler_announces (s : State) (now j : Nat) (i : MyIntf) (l1 l2 : List MyIntf) (hi : IntfsOk s i l1 l2)
    (svc : Service) (v4 : Bool) (hinv : Inv s) (hent : Entry s (lower svc.fullname) svc) (hprobe : svc.probe = true)
    (hpn : KeysNodup (s.registry i.index).probing) (hnr : NoRen (s.registry i.index)) (hne : addrsOn svc i v4 ≠ [])
    (a0 : RR) (ha0 : ∀ v, a0 ∈ uniqueRecords svc i (s.registry i.index) v) (hin0 : (s.registry i.index).isActive a0 = false)
    (hrecs : ∀ a ∈ uniqueRecords svc i {} v4, ∃ p b, alookup a.getName (s.registry i.index).probing = some p ∧
      p.action now = .expire ∧ b ∈ p.records ∧ b.getName = a.getName ∧ a.matchesRR b = true ∧ svc.fullname ∈ p.waiting) :
    Sent (probingHandler s now j) i svc v4 (uniqueRecords svc i {} v4) now := by
  unfold probingHandler
  rw [hi.split, List.foldl_append, List.foldl_cons]
  -- phase 1: the other interfaces before `i`
  have h1 := foldl_inv (fun (a : State × List Out) => a.1.registry i.index = s.registry i.index ∧ Inv a.1 ∧
      a.1.intfs = s.intfs ∧ Entry a.1 (lower svc.fullname) svc)
    (probingOnIntf now j) l1 (s, []) ⟨rfl, hinv, rfl, hent⟩
    (fun a i' hi' ha => by
      have hne' : i'.index ≠ i.index := hi.other i' (List.mem_append.mpr (Or.inl hi'))
      have hmem : i' ∈ a.1.intfs := by rw [ha.2.2.1, hi.split]; exact List.mem_append.mpr (Or.inl hi')
      obtain ⟨hinv', hintfs'⟩ := probingOnIntf_inv now j a i' ha.2.1 hmem
      exact ⟨(probingOnIntf_registry_other now j a i' i.index hne').trans ha.1, hinv', hintfs'.trans ha.2.2.1,
        probingOnIntf_entry now j a i' _ svc ha.2.2.2⟩)
  obtain ⟨hr1, hinv1, hintfs1, ⟨u, hu, hs⟩⟩ := h1
  have hi1 : IntfsOk (l1.foldl (probingOnIntf now j) (s, [])).1 i l1 l2 := ⟨hintfs1.trans hi.split, hi.other⟩
  have hnot : u.announcedOn i.index = false :=
    not_announced_of_inactive hinv1 hi1 hu hs hprobe (by rw [hr1]; exact ha0) (by rw [hr1]; exact hin0)
  -- phase 2: `i`
  have h2 := probingOnIntf_announces now j (l1.foldl (probingOnIntf now j) (s, [])) i svc u v4
    (by rw [hr1]; exact hpn) (by rw [hr1]; exact hnr) hu hs hnot hne (by rw [hr1]; exact hrecs)
  -- phase 3
  exact foldl_inv (fun (a : State × List Out) => Sent a i svc v4 (uniqueRecords svc i {} v4) now) (probingOnIntf now j) l2 _ h2
    (fun a i' _ ha => ha.step j i')

/-! ### the first announcement through `iter` -/

/-- every unique record of the family is being probed, fresh enough to end at `T + 750`:
    for each there is a watched probe (a `Good` bundle) holding a matching record and the
    service among the waiting ones, and the record was not active when its probe began -/
def AllProbed (s : State) (i : MyIntf) (l1 l2 : List MyIntf) (svc : Service) (v4 : Bool) (T nx : Nat) : Prop :=
  ∀ a ∈ uniqueRecords svc i {} v4, ∃ b A, a.matchesRR b = true ∧ b.getName = a.getName ∧
    ((A.getD []).any (a.matchesRR ·)) = false ∧
    Good s i l1 l2 a.getName T nx ⟨[b], [svc.fullname], A⟩

theorem Inv.congr_regs {s s' : State} (h : Inv s) (hi : s'.intfs = s.intfs) (hr : s'.registries = s.registries)
    (hs : s'.services = s.services) : Inv s' :=
  Inv.step h (StLe.of_eq hi hr) (fun idx => by rw [registry_congr hr]; exact h.noRen idx) (fun e he => Or.inl (hs ▸ he))

/-- FIRST ANNOUNCEMENT IN THE DAEMON: the idle iteration at `T + 750` - when the probes of all
    unique records of a registered service (started at `T`, next send due at `T + 750`) end -
    sends the announcement on interface `i` over the family, marks the service `Announced` and
    queues `RegisterResend` for `T + 1750`. -/
theorem iter_idle_announces (s : State) (i : MyIntf) (l1 l2 : List MyIntf) (svc : Service) (v4 : Bool) (T j : Nat)
    (hinv : Inv s) (hent : Entry s (lower svc.fullname) svc) (hprobe : svc.probe = true) (hne : addrsOn svc i v4 ≠ [])
    (a0 : RR) (ha0 : ∀ v, a0 ∈ uniqueRecords svc i {} v)
    (hall : AllProbed s i l1 l2 svc v4 T (T + 750)) :
    Out.send i.index v4 none (announcePkt svc svc.fullname (uniqueRecords svc i {} v4)) ∈ (iter s (idle (T + 750) j)).2 ∧
    Announced (iter s (idle (T + 750) j)).1 (lower svc.fullname) svc i.index ∧
    ReRun.registerResend (T + 750 + 1000) svc.fullname i.index ∈ (iter s (idle (T + 750) j)).1.reruns := by
  -- the bundle of the record that is in both families
  obtain ⟨b0, A0, _, _, hA0, hg0⟩ := hall a0 (ha0 v4)
  have hrun := hg0.running
  rw [iter_idle s (T + 750) j hrun]
  unfold loopTail
  -- after the re-runs
  obtain ⟨hw0, _, hi4, _, _⟩ := runReruns_keeps { s with timers := s.timers.filter (· > T + 750) } (T + 750) j i.index
    a0.getName T (T + 750) _ (hg0.watch.congr rfl rfl rfl) hg0.reruns
  have hinv2 : Inv ({ s with timers := s.timers.filter (· > T + 750) } : State) := hinv.congr_regs rfl rfl rfl
  have hinv4 := (runReruns_inv _ (T + 750) j hinv2).1
  have hent4 := runReruns_entry { s with timers := s.timers.filter (· > T + 750) } (T + 750) j _ svc (hent.congr rfl)
  have hintfs4 : IntfsOk (runReruns { s with timers := s.timers.filter (· > T + 750) } (T + 750) j).1 i l1 l2 :=
    ⟨hi4.trans hg0.intfs.split, hg0.intfs.other⟩
  have hnc4 := hw0.noRen.1
  have huq : ∀ v, uniqueRecords svc i ((runReruns { s with timers := s.timers.filter (· > T + 750) } (T + 750) j).1.registry i.index) v =
      uniqueRecords svc i {} v := fun v => uniqueRecords_congr (r := {}) hnc4 svc i v
  have hin0 : ((runReruns { s with timers := s.timers.filter (· > T + 750) } (T + 750) j).1.registry i.index).isActive a0 = false := by
    unfold Registry.isActive
    rw [hw0.act]
    exact hA0
  have hrecs : ∀ a ∈ uniqueRecords svc i {} v4, ∃ p b,
      alookup a.getName ((runReruns { s with timers := s.timers.filter (· > T + 750) } (T + 750) j).1.registry i.index).probing = some p ∧
      p.action (T + 750) = .expire ∧ b ∈ p.records ∧ b.getName = a.getName ∧ a.matchesRR b = true ∧ svc.fullname ∈ p.waiting := by
    intro a ha
    obtain ⟨b, A, hm, hbn, _, hg⟩ := hall a ha
    obtain ⟨hw, _, _, _, _⟩ := runReruns_keeps { s with timers := s.timers.filter (· > T + 750) } (T + 750) j i.index
      a.getName T (T + 750) _ (hg.watch.congr rfl rfl rfl) hg.reruns
    obtain ⟨p, hp, hst, hnx, hrec, hwt⟩ := hw.probe
    refine ⟨p, b, hp, ?_, hrec b (by simp), hbn, hm, hwt _ (by simp)⟩
    rw [action_of_times hst hnx (T + 750)]
    simp
  have hsent := probingHandler_announces _ (T + 750) j i l1 l2 hintfs4 svc v4 hinv4 hent4 hprobe hw0.pn hw0.noRen hne a0
    (fun v => by rw [huq]; exact ha0 v) hin0 hrecs
  obtain ⟨e1, e2, e3, e4⟩ := runIpCheck_registries
    (probingHandler (runReruns { s with timers := s.timers.filter (· > T + 750) } (T + 750) j).1 (T + 750) j).1 (T + 750)
  refine ⟨List.mem_append.mpr (Or.inr hsent.packet), ?_, by rw [e4]; exact hsent.rerun⟩
  obtain ⟨u, hu, hs, ha⟩ := hsent.status
  exact ⟨u, by rw [runIpCheck_services]; exact hu, hs, ha⟩

/-! ### from the first announcement to the second -/

theorem execRegisterResend_announced (s : State) (now j : Nat) (fullname : BList) (ifIdx : Nat) (key : BList) (svc : Service)
    (idx : Nat) (h : Announced s key svc idx) : Announced (execRegisterResend s now j fullname ifIdx).1 key svc idx := by
  unfold execRegisterResend
  split
  · rename_i u0 r0 i h0 _ _
    simp only []
    split
    · exact Announced.aset_status idx ifIdx h h0
    · exact h
  · exact h

theorem execRerun_announced (now j : Nat) (acc : State × List Out) (r : ReRun) (key : BList) (svc : Service) (idx : Nat)
    (h : Announced acc.1 key svc idx) : Announced (execRerun now j acc r).1 key svc idx := by
  unfold execRerun
  cases r with
  | registerResend t f k => exact execRegisterResend_announced acc.1 now j f k key svc idx h
  | unregisterResend t p k v => exact h

theorem execRerun_mono (now j : Nat) (acc : State × List Out) (r : ReRun) (o : Out) (h : o ∈ acc.2) :
    o ∈ (execRerun now j acc r).2 := by
  unfold execRerun
  cases r <;> exact List.mem_append.mpr (Or.inl h)

theorem runReruns_announced (s : State) (now j : Nat) (key : BList) (svc : Service) (idx : Nat) (h : Announced s key svc idx) :
    Announced (runReruns s now j).1 key svc idx := by
  unfold runReruns
  exact foldl_inv (fun (a : State × List Out) => Announced a.1 key svc idx) (execRerun now j) _ (_, []) h
    (fun a r _ ha => execRerun_announced now j a r key svc idx ha)

theorem probingHandler_announced (s : State) (now j : Nat) (key : BList) (svc : Service) (idx : Nat) (h : Announced s key svc idx) :
    Announced (probingHandler s now j).1 key svc idx := by
  unfold probingHandler
  exact foldl_inv (fun (a : State × List Out) => Announced a.1 key svc idx) (probingOnIntf now j) _ (s, []) h
    (fun a i _ ha => probingOnIntf_announced now j a i key svc idx ha)

theorem probingHandler_reruns_mono (s : State) (now j : Nat) (x : ReRun) (h : x ∈ s.reruns) :
    x ∈ (probingHandler s now j).1.reruns := by
  unfold probingHandler
  exact foldl_inv (fun (a : State × List Out) => x ∈ a.1.reruns) (probingOnIntf now j) _ (s, []) h
    (fun a i _ ha => probingOnIntf_reruns_mono now j a i x ha)

theorem execRerun_reruns (now j : Nat) (acc : State × List Out) (r : ReRun) : (execRerun now j acc r).1.reruns = acc.1.reruns := by
  unfold execRerun
  cases r with
  | registerResend t f k =>
    simp only []
    unfold execRegisterResend
    split
    · simp only []
      split <;> rfl
    · rfl
  | unregisterResend t p k v => rfl

theorem runReruns_reruns (s : State) (now j : Nat) :
    (runReruns s now j).1.reruns = s.reruns.filter (fun r => !decide (now ≥ r.next)) := by
  unfold runReruns
  exact foldl_inv (fun (a : State × List Out) => a.1.reruns = s.reruns.filter (fun r => !decide (now ≥ r.next)))
    (execRerun now j) _ (_, []) rfl (fun a r _ ha => (execRerun_reruns now j a r).trans ha)

/-- the daemon after the first announcement, before the second: runs, `i` there once, the
    invariant, the service `Announced` on `i`, and its `RegisterResend` for `t2` still queued -/
structure After (s : State) (i : MyIntf) (l1 l2 : List MyIntf) (svc : Service) (t2 : Nat) : Prop where
  running : s.stopped = false
  intfs : IntfsOk s i l1 l2
  inv : Inv s
  announced : Announced s (lower svc.fullname) svc i.index
  rerun : ReRun.registerResend t2 svc.fullname i.index ∈ s.reruns

theorem runReruns_intfs (s0 : State) (now j : Nat) : (runReruns s0 now j).1.intfs = s0.intfs := by
  unfold runReruns
  refine foldl_inv (fun (a : State × List Out) => a.1.intfs = s0.intfs) (execRerun now j) _ (_, []) rfl ?_
  intro a r _ ha
  unfold execRerun
  cases r with
  | registerResend t f k =>
    simp only []
    unfold execRegisterResend
    split
    · simp only []
      split <;> exact ha
    · exact ha
  | unregisterResend t p k v => exact ha

theorem loopTail_frame (s : State) (now j : Nat) :
    (loopTail s now j).1.intfs = s.intfs ∧ (loopTail s now j).1.stopped = s.stopped := by
  unfold loopTail
  obtain ⟨_, e2, e3, _⟩ := runIpCheck_registries (probingHandler (runReruns s now j).1 now j).1 now
  obtain ⟨f1, f2⟩ := probingHandler_frame (runReruns s now j).1 now j
  exact ⟨e2.trans (f1.trans (runReruns_intfs s now j)), e3.trans (f2.trans (runReruns_stopped s now j))⟩

/-- an idle iteration before the re-run is due keeps the bundle -/
theorem After.step {s : State} {i : MyIntf} {l1 l2 : List MyIntf} {svc : Service} {t2 : Nat} (h : After s i l1 l2 svc t2)
    (now j : Nat) (hlt : now < t2) : After (iter s (idle now j)).1 i l1 l2 svc t2 := by
  have hinv' := iter_inv s (idle now j) h.inv (idle_plain now j)
  rw [iter_idle s now j h.running] at hinv' ⊢
  obtain ⟨f1, f2⟩ := loopTail_frame { s with timers := s.timers.filter (· > now) } now j
  refine ⟨f2.trans h.running, ⟨f1.trans h.intfs.split, h.intfs.other⟩, hinv', ?_, ?_⟩
  · unfold loopTail
    obtain ⟨u, hu, hs, ha⟩ := probingHandler_announced _ now j _ svc i.index
      (runReruns_announced { s with timers := s.timers.filter (· > now) } now j _ svc i.index h.announced)
    exact ⟨u, by rw [runIpCheck_services]; exact hu, hs, ha⟩
  · unfold loopTail
    obtain ⟨_, _, _, e4⟩ := runIpCheck_registries
      (probingHandler (runReruns { s with timers := s.timers.filter (· > now) } now j).1 now j).1 now
    rw [e4]
    apply probingHandler_reruns_mono
    rw [runReruns_reruns]
    simp only [List.mem_filter]
    refine ⟨h.rerun, ?_⟩
    simp [ReRun.next]
    omega

theorem After.run {i : MyIntf} {l1 l2 : List MyIntf} {svc : Service} {t2 : Nat} (j : Nat) :
    ∀ (ts : List Nat) (s : State), After s i l1 l2 svc t2 → (∀ t ∈ ts, t < t2) → After (idleRun j s ts).1 i l1 l2 svc t2 := by
  intro ts
  induction ts with
  | nil => intro s h _; exact h
  | cons t ts ih =>
    intro s h hts
    exact ih _ (h.step t j (hts t (by simp))) (fun x hx => hts x (List.mem_cons_of_mem _ hx))

/-! ### the second announcement through `iter` -/

/-- the announcement went out again on `i` over some family in which the service has an address -/
def SentAgain (outs : List Out) (i : MyIntf) (svc : Service) : Prop :=
  ∃ v4, addrsOn svc i v4 ≠ [] ∧
    Out.send i.index v4 none (announcePkt svc svc.fullname (uniqueRecords svc i {} v4)) ∈ outs

/-- executing the queued `RegisterResend` of an announced service (requires probing) sends the
    announcement again - the registry is there and has no renames by the invariant -/
theorem execRegisterResend_again (s : State) (now j : Nat) (i : MyIntf) (l1 l2 : List MyIntf) (svc : Service)
    (hinv : Inv s) (hi : IntfsOk s i l1 l2) (hprobe : svc.probe = true)
    (hann : Announced s (lower svc.fullname) svc i.index) :
    SentAgain (execRegisterResend s now j svc.fullname i.index).2 i svc := by
  obtain ⟨u, hu, hs, ha⟩ := hann
  have hsound := hinv.sound _ (alookup_mem hu)
  -- the registry of `i` is in the map: otherwise nothing could be active in it
  obtain ⟨i', hi', hidx, v0, _, hall0⟩ := hsound (hs.probe.trans hprobe) i.index ha
  have hii := hi.unique hi' hidx
  subst hii
  cases hreg : alookup i'.index s.registries with
  | none =>
    exfalso
    have hr : s.registry i'.index = {} := by simp [State.registry, hreg]
    obtain ⟨a0, ha0⟩ := srv_mem_unique u i' v0
    have := hall0 a0 (by rw [hr]; exact ha0)
    rw [hr] at this
    simp [Registry.isActive, alookup] at this
  | some r0 =>
    obtain ⟨v4, hne, hsend⟩ := registerResend_announces s now j svc.fullname i' u r0 hu hreg hi.find
      (fun x hx hxi => hi.unique hx hxi) (hs.probe.trans hprobe) ha hsound
    have hnc : r0.nameChanges = [] := by
      have := (hinv.noRen i'.index).1
      rwa [registry_of_lookup hreg] at this
    refine ⟨v4, by rw [← hs.addrs]; exact hne, ?_⟩
    have huniq : uniqueRecords u i' r0 v4 = uniqueRecords svc i' {} v4 := by
      rw [hs.uniq]; exact uniqueRecords_congr (r := {}) hnc svc i' v4
    have hres : r0.resolveName u.fullname = svc.fullname := by
      simp [Registry.resolveName, hnc, alookup, hs.full]
    rw [huniq, hres, hs.announce] at hsend
    exact hsend

theorem foldl_rerun_again (now j : Nat) (i : MyIntf) (l1 l2 : List MyIntf) (svc : Service) (t2 : Nat) (hprobe : svc.probe = true) :
    ∀ (due : List ReRun) (acc : State × List Out), Inv acc.1 → IntfsOk acc.1 i l1 l2 →
      Announced acc.1 (lower svc.fullname) svc i.index →
      (SentAgain acc.2 i svc ∨ ReRun.registerResend t2 svc.fullname i.index ∈ due) →
      SentAgain (due.foldl (execRerun now j) acc).2 i svc := by
  intro due
  induction due with
  | nil =>
    intro acc _ _ _ h
    rcases h with h | h
    · exact h
    · simp at h
  | cons x rest ih =>
    intro acc hinv hi hann h
    simp only [List.foldl_cons]
    obtain ⟨hinv', hintfs'⟩ := execRerun_inv now j acc x hinv
    have hi' : IntfsOk (execRerun now j acc x).1 i l1 l2 := ⟨hintfs'.trans hi.split, hi.other⟩
    apply ih _ hinv' hi' (execRerun_announced now j acc x _ svc i.index hann)
    rcases h with ⟨v4, hne, hm⟩ | hin
    · exact Or.inl ⟨v4, hne, execRerun_mono now j acc x _ hm⟩
    · rcases List.mem_cons.mp hin with heq | hrest
      · left
        subst heq
        obtain ⟨v4, hne, hm⟩ := execRegisterResend_again acc.1 now j i l1 l2 svc hinv hi hprobe hann
        exact ⟨v4, hne, by unfold execRerun; exact List.mem_append.mpr (Or.inr hm)⟩
      · exact Or.inr hrest

/-- SECOND ANNOUNCEMENT IN THE DAEMON: the idle iteration at the time the queued `RegisterResend`
    is due (or any later one that still finds it) sends the announcement again. -/
theorem iter_idle_reannounces {s : State} {i : MyIntf} {l1 l2 : List MyIntf} {svc : Service} {t2 : Nat}
    (h : After s i l1 l2 svc t2) (hprobe : svc.probe = true) (now j : Nat) (hdue : now ≥ t2) :
    SentAgain (iter s (idle now j)).2 i svc := by
  rw [iter_idle s now j h.running]
  unfold loopTail
  have hinv2 : Inv ({ s with timers := s.timers.filter (· > now) } : State) := h.inv.congr_regs rfl rfl rfl
  have h0 : Inv ({ ({ s with timers := s.timers.filter (· > now) } : State) with
      reruns := s.reruns.filter (fun r => !decide (now ≥ r.next)) } : State) := hinv2.congr_regs rfl rfl rfl
  have := foldl_rerun_again now j i l1 l2 svc t2 hprobe (s.reruns.filter (fun r => decide (now ≥ r.next)))
    ({ ({ s with timers := s.timers.filter (· > now) } : State) with
        reruns := s.reruns.filter (fun r => !decide (now ≥ r.next)) }, []) h0 ⟨h.intfs.split, h.intfs.other⟩ h.announced
    (Or.inr (by
      simp only [List.mem_filter]
      exact ⟨h.rerun, by simp [ReRun.next]; omega⟩))
  obtain ⟨v4, hne, hm⟩ := this
  refine ⟨v4, hne, List.mem_append.mpr (Or.inl ?_)⟩
  unfold runReruns
  exact hm

/-! ### glue for the whole life cycle -/

theorem iter_idle_entry' (s : State) (now j : Nat) (key : BList) (svc : Service) (h : Entry s key svc) :
    Entry (iter s (idle now j)).1 key svc := by
  cases hs : s.stopped with
  | false => exact iter_idle_entry s now j key svc hs h
  | true =>
    have : iter s (idle now j) = (s, []) := by unfold iter; simp [hs]
    rw [this]; exact h

theorem idleRun_entry (j : Nat) (key : BList) (svc : Service) :
    ∀ (ts : List Nat) (s : State), Entry s key svc → Entry (idleRun j s ts).1 key svc := by
  intro ts
  induction ts with
  | nil => intro s h; exact h
  | cons t ts ih => intro s h; exact ih _ (iter_idle_entry' s t j key svc h)

/-- from the fresh probe to the state before the iteration at `T + 750` (timely scheduler) -/
theorem idleRun_to_end (j : Nat) (i : MyIntf) (l1 l2 : List MyIntf) (n : BList) (T : Nat) (R : Cargo) (s : State)
    (h : Good s i l1 l2 n T T R) (hfam : ∃ v4, i.hasFamily v4 = true) (pre0 pre1 pre2 pre3 : List Nat)
    (h0 : ∀ t ∈ pre0, t < T) (h1 : ∀ t ∈ pre1, t < T + 250) (h2 : ∀ t ∈ pre2, t < T + 500) (h3 : ∀ t ∈ pre3, t < T + 750) :
    Good (idleRun j s ((pre0 ++ [T]) ++ ((pre1 ++ [T + 250]) ++ ((pre2 ++ [T + 500]) ++ pre3)))).1 i l1 l2 n T (T + 750) R := by
  obtain ⟨g1, _⟩ := idleRun_phase j i l1 l2 n T T R s pre0 h (by omega) hfam h0
  obtain ⟨g2, _⟩ := idleRun_phase j i l1 l2 n T (T + 250) R _ pre1 g1 (by omega) hfam h1
  obtain ⟨g3, _⟩ := idleRun_phase j i l1 l2 n T (T + 250 + 250) R _ pre2 g2 (by omega) hfam (by simpa [Nat.add_assoc] using h2)
  obtain ⟨g4, _⟩ := idleRun_skip j i l1 l2 n T (T + 250 + 250 + 250) R pre3 _ g3 (by simpa [Nat.add_assoc] using h3)
  have e500 : T + 500 = T + 250 + 250 := by omega
  have e750 : T + 750 = T + 250 + 250 + 250 := by omega
  rw [e500, e750, idleRun_append, idleRun_append, idleRun_append]
  exact g4

theorem sendUnsolicited_upToStatus (s : State) (svc : Service) (now j : Nat) : UpToStatus (sendUnsolicited s svc now j).svc svc := by
  unfold sendUnsolicited
  simp only []
  refine foldl_inv (fun (u : Unsol) => UpToStatus u.svc svc) (unsolOnIntf now j) _ { state := s, svc := svc } (UpToStatus.refl svc) ?_
  intro u i _ hu
  unfold unsolOnIntf
  simp only []
  split <;> exact hu.setStatus _ _

/-- after the iteration that processed `register(svc)` the service is registered under its lower-cased name -/
theorem registration_entry (s : State) (svc : Service) (now j : Nat) (hrun : s.stopped = false)
    (hlen : Names.checkServiceNameLength svc.ty s.nameLenMax = .ok ()) (hauto : svc.addrAuto = false) :
    Entry (iter s { now := now, jitter := j, cmds := [.register svc] }).1 (lower svc.fullname) svc := by
  rw [iter_register s svc now j hrun, registerService_eq { s with timers := s.timers.filter (· > now) } svc now j hlen hauto]
  apply loopTail_entry
  unfold registerChecked
  exact ⟨_, alookup_aset_self _ _ _, sendUnsolicited_upToStatus _ svc now j⟩

/-- the SRV record is a unique record in both families -/
def srvOf (svc : Service) : RR :=
  { name := svc.fullname, ty := TYPE_SRV, flush := true, ttl := TTL_HOST, rdata := .srv 0 0 svc.port svc.host }

theorem srvOf_mem (svc : Service) (i : MyIntf) (v : Bool) : srvOf svc ∈ uniqueRecords svc i {} v := by
  unfold uniqueRecords srvOf
  simp [Registry.resolveName, alookup, withChange]

theorem iter_idle_running (s : State) (now j : Nat) (h : s.stopped = false) : (iter s (idle now j)).1.stopped = false := by
  rw [iter_idle s now j h]
  exact (loopTail_frame _ now j).2.trans h

theorem iter_idle_intfs (s : State) (now j : Nat) (h : s.stopped = false) : (iter s (idle now j)).1.intfs = s.intfs := by
  rw [iter_idle s now j h]
  exact (loopTail_frame _ now j).1

end Mdns.Responder
