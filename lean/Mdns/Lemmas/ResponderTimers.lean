import Mdns.Lemmas.ResponderSched
/-
  C12 on the responder model, registry part: every operation on a `DnsRegistry` keeps every
  probe's `next_send` covered - by a timer of the daemon, by an entry of the registry's own
  `new_timers` (armed by `probing_handler` before the iteration ends), or (between
  `pop_timers_till` and `probing_handler`) by being due already.
-/
namespace Mdns.Responder
open Mdns

/-- The timers `ts` cover the probes of registry `r`, except those due before `b`: the
    `next_send` of every probe is a timer, or waits in the registry's `new_timers`, or lies
    before `b` (`b = 0` before `pop_timers_till`; `b = now + 1` between `pop_timers_till` and
    `probing_handler`, which looks at every probe that is due). -/
def RCov (ts : List Nat) (b : Nat) (r : Registry) : Prop :=
  ∀ e ∈ r.probing, e.2.next ∈ ts ∨ e.2.next ∈ r.newTimers ∨ e.2.next < b

theorem RCov.mono {ts ts' : List Nat} {b b' : Nat} {r : Registry} (h : RCov ts b r) (hs : ∀ t ∈ ts, t ∈ ts')
    (hb : b ≤ b') : RCov ts' b' r := by
  intro e he
  rcases h e he with h1 | h1 | h1
  · exact Or.inl (hs _ h1)
  · exact Or.inr (Or.inl h1)
  · exact Or.inr (Or.inr (by omega))

theorem RCov.sup {ts ts' : List Nat} {b : Nat} {r : Registry} (h : RCov ts b r) (hs : ∀ t ∈ ts, t ∈ ts') :
    RCov ts' b r := h.mono hs (Nat.le_refl b)

theorem RCov.empty (ts : List Nat) (b : Nat) : RCov ts b {} := fun _ h => by cases h

/-- the same probes up to the fields that are not times, the same `new_timers` -/
theorem RCov.congr {ts : List Nat} {b : Nat} {r r' : Registry} (h : RCov ts b r)
    (hp : ∀ e ∈ r'.probing, ∃ e0 ∈ r.probing, e0.2.next = e.2.next) (hn : r'.newTimers = r.newTimers) : RCov ts b r' := by
  intro e he
  obtain ⟨e0, he0, heq⟩ := hp e he
  rw [← heq, hn]
  exact h e0 he0

/-! ### `is_probing_done` / `prepare_announce`: the times go to `new_timers` -/

theorem probeInsert_cov {ts : List Nat} {b : Nat} {r : Registry} (h : RCov ts b r) (a : RR) (n : BList) (t : Nat) :
    RCov ts b (r.probeInsert a n t) := by
  intro e he
  simp only [Registry.probeInsert] at he ⊢
  rcases mem_aset he with rfl | hold
  · right; left
    simp only [List.mem_append, List.mem_cons]
    rcases Probe.join_times ((alookup a.getName r.probing).getD (Probe.new t)) a n t with ⟨_, h2, _⟩ | ⟨_, h2, h3⟩
    · exact Or.inr (Or.inl h2)
    · right; right
      simp only [h3, if_true, List.mem_singleton]
      exact h2
  · rcases h e hold with h1 | h1 | h1
    · exact Or.inl h1
    · right; left
      exact List.mem_append_left _ h1
    · exact Or.inr (Or.inr h1)

theorem probingDoneReg_cov {ts : List Nat} {b : Nat} {r : Registry} (h : RCov ts b r) (a : RR) (n : BList) (t : Nat) :
    RCov ts b (r.probingDoneReg a n t) := by
  unfold Registry.probingDoneReg
  split
  · exact h
  · exact probeInsert_cov h a n t

theorem prepareAnnounceReg_cov {ts : List Nat} {b : Nat} {r : Registry} (h : RCov ts b r) (s : Service) (i : MyIntf)
    (v4 : Bool) (now j : Nat) : RCov ts b (prepareAnnounceReg s i r v4 now j) := by
  unfold prepareAnnounceReg
  split
  · exact h
  · split
    · exact h
    · exact foldl_inv (fun (x : Registry) => RCov ts b x) _ _ _ h (fun x a _ hx => probingDoneReg_cov hx a _ _)

/-- both families of `announce_service_on_intf` -/
theorem announce_pair_cov {ts : List Nat} {b : Nat} {r : Registry} (h : RCov ts b r) (s : Service) (i : MyIntf)
    (now j : Nat) : RCov ts b (prepareAnnounceReg s i (prepareAnnounceReg s i r true now j) false now j) :=
  prepareAnnounceReg_cov (prepareAnnounceReg_cov h s i true now j) s i false now j

/-- arming the `new_timers` -/
theorem drain_cov {ts : List Nat} {b : Nat} {r : Registry} (h : RCov ts b r) :
    RCov (ts ++ r.newTimers) b { r with newTimers := [] } := by
  intro e he
  rcases h e he with h1 | h1 | h1
  · exact Or.inl (List.mem_append_left _ h1)
  · exact Or.inl (List.mem_append_right _ h1)
  · exact Or.inr (Or.inr h1)

/-! ### unregister -/

theorem removeWaiting_cov {ts : List Nat} {b : Nat} {r : Registry} (h : RCov ts b r) (n : BList) :
    RCov ts b (r.removeWaiting n) := by
  refine h.congr ?_ rfl
  intro e he
  obtain ⟨q, hq, _, _, h3, _⟩ := removeWaiting_mem (k := e.1) (p := e.2) he
  exact ⟨(e.1, q), hq, h3.symm⟩

/-! ### a lost tiebreak (repair of D34) -/

/-- `tiebreaking` leaves the registry as it is, or postpones our probe of the name to `now + 1000` -/
theorem tiebreak_cases (now : Nat) (auths : List Wire.Rec) (reg : Registry) (q : Wire.Question) :
    tiebreak now auths reg q = reg ∨
    ∃ k p, reg.probeKey q.name = some k ∧ alookup k reg.probing = some p ∧
      tiebreak now auths reg q = { reg with probing := aset k { p with start := now + 1000, next := now + 1000 } reg.probing } := by
  unfold tiebreak
  split
  · exact Or.inl rfl
  · split
    · exact Or.inl rfl
    · rename_i k hk
      split
      · exact Or.inl rfl
      · rename_i p hp
        split
        · exact Or.inl rfl
        · split
          · exact Or.inr ⟨k, p, hk, hp, rfl⟩
          · exact Or.inl rfl

theorem postponedTo_of_unchanged (now : Nat) (auths : List Wire.Rec) (reg : Registry) (q : Wire.Question)
    (h : tiebreak now auths reg q = reg) : postponedTo now auths reg q = none := by
  unfold postponedTo
  rw [h]
  split
  · rfl
  · split
    · rename_i p p' h1 h2
      rw [h1] at h2
      cases h2
      simp
    · rfl

theorem tiebreak_cov {ts : List Nat} {b : Nat} {reg : Registry} (h : RCov ts b reg) (now : Nat) (auths : List Wire.Rec)
    (q : Wire.Question) :
    RCov (ts ++ (match postponedTo now auths reg q with | some t => [t] | none => [])) b (tiebreak now auths reg q) := by
  rcases tiebreak_cases now auths reg q with he | ⟨k, p, hk, hp, he⟩
  · rw [he]
    exact h.sup (fun t ht => List.mem_append_left _ ht)
  · have hpost : postponedTo now auths reg q = if now + 1000 != p.next then some (now + 1000) else none := by
      unfold postponedTo
      rw [he]
      simp only [hk, hp, alookup_aset_self]
    rw [hpost, he]
    intro e hm
    simp only [] at hm
    rcases mem_aset hm with rfl | hold
    · by_cases hn : now + 1000 = p.next
      · have := h (k, p) (alookup_mem hp)
        simp only [← hn] at this ⊢
        rcases this with h1 | h1 | h1
        · exact Or.inl (List.mem_append_left _ h1)
        · exact Or.inr (Or.inl h1)
        · exact Or.inr (Or.inr h1)
      · left
        simp [hn]
    · rcases h e hold with h1 | h1 | h1
      · exact Or.inl (List.mem_append_left _ h1)
      · exact Or.inr (Or.inl h1)
      · exact Or.inr (Or.inr h1)

/-- the loop over the questions in `handle_query`: the timers it arms cover every probe it postponed -/
theorem tiebreakAll_cov (now : Nat) (auths : List Wire.Rec) (b : Nat) : ∀ (qs : List Wire.Question) (ts : List Nat) (reg : Registry),
    RCov ts b reg → RCov (ts ++ tiebreakTimers now auths reg qs) b (qs.foldl (tiebreak now auths) reg)
  | [], ts, reg, h => by simpa [tiebreakTimers] using h
  | q :: qs, ts, reg, h => by
    have h1 := tiebreak_cov h now auths q
    have h2 := tiebreakAll_cov now auths b qs _ _ h1
    simp only [List.foldl_cons, tiebreakTimers]
    rw [← List.append_assoc]
    exact h2

/-! ### conflicts (repair of D41: `update_hostname` arms a timer) -/

/-- `update_hostname`: every probe it starts over is covered by the timer the caller arms when
    `true` comes back -/
theorem updateHostname_cov {ts : List Nat} {b : Nat} {reg : Registry} (h : RCov ts b reg) (original newName : BList) (t : Nat) :
    RCov (ts ++ (if (updateHostname reg original newName t).2 then [t] else [])) b (updateHostname reg original newName t).1 := by
  unfold updateHostname
  simp only []
  refine foldl_inv (fun (acc : Registry × Bool) => RCov (ts ++ (if acc.2 then [t] else [])) b acc.1) _ _ _ ?_ ?_
  · simp only [Bool.false_eq_true, if_false, List.append_nil]
    refine h.congr ?_ rfl
    intro e he
    simp only [List.mem_map] at he
    obtain ⟨e0, he0, rfl⟩ := he
    exact ⟨e0, he0, rfl⟩
  · intro acc rec _ hacc
    have hsup : RCov (ts ++ [t]) b acc.1 := hacc.sup (fun x hx => by
      rcases List.mem_append.mp hx with hx | hx
      · exact List.mem_append_left _ hx
      · split at hx
        · exact List.mem_append_right _ hx
        · cases hx)
    split
    · simp only [if_true]
      intro e he
      simp only [] at he
      rcases mem_aset he with rfl | hold
      · left; simp
      · exact hsup e hold
    · simp only [if_true]
      intro e he
      simp only [] at he
      rcases mem_aset he with rfl | hold
      · left; simp [Probe.new]
      · exact hsup e hold

/-- `conflict_handler` for one answer: the timers collected so far and the new ones cover every
    probe that was created or started over -/
theorem conflictOnAnswer_cov {ts : List Nat} {b : Nat} (now jitter : Nat) (acc : Registry × List Nat) (ans : Wire.Rec)
    (h : RCov (ts ++ acc.2) b acc.1) :
    RCov (ts ++ (conflictOnAnswer now jitter acc ans).2) b (conflictOnAnswer now jitter acc ans).1 := by
  unfold conflictOnAnswer
  simp only []
  split
  · exact h
  · rename_i name hname
    split
    · exact h
    · rename_i probe hprobe
      split
      · exact h
      · refine foldl_inv (fun (x : Registry × List Nat) => RCov (ts ++ x.2) b x.1) _ _ _ ?_ ?_
        · -- the probe without the conflicting records
          intro e he
          simp only [] at he
          rcases mem_aset he with rfl | hold
          · exact h (name, probe) (alookup_mem hprobe)
          · exact h e hold
        · intro x rec _ hx
          rcases hu : updateHostname x.1 name rec.getName (now + jitter) with ⟨regA, created⟩
          have hA := updateHostname_cov hx name rec.getName (now + jitter)
          rw [hu] at hA
          simp only [] at hA
          have hA' : RCov (ts ++ (if created then x.2 ++ [now + jitter] else x.2)) b regA := by
            cases created
            · simpa using hA
            · simpa [List.append_assoc] using hA
          simp only []
          split
          · rename_i p hp
            simp only []
            intro e he
            simp only [] at he
            rcases mem_aset he with rfl | hold
            · exact hA' (rec.getName, p) (alookup_mem hp)
            · exact hA' e hold
          · simp only []
            intro e he
            simp only [] at he
            rcases mem_aset he with rfl | hold
            · left
              simp [Probe.new]
            · exact (hA'.sup (fun t ht => by
                rw [← List.append_assoc]
                exact List.mem_append_left _ ht)) e hold

theorem conflictAll_cov {ts : List Nat} {b : Nat} (now jitter : Nat) (answers : List Wire.Rec) (reg : Registry)
    (h : RCov ts b reg) :
    RCov (ts ++ (answers.foldl (conflictOnAnswer now jitter) (reg, [])).2) b
      (answers.foldl (conflictOnAnswer now jitter) (reg, [])).1 :=
  foldl_inv (fun (x : Registry × List Nat) => RCov (ts ++ x.2) b x.1) _ _ _ (by simpa using h)
    (fun x a _ hx => conflictOnAnswer_cov now jitter x a hx)

/-! ### `check_probing` and `handle_expired_probes` -/

theorem expireProbe_newTimers (intfName : BList) (acc : Registry × List Event × List BList) (name : BList) :
    (expireProbe intfName acc name).1.newTimers = acc.1.newTimers := by
  unfold expireProbe
  split
  · rfl
  · simp only []
    split <;> rfl

theorem alookup_none_not_mem {κ α : Type} [DecidableEq κ] {k : κ} {l : List (κ × α)} (h : alookup k l = none) :
    ∀ e ∈ l, e.1 ≠ k := by
  induction l with
  | nil => intro e he; cases he
  | cons x rest ih =>
    intro e he
    simp only [alookup] at h
    split at h
    · cases h
    · rename_i hx
      rcases List.mem_cons.mp he with rfl | he
      · exact hx
      · exact ih h e he

/-- what is left of the probes after `handle_expired_probes`: probes that were there, none of
    them under a name that expired -/
theorem handleExpiredProbes_left (expired : List BList) (intfName : BList) (r : Registry) :
    (handleExpiredProbes expired intfName r).1.newTimers = r.newTimers ∧
    ∀ e ∈ (handleExpiredProbes expired intfName r).1.probing, e ∈ r.probing ∧ e.1 ∉ expired := by
  unfold handleExpiredProbes
  have := foldl_inv
    (fun (acc : Registry × List Event × List BList) => acc.1.newTimers = r.newTimers)
    (expireProbe intfName) expired (r, [], []) rfl
    (fun acc name _ hacc => (expireProbe_newTimers intfName acc name).trans hacc)
  refine ⟨this, ?_⟩
  -- the names: by induction over the list
  clear this
  suffices hs : ∀ (l : List BList) (acc : Registry × List Event × List BList),
      ∀ e ∈ (l.foldl (expireProbe intfName) acc).1.probing, e ∈ acc.1.probing ∧ e.1 ∉ l from hs expired (r, [], [])
  intro l
  induction l with
  | nil => intro acc e he; exact ⟨he, by simp⟩
  | cons name rest ih =>
    intro acc e he
    simp only [List.foldl_cons] at he
    obtain ⟨h1, h2⟩ := ih _ e he
    have hstep : e ∈ acc.1.probing ∧ e.1 ≠ name := by
      unfold expireProbe at h1
      split at h1
      · rename_i hnone
        exact ⟨h1, alookup_none_not_mem hnone e h1⟩
      · simp only [] at h1
        have hmem : e ∈ aerase name acc.1.probing := by
          split at h1 <;> exact h1
        refine ⟨mem_aerase hmem, ?_⟩
        simp only [aerase, List.mem_filter, Bool.not_eq_eq_eq_not, Bool.not_true, decide_eq_false_iff_not] at hmem
        exact hmem.2
    exact ⟨hstep.1, by simp only [List.mem_cons, not_or]; exact ⟨hstep.2, h2⟩⟩

/-- `check_probing` + `handle_expired_probes` at `now`: every probe that was due has sent its
    query (next send at `now + 250`, with a timer) or has ended; nothing is left uncovered -/
theorem checkProbing_cov {ts : List Nat} {r : Registry} (now : Nat) (intfName : BList) (h : RCov ts (now + 1) r) :
    RCov (ts ++ (checkProbing r now).timers) 0
      (handleExpiredProbes (checkProbing r now).expired intfName (checkProbing r now).reg).1 := by
  obtain ⟨hnt, hleft⟩ := handleExpiredProbes_left (checkProbing r now).expired intfName (checkProbing r now).reg
  intro e he
  obtain ⟨hm, hne⟩ := hleft e he
  rw [hnt]
  rw [checkProbing_probing] at hm
  simp only [List.mem_map] at hm
  obtain ⟨e0, he0, rfl⟩ := hm
  simp only [] at hne ⊢
  have hstep := (probe_step_times e0.2 now).2
  cases hact : e0.2.action now with
  | idle =>
    rw [hstep]
    simp only [hact, reduceCtorEq, if_false]
    have hidle : now < e0.2.next := by
      unfold Probe.action at hact
      split at hact
      · split at hact <;> cases hact
      · omega
    rcases h e0 he0 with h1 | h1 | h1
    · exact Or.inl (List.mem_append_left _ h1)
    · exact Or.inr (Or.inl h1)
    · omega
  | send =>
    rw [hstep]
    simp only [hact, if_true]
    left
    apply List.mem_append_right
    simp only [checkProbing, List.mem_map, List.mem_filter]
    exact ⟨e0, ⟨he0, by simp [hact]⟩, trivial⟩
  | expire =>
    exfalso
    apply hne
    simp only [checkProbing, List.mem_map, List.mem_filter]
    exact ⟨e0, ⟨he0, by simp [hact]⟩, rfl⟩

end Mdns.Responder
