import Mdns.Lemmas.ClientOrigin
/-
  C13 on the client model: invariants of the searches that every phase preserves (`SInv`:
  a channel is free, a browse is gone, a hostname search is gone), and what they exclude among
  the outputs.
-/
namespace Mdns.Client
open Mdns Mdns.Rec Mdns.Cache

/-- an invariant of the searches: every browse satisfies `A`, every hostname search `B`, the
    key of every queued re-run `C` -/
structure SInv (A : BList × Nat → Prop) (B : BList × Nat × Option Nat → Prop)
    (C : Option (Nat × BList × Nat) → Prop) (s : State) : Prop where
  queriers : ∀ q ∈ s.queriers, A q
  resolvers : ∀ q ∈ s.resolvers, B q
  reruns : ∀ r ∈ s.reruns, C (rkey r.cmd)

variable {A : BList × Nat → Prop} {B : BList × Nat × Option Nat → Prop} {C : Option (Nat × BList × Nat) → Prop}
variable {now : Nat} {cmds : List Command} {KeyOK : Option (Nat × BList × Nat) → Prop} {OK : Nat → Prop}

theorem SInv.of_eq {s s' : State} (h : SInv A B C s) (hq : s'.queriers = s.queriers) (hv : s'.resolvers = s.resolvers)
    (hr : s'.reruns = s.reruns) : SInv A B C s' :=
  ⟨hq ▸ h.queriers, hv ▸ h.resolvers, hr ▸ h.reruns⟩

/-- a step whose commands and new keys respect the invariant preserves it -/
theorem SInv.step {s s' : State} (hst : Step now cmds KeyOK OK s s') (hi : SInv A B C s)
    (hA : ∀ ty ch co, Command.browse ty ch co ∈ cmds → A (ty, ch))
    (hB : ∀ h ch t dl, Command.resolveHost h ch t ∈ cmds → B (lower h, ch, dl))
    (hC : ∀ k, KeyOK k → C k) : SInv A B C s' := by
  refine ⟨?_, ?_, ?_⟩
  · intro q hq
    rcases hst.queriers q hq with h | ⟨co, h⟩
    · exact hi.queriers q h
    · exact hA q.1 q.2 co h
  · intro q hq
    rcases hst.resolvers q hq with h | ⟨h0, t, h1, h2, _⟩
    · exact hi.resolvers q h
    · have := hB h0 q.2.1 t q.2.2 h1
      rw [← h2] at this
      exact this
  · intro r hr
    rcases hst.reruns r hr with h | ⟨_, _, _, h⟩
    · exact hi.reruns r h
    · exact hC _ h

theorem delayOk_of_step {s s' : State} (hst : Step now cmds KeyOK OK s s') (hD : ∀ r ∈ s.reruns, DelayOk r) :
    ∀ r ∈ s'.reruns, DelayOk r := by
  intro r hr
  rcases hst.reruns r hr with h | ⟨_, _, h, _⟩
  · exact hD r h
  · exact h

/-- the tail of an iteration as one step -/
theorem step_tail (x : State) (now : Nat) (post : List Command) (hD : ∀ r ∈ x.reruns, DelayOk r) :
    Step now post (KeyIter post x.reruns) (fun _ => True) x (tailState x now post) := by
  have hk : KeyIter post x.reruns none := Or.inl rfl
  have h2 := step_runCommands (now := now) (cmds := post) (KeyOK := KeyIter post x.reruns) (OK := fun _ => True) hk post x
    (fun _ h => h) (fun _ _ _ _ => trivial) (fun c hc => Or.inr (Or.inl ⟨c, hc, rfl⟩))
  have hall : ∀ r ∈ (runCommands x now post).1.reruns, DelayOk r ∧ KeyIter post x.reruns (rkey r.cmd) := by
    intro r hr
    rcases h2.reruns r hr with h | ⟨_, _, h3, h4⟩
    · exact ⟨hD r h, Or.inr (Or.inr ⟨r, h, rfl⟩)⟩
    · exact ⟨h3, h4⟩
  have h3 := step_rerunPhase (now := now) (cmds := post) (KeyOK := KeyIter post x.reruns) (OK := fun _ => True)
    (runCommands x now post).1 hk (fun _ _ _ _ => trivial) hall
  have h4 := step_refreshActive (now := now) (cmds := post) (KeyOK := KeyIter post x.reruns) (OK := fun _ => True)
    (rerunPhase (runCommands x now post).1 now).1 (fun _ _ => trivial)
  have h5 := step_refreshResolvers (now := now) (cmds := post) (KeyOK := KeyIter post x.reruns) (OK := fun _ => True)
    (refreshActive (rerunPhase (runCommands x now post).1 now).1 now).1
  have h6 := step_evictServicesPhase (now := now) (cmds := post) (KeyOK := KeyIter post x.reruns) (OK := fun _ => True)
    (refreshResolvers (refreshActive (rerunPhase (runCommands x now post).1 now).1 now).1 now).1
  have h7 := step_evictAddrPhase (now := now) (cmds := post) (KeyOK := KeyIter post x.reruns) (OK := fun _ => True)
    (evictServicesPhase (refreshResolvers (refreshActive (rerunPhase (runCommands x now post).1 now).1 now).1 now).1 now).1
    trivial hk
  exact ((((h2.trans h3).trans h4).trans h5).trans h6).trans h7

theorem runIpCheck_searches (s : State) (now : Nat) :
    (runIpCheck s now).queriers = s.queriers ∧ (runIpCheck s now).resolvers = s.resolvers ∧
    (runIpCheck s now).reruns = s.reruns := by
  rcases runIpCheck_cases s now with ⟨he, _⟩ | ⟨he, _⟩ | ⟨he, _⟩ <;> rw [he] <;> exact ⟨rfl, rfl, rfl⟩

/-- the invariant through the tail of an iteration, at the state in which the re-run phase
    starts and at the end -/
theorem SInv.tail {x : State} (hi : SInv A B C x) (now : Nat) (post : List Command) (hD : ∀ r ∈ x.reruns, DelayOk r)
    (hA : ∀ ty ch co, Command.browse ty ch co ∈ post → A (ty, ch))
    (hB : ∀ h ch t dl, Command.resolveHost h ch t ∈ post → B (lower h, ch, dl))
    (hCn : C none) (hCc : ∀ c ∈ post, C (ckey c)) :
    SInv A B C (runCommands x now post).1 ∧ SInv A B C (runIpCheck (tailState x now post) now) ∧
    (∀ r ∈ (runIpCheck (tailState x now post) now).reruns, DelayOk r) := by
  have hC : ∀ k, KeyIter post x.reruns k → C k := by
    intro k hk
    rcases hk with rfl | ⟨c, hc, rfl⟩ | ⟨r0, hr0, rfl⟩
    · exact hCn
    · exact hCc c hc
    · exact hi.reruns r0 hr0
  have h2 := step_runCommands (now := now) (cmds := post) (KeyOK := KeyIter post x.reruns) (OK := fun _ => True)
    (Or.inl rfl) post x (fun _ h => h) (fun _ _ _ _ => trivial) (fun c hc => Or.inr (Or.inl ⟨c, hc, rfl⟩))
  have ht := step_tail x now post hD
  obtain ⟨e1, e2, e3⟩ := runIpCheck_searches (tailState x now post) now
  refine ⟨SInv.step h2 hi hA hB hC, (SInv.step ht hi hA hB hC).of_eq e1 e2 e3, ?_⟩
  rw [e3]
  exact delayOk_of_step ht hD

/-- the invariant at the state in which the commands of an iteration are executed -/
theorem SInv.preCommands {s : State} (hi : SInv A B C s) (now : Nat) (pkts : List Packet) (hD : ∀ r ∈ s.reruns, DelayOk r)
    (hCn : C none) : SInv A B C (preCommands s now pkts) ∧ ∀ r ∈ (preCommands s now pkts).reruns, DelayOk r := by
  have hA := step_ingress (now := now) (cmds := []) (KeyOK := fun k => k = none) (OK := fun _ => True) rfl pkts s
    (fun _ _ => trivial)
  have h1 : SInv A B C (ingress s now pkts).1 :=
    SInv.step hA hi (fun _ _ _ h => by cases h) (fun _ _ _ _ h => by cases h) (fun k hk => hk ▸ hCn)
  refine ⟨⟨?_, ?_, ?_⟩, ?_⟩
  · exact h1.queriers
  · intro q hq
    exact h1.resolvers q (by
      simp only [Client.preCommands, runTimeouts, popTimers, List.mem_filter] at hq
      exact hq.1)
  · exact h1.reruns
  · intro r hr
    exact delayOk_of_step hA hD r hr

/-- **the invariant through a whole iteration** whose commands respect it -/
theorem SInv.iter {s : State} (hi : SInv A B C s) (now : Nat) (pkts : List Packet) (cmds : List Command)
    (hD : ∀ r ∈ s.reruns, DelayOk r)
    (hA : ∀ ty ch co, Command.browse ty ch co ∈ cmds → A (ty, ch))
    (hB : ∀ h ch t dl, Command.resolveHost h ch t ∈ cmds → B (lower h, ch, dl))
    (hCn : C none) (hCc : ∀ c ∈ cmds, C (ckey c)) :
    SInv A B C (Client.iter s now pkts cmds).1 ∧ (∀ r ∈ (Client.iter s now pkts cmds).1.reruns, DelayOk r) := by
  obtain ⟨h1, hD1⟩ := hi.preCommands now pkts hD hCn
  have h2 := h1.tail now cmds hD1 hA hB hCn hCc
  rw [(iter_tail s now pkts cmds).1]
  exact h2.2

/-! ### a channel nobody uses -/

/-- no browse, no hostname search and no queued re-run reports to `ch` -/
def ChanFree (ch : Nat) : State → Prop :=
  SInv (fun q => q.2 ≠ ch) (fun q => q.2.1 ≠ ch) (fun k => ∀ x, k = some x → x.2.2 ≠ ch)

theorem rkey_of_class_browse {c : RCmd} {ty : BList} {ch : Nat} (h : rclass c = .browse ty ch) : rkey c = some (0, ty, ch) := by
  cases c <;> simp [rclass] at h
  obtain ⟨rfl, rfl⟩ := h
  rfl

theorem rkey_of_class_host {c : RCmd} {h0 : BList} {ch : Nat} (h : rclass c = .host h0 ch) : rkey c = some (1, h0, ch) := by
  cases c <;> simp [rclass] at h
  obtain ⟨rfl, rfl⟩ := h
  rfl

/-- an event on a channel nobody uses has no cause -/
theorem no_event_of_chanFree (ch : Nat) (x : State) (cmds : List Command) (rcs : List RClass) (e : Ev)
    (hx : SInv (fun q => q.2 ≠ ch) (fun q => q.2.1 ≠ ch) (fun _ => True) x)
    (hc : ∀ c ∈ cmds, cchan c ≠ some ch)
    (hr : ∀ ty, RClass.browse ty ch ∉ rcs) (hr2 : ∀ h, RClass.host h ch ∉ rcs) :
    ¬ Origin x cmds rcs (.event ch e) := by
  intro h
  generalize ho : Out.event ch e = o at h
  cases h with
  | evQuerier q e' h1 =>
    cases ho
    exact hx.queriers q h1 rfl
  | evResolver q e' h1 =>
    cases ho
    exact hx.resolvers q h1 rfl
  | evRerunB ty ch' e' h1 =>
    cases ho
    exact hr ty h1
  | evRerunH h0 ch' e' h1 _ =>
    cases ho
    exact hr2 h0 h1
  | evCommand c ch' e' h1 h2 =>
    cases ho
    exact hc c h1 h2
  | _ => cases ho

/-- **nothing on a free channel, tail of an iteration**: from a state in which nobody uses `ch`,
    with commands that do not mention `ch`, the rest of the iteration emits no event on `ch` and
    leaves `ch` free -/
theorem chanFree_tail (ch : Nat) (x : State) (now : Nat) (post : List Command) (hf : ChanFree ch x)
    (hD : ∀ r ∈ x.reruns, DelayOk r) (hc : ∀ c ∈ post, cchan c ≠ some ch) :
    (∀ e, Out.event ch e ∉ tailOuts x now post) ∧ ChanFree ch (runIpCheck (tailState x now post) now) ∧
    (∀ r ∈ (runIpCheck (tailState x now post) now).reruns, DelayOk r) := by
  have hckey : ∀ c ∈ post, ∀ y, ckey c = some y → y.2.2 ≠ ch := by
    intro c hcm y hy
    have := hc c hcm
    cases c <;> simp [ckey] at hy <;> simp [cchan] at this <;> (subst hy; simpa using this)
  have ht := SInv.tail hf now post hD
    (fun ty ch' co h => by have := hc _ h; simpa [cchan] using this)
    (fun h ch' t dl hm => by have := hc _ hm; simpa [cchan] using this)
    (fun x hx => by cases hx) hckey
  refine ⟨?_, ht.2.1, ht.2.2⟩
  intro e he
  refine no_event_of_chanFree ch x post (midClasses x now post) e ⟨hf.queriers, hf.resolvers, fun _ _ => trivial⟩ hc ?_ ?_
    (origin_tail x now post _ he)
  · intro ty hm
    simp only [midClasses, List.mem_map] at hm
    obtain ⟨r, hr, hcl⟩ := hm
    exact ht.1.reruns r hr _ (rkey_of_class_browse hcl) rfl
  · intro h0 hm
    simp only [midClasses, List.mem_map] at hm
    obtain ⟨r, hr, hcl⟩ := hm
    exact ht.1.reruns r hr _ (rkey_of_class_host hcl) rfl

/-- **nothing on a free channel, whole iteration** -/
theorem chanFree_iter (ch : Nat) (s : State) (now : Nat) (pkts : List Packet) (cmds : List Command) (hf : ChanFree ch s)
    (hD : ∀ r ∈ s.reruns, DelayOk r) (hc : ∀ c ∈ cmds, cchan c ≠ some ch) :
    (∀ e, Out.event ch e ∉ (Client.iter s now pkts cmds).2) ∧ ChanFree ch (Client.iter s now pkts cmds).1 ∧
    (∀ r ∈ (Client.iter s now pkts cmds).1.reruns, DelayOk r) := by
  obtain ⟨h1, hD1⟩ := SInv.preCommands hf now pkts hD (fun x hx => by cases hx)
  obtain ⟨h2, h3, h4⟩ := chanFree_tail ch _ now cmds h1 hD1 hc
  rw [(iter_tail s now pkts cmds).1]
  refine ⟨?_, h3, h4⟩
  intro e he
  rw [(iter_tail s now pkts cmds).2] at he
  simp only [List.mem_append] at he
  rcases he with (he | he) | he
  · exact no_event_of_chanFree ch s [] [] e ⟨hf.queriers, hf.resolvers, fun _ _ => trivial⟩ (fun _ h => by cases h)
      (fun _ h => by cases h) (fun _ h => by cases h) (origin_ingress [] [] now pkts s _ he)
  · refine no_event_of_chanFree ch (popTimers (ingress s now pkts).1 now) [] [] e ⟨?_, ?_, fun _ _ => trivial⟩
      (fun _ h => by cases h) (fun _ h => by cases h) (fun _ h => by cases h) (origin_runTimeouts _ [] [] now _ he)
    · intro q hq
      exact hf.queriers q (by simpa [popTimers] using hq)
    · intro q hq
      exact hf.resolvers q (by simpa [popTimers] using hq)
  · exact h2 e he

/-! ### a browse that is gone: no PTR query for its type -/

/-- nothing is browsed for `ty` and no retransmission of a browse of `ty` is queued -/
def BrowseGone (ty : BList) : State → Prop :=
  SInv (fun q => q.1 ≠ ty) (fun _ => True) (fun k => ∀ x, k = some x → ¬ (x.1 = 0 ∧ x.2.1 = ty))

theorem no_ptr_query (ty : BList) (x : State) (cmds : List Command) (rcs : List RClass) (known : List Record)
    (hq : ∀ q ∈ x.queriers, q.1 ∉ x.cacheOnly → q.1 ≠ ty) (hc : ∀ ch co, Command.browse ty ch co ∉ cmds)
    (hr : ∀ ch, RClass.browse ty ch ∉ rcs) : ¬ Origin x cmds rcs (.query [(ty, 12)] known) := by
  intro h
  generalize ho : Out.query [(ty, 12)] known = o at h
  cases h with
  | ptrQuerier q known' h1 h1a =>
    simp only [Out.query.injEq, List.cons.injEq, Prod.mk.injEq, and_true] at ho
    exact hq q h1 h1a ho.1.symm
  | ptrRerun ty' ch known' h1 =>
    simp only [Out.query.injEq, List.cons.injEq, Prod.mk.injEq, and_true] at ho
    exact hr ch (ho.1 ▸ h1)
  | ptrCommand ty' ch known' h1 =>
    simp only [Out.query.injEq, List.cons.injEq, Prod.mk.injEq, and_true] at ho
    exact hc ch false (ho.1 ▸ h1)
  | addrRefresh key t known' h1 h2 =>
    simp only [Out.query.injEq, List.cons.injEq, Prod.mk.injEq, and_true] at ho
    omega
  | anyFollowup inst known' h1 => simp at ho
  | srvTxtRefresh inst ts known' h1 h2 =>
    simp only [Out.query.injEq] at ho
    cases ts with
    | nil => simp at ho
    | cons t rest =>
      simp only [List.map_cons, List.cons.injEq, Prod.mk.injEq] at ho
      have := h2 t List.mem_cons_self
      omega
  | verifyQuery inst qs known' h1 => simp at ho
  | hostRerun => simp at ho
  | hostCommand => simp at ho
  | hostFollowup => simp at ho
  | hostOfService => simp at ho
  | evQuerier => cases ho
  | evResolver => cases ho
  | evRerunB => cases ho
  | evRerunH => cases ho
  | evCommand => cases ho

theorem browseGone_tail (ty : BList) (x : State) (now : Nat) (post : List Command) (hf : BrowseGone ty x)
    (hD : ∀ r ∈ x.reruns, DelayOk r) (hc : ∀ ch co, Command.browse ty ch co ∉ post) :
    (∀ known, Out.query [(ty, 12)] known ∉ tailOuts x now post) ∧ BrowseGone ty (runIpCheck (tailState x now post) now) ∧
    (∀ r ∈ (runIpCheck (tailState x now post) now).reruns, DelayOk r) := by
  have ht := SInv.tail hf now post hD
    (fun ty' ch' co h => by
      intro he
      simp only at he
      exact hc ch' co (he ▸ h))
    (fun _ _ _ _ _ => trivial)
    (fun x hx => by cases hx)
    (by
      intro c hcm y hy
      cases c <;> simp [ckey] at hy
      · rename_i ty' ch' co
        subst hy
        intro he
        exact hc ch' co (he.2 ▸ hcm)
      · subst hy
        simp)
  refine ⟨?_, ht.2.1, ht.2.2⟩
  intro known hk
  refine no_ptr_query ty x post (midClasses x now post) known (fun q hq _ => hf.queriers q hq) hc ?_
    (origin_tail x now post _ hk)
  intro ch hm
  simp only [midClasses, List.mem_map] at hm
  obtain ⟨r, hr, hcl⟩ := hm
  exact ht.1.reruns r hr _ (rkey_of_class_browse hcl) ⟨rfl, rfl⟩

theorem browseGone_iter (ty : BList) (s : State) (now : Nat) (pkts : List Packet) (cmds : List Command) (hf : BrowseGone ty s)
    (hD : ∀ r ∈ s.reruns, DelayOk r) (hc : ∀ ch co, Command.browse ty ch co ∉ cmds) :
    (∀ known, Out.query [(ty, 12)] known ∉ (Client.iter s now pkts cmds).2) ∧ BrowseGone ty (Client.iter s now pkts cmds).1 ∧
    (∀ r ∈ (Client.iter s now pkts cmds).1.reruns, DelayOk r) := by
  obtain ⟨h1, hD1⟩ := SInv.preCommands hf now pkts hD (fun x hx => by cases hx)
  obtain ⟨h2, h3, h4⟩ := browseGone_tail ty _ now cmds h1 hD1 hc
  rw [(iter_tail s now pkts cmds).1]
  refine ⟨?_, h3, h4⟩
  intro known he
  rw [(iter_tail s now pkts cmds).2] at he
  simp only [List.mem_append] at he
  rcases he with (he | he) | he
  · exact no_ptr_query ty s [] [] known (fun q hq _ => hf.queriers q hq) (fun _ _ h => by cases h) (fun _ h => by cases h)
      (origin_ingress [] [] now pkts s _ he)
  · refine no_ptr_query ty (popTimers (ingress s now pkts).1 now) [] [] known ?_ (fun _ _ h => by cases h)
      (fun _ h => by cases h) (origin_runTimeouts _ [] [] now _ he)
    intro q hq _
    exact hf.queriers q (by simpa [popTimers] using hq)
  · exact h2 known he

/-! ### a cache-only browse: no PTR query for its type (repair of D23) -/

/-- `ty` is in the set of cache-only types and no retransmission of a browse of `ty` is queued:
    the way `browse_cache(ty)` leaves the state -/
def CacheOnlyQuiet (ty : BList) (s : State) : Prop :=
  ty ∈ s.cacheOnly ∧
  SInv (fun _ => True) (fun _ => True) (fun k => ∀ x, k = some x → ¬ (x.1 = 0 ∧ x.2.1 = ty)) s

/-- a command that is neither a browse nor a stop of `ty` keeps `ty` in the cache-only set -/
theorem cacheOnly_execCommand_keep (ty : BList) (s : State) (now : Nat) (c : Command)
    (hb : ∀ ch co, c ≠ .browse ty ch co) (hs : c ≠ .stopBrowse ty) (h : ty ∈ s.cacheOnly) :
    ty ∈ (execCommand s now c).1.cacheOnly := by
  cases c with
  | browse ty' ch co =>
    have e2 : (execCommand s now (.browse ty' ch co)).1.cacheOnly = _ := execBrowse_new_cacheOnly s now ty' 1 co ch
    rw [e2]
    have hne : ty ≠ ty' := fun e => hb ch co (by rw [e])
    cases co
    · simp only [Bool.false_eq_true, if_false, List.mem_filter]
      exact ⟨h, by simpa using hne⟩
    · simp only [if_true]
      exact (mem_insertSet _ _ _).mpr (Or.inl h)
  | stopBrowse ty' =>
    have hne : ty ≠ ty' := fun e => hs (by rw [e])
    simp only [execCommand, execStopBrowse]
    split
    · exact h
    · simp only [List.mem_filter]
      exact ⟨h, by simpa using hne⟩
  | resolveHost h0 ch t =>
    rw [(execCommand_browses_other s now (.resolveHost h0 ch t) (fun _ _ _ e => by cases e) (fun _ e => by cases e)).2]
    exact h
  | stopResolve h0 =>
    rw [(execCommand_browses_other s now (.stopResolve h0) (fun _ _ _ e => by cases e) (fun _ e => by cases e)).2]
    exact h
  | ipInterval ms => exact h
  | verify inst t =>
    rw [(execCommand_browses_other s now (.verify inst t) (fun _ _ _ e => by cases e) (fun _ e => by cases e)).2]
    exact h
  | metrics ch => exact h
  | acceptUnsolicited on => exact h

theorem cacheOnly_runCommands_keep (ty : BList) (now : Nat) : ∀ (l : List Command) (s : State),
    (∀ ch co, Command.browse ty ch co ∉ l) → Command.stopBrowse ty ∉ l → ty ∈ s.cacheOnly →
    ty ∈ (runCommands s now l).1.cacheOnly
  | [], _, _, _, h => h
  | c :: rest, s, hb, hs, h => by
    simp only [runCommands]
    refine cacheOnly_runCommands_keep ty now rest _ (fun ch co hm => hb ch co (List.mem_cons_of_mem _ hm))
      (fun hm => hs (List.mem_cons_of_mem _ hm)) ?_
    exact cacheOnly_execCommand_keep ty s now c (fun ch co e => hb ch co (e ▸ List.mem_cons_self))
      (fun e => hs (e ▸ List.mem_cons_self)) h

/-- after the commands nothing touches the cache-only set -/
theorem tail_cacheOnly (x : State) (now : Nat) (post : List Command) :
    (runIpCheck (tailState x now post) now).cacheOnly = (runCommands x now post).1.cacheOnly := by
  have e0 : (runIpCheck (tailState x now post) now).cacheOnly = (tailState x now post).cacheOnly := by
    rcases runIpCheck_cases (tailState x now post) now with ⟨he, _⟩ | ⟨he, _⟩ | ⟨he, _⟩ <;> rw [he]
  rw [e0]
  unfold tailState evictAddrPhase
  rw [evictAddrHosts_cacheOnly]
  show (rerunPhase (runCommands x now post).1 now).1.cacheOnly = _
  exact runReruns_cacheOnly now _ _ _ _

theorem preCommands_cacheOnly (s : State) (now : Nat) (pkts : List Packet) : (preCommands s now pkts).cacheOnly = s.cacheOnly := by
  show (ingress s now pkts).1.cacheOnly = _
  exact ingress_cacheOnly now pkts s

/-- **no PTR query for a cache-only type, tail of an iteration**: from a state in which `ty` is
    cache-only with no browse retransmission queued, with commands that neither browse nor stop
    `ty`, the rest of the iteration asks no PTR question for `ty` and leaves `ty` as it was -/
theorem cacheOnlyQuiet_tail (ty : BList) (x : State) (now : Nat) (post : List Command) (hf : CacheOnlyQuiet ty x)
    (hD : ∀ r ∈ x.reruns, DelayOk r) (hc : ∀ ch co, Command.browse ty ch co ∉ post) (hs : Command.stopBrowse ty ∉ post) :
    (∀ known, Out.query [(ty, 12)] known ∉ tailOuts x now post) ∧
    CacheOnlyQuiet ty (runIpCheck (tailState x now post) now) ∧
    (∀ r ∈ (runIpCheck (tailState x now post) now).reruns, DelayOk r) := by
  have ht := SInv.tail hf.2 now post hD
    (fun _ _ _ _ => trivial)
    (fun _ _ _ _ _ => trivial)
    (fun x hx => by cases hx)
    (by
      intro c hcm y hy
      cases c <;> simp [ckey] at hy
      · rename_i ty' ch' co
        subst hy
        intro he
        exact hc ch' co (he.2 ▸ hcm)
      · subst hy
        simp)
  refine ⟨?_, ⟨?_, ht.2.1⟩, ht.2.2⟩
  · intro known hk
    refine no_ptr_query ty x post (midClasses x now post) known (fun q _ hqa hty => hqa (hty ▸ hf.1)) hc ?_
      (origin_tail x now post _ hk)
    intro ch hm
    simp only [midClasses, List.mem_map] at hm
    obtain ⟨r, hr, hcl⟩ := hm
    exact ht.1.reruns r hr _ (rkey_of_class_browse hcl) ⟨rfl, rfl⟩
  · rw [tail_cacheOnly]
    exact cacheOnly_runCommands_keep ty now post x hc hs hf.1

/-- **no PTR query for a cache-only type, whole iteration** -/
theorem cacheOnlyQuiet_iter (ty : BList) (s : State) (now : Nat) (pkts : List Packet) (cmds : List Command)
    (hf : CacheOnlyQuiet ty s) (hD : ∀ r ∈ s.reruns, DelayOk r) (hc : ∀ ch co, Command.browse ty ch co ∉ cmds)
    (hs : Command.stopBrowse ty ∉ cmds) :
    (∀ known, Out.query [(ty, 12)] known ∉ (Client.iter s now pkts cmds).2) ∧
    CacheOnlyQuiet ty (Client.iter s now pkts cmds).1 ∧
    (∀ r ∈ (Client.iter s now pkts cmds).1.reruns, DelayOk r) := by
  obtain ⟨h1, hD1⟩ := SInv.preCommands hf.2 now pkts hD (fun x hx => by cases hx)
  have hf1 : CacheOnlyQuiet ty (preCommands s now pkts) := ⟨by rw [preCommands_cacheOnly]; exact hf.1, h1⟩
  obtain ⟨h2, h3, h4⟩ := cacheOnlyQuiet_tail ty _ now cmds hf1 hD1 hc hs
  rw [(iter_tail s now pkts cmds).1]
  refine ⟨?_, h3, h4⟩
  intro known he
  rw [(iter_tail s now pkts cmds).2] at he
  simp only [List.mem_append] at he
  rcases he with (he | he) | he
  · exact no_ptr_query ty s [] [] known (fun q _ hqa hty => hqa (hty ▸ hf.1)) (fun _ _ h => by cases h)
      (fun _ h => by cases h) (origin_ingress [] [] now pkts s _ he)
  · refine no_ptr_query ty (popTimers (ingress s now pkts).1 now) [] [] known ?_ (fun _ _ h => by cases h)
      (fun _ h => by cases h) (origin_runTimeouts _ [] [] now _ he)
    intro q _ hqa hty
    refine hqa ?_
    rw [hty]
    simpa [popTimers] using hf.1
  · exact h2 known he

/-! ### a hostname search that is gone: no address query for its name -/

/-- no hostname search for `key` (a lower-cased name) is open and no retransmission of one is queued -/
def HostGone (key : BList) : State → Prop :=
  SInv (fun _ => True) (fun q => q.1 ≠ key) (fun k => ∀ x, k = some x → ¬ (x.1 = 1 ∧ lower x.2.1 = key))

/-- the queries a hostname search for `key` causes: A + AAAA for a name that lower-cases to
    `key`, or the refresh of one address -/
def asksHost (key : BList) : Out → Bool
  | .query [(h, 1), (h', 28)] _ => lower h == key && h == h'
  | .query [(n, t)] _ => n == key && (t == 1 || t == 28)
  | _ => false

theorem no_host_query (key : BList) (x : State) (cmds : List Command) (rcs : List RClass) (o : Out)
    (hask : asksHost key o = true)
    (hv : ∀ q ∈ x.resolvers, q.1 ≠ key) (hc : ∀ h ch t, Command.resolveHost h ch t ∈ cmds → lower h ≠ key)
    (hr : ∀ h ch, RClass.host h ch ∈ rcs → lower h ≠ key) (hnf : RClass.followup ∉ rcs)
    (hnb : ¬ Browsing x cmds) : ¬ Origin x cmds rcs o := by
  have hopen : ¬ HostOpen x cmds key := by
    rintro (⟨q, hq, hk⟩ | ⟨h, ch, t, hm, hk⟩)
    · exact hv q hq hk
    · exact hc h ch t hm hk
  intro h
  cases h with
  | hostRerun h0 ch known h1 h2 =>
    simp only [asksHost, Bool.and_eq_true, beq_iff_eq, and_true] at hask
    exact hr h0 ch h1 hask
  | hostCommand h0 ch t known h1 =>
    simp only [asksHost, Bool.and_eq_true, beq_iff_eq, and_true] at hask
    exact hc h0 ch t h1 hask
  | hostFollowup h0 known h1 => exact hnf h1
  | hostOfService h0 known h1 => exact hnb h1
  | addrRefresh key' t known h1 h2 =>
    simp only [asksHost, Bool.and_eq_true, beq_iff_eq] at hask
    exact hopen (hask.1 ▸ h1)
  | srvTxtRefresh inst ts known h1 h2 => exact hnb h1
  | ptrQuerier q known h1 => simp [asksHost] at hask
  | ptrRerun ty ch known h1 => simp [asksHost] at hask
  | ptrCommand ty ch known h1 => simp [asksHost] at hask
  | anyFollowup inst known h1 => simp [asksHost] at hask
  | verifyQuery inst qs known h1 =>
    cases qs with
    | nil => simp [asksHost] at hask
    | cons q1 rest =>
      cases rest with
      | nil => simp [asksHost] at hask
      | cons q2 rest2 => simp [asksHost] at hask
  | evQuerier => simp [asksHost] at hask
  | evResolver => simp [asksHost] at hask
  | evRerunB => simp [asksHost] at hask
  | evRerunH => simp [asksHost] at hask
  | evCommand => simp [asksHost] at hask

/-! ### no browse work: nothing browsed, no follow-up queued -/

def NoBrowseWork (s : State) : Prop := s.queriers = [] ∧ ∀ r ∈ s.reruns, rclass r.cmd ≠ .followup

def isBrowseCommand : Command → Bool
  | .browse _ _ _ => true
  | _ => false

theorem handleRead_quiet_reruns (s : State) (now : Nat) (p : Packet) (hq : s.queriers = []) :
    (handleRead s now p).1.reruns = s.reruns := by
  unfold handleRead
  repeat' split
  all_goals first
    | rfl
    | (unfold handleResponse
       simp only []
       exact (resolveUpdated_quiet _ now _ (by simpa using hq)).2.1)

theorem ingress_quiet_reruns (now : Nat) : ∀ (pkts : List Packet) (s : State), s.queriers = [] →
    (ingress s now pkts).1.reruns = s.reruns
  | [], _, _ => rfl
  | p :: rest, s, hq => by
    simp only [ingress]
    rw [ingress_quiet_reruns now rest _ (by rw [handleRead_queriers]; exact hq), handleRead_quiet_reruns s now p hq]

theorem execResolveHost_new_reruns (s : State) (now : Nat) (h : BList) (d ch : Nat) (t : Option Nat) :
    ∀ r ∈ (execResolveHost s now false h d ch t).1.reruns,
      r ∈ s.reruns ∨ r.cmd = .resolveHost h (Sched.nextDelay d) ch := by
  intro r hr
  unfold execResolveHost at hr
  simp only [Bool.false_and, Bool.false_eq_true, if_false] at hr
  cases t with
  | none =>
    simp only [Option.map_none] at hr
    split at hr
    · simp only [addRerun, List.mem_append, List.mem_filter, List.mem_singleton] at hr
      rcases hr with ⟨hr, _⟩ | rfl
      · exact Or.inl hr
      · exact Or.inr rfl
    · exact Or.inl (List.mem_filter.mp hr).1
  | some t0 =>
    simp only [Option.map_some] at hr
    split at hr
    · simp only [addRerun, List.mem_append, List.mem_filter, List.mem_singleton] at hr
      rcases hr with ⟨hr, _⟩ | rfl
      · exact Or.inl hr
      · exact Or.inr rfl
    · exact Or.inl (List.mem_filter.mp hr).1

theorem nbw_execCommand (s : State) (now : Nat) (c : Command) (hc : isBrowseCommand c = false) (h : NoBrowseWork s) :
    NoBrowseWork (execCommand s now c).1 := by
  obtain ⟨hq, hr⟩ := h
  cases c with
  | browse ty ch co => simp [isBrowseCommand] at hc
  | stopBrowse ty =>
    simp only [execCommand, execStopBrowse, hq, List.find?_nil]
    exact ⟨hq, hr⟩
  | resolveHost h0 ch t =>
    refine ⟨?_, ?_⟩
    · have hst := step_execCommand (now := now) (cmds := [.resolveHost h0 ch t]) (KeyOK := fun _ => True) (OK := fun _ => True)
        s (.resolveHost h0 ch t) (by simp) (fun _ _ => trivial) trivial trivial
      cases hs : (execCommand s now (.resolveHost h0 ch t)).1.queriers with
      | nil => rfl
      | cons q rest =>
        rcases hst.queriers q (by rw [hs]; exact List.mem_cons_self) with h1 | ⟨co, h1⟩
        · rw [hq] at h1
          cases h1
        · simp at h1
    · intro r hr'
      rcases execResolveHost_new_reruns s now h0 1 ch t r hr' with h1 | h1
      · exact hr r h1
      · rw [h1]
        simp [rclass]
  | stopResolve h0 =>
    simp only [execCommand, execStopResolve]
    split
    · exact ⟨hq, hr⟩
    · exact ⟨hq, fun r hr' => hr r (List.mem_filter.mp hr').1⟩
  | ipInterval ms => exact ⟨hq, hr⟩
  | verify inst t =>
    simp only [execCommand, execVerify, Bool.false_eq_true, if_false]
    split
    · exact ⟨hq, hr⟩
    · refine ⟨hq, ?_⟩
      intro r hr'
      simp only [addRerun, addTimers, List.mem_append, List.mem_singleton] at hr'
      rcases hr' with hr' | rfl
      · exact hr r hr'
      · simp [rclass]
  | metrics ch => exact ⟨hq, hr⟩
  | acceptUnsolicited on => exact ⟨hq, hr⟩

theorem nbw_runCommands (now : Nat) : ∀ (l : List Command) (s : State), l.all (fun c => !isBrowseCommand c) = true →
    NoBrowseWork s → NoBrowseWork (runCommands s now l).1
  | [], _, _, h => h
  | c :: rest, s, hc, h => by
    simp only [List.all_cons, Bool.and_eq_true, Bool.not_eq_true'] at hc
    simp only [runCommands]
    exact nbw_runCommands now rest _ hc.2 (nbw_execCommand s now c hc.1 h)

/-- what the re-run loop leaves queued has the class of something that was queued -/
theorem runReruns_classes (now : Nat) (rcs : List RClass) : ∀ (fuel : Nat) (keep rest : List Rerun) (st : State),
    st.reruns = [] → (∀ r ∈ keep ++ rest, rclass r.cmd ∈ rcs) →
    ∀ r ∈ (runReruns st now fuel keep rest).1.reruns, rclass r.cmd ∈ rcs
  | 0, keep, rest, st, hs, hall => by simpa [runReruns, hs] using hall
  | _ + 1, keep, [], st, hs, hall => by simpa [runReruns, hs] using hall
  | fuel + 1, keep, r :: rest, st, hs, hall => by
    unfold runReruns
    split
    · apply runReruns_classes now rcs fuel keep _ _ rfl
      intro x hx
      simp only [List.mem_append] at hx
      rcases hx with hx | hx | hx
      · exact hall x (by simp [hx])
      · exact hall x (by simp [hx])
      · rw [execRerun_new_class _ rfl now r.cmd x hx]
        exact hall r (by simp)
    · exact runReruns_classes now rcs fuel (keep ++ [r]) rest st hs (by intro x hx; exact hall x (by simpa using hx))

theorem nbw_tail (x : State) (now : Nat) (post : List Command) (hc : post.all (fun c => !isBrowseCommand c) = true)
    (h : NoBrowseWork x) :
    NoBrowseWork (runCommands x now post).1 ∧ NoBrowseWork (runIpCheck (tailState x now post) now) := by
  have h1 := nbw_runCommands now post x hc h
  refine ⟨h1, ?_⟩
  obtain ⟨e1, _, e3⟩ := runIpCheck_searches (tailState x now post) now
  have hq2 : (rerunPhase (runCommands x now post).1 now).1.queriers = [] := by
    rw [show (rerunPhase (runCommands x now post).1 now).1.queriers = (runCommands x now post).1.queriers from
      runReruns_queriers now _ _ _ _]
    exact h1.1
  have hr2 : ∀ r ∈ (rerunPhase (runCommands x now post).1 now).1.reruns, rclass r.cmd ≠ .followup := by
    intro r hr hcl
    have := runReruns_classes now ((runCommands x now post).1.reruns.map fun r => rclass r.cmd) _ []
      (runCommands x now post).1.reruns { (runCommands x now post).1 with reruns := [] } rfl
      (by intro y hy; simp only [List.nil_append] at hy; exact List.mem_map_of_mem hy) r hr
    simp only [List.mem_map] at this
    obtain ⟨r0, hr0, hcl0⟩ := this
    exact h1.2 r0 hr0 (hcl0.trans hcl)
  have hq5 : (evictServicesPhase (refreshResolvers (refreshActive (rerunPhase (runCommands x now post).1 now).1 now).1 now).1
      now).1.queriers = [] := hq2
  have h6 := evictAddrHosts_quiet now
    (evictAddr (evictServicesPhase (refreshResolvers (refreshActive (rerunPhase (runCommands x now post).1 now).1 now).1
      now).1 now).1.cache now).2
    (((evictAddr (evictServicesPhase (refreshResolvers (refreshActive (rerunPhase (runCommands x now post).1 now).1 now).1
      now).1 now).1.cache now).2.map (·.1)).eraseDups)
    { (evictServicesPhase (refreshResolvers (refreshActive (rerunPhase (runCommands x now post).1 now).1 now).1 now).1
        now).1 with
      cache := (evictAddr (evictServicesPhase (refreshResolvers (refreshActive (rerunPhase (runCommands x now post).1
        now).1 now).1 now).1 now).1.cache now).1 } hq5
  refine ⟨?_, ?_⟩
  · rw [e1]
    unfold tailState evictAddrPhase
    rw [evictAddrHosts_queriers]
    exact hq5
  · rw [e3]
    unfold tailState evictAddrPhase
    rw [h6.2.1]
    exact hr2

theorem nbw_iter (s : State) (now : Nat) (pkts : List Packet) (cmds : List Command)
    (hc : cmds.all (fun c => !isBrowseCommand c) = true) (h : NoBrowseWork s) :
    NoBrowseWork (preCommands s now pkts) ∧ NoBrowseWork (runCommands (preCommands s now pkts) now cmds).1 ∧
    NoBrowseWork (Client.iter s now pkts cmds).1 := by
  have h0 : NoBrowseWork (preCommands s now pkts) := by
    refine ⟨?_, ?_⟩
    · show (ingress s now pkts).1.queriers = []
      rw [ingress_queriers]
      exact h.1
    · show ∀ r ∈ (ingress s now pkts).1.reruns, rclass r.cmd ≠ .followup
      rw [ingress_quiet_reruns now pkts s h.1]
      exact h.2
  have h1 := nbw_tail _ now cmds hc h0
  rw [(iter_tail s now pkts cmds).1]
  exact ⟨h0, h1.1, h1.2⟩

theorem hostGone_tail (key : BList) (x : State) (now : Nat) (post : List Command) (hf : HostGone key x)
    (hw : NoBrowseWork x) (hD : ∀ r ∈ x.reruns, DelayOk r)
    (hc : ∀ h ch t, Command.resolveHost h ch t ∈ post → lower h ≠ key)
    (hb : post.all (fun c => !isBrowseCommand c) = true) :
    (∀ o ∈ tailOuts x now post, asksHost key o = false) ∧ HostGone key (runIpCheck (tailState x now post) now) ∧
    NoBrowseWork (runIpCheck (tailState x now post) now) ∧
    (∀ r ∈ (runIpCheck (tailState x now post) now).reruns, DelayOk r) := by
  have ht := SInv.tail hf now post hD (fun _ _ _ _ => trivial)
    (fun h ch t dl hm => hc h ch t hm)
    (fun x hx => by cases hx)
    (by
      intro c hcm y hy
      cases c <;> simp [ckey] at hy
      · subst hy
        simp
      · rename_i h0 ch0 t0
        subst hy
        intro he
        exact hc h0 ch0 t0 hcm he.2)
  have hn := nbw_tail x now post hb hw
  refine ⟨?_, ht.2.1, hn.2, ht.2.2⟩
  intro o ho
  cases hask : asksHost key o with
  | false => rfl
  | true =>
    exfalso
    refine no_host_query key x post (midClasses x now post) o hask hf.resolvers hc ?_ ?_ ?_ (origin_tail x now post o ho)
    · intro h ch hm
      simp only [midClasses, List.mem_map] at hm
      obtain ⟨r, hr, hcl⟩ := hm
      intro he
      exact ht.1.reruns r hr _ (rkey_of_class_host hcl) ⟨rfl, he⟩
    · intro hm
      simp only [midClasses, List.mem_map] at hm
      obtain ⟨r, hr, hcl⟩ := hm
      exact hn.1.2 r hr hcl
    · rintro (⟨q, hq, _⟩ | ⟨ty, ch, h⟩)
      · rw [hw.1] at hq
        cases hq
      · have := List.all_eq_true.mp hb _ h
        simp [isBrowseCommand] at this

theorem hostGone_iter (key : BList) (s : State) (now : Nat) (pkts : List Packet) (cmds : List Command) (hf : HostGone key s)
    (hw : NoBrowseWork s) (hD : ∀ r ∈ s.reruns, DelayOk r)
    (hc : ∀ h ch t, Command.resolveHost h ch t ∈ cmds → lower h ≠ key)
    (hb : cmds.all (fun c => !isBrowseCommand c) = true) :
    (∀ o ∈ (Client.iter s now pkts cmds).2, asksHost key o = false) ∧ HostGone key (Client.iter s now pkts cmds).1 ∧
    NoBrowseWork (Client.iter s now pkts cmds).1 ∧ (∀ r ∈ (Client.iter s now pkts cmds).1.reruns, DelayOk r) := by
  obtain ⟨h1, hD1⟩ := SInv.preCommands hf now pkts hD (fun x hx => by cases hx)
  have hw1 := (nbw_iter s now pkts cmds hb hw).1
  obtain ⟨h2, h3, h4, h5⟩ := hostGone_tail key _ now cmds h1 hw1 hD1 hc hb
  rw [(iter_tail s now pkts cmds).1]
  refine ⟨?_, h3, h4, h5⟩
  intro o ho
  rw [(iter_tail s now pkts cmds).2] at ho
  simp only [List.mem_append] at ho
  have hnb : ∀ x : State, x.queriers = [] → ¬ Browsing x [] := by
    rintro x hx (⟨q, hq, _⟩ | ⟨_, _, h⟩)
    · rw [hx] at hq
      cases hq
    · cases h
  rcases ho with (ho | ho) | ho
  · cases hask : asksHost key o with
    | false => rfl
    | true =>
      exfalso
      exact no_host_query key s [] [] o hask hf.resolvers (fun _ _ _ h => by cases h) (fun _ _ h => by cases h)
        (fun h => by cases h) (hnb s hw.1) (origin_ingress [] [] now pkts s o ho)
  · cases hask : asksHost key o with
    | false => rfl
    | true =>
      exfalso
      refine no_host_query key (popTimers (ingress s now pkts).1 now) [] [] o hask ?_ (fun _ _ _ h => by cases h)
        (fun _ _ h => by cases h) (fun h => by cases h) (hnb _ ?_) (origin_runTimeouts _ [] [] now o ho)
      · intro q hq
        exact hf.resolvers q (by simpa [popTimers] using hq)
      · show (ingress s now pkts).1.queriers = []
        rw [ingress_queriers]
        exact hw.1
  · exact h2 o ho

/-! ### a channel used by one search only; what a stop leaves -/

/-- `ch` is used by the browse of `ty` and by nothing else -/
def OnlyBrowse (ch : Nat) (ty : BList) : State → Prop :=
  SInv (fun q => q.2 = ch → q.1 = ty) (fun q => q.2.1 ≠ ch) (fun k => ∀ x, k = some x → x.2.2 = ch → x = (0, ty, ch))

/-- `ch` is used by the hostname search for `key` and by nothing else -/
def OnlyHost (ch : Nat) (key : BList) : State → Prop :=
  SInv (fun q => q.2 ≠ ch) (fun q => q.2.1 = ch → q.1 = key)
    (fun k => ∀ x, k = some x → x.2.2 = ch → x.1 = 1 ∧ lower x.2.1 = key)

theorem ChanFree.onlyBrowse {ch : Nat} {s : State} (h : ChanFree ch s) (ty : BList) : OnlyBrowse ch ty s :=
  ⟨fun q hq he => absurd he (h.queriers q hq), h.resolvers, fun r hr x hx he => absurd he (h.reruns r hr x hx)⟩

theorem ChanFree.onlyHost {ch : Nat} {s : State} (h : ChanFree ch s) (key : BList) : OnlyHost ch key s :=
  ⟨h.queriers, fun q hq he => absurd he (h.resolvers q hq), fun r hr x hx he => absurd he (h.reruns r hr x hx)⟩

/-- **`stop_browse(ty)` on a running browse**: `SearchStopped` to its channel and nothing else;
    afterwards nothing is browsed or queued for `ty`; and if the channel was used by this browse
    only, nobody uses it any more -/
theorem stopBrowse_spec (s : State) (ty : BList) (ch : Nat) (hq : s.queriers.find? (·.1 == ty) = some (ty, ch)) :
    (execStopBrowse s ty).2 = [.event ch (.stopped ty)] ∧ BrowseGone ty (execStopBrowse s ty).1 ∧
    (OnlyBrowse ch ty s → ChanFree ch (execStopBrowse s ty).1) ∧
    (∀ r ∈ (execStopBrowse s ty).1.reruns, r ∈ s.reruns) := by
  have hgone : ∀ r ∈ s.reruns.filter (fun r => !isBrowseOf ty r), ∀ x, rkey r.cmd = some x → ¬ (x.1 = 0 ∧ x.2.1 = ty) := by
    intro r hr x hx he
    obtain ⟨_, hnb⟩ := List.mem_filter.mp hr
    obtain ⟨n, c⟩ := r
    cases c <;> simp [rkey] at hx
    · subst hx
      simp only at he
      simp [isBrowseOf, he.2] at hnb
    · subst hx
      simp at he
  simp only [execStopBrowse, hq]
  refine ⟨trivial, ⟨?_, fun _ _ => trivial, hgone⟩, ?_, fun r hr => (List.mem_filter.mp hr).1⟩
  · intro q hq'
    have := (List.mem_filter.mp hq').2
    simpa using this
  · intro ho
    refine ⟨?_, ho.resolvers, ?_⟩
    · intro q hq' he
      obtain ⟨h1, h2⟩ := List.mem_filter.mp hq'
      have := ho.queriers q h1 he
      simp [this] at h2
    · intro r hr x hx he
      have h1 := ho.reruns r (List.mem_filter.mp hr).1 x hx he
      exact hgone r hr x hx (by rw [h1]; exact ⟨rfl, rfl⟩)

/-- **`stop_resolve_hostname(host)` on an open search** -/
theorem stopResolve_spec (s : State) (host : BList) (ch : Nat) (dl : Option Nat)
    (hq : s.resolvers.find? (·.1 == lower host) = some (lower host, ch, dl)) :
    (execStopResolve s host).2 = [.event ch (.hstopped (lower host))] ∧ HostGone (lower host) (execStopResolve s host).1 ∧
    (OnlyHost ch (lower host) s → ChanFree ch (execStopResolve s host).1) ∧
    (∀ r ∈ (execStopResolve s host).1.reruns, r ∈ s.reruns) ∧
    (execStopResolve s host).1.queriers = s.queriers := by
  have hgone : ∀ r ∈ s.reruns.filter (fun r => !isResolveOf (lower host) r), ∀ x, rkey r.cmd = some x →
      ¬ (x.1 = 1 ∧ lower x.2.1 = lower host) := by
    intro r hr x hx he
    obtain ⟨_, hnb⟩ := List.mem_filter.mp hr
    obtain ⟨n, c⟩ := r
    cases c <;> simp [rkey] at hx
    · subst hx
      simp at he
    · subst hx
      simp only at he
      simp [isResolveOf, he.2] at hnb
  simp only [execStopResolve, hq]
  refine ⟨trivial, ⟨fun _ _ => trivial, ?_, hgone⟩, ?_, fun r hr => (List.mem_filter.mp hr).1, trivial⟩
  · intro q hq'
    have := (List.mem_filter.mp hq').2
    simpa using this
  · intro ho
    refine ⟨ho.queriers, ?_, ?_⟩
    · intro q hq' he
      obtain ⟨h1, h2⟩ := List.mem_filter.mp hq'
      have := ho.resolvers q h1 he
      simp [this] at h2
    · intro r hr x hx he
      have h1 := ho.reruns r (List.mem_filter.mp hr).1 x hx he
      exact hgone r hr x hx h1

/-- **`browse_cache(ty)`**: only events on its channel - no query at all -; afterwards `ty` is
    cache-only with no browse retransmission queued (an earlier `browse(ty)` is replaced, its
    queued retransmission purged); the re-runs queued are old ones or follow-ups -/
theorem browseCache_spec (s : State) (now : Nat) (ty : BList) (ch : Nat) :
    (∀ o ∈ (execCommand s now (.browse ty ch true)).2, ∃ e, o = .event ch e) ∧
    CacheOnlyQuiet ty (execCommand s now (.browse ty ch true)).1 ∧
    (∀ r ∈ (execCommand s now (.browse ty ch true)).1.reruns, r ∈ s.reruns ∨ DelayOk r) := by
  have hst := step_queryCacheForService (now := now) (cmds := []) (KeyOK := fun k => k = none) (OK := fun _ => True)
    { s with reruns := s.reruns.filter (fun r => !isBrowseOf ty r),
             queriers := (ty, ch) :: s.queriers.filter (fun q => q.1 != ty),
             cacheOnly := insertSet s.cacheOnly ty } ty ch trivial rfl
  have hex : (execCommand s now (.browse ty ch true)).1 =
      (queryCacheForService
        { s with reruns := s.reruns.filter (fun r => !isBrowseOf ty r),
                 queriers := (ty, ch) :: s.queriers.filter (fun q => q.1 != ty),
                 cacheOnly := insertSet s.cacheOnly ty } now ty ch).1 := by
    simp only [execCommand, execBrowse, Bool.false_eq_true, if_false, if_true]
  refine ⟨?_, ⟨?_, fun _ _ => trivial, fun _ _ => trivial, ?_⟩, ?_⟩
  · intro o ho
    simp only [execCommand, execBrowse, Bool.false_eq_true, if_false, if_true, List.mem_append, List.mem_singleton] at ho
    rcases ho with (rfl | ho) | rfl
    · exact ⟨_, rfl⟩
    · simp only [queryCacheForService, List.mem_flatMap, List.mem_append, List.mem_singleton] at ho
      obtain ⟨i, _, ho⟩ := ho
      rcases ho with rfl | ho
      · exact ⟨_, rfl⟩
      · split at ho
        · simp only [List.mem_singleton] at ho
          exact ⟨_, ho⟩
        · cases ho
    · exact ⟨_, rfl⟩
  · have e2 : (execCommand s now (.browse ty ch true)).1.cacheOnly = _ := execBrowse_new_cacheOnly s now ty 1 true ch
    rw [e2]
    simp only [if_true]
    exact (mem_insertSet _ _ _).mpr (Or.inr rfl)
  · intro r hr x hx he
    rw [hex] at hr
    rcases hst.reruns r hr with h | ⟨_, _, _, h⟩
    · obtain ⟨_, hnb⟩ := List.mem_filter.mp h
      obtain ⟨n, c⟩ := r
      cases c <;> simp [rkey] at hx
      · subst hx
        simp only at he
        simp [isBrowseOf, he.2] at hnb
      · subst hx
        simp at he
    · rw [h] at hx
      cases hx
  · intro r hr
    rw [hex] at hr
    rcases hst.reruns r hr with h | ⟨_, _, h, _⟩
    · exact Or.inl (List.mem_filter.mp h).1
    · exact Or.inr h

end Mdns.Client
