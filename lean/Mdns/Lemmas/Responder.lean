import Mdns.Model.Responder
/-
  Lemmas about the responder model: association lists, what each registry operation leaves
  untouched (frame lemmas), the per-probe schedule, and the invariant
  "status Announced on an interface ⇒ the unique records of the service are active there".
-/
namespace Mdns.Responder
open Mdns

/-! ### association lists -/

section alist
variable {κ α : Type} [DecidableEq κ]

theorem alookup_aset_self (k : κ) (v : α) (l : List (κ × α)) : alookup k (aset k v l) = some v := by
  induction l with
  | nil => simp [aset, alookup]
  | cons e l ih =>
    obtain ⟨k', v'⟩ := e
    by_cases h : k' = k
    · simp [aset, alookup, h]
    · simp [aset, alookup, h, ih]

theorem alookup_aset_ne (k k' : κ) (v : α) (l : List (κ × α)) (h : k' ≠ k) :
    alookup k' (aset k v l) = alookup k' l := by
  induction l with
  | nil => simp [aset, alookup, Ne.symm h]
  | cons e l ih =>
    obtain ⟨k'', v''⟩ := e
    by_cases h1 : k'' = k
    · subst h1
      simp [aset, alookup, Ne.symm h]
    · by_cases h2 : k'' = k'
      · subst h2
        simp [aset, alookup, h1]
      · simp [aset, alookup, h1, h2, ih]

theorem alookup_mem {k : κ} {v : α} {l : List (κ × α)} (h : alookup k l = some v) : (k, v) ∈ l := by
  induction l with
  | nil => simp [alookup] at h
  | cons e l ih =>
    obtain ⟨k', v'⟩ := e
    by_cases h1 : k' = k
    · simp [alookup, h1] at h
      simp [h1, h]
    · simp [alookup, h1] at h
      exact List.mem_cons_of_mem _ (ih h)

theorem mem_aset {k : κ} {v : α} {l : List (κ × α)} {x : κ × α} (h : x ∈ aset k v l) : x = (k, v) ∨ x ∈ l := by
  induction l with
  | nil => simp [aset] at h; exact Or.inl h
  | cons e l ih =>
    obtain ⟨k', v'⟩ := e
    by_cases h1 : k' = k
    · simp [aset, h1] at h
      rcases h with h | h
      · exact Or.inl h
      · exact Or.inr (List.mem_cons_of_mem _ h)
    · simp [aset, h1] at h
      rcases h with h | h
      · exact Or.inr (by simp [h])
      · rcases ih h with h | h
        · exact Or.inl h
        · exact Or.inr (List.mem_cons_of_mem _ h)

theorem mem_aerase {k : κ} {l : List (κ × α)} {x : κ × α} (h : x ∈ aerase k l) : x ∈ l := by
  simp only [aerase, List.mem_filter] at h
  exact h.1

theorem alookup_aerase_self (k : κ) (l : List (κ × α)) : alookup k (aerase k l) = none := by
  induction l with
  | nil => simp [aerase, alookup]
  | cons e l ih =>
    obtain ⟨k', v'⟩ := e
    by_cases h : k' = k
    · simpa [aerase, List.filter_cons, h] using ih
    · simpa [aerase, List.filter_cons, h, alookup] using ih

theorem alookup_aerase_ne (k k' : κ) (l : List (κ × α)) (h : k' ≠ k) : alookup k' (aerase k l) = alookup k' l := by
  induction l with
  | nil => simp [aerase, alookup]
  | cons e l ih =>
    obtain ⟨k'', v''⟩ := e
    by_cases h1 : k'' = k
    · subst h1
      have h2 : ¬ k'' = k' := fun e => h e.symm
      simpa [aerase, List.filter_cons, alookup, h2] using ih
    · by_cases h2 : k'' = k'
      · subst h2
        simp [aerase, h1, alookup]
      · simpa [aerase, List.filter_cons, h1, alookup, h2] using ih

theorem alookup_none_of_not_mem {k : κ} {l : List (κ × α)} (h : ∀ v, (k, v) ∉ l) : alookup k l = none := by
  cases hl : alookup k l with
  | none => rfl
  | some v => exact absurd (alookup_mem hl) (h v)

end alist

theorem mem_sinsert {α} [DecidableEq α] (x y : α) (l : List α) : y ∈ sinsert x l ↔ y = x ∨ y ∈ l := by
  unfold sinsert
  split
  · constructor
    · exact Or.inr
    · rintro (h | h)
      · subst h; assumption
      · exact h
  · simp [or_comm]

theorem mem_insertRR (a x : RR) (l : List RR) : x ∈ insertRR a l ↔ x = a ∨ x ∈ l := by
  induction l with
  | nil => simp [insertRR]
  | cons y l ih =>
    unfold insertRR
    split
    · simp
    · simp only [List.mem_cons, ih]
      constructor
      · rintro (h | h | h)
        · exact Or.inr (Or.inl h)
        · exact Or.inl h
        · exact Or.inr (Or.inr h)
      · rintro (h | h | h)
        · exact Or.inr (Or.inl h)
        · exact Or.inl h
        · exact Or.inr (Or.inr h)

/-- a fold keeps what every step keeps -/
theorem foldl_inv {α β} (P : β → Prop) (f : β → α → β) (l : List α) (b : β) (h0 : P b)
    (hstep : ∀ b a, a ∈ l → P b → P (f b a)) : P (l.foldl f b) := by
  induction l generalizing b with
  | nil => exact h0
  | cons a l ih =>
    simp only [List.foldl_cons]
    exact ih (f b a) (hstep b a (by simp) h0) (fun b x hx hb => hstep b x (List.mem_cons_of_mem _ hx) hb)

/-! ### the per-probe schedule -/

/-- what a probe does over a sequence of iteration times (non-idle actions, up to its end) -/
def Probe.trace (p : Probe) : List Nat → List (Nat × ProbeAction)
  | [] => []
  | t :: ts =>
    match p.action t with
    | .idle => p.trace ts
    | .send => (t, .send) :: (p.step t).trace ts
    | .expire => [(t, .expire)]

theorem Probe.trace_skip (p : Probe) (pre rest : List Nat) (h : ∀ t ∈ pre, t < p.next) :
    p.trace (pre ++ rest) = p.trace rest := by
  induction pre with
  | nil => rfl
  | cons t pre ih =>
    have ht : ¬ t ≥ p.next := by have := h t (by simp); omega
    simp only [List.cons_append, Probe.trace, Probe.action, ht, ↓reduceIte]
    exact ih (fun x hx => h x (List.mem_cons_of_mem _ hx))

theorem Probe.expired_iff (p : Probe) (t : Nat) : p.expired t = true ↔ t ≥ p.start + 750 ∧ p.next ≥ p.start + 750 := by
  simp [Probe.expired]

/-- a due probe that is not finished sends; a late query moves the start by the lateness -/
theorem Probe.trace_send' (p : Probe) (t : Nat) (rest : List Nat) (h1 : t ≥ p.next) (h2 : p.expired t = false) :
    p.trace (t :: rest) = (t, .send) :: ({ p with start := p.start + (t - p.next), next := t + 250 } : Probe).trace rest := by
  simp [Probe.trace, Probe.action, Probe.step, h1, h2]

/-- the query that goes out exactly when it is due leaves the start as it is -/
theorem Probe.trace_send (p : Probe) (rest : List Nat) (h2 : p.next < p.start + 750) :
    p.trace (p.next :: rest) = (p.next, .send) :: ({ p with next := p.next + 250 } : Probe).trace rest := by
  have h3 : p.expired p.next = false := by
    simp only [Probe.expired, Bool.and_eq_false_iff, decide_eq_false_iff_not]
    exact Or.inl (by omega)
  rw [Probe.trace_send' p p.next rest (Nat.le_refl _) h3]
  simp

theorem Probe.trace_expire (p : Probe) (t : Nat) (rest : List Nat) (h1 : t ≥ p.next) (h2 : t ≥ p.start + 750)
    (h3 : p.next ≥ p.start + 750) : p.trace (t :: rest) = [(t, .expire)] := by
  have : p.expired t = true := (Probe.expired_iff p t).mpr ⟨h2, h3⟩
  simp [Probe.trace, Probe.action, h1, this]

/-! ### three queries whatever the scheduler (repair of D31) -/

/-- the probe has sent `k` of its three queries: `next_send` is `k` steps of 250 ms after the
    start (the start moves with every late query, so this holds whenever the queries went out) -/
def Probe.Sent (p : Probe) (k : Nat) : Prop := p.next = p.start + 250 * k ∧ k ≤ 3

theorem Probe.Sent.new (T : Nat) : (Probe.new T).Sent 0 := ⟨rfl, by omega⟩

theorem Probe.Sent.action {p : Probe} {k : Nat} (h : p.Sent k) (t : Nat) :
    p.action t = if t ≥ p.next then (if k = 3 then .expire else .send) else .idle := by
  unfold Probe.action
  by_cases ht : t ≥ p.next
  · simp only [ht, ↓reduceIte]
    by_cases hk : k = 3
    · have : p.expired t = true := (Probe.expired_iff p t).mpr ⟨by have := h.1; omega, by have := h.1; omega⟩
      simp [hk, this]
    · have : ¬ p.expired t = true := by
        intro e
        have := (Probe.expired_iff p t).mp e
        have := h.1; have := h.2
        omega
      simp [hk, this]
  · simp [ht]

theorem Probe.Sent.step {p : Probe} {k : Nat} (h : p.Sent k) (hk : k ≠ 3) {t : Nat} (ht : t ≥ p.next) :
    (p.step t).Sent (k + 1) ∧ (p.step t).next = t + 250 := by
  have ha : p.action t = .send := by rw [h.action t]; simp [ht, hk]
  unfold Probe.step
  rw [ha]
  refine ⟨⟨?_, by have := h.2; omega⟩, rfl⟩
  show t + 250 = p.start + (t - p.next) + 250 * (k + 1)
  have := h.1
  omega

/-- the times of the queries in a trace -/
def sendTimes (tr : List (Nat × ProbeAction)) : List Nat :=
  tr.filterMap fun e => if e.2 == .send then some e.1 else none

/-- the time the probe ended, if it did -/
def endTime (tr : List (Nat × ProbeAction)) : Option Nat :=
  tr.findSome? fun e => if e.2 == .expire then some e.1 else none

/-- THREE QUERIES, WHATEVER THE SCHEDULER: a probe that has sent `k` queries, looked at at ANY
    instants `ts` (any order, any gaps), sends at most `3 - k` more, none before it is due, each at
    least 250 ms after the one before; and if it ends, it has sent all three and ends at least
    250 ms after the last. -/
theorem Probe.trace_three : ∀ (ts : List Nat) (p : Probe) (k : Nat), p.Sent k →
    (sendTimes (p.trace ts)).length + k ≤ 3 ∧ (∀ x ∈ sendTimes (p.trace ts), p.next ≤ x) ∧
    (sendTimes (p.trace ts)).Pairwise (fun a b => a + 250 ≤ b) ∧
    (∀ te, endTime (p.trace ts) = some te →
      (sendTimes (p.trace ts)).length + k = 3 ∧ p.next ≤ te ∧ ∀ x ∈ sendTimes (p.trace ts), x + 250 ≤ te) := by
  intro ts
  induction ts with
  | nil =>
    intro p k h
    exact ⟨by simpa [Probe.trace, sendTimes] using h.2, by simp [Probe.trace, sendTimes], by simp [Probe.trace, sendTimes],
      by simp [Probe.trace, endTime]⟩
  | cons t ts ih =>
    intro p k h
    by_cases ht : t ≥ p.next
    · by_cases hk : k = 3
      · have ha : p.action t = .expire := by rw [h.action t]; simp [ht, hk]
        have htr : p.trace (t :: ts) = [(t, .expire)] := by simp [Probe.trace, ha]
        rw [htr]
        refine ⟨by simp [sendTimes, hk], by simp [sendTimes], by simp [sendTimes], ?_⟩
        intro te hte
        simp only [endTime, List.findSome?_cons, beq_self_eq_true, ↓reduceIte, Option.some.injEq] at hte
        subst hte
        exact ⟨by simp [sendTimes, hk], ht, by simp [sendTimes]⟩
      · have ha : p.action t = .send := by rw [h.action t]; simp [ht, hk]
        obtain ⟨hs, hn⟩ := h.step hk ht
        have htr : p.trace (t :: ts) = (t, .send) :: (p.step t).trace ts := by simp [Probe.trace, ha]
        obtain ⟨i1, i2, i3, i4⟩ := ih (p.step t) (k + 1) hs
        rw [htr]
        have hst : sendTimes ((t, ProbeAction.send) :: (p.step t).trace ts) = t :: sendTimes ((p.step t).trace ts) := by
          simp [sendTimes]
        have het : endTime ((t, ProbeAction.send) :: (p.step t).trace ts) = endTime ((p.step t).trace ts) := by
          simp [endTime, List.findSome?_cons]
        rw [hst, het]
        rw [hn] at i2 i4
        refine ⟨by simp only [List.length_cons]; omega, ?_, ?_, ?_⟩
        · intro x hx
          rcases List.mem_cons.mp hx with rfl | hx
          · exact ht
          · have := i2 x hx; omega
        · exact List.pairwise_cons.mpr ⟨fun b hb => i2 b hb, i3⟩
        · intro te hte
          obtain ⟨j1, j2, j3⟩ := i4 te hte
          refine ⟨by simp only [List.length_cons]; omega, by omega, ?_⟩
          intro x hx
          rcases List.mem_cons.mp hx with rfl | hx
          · exact j2
          · exact j3 x hx
    · have ha : p.action t = .idle := by rw [h.action t]; simp [ht]
      have htr : p.trace (t :: ts) = p.trace ts := by simp [Probe.trace, ha]
      rw [htr]
      exact ih p k h

/-! ### a record comes to a probe -/

theorem Probe.join_records (p : Probe) (a : RR) (n : BList) (t : Nat) :
    (p.join a n t).records = if p.records.any (a.matchesRR ·) then p.records else insertRR a p.records := by
  unfold Probe.join
  split
  · rfl
  · split <;> rfl

theorem Probe.join_waiting (p : Probe) (a : RR) (n : BList) (t : Nat) : (p.join a n t).waiting = sinsert n p.waiting := by
  unfold Probe.join
  split
  · rfl
  · split <;> rfl

/-- the times of the probe stay, or the probe starts over at `t` (an unmatched record came to a
    probe that began before `t`) -/
theorem Probe.join_times (p : Probe) (a : RR) (n : BList) (t : Nat) :
    ((p.join a n t).start = p.start ∧ (p.join a n t).next = p.next ∧ p.restarts a t = false) ∨
    ((p.join a n t).start = t ∧ (p.join a n t).next = t ∧ p.restarts a t = true) := by
  unfold Probe.join Probe.restarts
  split
  · rename_i h; exact Or.inl ⟨rfl, rfl, by simp [h]⟩
  · rename_i h
    split
    · rename_i h2; exact Or.inr ⟨rfl, rfl, by simp [h, h2]⟩
    · rename_i h2; exact Or.inl ⟨rfl, rfl, by simp [h2]⟩

theorem Probe.join_new (a : RR) (n : BList) (t : Nat) :
    ((Probe.new t).join a n t).start = t ∧ ((Probe.new t).join a n t).next = t := by
  unfold Probe.join
  split
  · exact ⟨rfl, rfl⟩
  · split <;> exact ⟨rfl, rfl⟩

theorem Probe.join_records_mono (p : Probe) (a : RR) (n : BList) (t : Nat) : ∀ x ∈ p.records, x ∈ (p.join a n t).records := by
  intro x hx
  rw [Probe.join_records]
  split
  · exact hx
  · exact (mem_insertRR a x _).mpr (Or.inr hx)

theorem Probe.join_records_mem (p : Probe) (a : RR) (n : BList) (t : Nat) :
    ∀ x ∈ (p.join a n t).records, x = a ∨ x ∈ p.records := by
  intro x hx
  rw [Probe.join_records] at hx
  split at hx
  · exact Or.inr hx
  · exact (mem_insertRR a x _).mp hx

/-! ### frame lemmas of the registry operations -/

/-- `r'` has the same name changes as `r` and every record active in `r` is active in `r'` -/
def RegLe (r r' : Registry) : Prop := r'.nameChanges = r.nameChanges ∧ ∀ a, r.isActive a = true → r'.isActive a = true

theorem RegLe.refl (r : Registry) : RegLe r r := ⟨rfl, fun _ h => h⟩

theorem RegLe.trans {a b c : Registry} (h1 : RegLe a b) (h2 : RegLe b c) : RegLe a c :=
  ⟨h2.1.trans h1.1, fun x hx => h2.2 x (h1.2 x hx)⟩

/-- same `active` and `name_changes` -/
theorem RegLe.of_eq {r r' : Registry} (ha : r'.active = r.active) (hn : r'.nameChanges = r.nameChanges) : RegLe r r' :=
  ⟨hn, fun a h => by simpa [Registry.isActive, ha] using h⟩

theorem probeInsert_active (r : Registry) (a : RR) (n : BList) (t : Nat) : (r.probeInsert a n t).active = r.active := rfl
theorem probeInsert_nameChanges (r : Registry) (a : RR) (n : BList) (t : Nat) :
    (r.probeInsert a n t).nameChanges = r.nameChanges := rfl

theorem probingDoneReg_active (r : Registry) (a : RR) (n : BList) (t : Nat) : (r.probingDoneReg a n t).active = r.active := by
  unfold Registry.probingDoneReg; split <;> rfl
theorem probingDoneReg_nameChanges (r : Registry) (a : RR) (n : BList) (t : Nat) :
    (r.probingDoneReg a n t).nameChanges = r.nameChanges := by
  unfold Registry.probingDoneReg; split <;> rfl

theorem prepareAnnounceReg_active (s : Service) (i : MyIntf) (r : Registry) (v4 : Bool) (now j : Nat) :
    (prepareAnnounceReg s i r v4 now j).active = r.active ∧ (prepareAnnounceReg s i r v4 now j).nameChanges = r.nameChanges := by
  unfold prepareAnnounceReg
  split
  · exact ⟨rfl, rfl⟩
  · split
    · exact ⟨rfl, rfl⟩
    · exact foldl_inv (fun x => x.active = r.active ∧ x.nameChanges = r.nameChanges) _ _ _ ⟨rfl, rfl⟩
        (fun b a _ hb => ⟨(probingDoneReg_active b a _ _).trans hb.1, (probingDoneReg_nameChanges b a _ _).trans hb.2⟩)

theorem prepareAnnounceReg_le (s : Service) (i : MyIntf) (r : Registry) (v4 : Bool) (now j : Nat) :
    RegLe r (prepareAnnounceReg s i r v4 now j) :=
  RegLe.of_eq (prepareAnnounceReg_active s i r v4 now j).1 (prepareAnnounceReg_active s i r v4 now j).2

/-- `is_probing_done` is read from `active` and `name_changes` only -/
theorem isActive_congr {r r' : Registry} (ha : r'.active = r.active) (a : RR) : r'.isActive a = r.isActive a := by
  simp [Registry.isActive, ha]

theorem uniqueRecords_congr {r r' : Registry} (hn : r'.nameChanges = r.nameChanges) (s : Service) (i : MyIntf) (v4 : Bool) :
    uniqueRecords s i r' v4 = uniqueRecords s i r v4 := by
  simp [uniqueRecords, Registry.resolveName, hn]

theorem prepareAnnouncePkt_congr {r r' : Registry} (ha : r'.active = r.active) (hn : r'.nameChanges = r.nameChanges)
    (s : Service) (i : MyIntf) (v4 : Bool) : prepareAnnouncePkt s i r' v4 = prepareAnnouncePkt s i r v4 := by
  have h1 : r'.isActive = r.isActive := funext (isActive_congr ha)
  simp [prepareAnnouncePkt, uniqueRecords_congr hn, Registry.resolveName, hn, h1]

/-- an announcement goes out only when the service has an in-subnet address of the family and,
    if it requires probing, every unique record is active -/
theorem prepareAnnouncePkt_some {s : Service} {i : MyIntf} {r : Registry} {v4 : Bool} {p : Packet}
    (h : prepareAnnouncePkt s i r v4 = some p) :
    addrsOn s i v4 ≠ [] ∧ (s.probe = true → ∀ a ∈ uniqueRecords s i r v4, r.isActive a = true) ∧
    p.answers = ptrRecords s (r.resolveName s.fullname) TTL_OTHER ++ uniqueRecords s i r v4 ∧
    p.flags = FLAGS_RESPONSE ∧ p.questions = [] ∧ p.authorities = [] ∧ p.additionals = [] := by
  unfold prepareAnnouncePkt at h
  split at h
  · exact absurd h (by simp)
  · rename_i hne
    split at h
    · rename_i hc
      refine ⟨hne, ?_, ?_⟩
      · intro hp a ha
        simp only [hp, Bool.not_true, Bool.false_or, List.all_eq_true] at hc
        exact hc a ha
      · cases h; exact ⟨rfl, rfl, rfl, rfl, rfl⟩
    · exact absurd h (by simp)

/-! ### no renames without conflicts -/

/-- no name change is recorded and no probing record carries a new name (true as long as no
    response conflicts with a probe) -/
def NoRen (r : Registry) : Prop :=
  r.nameChanges = [] ∧ ∀ n p, (n, p) ∈ r.probing → ∀ a ∈ p.records, a.newName = none

theorem NoRen.empty : NoRen {} := ⟨rfl, fun _ _ h => by simp at h⟩

theorem uniqueRecords_newName (s : Service) (i : MyIntf) (r : Registry) (v4 : Bool) (h : r.nameChanges = []) :
    ∀ a ∈ uniqueRecords s i r v4, a.newName = none := by
  intro a ha
  simp only [uniqueRecords, h, alookup, withChange, List.cons_append, List.nil_append, List.mem_cons, List.mem_map] at ha
  rcases ha with rfl | rfl | ⟨ip, _, rfl⟩ <;> rfl

theorem probeInsert_noRen {r : Registry} (h : NoRen r) (a : RR) (ha : a.newName = none) (n : BList) (t : Nat) :
    NoRen (r.probeInsert a n t) := by
  refine ⟨h.1, ?_⟩
  intro k p hm x hx
  simp only [Registry.probeInsert] at hm
  rcases mem_aset hm with heq | hold
  · have hbase : ∀ y ∈ ((alookup a.getName r.probing).getD (Probe.new t)).records, y.newName = none := by
      intro y hy
      cases hl : alookup a.getName r.probing with
      | none => simp [hl, Probe.new] at hy
      | some q =>
        simp only [hl, Option.getD_some] at hy
        exact h.2 _ q (alookup_mem hl) y hy
    have hp : p = _ := (Prod.mk.inj heq).2
    rw [hp] at hx
    rcases Probe.join_records_mem _ a n t x hx with rfl | hx
    · exact ha
    · exact hbase x hx
  · exact h.2 k p hold x hx

theorem probingDoneReg_noRen {r : Registry} (h : NoRen r) (a : RR) (ha : a.newName = none) (n : BList) (t : Nat) :
    NoRen (r.probingDoneReg a n t) := by
  unfold Registry.probingDoneReg
  split
  · exact h
  · exact probeInsert_noRen h a ha n t

theorem prepareAnnounceReg_noRen {r : Registry} (h : NoRen r) (s : Service) (i : MyIntf) (v4 : Bool) (now j : Nat) :
    NoRen (prepareAnnounceReg s i r v4 now j) := by
  unfold prepareAnnounceReg
  split
  · exact h
  · split
    · exact h
    · exact foldl_inv NoRen _ _ _ h
        (fun b a ha hb => probingDoneReg_noRen hb a (uniqueRecords_newName s i r v4 h.1 a ha) _ _)

theorem tiebreak_active (now : Nat) (auths : List Wire.Rec) (reg : Registry) (q : Wire.Question) :
    (tiebreak now auths reg q).active = reg.active ∧ (tiebreak now auths reg q).nameChanges = reg.nameChanges := by
  unfold tiebreak
  repeat' split
  all_goals exact ⟨rfl, rfl⟩

theorem tiebreak_noRen {reg : Registry} (h : NoRen reg) (now : Nat) (auths : List Wire.Rec) (q : Wire.Question) :
    NoRen (tiebreak now auths reg q) := by
  unfold tiebreak
  split
  · exact h
  · split
    · exact h
    · rename_i key _
      split
      · exact h
      · rename_i p hl
        split
        · exact h
        · split
          · refine ⟨h.1, ?_⟩
            intro k p' hm x hx
            rcases mem_aset hm with heq | hold
            · have hp : p' = _ := (Prod.mk.inj heq).2
              rw [hp] at hx
              exact h.2 _ p (alookup_mem hl) x hx
            · exact h.2 k p' hold x hx
          · exact h

theorem tiebreakAll_le (now : Nat) (auths : List Wire.Rec) (qs : List Wire.Question) (reg : Registry) :
    RegLe reg (qs.foldl (tiebreak now auths) reg) := by
  have := foldl_inv (fun x => x.active = reg.active ∧ x.nameChanges = reg.nameChanges) (tiebreak now auths) qs reg ⟨rfl, rfl⟩
    (fun b q _ hb => ⟨(tiebreak_active now auths b q).1.trans hb.1, (tiebreak_active now auths b q).2.trans hb.2⟩)
  exact RegLe.of_eq this.1 this.2

theorem tiebreakAll_noRen {reg : Registry} (h : NoRen reg) (now : Nat) (auths : List Wire.Rec) (qs : List Wire.Question) :
    NoRen (qs.foldl (tiebreak now auths) reg) :=
  foldl_inv NoRen _ _ _ h (fun _ q _ hb => tiebreak_noRen hb now auths q)

theorem Probe.step_records (p : Probe) (now : Nat) : (p.step now).records = p.records := by
  unfold Probe.step; split <;> rfl

theorem checkProbing_le (r : Registry) (now : Nat) : RegLe r (checkProbing r now).reg := RegLe.of_eq rfl rfl

theorem checkProbing_noRen {r : Registry} (h : NoRen r) (now : Nat) : NoRen (checkProbing r now).reg := by
  refine ⟨h.1, ?_⟩
  intro k p hm x hx
  simp only [checkProbing, List.mem_map] at hm
  obtain ⟨⟨n, q⟩, hq, heq⟩ := hm
  have hp : p = q.step now := ((Prod.mk.inj heq).2).symm
  rw [hp, Probe.step_records] at hx
  exact h.2 n q hq x hx

theorem isActive_aset_append (r : Registry) (name : BList) (recs : List RR) (a : RR) (h : r.isActive a = true) :
    ({ r with active := aset name ((alookup name r.active).getD [] ++ recs) r.active } : Registry).isActive a = true := by
  unfold Registry.isActive at *
  by_cases hn : a.getName = name
  · simp only [hn, alookup_aset_self, Option.getD_some, List.any_append, Bool.or_eq_true]
    left
    simpa [hn] using h
  · simpa [alookup_aset_ne _ _ _ _ hn] using h

theorem expireProbe_spec (intfName : BList) (acc : Registry × List Event × List BList) (name : BList)
    (h : NoRen acc.1) : NoRen (expireProbe intfName acc name).1 ∧ RegLe acc.1 (expireProbe intfName acc name).1 := by
  unfold expireProbe
  split
  · exact ⟨h, RegLe.refl _⟩
  · rename_i p hl
    have hren : p.records.filter (fun a => a.newName.isSome) = [] := by
      rw [List.filter_eq_nil_iff]
      intro a ha
      simp [h.2 name p (alookup_mem hl) a ha]
    simp only [hren, List.foldl_nil, List.map_nil, List.append_nil]
    have hnr1 : NoRen ({ acc.1 with probing := aerase name acc.1.probing } : Registry) :=
      ⟨h.1, fun k q hm x hx => h.2 k q (mem_aerase hm) x hx⟩
    split
    · exact ⟨hnr1, RegLe.of_eq rfl rfl⟩
    · refine ⟨⟨h.1, fun k q hm x hx => h.2 k q (mem_aerase hm) x hx⟩, rfl, ?_⟩
      intro a ha
      exact isActive_aset_append ({ acc.1 with probing := aerase name acc.1.probing }) name p.records a
        (by simpa [Registry.isActive] using ha)

theorem handleExpiredProbes_spec (expired : List BList) (intfName : BList) (r : Registry) (h : NoRen r) :
    NoRen (handleExpiredProbes expired intfName r).1 ∧ RegLe r (handleExpiredProbes expired intfName r).1 := by
  unfold handleExpiredProbes
  exact foldl_inv (fun acc => NoRen acc.1 ∧ RegLe r acc.1) (expireProbe intfName) expired (r, [], []) ⟨h, RegLe.refl r⟩
    (fun acc n _ hacc => ⟨(expireProbe_spec intfName acc n hacc.1).1, hacc.2.trans (expireProbe_spec intfName acc n hacc.1).2⟩)

/-! ### the state invariant -/

theorem registry_setRegistry_self (s : State) (i : Nat) (r : Registry) : (s.setRegistry i r).registry i = r := by
  simp [State.registry, State.setRegistry, alookup_aset_self]

theorem registry_setRegistry_ne (s : State) (i j : Nat) (r : Registry) (h : j ≠ i) :
    (s.setRegistry i r).registry j = s.registry j := by
  simp [State.registry, State.setRegistry, alookup_aset_ne _ _ _ _ h]

theorem registry_of_lookup {s : State} {i : Nat} {r : Registry} (h : alookup i s.registries = some r) :
    s.registry i = r := by simp [State.registry, h]

/-- For a service that requires probing: wherever its status is `Announced`, there is an
    interface with that index and an IP family in which the service has an in-subnet address
    and all its unique records (SRV, TXT, the addresses of that family) are active. -/
def SvcSound (s : State) (svc : Service) : Prop :=
  svc.probe = true → ∀ idx, svc.announcedOn idx = true →
    ∃ i ∈ s.intfs, i.index = idx ∧ ∃ v4, addrsOn svc i v4 ≠ [] ∧
      ∀ a ∈ uniqueRecords svc i (s.registry idx) v4, (s.registry idx).isActive a = true

/-- same interfaces; every registry keeps its name changes and its active records -/
def StLe (s s' : State) : Prop := s'.intfs = s.intfs ∧ ∀ idx, RegLe (s.registry idx) (s'.registry idx)

theorem StLe.refl (s : State) : StLe s s := ⟨rfl, fun _ => RegLe.refl _⟩
theorem StLe.trans {a b c : State} (h1 : StLe a b) (h2 : StLe b c) : StLe a c :=
  ⟨h2.1.trans h1.1, fun idx => (h1.2 idx).trans (h2.2 idx)⟩

/-- a change that does not touch interfaces and registries -/
theorem StLe.of_eq {s s' : State} (hi : s'.intfs = s.intfs) (hr : s'.registries = s.registries) : StLe s s' :=
  ⟨hi, fun idx => by simp [State.registry, hr, RegLe.refl]⟩

theorem StLe.setRegistry {s : State} {i : Nat} {r : Registry} (h : RegLe (s.registry i) r) : StLe s (s.setRegistry i r) := by
  refine ⟨rfl, fun idx => ?_⟩
  by_cases e : idx = i
  · subst e; rw [registry_setRegistry_self]; exact h
  · rw [registry_setRegistry_ne _ _ _ _ e]; exact RegLe.refl _

theorem SvcSound.mono {s s' : State} (hle : StLe s s') {svc : Service} (h : SvcSound s svc) : SvcSound s' svc := by
  intro hp idx ha
  obtain ⟨i, hi, hidx, v4, hne, hall⟩ := h hp idx ha
  refine ⟨i, hle.1 ▸ hi, hidx, v4, hne, ?_⟩
  intro a ha'
  rw [uniqueRecords_congr (hle.2 idx).1] at ha'
  exact (hle.2 idx).2 a (hall a ha')

structure Inv (s : State) : Prop where
  noRen : ∀ idx, NoRen (s.registry idx)
  sound : ∀ e ∈ s.services, SvcSound s e.2

theorem announcedOn_setStatus (svc : Service) (j k : Nat) (st : Status) :
    (svc.setStatus j st).announcedOn k = if k = j then decide (st = .announced) else svc.announcedOn k := by
  unfold Service.announcedOn Service.getStatus Service.setStatus
  by_cases h : k = j
  · subst h
    cases st <;> simp [alookup_aset_self]
  · simp [alookup_aset_ne _ _ _ _ h, h]

@[simp] theorem setStatus_probe (svc : Service) (j : Nat) (st : Status) : (svc.setStatus j st).probe = svc.probe := rfl
@[simp] theorem addrsOn_setStatus (svc : Service) (j : Nat) (st : Status) (i : MyIntf) (v4 : Bool) :
    addrsOn (svc.setStatus j st) i v4 = addrsOn svc i v4 := rfl
@[simp] theorem uniqueRecords_setStatus (svc : Service) (j : Nat) (st : Status) (i : MyIntf) (r : Registry) (v4 : Bool) :
    uniqueRecords (svc.setStatus j st) i r v4 = uniqueRecords svc i r v4 := rfl

theorem SvcSound.setStatus_probing {s : State} {svc : Service} (idx : Nat) (h : SvcSound s svc) :
    SvcSound s (svc.setStatus idx .probing) := by
  intro hp k hk
  rw [announcedOn_setStatus] at hk
  by_cases e : k = idx
  · simp [e] at hk
  · simp only [e, ↓reduceIte] at hk
    simpa using h hp k hk

theorem SvcSound.setStatus_announced {s : State} {svc : Service} {i : MyIntf} (hi : i ∈ s.intfs) (h : SvcSound s svc)
    (hnew : svc.probe = true → ∃ v4, addrsOn svc i v4 ≠ [] ∧
      ∀ a ∈ uniqueRecords svc i (s.registry i.index) v4, (s.registry i.index).isActive a = true) :
    SvcSound s (svc.setStatus i.index .announced) := by
  intro hp k hk
  rw [announcedOn_setStatus] at hk
  by_cases e : k = i.index
  · subst e
    obtain ⟨v4, h1, h2⟩ := hnew hp
    exact ⟨i, hi, rfl, v4, by simpa using h1, by simpa using h2⟩
  · simp only [e, ↓reduceIte] at hk
    simpa using h hp k hk

/-- the two calls of `announce_service_on_intf` (IPv4, then IPv6): if one of them sent an
    announcement, the service has an address of that family and its unique records are active -/
theorem announce_pair_sound (svc : Service) (i : MyIntf) (r0 : Registry) (now j : Nat) (hp : svc.probe = true)
    (h : ((prepareAnnouncePkt svc i r0 true).isSome ||
          (prepareAnnouncePkt svc i (prepareAnnounceReg svc i r0 true now j) false).isSome) = true) :
    ∃ v4, addrsOn svc i v4 ≠ [] ∧
      ∀ a ∈ uniqueRecords svc i (prepareAnnounceReg svc i (prepareAnnounceReg svc i r0 true now j) false now j) v4,
        (prepareAnnounceReg svc i (prepareAnnounceReg svc i r0 true now j) false now j).isActive a = true := by
  have a1 := prepareAnnounceReg_active svc i r0 true now j
  have a2 := prepareAnnounceReg_active svc i (prepareAnnounceReg svc i r0 true now j) false now j
  rw [Bool.or_eq_true] at h
  rcases h with h | h
  · obtain ⟨p, hp4⟩ := Option.isSome_iff_exists.mp h
    obtain ⟨hne, hall, _⟩ := prepareAnnouncePkt_some hp4
    refine ⟨true, hne, ?_⟩
    intro a ha
    rw [uniqueRecords_congr (a2.2.trans a1.2)] at ha
    rw [isActive_congr (a2.1.trans a1.1)]
    exact hall hp a ha
  · obtain ⟨p, hp6⟩ := Option.isSome_iff_exists.mp h
    obtain ⟨hne, hall, _⟩ := prepareAnnouncePkt_some hp6
    refine ⟨false, hne, ?_⟩
    intro a ha
    rw [uniqueRecords_congr a2.2] at ha
    rw [isActive_congr a2.1]
    exact hall hp a ha

theorem announce_pair_le (svc : Service) (i : MyIntf) (r0 : Registry) (now j : Nat) :
    RegLe r0 (prepareAnnounceReg svc i (prepareAnnounceReg svc i r0 true now j) false now j) :=
  (prepareAnnounceReg_le svc i r0 true now j).trans (prepareAnnounceReg_le svc i _ false now j)

theorem announce_pair_noRen (svc : Service) (i : MyIntf) {r0 : Registry} (h : NoRen r0) (now j : Nat) :
    NoRen (prepareAnnounceReg svc i (prepareAnnounceReg svc i r0 true now j) false now j) :=
  prepareAnnounceReg_noRen (prepareAnnounceReg_noRen h svc i true now j) svc i false now j

/-- how an invariant-preserving step is shown: registries only grow, no renames appear, and
    every service afterwards was there before or is sound -/
theorem Inv.step {s s' : State} (h : Inv s) (hle : StLe s s') (hren : ∀ idx, NoRen (s'.registry idx))
    (hsvc : ∀ e ∈ s'.services, e ∈ s.services ∨ SvcSound s' e.2) : Inv s' :=
  ⟨hren, fun e he => (hsvc e he).elim (fun hold => (h.sound e hold).mono hle) id⟩

theorem noRen_setRegistry {s : State} (h : ∀ idx, NoRen (s.registry idx)) (i : Nat) {r : Registry} (hr : NoRen r) :
    ∀ idx, NoRen ((s.setRegistry i r).registry idx) := by
  intro idx
  by_cases e : idx = i
  · subst e; rw [registry_setRegistry_self]; exact hr
  · rw [registry_setRegistry_ne _ _ _ _ e]; exact h idx

/-! ### registration -/

structure UnsolOk (s0 : State) (u : Unsol) : Prop where
  le : StLe s0 u.state
  noRen : ∀ idx, NoRen (u.state.registry idx)
  services : u.state.services = s0.services
  svc : SvcSound u.state u.svc

theorem unsolOnIntf_ok (s0 : State) (now j : Nat) (u : Unsol) (i : MyIntf) (hi : i ∈ s0.intfs) (h : UnsolOk s0 u) :
    UnsolOk s0 (unsolOnIntf now j u i) := by
  have hi' : i ∈ u.state.intfs := h.le.1 ▸ hi
  unfold unsolOnIntf
  simp only []
  split
  · rename_i hann
    have hle : StLe u.state (u.state.setRegistry i.index
        (prepareAnnounceReg u.svc i (prepareAnnounceReg u.svc i (u.state.registry i.index) true now j) false now j)) :=
      StLe.setRegistry (announce_pair_le u.svc i _ now j)
    refine ⟨h.le.trans hle, noRen_setRegistry h.noRen _ (announce_pair_noRen u.svc i (h.noRen i.index) now j), h.services, ?_⟩
    refine SvcSound.setStatus_announced (s := u.state.setRegistry i.index _) hi' (h.svc.mono hle) ?_
    intro hp
    rw [registry_setRegistry_self]
    exact announce_pair_sound u.svc i _ now j hp hann
  · have hreg : RegLe (u.state.registry i.index)
        { (prepareAnnounceReg u.svc i (prepareAnnounceReg u.svc i (u.state.registry i.index) true now j) false now j) with newTimers := [] } :=
      (announce_pair_le u.svc i _ now j).trans (RegLe.of_eq rfl rfl)
    have hle : StLe u.state (u.state.setRegistry i.index
        { (prepareAnnounceReg u.svc i (prepareAnnounceReg u.svc i (u.state.registry i.index) true now j) false now j) with newTimers := [] }) :=
      StLe.setRegistry hreg
    have hnr : NoRen ({ (prepareAnnounceReg u.svc i (prepareAnnounceReg u.svc i (u.state.registry i.index) true now j) false now j) with newTimers := [] } : Registry) :=
      announce_pair_noRen u.svc i (h.noRen i.index) now j
    refine ⟨h.le.trans hle, noRen_setRegistry h.noRen _ hnr, h.services, ?_⟩
    exact SvcSound.setStatus_probing _ (h.svc.mono hle)

theorem sendUnsolicited_ok (s : State) (svc : Service) (now j : Nat) (h : Inv s) (hs : svc.status = []) :
    UnsolOk s (sendUnsolicited s svc now j) := by
  have h0 : UnsolOk s { state := s, svc := svc } :=
    ⟨StLe.refl s, h.noRen, rfl, fun _ idx ha => by simp [Service.announcedOn, Service.getStatus, hs, alookup] at ha⟩
  have hf := foldl_inv (UnsolOk s) (unsolOnIntf now j) s.intfs { state := s, svc := svc } h0
    (fun u i hi hu => unsolOnIntf_ok s now j u i hi hu)
  unfold sendUnsolicited
  exact ⟨hf.le, hf.noRen, hf.services, hf.svc⟩

theorem registerChecked_inv (s : State) (svc : Service) (now j : Nat) (h : Inv s) (hs : svc.status = []) :
    Inv (registerChecked s svc now j).1 ∧ (registerChecked s svc now j).1.intfs = s.intfs := by
  have hu := sendUnsolicited_ok s svc now j h hs
  unfold registerChecked
  refine ⟨Inv.step h hu.le hu.noRen ?_, hu.le.1⟩
  intro e he
  rcases mem_aset he with heq | hold
  · right; rw [heq]; exact hu.svc
  · left; exact hu.services ▸ hold

theorem registerService_inv (s : State) (svc : Service) (now j : Nat) (h : Inv s) (hs : svc.status = []) :
    Inv (registerService s svc now j).1 ∧ (registerService s svc now j).1.intfs = s.intfs := by
  unfold registerService
  split
  · apply registerChecked_inv s _ now j h
    unfold autoAddrs
    split <;> exact hs
  · exact ⟨h, rfl⟩

/-! ### the other commands, re-runs, probing, queries -/

theorem removeWaiting_mem {r : Registry} {n k : BList} {p : Probe} (h : (k, p) ∈ (r.removeWaiting n).probing) :
    ∃ q, (k, q) ∈ r.probing ∧ p.records = q.records ∧ p.start = q.start ∧ p.next = q.next ∧
      p.waiting = q.waiting.filter (· != n) ∧ ¬ (n ∈ q.waiting ∧ p.waiting = []) := by
  simp only [Registry.removeWaiting, List.mem_filterMap] at h
  obtain ⟨e, he, hs⟩ := h
  split at hs
  · cases hs
  · rename_i hc
    cases hs
    refine ⟨e.2, he, rfl, rfl, rfl, rfl, ?_⟩
    intro ⟨h1, h2⟩
    apply hc
    simp only [Bool.and_eq_true, List.contains_eq_mem, decide_eq_true_eq, List.isEmpty_iff]
    exact ⟨h1, h2⟩

theorem removeWaiting_noRen {r : Registry} (h : NoRen r) (n : BList) : NoRen (r.removeWaiting n) :=
  ⟨h.1, fun k p hm a ha => by
    obtain ⟨q, hq, e, _⟩ := removeWaiting_mem hm
    exact h.2 k q hq a (e ▸ ha)⟩

/-- what `purgeWaiting` leaves alone -/
structure PurgeFrame (s s' : State) : Prop where
  le : StLe s s'
  services : s'.services = s.services
  reruns : s'.reruns = s.reruns
  timers : s'.timers = s.timers
  monitors : s'.monitors = s.monitors
  stopped : s'.stopped = s.stopped
  nameLenMax : s'.nameLenMax = s.nameLenMax
  ipInterval : s'.ipInterval = s.ipInterval
  nextIpCheck : s'.nextIpCheck = s.nextIpCheck

theorem purgeWaiting_frame (s : State) (n : BList) (hnr : ∀ idx, NoRen (s.registry idx)) :
    PurgeFrame s (purgeWaiting s n) ∧ ∀ idx, NoRen ((purgeWaiting s n).registry idx) := by
  unfold purgeWaiting
  refine foldl_inv (fun (st : State) => PurgeFrame s st ∧ ∀ idx, NoRen (st.registry idx)) _ s.intfs s
    ⟨⟨StLe.refl s, rfl, rfl, rfl, rfl, rfl, rfl, rfl, rfl⟩, hnr⟩ ?_
  intro st i _ ⟨hf, hn⟩
  split
  · rename_i r hr
    have hreg : st.registry i.index = r := registry_of_lookup hr
    refine ⟨⟨hf.le.trans (StLe.setRegistry (hreg ▸ RegLe.of_eq rfl rfl)), hf.services, hf.reruns, hf.timers, hf.monitors,
      hf.stopped, hf.nameLenMax, hf.ipInterval, hf.nextIpCheck⟩, ?_⟩
    exact noRen_setRegistry hn i.index (removeWaiting_noRen (hreg ▸ hn i.index) n)
  · exact ⟨hf, hn⟩

/-- `p` is `q` with, possibly, the service `n` taken out of the waiting ones (and not left without
    a waiting service by that) -/
def Purged (n : BList) (q p : Probe) : Prop :=
  p.records = q.records ∧ p.start = q.start ∧ p.next = q.next ∧
  (p.waiting = q.waiting ∨ p.waiting = q.waiting.filter (· != n)) ∧ (n ∈ q.waiting → p.waiting ≠ [])

theorem Purged.refl (n : BList) (q : Probe) : Purged n q q :=
  ⟨rfl, rfl, rfl, Or.inl rfl, fun h e => by rw [e] at h; cases h⟩

theorem not_mem_filter_ne (n : BList) (l : List BList) : n ∉ l.filter (· != n) := by
  simp [List.mem_filter]

theorem filter_ne_of_not_mem {n : BList} {l : List BList} (h : n ∉ l) : l.filter (· != n) = l := by
  rw [List.filter_eq_self]
  intro x hx
  have : x ≠ n := fun e => h (e ▸ hx)
  simpa using this

theorem Purged.trans {n : BList} {a b c : Probe} (h1 : Purged n a b) (h2 : Purged n b c) : Purged n a c := by
  obtain ⟨r1, s1, n1, w1, e1⟩ := h1
  obtain ⟨r2, s2, n2, w2, e2⟩ := h2
  refine ⟨r2.trans r1, s2.trans s1, n2.trans n1, ?_, ?_⟩
  · rcases w1 with w1 | w1 <;> rcases w2 with w2 | w2
    · exact Or.inl (w2.trans w1)
    · exact Or.inr (by rw [w2, w1])
    · exact Or.inr (w2.trans w1)
    · right
      rw [w2, w1, filter_ne_of_not_mem (not_mem_filter_ne n a.waiting)]
  · intro hn
    rcases w1 with w1 | w1
    · exact e2 (w1 ▸ hn)
    · have hb : n ∉ b.waiting := by rw [w1]; exact not_mem_filter_ne n _
      have hbne := e1 hn
      rcases w2 with w2 | w2
      · rw [w2]; exact hbne
      · rw [w2, filter_ne_of_not_mem hb]; exact hbne

/-- what `purgeWaiting` does to the probes: each probe that is left is an earlier one with the
    service taken out; and on every interface of the daemon no probe has it among the waiting -/
theorem purge_fold (n : BList) : ∀ (l : List MyIntf) (st : State),
    (∀ idx k p, (k, p) ∈ ((l.foldl (fun st i =>
        match alookup i.index st.registries with
        | some r => st.setRegistry i.index (r.removeWaiting n)
        | none => st) st).registry idx).probing → ∃ q, (k, q) ∈ (st.registry idx).probing ∧ Purged n q p) ∧
    (∀ i ∈ l, ∀ k p, (k, p) ∈ ((l.foldl (fun st i =>
        match alookup i.index st.registries with
        | some r => st.setRegistry i.index (r.removeWaiting n)
        | none => st) st).registry i.index).probing → n ∉ p.waiting) := by
  intro l
  induction l with
  | nil =>
    intro st
    exact ⟨fun idx k p h => ⟨p, h, Purged.refl n p⟩, fun i hi => by simp at hi⟩
  | cons a rest ih =>
    intro st
    simp only [List.foldl_cons]
    -- the step for `a`
    have hstep : (∀ idx k p, (k, p) ∈ (((match alookup a.index st.registries with
          | some r => st.setRegistry a.index (r.removeWaiting n)
          | none => st) : State).registry idx).probing → ∃ q, (k, q) ∈ (st.registry idx).probing ∧ Purged n q p) ∧
        (∀ k p, (k, p) ∈ (((match alookup a.index st.registries with
          | some r => st.setRegistry a.index (r.removeWaiting n)
          | none => st) : State).registry a.index).probing → n ∉ p.waiting) := by
      split
      · rename_i r hr
        have hreg : st.registry a.index = r := registry_of_lookup hr
        constructor
        · intro idx k p h
          by_cases e : idx = a.index
          · subst e
            rw [registry_setRegistry_self] at h
            obtain ⟨q, hq, e1, e2, e3, e4, e5⟩ := removeWaiting_mem h
            exact ⟨q, hreg ▸ hq, e1, e2, e3, Or.inr e4, fun hn hp => e5 ⟨hn, hp⟩⟩
          · rw [registry_setRegistry_ne _ _ _ _ e] at h
            exact ⟨p, h, Purged.refl n p⟩
        · intro k p h
          rw [registry_setRegistry_self] at h
          obtain ⟨q, _, _, _, _, e4, _⟩ := removeWaiting_mem h
          rw [e4]
          exact not_mem_filter_ne n _
      · rename_i hr
        refine ⟨fun idx k p h => ⟨p, h, Purged.refl n p⟩, ?_⟩
        intro k p h
        have : st.registry a.index = {} := by simp [State.registry, hr]
        rw [this] at h
        simp at h
    obtain ⟨ih1, ih2⟩ := ih (match alookup a.index st.registries with
      | some r => st.setRegistry a.index (r.removeWaiting n)
      | none => st)
    constructor
    · intro idx k p h
      obtain ⟨q, hq, hqp⟩ := ih1 idx k p h
      obtain ⟨q0, hq0, hq0q⟩ := hstep.1 idx k q hq
      exact ⟨q0, hq0, hq0q.trans hqp⟩
    · intro i hi k p h
      rcases List.mem_cons.mp hi with rfl | hi
      · obtain ⟨q, hq, hqp⟩ := ih1 _ k p h
        have hnq := hstep.2 k q hq
        rcases hqp.2.2.2.1 with w | w
        · rw [w]; exact hnq
        · rw [w]; exact not_mem_filter_ne n _
      · exact ih2 i hi k p h

/-- UNREGISTER LEAVES THE PROBES (repair of D30): after `purgeWaiting` every probe on an
    interface of the daemon is an earlier probe - same records, same times - from whose waiting
    services the unregistered one was taken; none was left without a waiting service by that
    (such a probe is dropped: no probe query for it any more) -/
theorem purgeWaiting_probes (s : State) (n : BList) (i : MyIntf) (hi : i ∈ s.intfs) :
    ∀ k p, (k, p) ∈ ((purgeWaiting s n).registry i.index).probing →
      n ∉ p.waiting ∧ ∃ q, (k, q) ∈ (s.registry i.index).probing ∧ p.records = q.records ∧ p.start = q.start ∧
        p.next = q.next ∧ p.waiting = q.waiting.filter (· != n) ∧ (n ∈ q.waiting → p.waiting ≠ []) := by
  intro k p h
  obtain ⟨h1, h2⟩ := purge_fold n s.intfs s
  have hn : n ∉ p.waiting := h2 i hi k p h
  obtain ⟨q, hq, e1, e2, e3, e4, e5⟩ := h1 i.index k p h
  refine ⟨hn, q, hq, e1, e2, e3, ?_, e5⟩
  rcases e4 with w | w
  · rw [← w, filter_ne_of_not_mem hn]
  · exact w

theorem execUnregister_inv (s : State) (now : Nat) (name : BList) (ch : Nat) (h : Inv s) :
    Inv (execUnregister s now name ch).1 ∧ (execUnregister s now name ch).1.intfs = s.intfs := by
  unfold execUnregister
  split
  · exact ⟨h, rfl⟩
  · rename_i svc _
    obtain ⟨hf, hn⟩ := purgeWaiting_frame s svc.fullname h.noRen
    have hle : StLe s ({ (purgeWaiting s svc.fullname) with
        services := aerase (lower name) s.services,
        reruns := s.reruns ++ (goodbyes (announcedIntfs s svc) svc).map (fun (i, v4, p) => ReRun.unregisterResend (now + 120) p i v4),
        timers := s.timers ++ (goodbyes (announcedIntfs s svc) svc).map (fun _ => now + 120) } : State) :=
      hf.le.trans (StLe.of_eq rfl rfl)
    refine ⟨Inv.step h hle (fun idx => hn idx) ?_, hf.le.1⟩
    intro e he
    exact Or.inl (mem_aerase he)

theorem cleanup_inv (s : State) (h : Inv s) : Inv (cleanup s).1 ∧ (cleanup s).1.intfs = s.intfs := by
  unfold cleanup
  refine ⟨Inv.step h (StLe.of_eq rfl rfl) h.noRen ?_, rfl⟩
  intro e he
  simp at he

theorem find_index_spec {intfs : List MyIntf} {idx : Nat} {i : MyIntf} (h : intfs.find? (·.index == idx) = some i) :
    i ∈ intfs ∧ i.index = idx := by
  refine ⟨List.mem_of_find?_eq_some h, ?_⟩
  have := List.find?_some h
  simpa using this

theorem execRegisterResend_inv (s : State) (now j : Nat) (fullname : BList) (ifIdx : Nat) (h : Inv s) :
    Inv (execRegisterResend s now j fullname ifIdx).1 ∧ (execRegisterResend s now j fullname ifIdx).1.intfs = s.intfs := by
  unfold execRegisterResend
  split
  · rename_i svc r0 i hsvc hr0 hi
    obtain ⟨him, hidx⟩ := find_index_spec hi
    subst hidx
    have hr : s.registry i.index = r0 := registry_of_lookup hr0
    have hle : StLe s (s.setRegistry i.index
        (prepareAnnounceReg svc i (prepareAnnounceReg svc i r0 true now j) false now j)) :=
      StLe.setRegistry (hr ▸ announce_pair_le svc i r0 now j)
    have hnr := noRen_setRegistry h.noRen i.index (announce_pair_noRen svc i (hr ▸ h.noRen i.index) now j)
    simp only []
    split
    · rename_i hann
      refine ⟨Inv.step h hle hnr ?_, rfl⟩
      intro e he
      rcases mem_aset he with heq | hold
      · right
        rw [heq]
        refine SvcSound.setStatus_announced (s := s.setRegistry i.index _) him ((h.sound _ (alookup_mem hsvc)).mono hle) ?_
        intro hp
        rw [registry_setRegistry_self]
        exact announce_pair_sound svc i r0 now j hp hann
      · exact Or.inl hold
    · exact ⟨Inv.step h hle hnr (fun e he => Or.inl he), rfl⟩
  · exact ⟨h, rfl⟩

theorem wakeService_inv (now j : Nat) (i : MyIntf) (acc : State × List Out) (name : BList)
    (h : Inv acc.1) (hi : i ∈ acc.1.intfs) :
    Inv (wakeService now j i acc name).1 ∧ (wakeService now j i acc name).1.intfs = acc.1.intfs := by
  unfold wakeService
  simp only []
  split
  · exact ⟨h, rfl⟩
  · rename_i svc hsvc
    split
    · exact ⟨h, rfl⟩
    · have hle : StLe acc.1 (acc.1.setRegistry i.index
          (prepareAnnounceReg svc i (prepareAnnounceReg svc i (acc.1.registry i.index) true now j) false now j)) :=
        StLe.setRegistry (announce_pair_le svc i _ now j)
      have hnr := noRen_setRegistry h.noRen i.index (announce_pair_noRen svc i (h.noRen i.index) now j)
      split
      · rename_i hann
        refine ⟨Inv.step h hle hnr ?_, rfl⟩
        intro e he
        rcases mem_aset he with heq | hold
        · right
          rw [heq]
          refine SvcSound.setStatus_announced (s := acc.1.setRegistry i.index _) hi ((h.sound _ (alookup_mem hsvc)).mono hle) ?_
          intro hp
          rw [registry_setRegistry_self]
          exact announce_pair_sound svc i _ now j hp hann
        · exact Or.inl hold
      · exact ⟨Inv.step h hle hnr (fun e he => Or.inl he), rfl⟩

theorem drainNewTimers_snd (idx : Nat) (acc : State × List Out) : (drainNewTimers idx acc).2 = acc.2 := rfl

theorem drainNewTimers_frame (idx : Nat) (acc : State × List Out) :
    (drainNewTimers idx acc).1.intfs = acc.1.intfs ∧ (drainNewTimers idx acc).1.stopped = acc.1.stopped ∧
    (drainNewTimers idx acc).1.services = acc.1.services ∧ (drainNewTimers idx acc).1.reruns = acc.1.reruns ∧
    (drainNewTimers idx acc).1.monitors = acc.1.monitors := ⟨rfl, rfl, rfl, rfl, rfl⟩

theorem drainNewTimers_registry_self (idx : Nat) (acc : State × List Out) :
    (drainNewTimers idx acc).1.registry idx = { (acc.1.registry idx) with newTimers := [] } :=
  registry_setRegistry_self _ _ _

theorem drainNewTimers_registry_ne (idx k : Nat) (acc : State × List Out) (h : k ≠ idx) :
    (drainNewTimers idx acc).1.registry k = acc.1.registry k :=
  registry_setRegistry_ne _ _ _ _ h

theorem drainNewTimers_inv (idx : Nat) (acc : State × List Out) (h : Inv acc.1) : Inv (drainNewTimers idx acc).1 := by
  have hle : StLe acc.1 (acc.1.setRegistry idx { (acc.1.registry idx) with newTimers := [] }) :=
    StLe.setRegistry (RegLe.of_eq rfl rfl)
  have hnr := noRen_setRegistry h.noRen idx (r := { (acc.1.registry idx) with newTimers := [] }) (h.noRen idx)
  exact Inv.step (s' := (drainNewTimers idx acc).1) h hle hnr (fun e he => Or.inl he)

theorem probingOnIntf_inv (now j : Nat) (acc : State × List Out) (i : MyIntf) (h : Inv acc.1) (hi : i ∈ acc.1.intfs) :
    Inv (probingOnIntf now j acc i).1 ∧ (probingOnIntf now j acc i).1.intfs = acc.1.intfs := by
  unfold probingOnIntf
  simp only []
  split
  · exact ⟨h, rfl⟩
  · rename_i r hr
    have hreg : acc.1.registry i.index = r := registry_of_lookup hr
    have hnr0 : NoRen r := hreg ▸ h.noRen i.index
    have hcp := checkProbing_noRen hnr0 now
    have hex := handleExpiredProbes_spec (checkProbing r now).expired i.name (checkProbing r now).reg hcp
    have hle : StLe acc.1 (acc.1.setRegistry i.index (handleExpiredProbes (checkProbing r now).expired i.name (checkProbing r now).reg).1) :=
      StLe.setRegistry (hreg ▸ (checkProbing_le r now).trans hex.2)
    have hnr := noRen_setRegistry h.noRen i.index hex.1
    have h1 : Inv ({ (acc.1.setRegistry i.index (handleExpiredProbes (checkProbing r now).expired i.name (checkProbing r now).reg).1) with
        timers := acc.1.timers ++ (checkProbing r now).timers } : State) :=
      Inv.step h hle hnr (fun e he => Or.inl he)
    have hf := foldl_inv (fun (a : State × List Out) => Inv a.1 ∧ a.1.intfs = acc.1.intfs) (wakeService now j i)
      (handleExpiredProbes (checkProbing r now).expired i.name (checkProbing r now).reg).2.2
      (({ (acc.1.setRegistry i.index (handleExpiredProbes (checkProbing r now).expired i.name (checkProbing r now).reg).1) with
          timers := acc.1.timers ++ (checkProbing r now).timers } : State),
        acc.2 ++ probeSends i (checkProbing r now) ++
          (handleExpiredProbes (checkProbing r now).expired i.name (checkProbing r now).reg).2.1.flatMap (notify acc.1))
      ⟨h1, rfl⟩ (fun a n _ ha => by
        have := wakeService_inv now j i a n ha.1 (ha.2 ▸ hi)
        exact ⟨this.1, this.2.trans ha.2⟩)
    exact ⟨drainNewTimers_inv i.index _ hf.1, hf.2⟩

theorem probingHandler_inv (s : State) (now j : Nat) (h : Inv s) :
    Inv (probingHandler s now j).1 ∧ (probingHandler s now j).1.intfs = s.intfs := by
  unfold probingHandler
  exact foldl_inv (fun (a : State × List Out) => Inv a.1 ∧ a.1.intfs = s.intfs) (probingOnIntf now j) s.intfs (s, []) ⟨h, rfl⟩
    (fun a i hi ha => by
      have := probingOnIntf_inv now j a i ha.1 (ha.2 ▸ hi)
      exact ⟨this.1, this.2.trans ha.2⟩)

theorem handleQuery_inv (s : State) (now : Nat) (p : RxPkt) (i : MyIntf) (h : Inv s) :
    Inv (handleQuery s now p i).1 ∧ (handleQuery s now p i).1.intfs = s.intfs := by
  unfold handleQuery
  split
  · exact ⟨h, rfl⟩
  · rename_i reg hreg
    have hr : s.registry p.ifIdx = reg := registry_of_lookup hreg
    have hle : StLe s (s.setRegistry p.ifIdx (p.msg.questions.foldl (tiebreak now p.msg.authorities) reg)) :=
      StLe.setRegistry (hr ▸ tiebreakAll_le now p.msg.authorities p.msg.questions reg)
    have hnr := noRen_setRegistry h.noRen p.ifIdx (tiebreakAll_noRen (hr ▸ h.noRen p.ifIdx) now p.msg.authorities p.msg.questions)
    have hinv : Inv (s.setRegistry p.ifIdx (p.msg.questions.foldl (tiebreak now p.msg.authorities) reg)) :=
      Inv.step h hle hnr (fun e he => Or.inl he)
    have hinv' : Inv ({ (s.setRegistry p.ifIdx (p.msg.questions.foldl (tiebreak now p.msg.authorities) reg)) with
        timers := s.timers ++ tiebreakTimers now p.msg.authorities reg p.msg.questions } : State) :=
      Inv.step hinv (StLe.of_eq rfl rfl) hinv.noRen (fun e he => Or.inl he)
    simp only []
    split <;> exact ⟨hinv', rfl⟩

/-- a datagram that is a query (QR bit clear) -/
def RxPkt.isQuery (p : RxPkt) : Bool := p.msg.flags / 32768 % 2 == 0

theorem handleRead_inv (now j : Nat) (acc : State × List Out) (p : RxPkt) (h : Inv acc.1) (hq : p.isQuery = true) :
    Inv (handleRead now j acc p).1 ∧ (handleRead now j acc p).1.intfs = acc.1.intfs := by
  unfold handleRead
  split
  · exact ⟨h, rfl⟩
  · rename_i i _
    split
    · exact ⟨h, rfl⟩
    · simp only [RxPkt.isQuery] at hq
      simp only [hq, ↓reduceIte]
      exact handleQuery_inv acc.1 now p i h

theorem execCommand_inv (now j : Nat) (acc : State × List Out) (c : Command) (h : Inv acc.1)
    (hc : ∀ svc, c = .register svc → svc.status = []) :
    Inv (execCommand now j acc c).1 ∧ (execCommand now j acc c).1.intfs = acc.1.intfs := by
  unfold execCommand
  split
  · exact ⟨h, rfl⟩
  · cases c with
    | register svc => exact registerService_inv acc.1 svc now j h (hc svc rfl)
    | unregister name ch => exact execUnregister_inv acc.1 now name ch h
    | monitor ch => exact ⟨Inv.step h (StLe.of_eq rfl rfl) h.noRen (fun e he => Or.inl he), rfl⟩
    | ipInterval ms => exact ⟨Inv.step h (StLe.of_eq rfl rfl) h.noRen (fun e he => Or.inl he), rfl⟩
    | exit ch => exact cleanup_inv acc.1 h

theorem execRerun_inv (now j : Nat) (acc : State × List Out) (r : ReRun) (h : Inv acc.1) :
    Inv (execRerun now j acc r).1 ∧ (execRerun now j acc r).1.intfs = acc.1.intfs := by
  unfold execRerun
  cases r with
  | registerResend n fullname ifIdx => exact execRegisterResend_inv acc.1 now j fullname ifIdx h
  | unregisterResend n pkt ifIdx v4 => exact ⟨h, rfl⟩

theorem runReruns_inv (s : State) (now j : Nat) (h : Inv s) :
    Inv (runReruns s now j).1 ∧ (runReruns s now j).1.intfs = s.intfs := by
  unfold runReruns
  have h0 : Inv ({ s with reruns := s.reruns.filter (fun r => !decide (now ≥ r.next)) } : State) :=
    Inv.step h (StLe.of_eq rfl rfl) h.noRen (fun e he => Or.inl he)
  exact foldl_inv (fun (a : State × List Out) => Inv a.1 ∧ a.1.intfs = s.intfs) (execRerun now j) _ _ ⟨h0, rfl⟩
    (fun a r _ ha => by
      have := execRerun_inv now j a r ha.1
      exact ⟨this.1, this.2.trans ha.2⟩)

theorem runIpCheck_inv (s : State) (now : Nat) (h : Inv s) : Inv (runIpCheck s now) := by
  unfold runIpCheck
  repeat' split
  all_goals first
    | exact h
    | exact Inv.step h (StLe.of_eq rfl rfl) h.noRen (fun e he => Or.inl he)

/-- the inputs under which the invariant is claimed: every datagram read is a query (no
    response, hence no conflict), and every registered `ServiceInfo` is fresh (its status map
    is empty, as `ServiceInfo::new` builds it) -/
def Input.plain (inp : Input) : Prop :=
  (∀ p ∈ inp.rx, p.isQuery = true) ∧ ∀ svc, Command.register svc ∈ inp.cmds → svc.status = []

theorem iter_inv (s : State) (inp : Input) (h : Inv s) (hp : inp.plain) : Inv (iter s inp).1 := by
  unfold iter
  split
  · exact h
  · have h1 := foldl_inv (fun (a : State × List Out) => Inv a.1) (handleRead inp.now inp.jitter) inp.rx (s, []) h
      (fun a p hpm ha => (handleRead_inv inp.now inp.jitter a p ha (hp.1 p hpm)).1)
    have h2 : Inv ({ (inp.rx.foldl (handleRead inp.now inp.jitter) (s, [])).1 with
        timers := (inp.rx.foldl (handleRead inp.now inp.jitter) (s, [])).1.timers.filter (· > inp.now) } : State) :=
      Inv.step h1 (StLe.of_eq rfl rfl) h1.noRen (fun e he => Or.inl he)
    have h3 := foldl_inv (fun (a : State × List Out) => Inv a.1) (execCommand inp.now inp.jitter) inp.cmds (_, []) h2
      (fun a c hcm ha => (execCommand_inv inp.now inp.jitter a c ha (fun svc e => hp.2 svc (e ▸ hcm))).1)
    simp only []
    split
    · exact h3
    · exact runIpCheck_inv _ _ (probingHandler_inv _ _ _ (runReruns_inv _ _ _ h3).1).1

theorem init_inv (now : Nat) (intfs : List MyIntf) : Inv (init now intfs) := by
  refine ⟨fun idx => ?_, fun e he => by simp [init] at he⟩
  unfold State.registry
  cases hl : alookup idx (init now intfs).registries with
  | none => exact NoRen.empty
  | some r =>
    have := alookup_mem hl
    simp only [init, List.mem_map] at this
    obtain ⟨_, _, heq⟩ := this
    have : r = {} := ((Prod.mk.inj heq).2).symm
    simpa [this] using NoRen.empty

theorem run_inv (inputs : List Input) (s : State) (h : Inv s) (hp : ∀ inp ∈ inputs, inp.plain) : Inv (run s inputs).1 := by
  induction inputs generalizing s with
  | nil => exact h
  | cons inp rest ih =>
    simp only [run]
    exact ih _ (iter_inv s inp h (hp inp (by simp))) (fun x hx => hp x (List.mem_cons_of_mem _ hx))

/-! ### `check_probing` per probe -/

theorem checkProbing_sends {r : Registry} {now : Nat} {n : BList} {p : Probe} (hm : (n, p) ∈ r.probing)
    (ha : p.action now = .send) :
    (n, TYPE_ANY) ∈ (checkProbing r now).questions ∧ (∀ a ∈ p.records, a ∈ (checkProbing r now).authorities) ∧
    (now + 250) ∈ (checkProbing r now).timers ∧
    (n, { p with start := p.start + (now - p.next), next := now + 250 }) ∈ (checkProbing r now).reg.probing := by
  have hf : (n, p) ∈ r.probing.filter (fun e => e.2.action now == .send) := by
    simp [List.mem_filter, hm, ha]
  refine ⟨?_, ?_, ?_, ?_⟩
  · simp only [checkProbing, List.mem_map]
    exact ⟨(n, p), hf, rfl⟩
  · intro a har
    simp only [checkProbing, List.mem_flatMap]
    exact ⟨(n, p), hf, har⟩
  · simp only [checkProbing, List.mem_map]
    exact ⟨(n, p), hf, trivial⟩
  · simp only [checkProbing, List.mem_map]
    exact ⟨(n, p), hm, by simp [Probe.step, ha]⟩

theorem checkProbing_question {r : Registry} {now : Nat} {n : BList} {t : Nat}
    (h : (n, t) ∈ (checkProbing r now).questions) : t = TYPE_ANY ∧ ∃ p, (n, p) ∈ r.probing ∧ p.action now = .send := by
  simp only [checkProbing, List.mem_map, List.mem_filter] at h
  obtain ⟨⟨n', p⟩, ⟨hm, ha⟩, heq⟩ := h
  obtain ⟨h1, h2⟩ := Prod.mk.inj heq
  subst h1
  exact ⟨h2.symm, p, hm, by simpa using ha⟩

theorem checkProbing_expired {r : Registry} {now : Nat} {n : BList} (h : n ∈ (checkProbing r now).expired) :
    ∃ p, (n, p) ∈ r.probing ∧ now ≥ p.next ∧ now ≥ p.start + 750 ∧ p.next ≥ p.start + 750 := by
  simp only [checkProbing, List.mem_map, List.mem_filter] at h
  obtain ⟨⟨n', p⟩, ⟨hm, ha⟩, heq⟩ := h
  subst heq
  refine ⟨p, hm, ?_⟩
  simp only [Probe.action, beq_iff_eq] at ha
  split at ha
  · split at ha
    · rename_i h1 h2
      exact ⟨h1, ((Probe.expired_iff p now).mp h2).1, ((Probe.expired_iff p now).mp h2).2⟩
    · cases ha
  · cases ha

/-! ### what `prepare_announce` leaves in the registry -/

/-- the record is active, or a matching record is being probed under its name with the
    service waiting for that probe -/
def Held (r : Registry) (a : RR) (svcName : BList) : Prop :=
  r.isActive a = true ∨
  ∃ p, alookup a.getName r.probing = some p ∧ p.records.any (a.matchesRR ·) = true ∧ svcName ∈ p.waiting

theorem RR.matchesRR_self (a : RR) : a.matchesRR a = true := by simp [RR.matchesRR]

theorem probingDoneReg_held (r : Registry) (a : RR) (n : BList) (t : Nat) : Held (r.probingDoneReg a n t) a n := by
  unfold Registry.probingDoneReg
  split
  · exact Or.inl (by assumption)
  · right
    simp only [Registry.probeInsert, alookup_aset_self]
    refine ⟨_, rfl, ?_, ?_⟩
    · rw [Probe.join_records]
      split
      · assumption
      · simp only [List.any_eq_true]
        exact ⟨a, (mem_insertRR a a _).mpr (Or.inl rfl), RR.matchesRR_self a⟩
    · rw [Probe.join_waiting]
      exact (mem_sinsert n n _).mpr (Or.inl rfl)

theorem probingDoneReg_keeps_held (r : Registry) (a b : RR) (n : BList) (t : Nat) (h : Held r b n) :
    Held (r.probingDoneReg a n t) b n := by
  unfold Registry.probingDoneReg
  split
  · exact h
  · rcases h with h | ⟨p, hl, hany, hw⟩
    · exact Or.inl (by simpa [Registry.isActive, Registry.probeInsert] using h)
    · right
      by_cases e : b.getName = a.getName
      · simp only [Registry.probeInsert, e, alookup_aset_self]
        rw [e] at hl
        refine ⟨_, rfl, ?_, ?_⟩
        · simp only [hl, Option.getD_some]
          simp only [List.any_eq_true] at hany ⊢
          obtain ⟨x, hx, hmx⟩ := hany
          exact ⟨x, Probe.join_records_mono p a n t x hx, hmx⟩
        · simp only [hl, Option.getD_some]
          rw [Probe.join_waiting]
          exact (mem_sinsert n n _).mpr (Or.inr hw)
      · refine ⟨p, ?_, hany, hw⟩
        simp only [Registry.probeInsert]
        rw [alookup_aset_ne _ _ _ _ e]
        exact hl

theorem foldl_probingDone_held (l : List RR) (r : Registry) (n : BList) (t : Nat) :
    ∀ a ∈ l, Held (l.foldl (fun r a => r.probingDoneReg a n t) r) a n := by
  induction l generalizing r with
  | nil => intro a ha; simp at ha
  | cons x l ih =>
    intro a ha
    simp only [List.foldl_cons]
    rcases List.mem_cons.mp ha with rfl | hin
    · exact foldl_inv (fun reg => Held reg a n) _ l _ (probingDoneReg_held r a n t)
        (fun b y _ hb => probingDoneReg_keeps_held b y a n t hb)
    · exact ih _ a hin

/-- After `prepare_announce` for a service that requires probing, every unique record of
    the service (SRV, TXT, each in-subnet address of the family) is active or sits in the
    probe of its name, and the service waits for that probe. -/
theorem prepare_registers_all (s : Service) (i : MyIntf) (r : Registry) (v4 : Bool) (now j : Nat)
    (hp : s.probe = true) (hne : addrsOn s i v4 ≠ []) :
    ∀ a ∈ uniqueRecords s i r v4, Held (prepareAnnounceReg s i r v4 now j) a s.fullname := by
  unfold prepareAnnounceReg
  simp only [hne, hp, ↓reduceIte, Bool.not_true, Bool.false_eq_true]
  exact foldl_probingDone_held _ r s.fullname (now + j)

/-- a probe that is created starts (and first sends) at the given time; a record that comes to
    an existing probe leaves the probe's times as they are when a matching record is there or the
    probe is not older than `t` - otherwise the probe starts over at `t` (repair of D33) -/
theorem probeInsert_times (r : Registry) (a : RR) (n : BList) (t : Nat) :
    ∃ p, alookup a.getName (r.probeInsert a n t).probing = some p ∧
      (alookup a.getName r.probing = none → p.start = t ∧ p.next = t) ∧
      (∀ q, alookup a.getName r.probing = some q →
        (p.start = q.start ∧ p.next = q.next ∧ q.restarts a t = false) ∨ (p.start = t ∧ p.next = t ∧ q.restarts a t = true)) := by
  simp only [Registry.probeInsert, alookup_aset_self]
  refine ⟨_, rfl, ?_, ?_⟩
  · intro h
    simp only [h, Option.getD_none]
    exact Probe.join_new a n t
  · intro q h
    simp only [h, Option.getD_some]
    exact Probe.join_times q a n t

/-! ### a daemon that has announced nothing on an interface answers nothing there -/

theorem foldl_id {α β} (f : β → α → β) (l : List α) (b : β) (h : ∀ b a, a ∈ l → f b a = b) : l.foldl f b = b := by
  induction l generalizing b with
  | nil => rfl
  | cons a l ih =>
    simp only [List.foldl_cons]
    rw [h b a (by simp)]
    exact ih b (fun b x hx => h b x (List.mem_cons_of_mem _ hx))

theorem answerQuestion_silent (known : List Wire.Rec) (services : List (BList × Service)) (i : MyIntf) (reg : Registry)
    (v4 : Bool) (r : Resp) (q : Wire.Question) (h : ∀ e ∈ services, e.2.announcedOn i.index = false) :
    answerQuestion known services i reg v4 r q = r := by
  unfold answerQuestion
  have hptr : ∀ (qn : BList) (r : Resp), services.foldl (fun r e => answerPtr known i reg v4 qn r e.2) r = r :=
    fun qn r => foldl_id _ _ _ (fun b e he => by simp [answerPtr, h e he])
  have haddr : ∀ (qn : BList) (qt : Nat) (r : Resp), services.foldl (fun r e => answerAddr known i reg qn qt r e.2) r = r :=
    fun qn qt r => foldl_id _ _ _ (fun b e he => by simp [answerAddr, h e he])
  have hinst : ∀ (r : Resp), answerInstance known services i reg v4 q.name q.ty r = r := by
    intro r
    unfold answerInstance
    split
    · rfl
    · rename_i k svc hf
      have := h _ (List.mem_of_find?_eq_some hf)
      simp [this]
  split
  · exact hptr _ _
  · simp only []
    split
    · rw [haddr, hinst]
    · exact hinst r

theorem handleQuery_silent (s : State) (now : Nat) (p : RxPkt) (i : MyIntf)
    (h : ∀ e ∈ s.services, e.2.announcedOn i.index = false) : (handleQuery s now p i).2 = [] := by
  unfold handleQuery
  split
  · rfl
  · rename_i reg _
    have : p.msg.questions.foldl (answerQuestion p.msg.answers s.services i reg p.srcV4) {} = ({} : Resp) :=
      foldl_id (answerQuestion p.msg.answers s.services i reg p.srcV4) _ _
        (fun b q _ => answerQuestion_silent _ _ _ _ _ b q h)
    simp [this]

/-! ### unregister, goodbye, shutdown -/

theorem alookup_isSome_iff {κ α : Type} [DecidableEq κ] (k : κ) (l : List (κ × α)) :
    (alookup k l).isSome = true ↔ ∃ v, (k, v) ∈ l := by
  constructor
  · intro h
    obtain ⟨v, hv⟩ := Option.isSome_iff_exists.mp h
    exact ⟨v, alookup_mem hv⟩
  · rintro ⟨v, hv⟩
    cases hl : alookup k l with
    | some _ => rfl
    | none =>
      exfalso
      induction l with
      | nil => simp at hv
      | cons e l ih =>
        obtain ⟨k', v'⟩ := e
        by_cases h1 : k' = k
        · simp [alookup, h1] at hl
        · simp only [alookup, h1, ↓reduceIte] at hl
          rcases List.mem_cons.mp hv with heq | hin
          · exact h1 (Prod.mk.inj heq).1.symm
          · exact ih hin hl

theorem goodbyePkt_spec {svc : Service} {i : MyIntf} {v4 : Bool} {p : Packet} (h : goodbyePkt svc i v4 = some p) :
    addrsOn svc i v4 ≠ [] ∧ p.id = 0 ∧ p.flags = FLAGS_RESPONSE ∧ p.questions = [] ∧ p.authorities = [] ∧ p.additionals = [] ∧
    p.answers = ptrRecords svc svc.fullname 0 ++
      [{ name := svc.fullname, ty := TYPE_SRV, flush := true, ttl := 0, rdata := .srv 0 0 svc.port svc.host },
       { name := svc.fullname, ty := TYPE_TXT, flush := true, ttl := 0, rdata := .txt svc.txt }] ++
      (addrsOn svc i v4).map fun ip =>
        { name := svc.host, ty := addrType ip, flush := true, ttl := 0, rdata := addrRData ip } := by
  unfold goodbyePkt at h
  split at h
  · exact absurd h (by simp)
  · rename_i hne
    cases h
    exact ⟨hne, rfl, rfl, rfl, rfl, rfl, rfl⟩

theorem goodbyePkt_ttl_zero {svc : Service} {i : MyIntf} {v4 : Bool} {p : Packet} (h : goodbyePkt svc i v4 = some p) :
    ∀ a ∈ p.answers, a.ttl = 0 ∧ a.newName = none := by
  intro a ha
  rw [(goodbyePkt_spec h).2.2.2.2.2.2] at ha
  simp only [ptrRecords, List.mem_append, List.mem_cons, List.mem_map, List.not_mem_nil, or_false] at ha
  rcases ha with ((rfl | hsub) | rfl | rfl) | ⟨ip, _, rfl⟩
  · exact ⟨rfl, rfl⟩
  · cases hs : svc.sub with
    | none => simp [hs] at hsub
    | some sub =>
      simp only [hs, List.mem_cons, List.not_mem_nil, or_false] at hsub
      subst hsub
      exact ⟨rfl, rfl⟩
  · exact ⟨rfl, rfl⟩
  · exact ⟨rfl, rfl⟩
  · exact ⟨rfl, rfl⟩

theorem goodbyePkt_isSome (svc : Service) (i : MyIntf) (v4 : Bool) :
    (goodbyePkt svc i v4).isSome = true ↔ addrsOn svc i v4 ≠ [] := by
  unfold goodbyePkt
  split <;> simp_all

/-- membership in the list of goodbye packets: exactly one per interface and family with an
    in-subnet address -/
theorem mem_goodbyes {intfs : List MyIntf} {svc : Service} {idx : Nat} {v4 : Bool} {p : Packet} :
    (idx, v4, p) ∈ goodbyes intfs svc ↔ ∃ i ∈ intfs, i.index = idx ∧ goodbyePkt svc i v4 = some p := by
  simp only [goodbyes, goodbyesOn, List.mem_flatMap, List.mem_map, List.mem_append]
  constructor
  · rintro ⟨i, hi, ⟨v, q⟩, hm, heq⟩
    obtain ⟨h1, h2, h3⟩ : i.index = idx ∧ v = v4 ∧ q = p := by
      simp only [Prod.mk.injEq] at heq; exact heq
    subst h1 h2 h3
    refine ⟨i, hi, rfl, ?_⟩
    rcases hm with hm | hm
    · cases hg : goodbyePkt svc i true with
      | none => simp [hg] at hm
      | some q' =>
        simp only [hg, List.mem_cons, Prod.mk.injEq, List.not_mem_nil, or_false] at hm
        rw [hm.1, hg, hm.2]
    · cases hg : goodbyePkt svc i false with
      | none => simp [hg] at hm
      | some q' =>
        simp only [hg, List.mem_cons, Prod.mk.injEq, List.not_mem_nil, or_false] at hm
        rw [hm.1, hg, hm.2]
  · rintro ⟨i, hi, hidx, hg⟩
    refine ⟨i, hi, (v4, p), ?_, by simp [hidx]⟩
    cases v4
    · right; simp [hg]
    · left; simp [hg]

/-! ### the answer of `handle_query`, declaratively -/

/-- is the record kept, i.e. not suppressed by a known answer of the query? -/
def kept (known : List Wire.Rec) (a : RR) : Bool := !suppressedBy a known

/-- the PTR answer a service owes to a PTR question: its type / subtype PTR, or the
    meta-query PTR, if the service is announced on the interface -/
def ptrRule (i : MyIntf) (reg : Registry) (v4 : Bool) (qname : BList) (svc : Service) : List RR :=
  if !svc.announcedOn i.index then []
  else if svc.matchesType qname then
    (if addrsOn svc i v4 = [] then []
     else [{ name := svc.ty, ty := TYPE_PTR, flush := false, ttl := TTL_OTHER, rdata := .ptr (reg.resolveName svc.fullname) }])
  else if qname = META_QUERY then
    [{ name := qname, ty := TYPE_PTR, flush := false, ttl := TTL_OTHER, rdata := .ptr svc.ty }]
  else []

/-- the additionals that come with a (not suppressed) type / subtype PTR answer: subtype PTR,
    SRV, TXT, the addresses of the querier's family inside the interface's subnet -/
def ptrAdditionals (known : List Wire.Rec) (i : MyIntf) (reg : Registry) (v4 : Bool) (qname : BList) (svc : Service) : List RR :=
  if svc.announcedOn i.index && svc.matchesType qname && !(addrsOn svc i v4).isEmpty &&
     kept known { name := svc.ty, ty := TYPE_PTR, flush := false, ttl := TTL_OTHER, rdata := .ptr (reg.resolveName svc.fullname) } then
    (match svc.sub with
     | some sub => [{ name := sub, ty := TYPE_PTR, flush := false, ttl := TTL_OTHER,
                      rdata := .ptr (reg.resolveName svc.fullname) : RR }]
     | none => []) ++
    [{ name := reg.resolveName svc.fullname, ty := TYPE_SRV, flush := true, ttl := TTL_HOST,
       rdata := .srv 0 0 svc.port (reg.resolveName svc.host) },
     { name := reg.resolveName svc.fullname, ty := TYPE_TXT, flush := true, ttl := TTL_OTHER, rdata := .txt svc.txt }] ++
    (addrsOn svc i v4).map fun ip =>
      { name := reg.resolveName svc.host, ty := addrType ip, flush := true, ttl := TTL_HOST, rdata := addrRData ip }
  else []

/-- the address answers a service owes to an A / AAAA / ANY question on its host name -/
def addrRule (i : MyIntf) (reg : Registry) (qname : BList) (qtype : Nat) (svc : Service) : List RR :=
  if !svc.announcedOn i.index then []
  else if lower (reg.resolveName svc.host) != lower qname then []
  else
    ((if qtype == TYPE_A || qtype == TYPE_ANY then addrsOn svc i true else []) ++
     (if qtype == TYPE_AAAA || qtype == TYPE_ANY then addrsOn svc i false else [])).map fun ip =>
      { name := reg.resolveName svc.host, ty := addrType ip, flush := true, ttl := TTL_HOST, rdata := addrRData ip }

/-- the service an instance-name question is about: the one whose CURRENT full name (the name as
    registered, resolved through the name changes) is the question's name, compared lower-cased -/
def instanceOf (services : List (BList × Service)) (i : MyIntf) (reg : Registry) (v4 : Bool) (qname : BList) : Option Service :=
  match services.find? (fun e => lower (reg.resolveName e.2.fullname) == lower qname) with
  | some (_, svc) => if svc.announcedOn i.index && !(addrsOn svc i v4).isEmpty then some svc else none
  | none => none

/-- SRV / TXT answers to SRV / TXT / ANY on the instance name, under the name as asked; the SRV
    target is the CURRENT host name of the service (resolved through the name changes) -/
def instRule (reg : Registry) (qname : BList) (qtype : Nat) : Option Service → List RR
  | none => []
  | some svc =>
    (if qtype == TYPE_SRV || qtype == TYPE_ANY then
      [{ name := qname, ty := TYPE_SRV, flush := true, ttl := TTL_HOST, rdata := .srv 0 0 svc.port (reg.resolveName svc.host) : RR }] else []) ++
    (if qtype == TYPE_TXT || qtype == TYPE_ANY then
      [{ name := qname, ty := TYPE_TXT, flush := true, ttl := TTL_OTHER, rdata := .txt svc.txt : RR }] else [])

/-- the address additionals of an SRV answer, under the current host name -/
def instAdditionals (reg : Registry) (i : MyIntf) (v4 : Bool) (qtype : Nat) : Option Service → List RR
  | none => []
  | some svc =>
    if qtype == TYPE_SRV then
      (addrsOn svc i v4).map fun ip =>
        { name := reg.resolveName svc.host, ty := addrType ip, flush := true, ttl := TTL_HOST, rdata := addrRData ip }
    else []

/-- the answers the statement asks for, for one question (before known-answer suppression) -/
def specAnswers (services : List (BList × Service)) (i : MyIntf) (reg : Registry) (v4 : Bool) (q : Wire.Question) : List RR :=
  if q.ty == TYPE_PTR then services.flatMap fun e => ptrRule i reg v4 q.name e.2
  else
    (if q.ty == TYPE_A || q.ty == TYPE_AAAA || q.ty == TYPE_ANY then services.flatMap fun e => addrRule i reg q.name q.ty e.2 else []) ++
    instRule reg q.name q.ty (instanceOf services i reg v4 q.name)

/-- the additionals for one question -/
def specAdditionals (known : List Wire.Rec) (services : List (BList × Service)) (i : MyIntf) (reg : Registry) (v4 : Bool)
    (q : Wire.Question) : List RR :=
  if q.ty == TYPE_PTR then services.flatMap fun e => ptrAdditionals known i reg v4 q.name e.2
  else instAdditionals reg i v4 q.ty (instanceOf services i reg v4 q.name)

theorem addAnswer_answers (r : Resp) (known : List Wire.Rec) (a : RR) :
    (r.addAnswer known a).answers = r.answers ++ [a].filter (kept known) ∧ (r.addAnswer known a).additionals = r.additionals := by
  unfold Resp.addAnswer kept
  split <;> simp_all

theorem foldl_addAnswer (known : List Wire.Rec) (l : List RR) (r : Resp) :
    (l.foldl (fun r a => r.addAnswer known a) r).answers = r.answers ++ l.filter (kept known) ∧
    (l.foldl (fun r a => r.addAnswer known a) r).additionals = r.additionals := by
  induction l generalizing r with
  | nil => simp
  | cons a l ih =>
    simp only [List.foldl_cons]
    obtain ⟨h1, h2⟩ := ih (r.addAnswer known a)
    rw [h1, h2, (addAnswer_answers r known a).1, (addAnswer_answers r known a).2]
    simp only [List.filter_cons, List.filter_nil, List.append_assoc, and_true]
    congr 1
    split <;> simp

theorem answerPtr_spec (known : List Wire.Rec) (i : MyIntf) (reg : Registry) (v4 : Bool) (qname : BList) (r : Resp) (svc : Service) :
    (answerPtr known i reg v4 qname r svc).answers = r.answers ++ (ptrRule i reg v4 qname svc).filter (kept known) ∧
    (answerPtr known i reg v4 qname r svc).additionals = r.additionals ++ ptrAdditionals known i reg v4 qname svc := by
  unfold answerPtr ptrRule ptrAdditionals
  by_cases ha : svc.announcedOn i.index = true
  · by_cases hm : svc.matchesType qname = true
    · simp only [ha, hm, Bool.not_true, Bool.false_eq_true, ↓reduceIte, Bool.true_and]
      unfold addAnswerWithAdditionals
      by_cases hne : addrsOn svc i v4 = []
      · simp [hne]
      · simp only [hne, ↓reduceIte]
        split
        · rename_i hs
          simp [hs, kept]
        · rename_i hs
          simp [hs, kept, hne, List.append_assoc] <;> rfl
    · simp only [ha, hm, Bool.not_true, Bool.false_eq_true, ↓reduceIte, Bool.true_and, Bool.false_and, List.append_nil]
      by_cases hq : qname = META_QUERY
      · simp only [hq, ↓reduceIte]
        exact addAnswer_answers r known _
      · simp [hq]
  · simp [ha]

theorem answerAddr_spec (known : List Wire.Rec) (i : MyIntf) (reg : Registry) (qname : BList) (qtype : Nat) (r : Resp) (svc : Service) :
    (answerAddr known i reg qname qtype r svc).answers = r.answers ++ (addrRule i reg qname qtype svc).filter (kept known) ∧
    (answerAddr known i reg qname qtype r svc).additionals = r.additionals := by
  unfold answerAddr addrRule
  split
  · simp
  · split
    · simp
    · have := foldl_addAnswer known
        (((if qtype == TYPE_A || qtype == TYPE_ANY then addrsOn svc i true else []) ++
          (if qtype == TYPE_AAAA || qtype == TYPE_ANY then addrsOn svc i false else [])).map fun ip =>
            ({ name := reg.resolveName svc.host, ty := addrType ip, flush := true, ttl := TTL_HOST, rdata := addrRData ip } : RR)) r
      rw [List.foldl_map] at this
      exact this

theorem foldl_services_spec (f : Resp → Service → Resp) (rule adds : Service → List RR) (known : List Wire.Rec)
    (hf : ∀ r svc, (f r svc).answers = r.answers ++ (rule svc).filter (kept known) ∧ (f r svc).additionals = r.additionals ++ adds svc)
    (services : List (BList × Service)) (r : Resp) :
    (services.foldl (fun r e => f r e.2) r).answers = r.answers ++ (services.flatMap fun e => rule e.2).filter (kept known) ∧
    (services.foldl (fun r e => f r e.2) r).additionals = r.additionals ++ services.flatMap fun e => adds e.2 := by
  induction services generalizing r with
  | nil => simp
  | cons e l ih =>
    simp only [List.foldl_cons, List.flatMap_cons, List.filter_append]
    obtain ⟨h1, h2⟩ := ih (f r e.2)
    rw [h1, h2, (hf r e.2).1, (hf r e.2).2]
    simp [List.append_assoc]

theorem condAdd_spec (c : Bool) (r : Resp) (known : List Wire.Rec) (a : RR) :
    (if c = true then r.addAnswer known a else r).answers = r.answers ++ (if c = true then [a] else []).filter (kept known) ∧
    (if c = true then r.addAnswer known a else r).additionals = r.additionals := by
  cases c
  · simp
  · simpa using addAnswer_answers r known a

theorem addAnswerOfService_spec (known : List Wire.Rec) (reg : Registry) (qname : BList) (qtype : Nat) (svc : Service)
    (addrs : List Ip) (r : Resp) :
    (addAnswerOfService known qname qtype svc (reg.resolveName svc.host) addrs r).answers =
      r.answers ++ (instRule reg qname qtype (some svc)).filter (kept known) ∧
    (addAnswerOfService known qname qtype svc (reg.resolveName svc.host) addrs r).additionals = r.additionals ++
      (if (qtype == TYPE_SRV) = true then
        addrs.map fun ip => ({ name := reg.resolveName svc.host, ty := addrType ip, flush := true, ttl := TTL_HOST, rdata := addrRData ip } : RR)
       else []) := by
  unfold addAnswerOfService instRule
  simp only []
  have h1 := condAdd_spec (qtype == TYPE_SRV || qtype == TYPE_ANY) r known
    { name := qname, ty := TYPE_SRV, flush := true, ttl := TTL_HOST, rdata := .srv 0 0 svc.port (reg.resolveName svc.host) }
  have h2 := condAdd_spec (qtype == TYPE_TXT || qtype == TYPE_ANY)
    (if (qtype == TYPE_SRV || qtype == TYPE_ANY) = true then
      r.addAnswer known { name := qname, ty := TYPE_SRV, flush := true, ttl := TTL_HOST, rdata := .srv 0 0 svc.port (reg.resolveName svc.host) }
     else r) known
    { name := qname, ty := TYPE_TXT, flush := true, ttl := TTL_OTHER, rdata := .txt svc.txt }
  split
  · simp only [h2.1, h2.2, h1.1, h1.2, List.filter_append, List.append_assoc, and_self]
  · simp only [h2.1, h2.2, h1.1, h1.2, List.filter_append, List.append_assoc, List.append_nil, and_self]

theorem answerInstance_spec (known : List Wire.Rec) (services : List (BList × Service)) (i : MyIntf) (reg : Registry)
    (v4 : Bool) (qname : BList) (qtype : Nat) (r : Resp) :
    (answerInstance known services i reg v4 qname qtype r).answers =
      r.answers ++ (instRule reg qname qtype (instanceOf services i reg v4 qname)).filter (kept known) ∧
    (answerInstance known services i reg v4 qname qtype r).additionals =
      r.additionals ++ instAdditionals reg i v4 qtype (instanceOf services i reg v4 qname) := by
  unfold answerInstance instanceOf
  split
  · rename_i hf
    simp [hf, instRule, instAdditionals]
  · rename_i k svc hf
    simp only [hf]
    by_cases ha : svc.announcedOn i.index = true
    · by_cases hne : addrsOn svc i v4 = []
      · simp [ha, hne, instRule, instAdditionals]
      · have hne' : (addrsOn svc i v4).isEmpty = false := by simpa using hne
        simp only [ha, hne, hne', Bool.not_true, Bool.false_eq_true, ↓reduceIte, Bool.not_false, Bool.and_self]
        have := addAnswerOfService_spec known reg qname qtype svc (addrsOn svc i v4) r
        simpa [instAdditionals] using this
    · simp [ha, instRule, instAdditionals]

/-- `handle_query`'s loop body equals the declarative rule: the answers are the rule's records
    that no known answer suppresses, the additionals the rule's additionals -/
theorem answerQuestion_spec (known : List Wire.Rec) (services : List (BList × Service)) (i : MyIntf) (reg : Registry)
    (v4 : Bool) (r : Resp) (q : Wire.Question) :
    (answerQuestion known services i reg v4 r q).answers = r.answers ++ (specAnswers services i reg v4 q).filter (kept known) ∧
    (answerQuestion known services i reg v4 r q).additionals = r.additionals ++ specAdditionals known services i reg v4 q := by
  unfold answerQuestion specAnswers specAdditionals
  by_cases hp : (q.ty == TYPE_PTR) = true
  · simp only [hp, ↓reduceIte]
    exact foldl_services_spec (answerPtr known i reg v4 q.name) (ptrRule i reg v4 q.name) (ptrAdditionals known i reg v4 q.name)
      known (answerPtr_spec known i reg v4 q.name) services r
  · simp only [hp, Bool.false_eq_true, ↓reduceIte]
    by_cases ha : (q.ty == TYPE_A || q.ty == TYPE_AAAA || q.ty == TYPE_ANY) = true
    · simp only [ha, ↓reduceIte]
      have h1 := foldl_services_spec (answerAddr known i reg q.name q.ty) (addrRule i reg q.name q.ty) (fun _ => [])
        known (fun r svc => by simpa using answerAddr_spec known i reg q.name q.ty r svc) services r
      have h2 := answerInstance_spec known services i reg v4 q.name q.ty
        (services.foldl (fun r e => answerAddr known i reg q.name q.ty r e.2) r)
      rw [h2.1, h2.2, h1.1, h1.2]
      simp [List.filter_append, List.append_assoc]
    · simp only [ha, Bool.false_eq_true, ↓reduceIte, List.nil_append]
      exact answerInstance_spec known services i reg v4 q.name q.ty r

theorem answerAll_spec (known : List Wire.Rec) (services : List (BList × Service)) (i : MyIntf) (reg : Registry)
    (v4 : Bool) (qs : List Wire.Question) (r : Resp) :
    (qs.foldl (answerQuestion known services i reg v4) r).answers =
      r.answers ++ (qs.flatMap (specAnswers services i reg v4)).filter (kept known) ∧
    (qs.foldl (answerQuestion known services i reg v4) r).additionals =
      r.additionals ++ qs.flatMap (specAdditionals known services i reg v4) := by
  induction qs generalizing r with
  | nil => simp
  | cons q qs ih =>
    simp only [List.foldl_cons, List.flatMap_cons, List.filter_append]
    obtain ⟨h1, h2⟩ := ih (answerQuestion known services i reg v4 r q)
    rw [h1, h2, (answerQuestion_spec known services i reg v4 r q).1, (answerQuestion_spec known services i reg v4 r q).2]
    simp [List.append_assoc]

/-! ### constants and link-locality of every response record -/

/-- TTL 4500 s and no cache-flush bit for PTR, TTL 4500 s with the bit for TXT, TTL 120 s with
    the bit for SRV and address records; an address record carries an address of the service
    that lies in the subnet of one of the receiving interface's addresses -/
def RecordOk (i : MyIntf) (a : RR) : Prop :=
  (a.ty = TYPE_PTR ∧ a.ttl = TTL_OTHER ∧ a.flush = false) ∨
  (a.ty = TYPE_TXT ∧ a.ttl = TTL_OTHER ∧ a.flush = true) ∨
  (a.ty = TYPE_SRV ∧ a.ttl = TTL_HOST ∧ a.flush = true) ∨
  (∃ ip, a.ty = addrType ip ∧ a.rdata = addrRData ip ∧ a.ttl = TTL_HOST ∧ a.flush = true ∧
     ∃ x ∈ i.addrs, Intf.validIpOnIntf ip x.1 x.2 = true)

theorem addrsOn_valid {svc : Service} {i : MyIntf} {v4 : Bool} {ip : Ip} (h : ip ∈ addrsOn svc i v4) :
    ip ∈ svc.addrs ∧ Intf.isV4 ip = v4 ∧ ∃ x ∈ i.addrs, Intf.validIpOnIntf ip x.1 x.2 = true := by
  simpa [addrsOn, Intf.addrsOnIntf, List.mem_filter] using h

theorem addrRecord_ok (i : MyIntf) (svc : Service) (v4 : Bool) (name : BList) (ip : Ip) (h : ip ∈ addrsOn svc i v4) :
    RecordOk i { name := name, ty := addrType ip, flush := true, ttl := TTL_HOST, rdata := addrRData ip } :=
  Or.inr (Or.inr (Or.inr ⟨ip, rfl, rfl, rfl, rfl, (addrsOn_valid h).2.2⟩))

theorem ptrRule_ok {i : MyIntf} {reg : Registry} {v4 : Bool} {qname : BList} {svc : Service} {a : RR}
    (h : a ∈ ptrRule i reg v4 qname svc) : RecordOk i a := by
  unfold ptrRule at h
  repeat' split at h
  all_goals simp only [List.mem_cons, List.not_mem_nil, or_false] at h
  all_goals first
    | (subst h; exact Or.inl ⟨rfl, rfl, rfl⟩)
    | exact absurd h (by simp)

theorem ptrAdditionals_ok {known : List Wire.Rec} {i : MyIntf} {reg : Registry} {v4 : Bool} {qname : BList} {svc : Service}
    {a : RR} (h : a ∈ ptrAdditionals known i reg v4 qname svc) : RecordOk i a := by
  unfold ptrAdditionals at h
  split at h
  · simp only [List.mem_append, List.mem_cons, List.mem_map, List.not_mem_nil, or_false] at h
    rcases h with (hsub | rfl | rfl) | ⟨ip, hip, rfl⟩
    · cases hs : svc.sub with
      | none => simp [hs] at hsub
      | some sub =>
        simp only [hs, List.mem_cons, List.not_mem_nil, or_false] at hsub
        subst hsub
        exact Or.inl ⟨rfl, rfl, rfl⟩
    · exact Or.inr (Or.inr (Or.inl ⟨rfl, rfl, rfl⟩))
    · exact Or.inr (Or.inl ⟨rfl, rfl, rfl⟩)
    · exact addrRecord_ok i svc v4 _ ip hip
  · simp at h

theorem addrRule_ok {i : MyIntf} {reg : Registry} {qname : BList} {qtype : Nat} {svc : Service} {a : RR}
    (h : a ∈ addrRule i reg qname qtype svc) : RecordOk i a := by
  unfold addrRule at h
  split at h
  · simp at h
  · split at h
    · simp at h
    · simp only [List.mem_map, List.mem_append] at h
      obtain ⟨ip, hip, rfl⟩ := h
      rcases hip with hip | hip
      · split at hip
        · exact addrRecord_ok i svc true _ ip hip
        · simp at hip
      · split at hip
        · exact addrRecord_ok i svc false _ ip hip
        · simp at hip

theorem instRule_ok {i : MyIntf} {reg : Registry} {qname : BList} {qtype : Nat} {o : Option Service} {a : RR}
    (h : a ∈ instRule reg qname qtype o) : RecordOk i a := by
  cases o with
  | none => simp [instRule] at h
  | some svc =>
    simp only [instRule, List.mem_append] at h
    rcases h with h | h
    · split at h
      · simp only [List.mem_cons, List.not_mem_nil, or_false] at h
        subst h; exact Or.inr (Or.inr (Or.inl ⟨rfl, rfl, rfl⟩))
      · simp at h
    · split at h
      · simp only [List.mem_cons, List.not_mem_nil, or_false] at h
        subst h; exact Or.inr (Or.inl ⟨rfl, rfl, rfl⟩)
      · simp at h

theorem instAdditionals_ok {i : MyIntf} {reg : Registry} {v4 : Bool} {qtype : Nat} {o : Option Service} {a : RR}
    (h : a ∈ instAdditionals reg i v4 qtype o) : RecordOk i a := by
  cases o with
  | none => simp [instAdditionals] at h
  | some svc =>
    simp only [instAdditionals] at h
    split at h
    · simp only [List.mem_map] at h
      obtain ⟨ip, hip, rfl⟩ := h
      exact addrRecord_ok i svc v4 _ ip hip
    · simp at h

theorem specAnswers_ok {services : List (BList × Service)} {i : MyIntf} {reg : Registry} {v4 : Bool} {q : Wire.Question}
    {a : RR} (h : a ∈ specAnswers services i reg v4 q) : RecordOk i a := by
  unfold specAnswers at h
  split at h
  · simp only [List.mem_flatMap] at h
    obtain ⟨e, _, he⟩ := h
    exact ptrRule_ok he
  · simp only [List.mem_append] at h
    rcases h with h | h
    · split at h
      · simp only [List.mem_flatMap] at h
        obtain ⟨e, _, he⟩ := h
        exact addrRule_ok he
      · simp at h
    · exact instRule_ok h

theorem specAdditionals_ok {known : List Wire.Rec} {services : List (BList × Service)} {i : MyIntf} {reg : Registry}
    {v4 : Bool} {q : Wire.Question} {a : RR} (h : a ∈ specAdditionals known services i reg v4 q) : RecordOk i a := by
  unfold specAdditionals at h
  split at h
  · simp only [List.mem_flatMap] at h
    obtain ⟨e, _, he⟩ := h
    exact ptrAdditionals_ok he
  · exact instAdditionals_ok h

/-- the response of `handle_query` in terms of the declarative rule -/
def specResp (s : State) (p : RxPkt) (i : MyIntf) (reg : Registry) : Resp :=
  { answers := (p.msg.questions.flatMap (specAnswers s.services i reg p.srcV4)).filter (kept p.msg.answers),
    additionals := p.msg.questions.flatMap (specAdditionals p.msg.answers s.services i reg p.srcV4) }

theorem handleQuery_eq_spec (s : State) (now : Nat) (p : RxPkt) (i : MyIntf) (reg : Registry)
    (hreg : alookup p.ifIdx s.registries = some reg) :
    (handleQuery s now p i).2 =
      if (specResp s p i reg).answers.isEmpty then []
      else
        (if i.hasFamily p.srcV4 then
          [Out.send i.index p.srcV4 (if p.srcPort != MDNS_PORT then some p.src else none)
            (responsePkt p.msg (p.srcPort != MDNS_PORT) (specResp s p i reg))]
         else []) ++ notify s (.respond i.name) := by
  have hspec := answerAll_spec p.msg.answers s.services i reg p.srcV4 p.msg.questions {}
  have hresp : p.msg.questions.foldl (answerQuestion p.msg.answers s.services i reg p.srcV4) {} = specResp s p i reg := by
    have h1 := hspec.1
    have h2 := hspec.2
    simp only [List.nil_append] at h1 h2
    cases hr : p.msg.questions.foldl (answerQuestion p.msg.answers s.services i reg p.srcV4) {} with
    | mk an ad =>
      rw [hr] at h1 h2
      simp only at h1 h2
      simp [specResp, h1, h2]
  unfold handleQuery
  simp only [hreg, hresp]
  split <;> rfl

/-! ### the end of a probe, and the times of the probes a registration creates -/

/-- when a probe ends (no rename pending), every record of it that is filed under the probe's
    name is active afterwards, and the probe is gone -/
theorem expireProbe_activates (intfName : BList) (acc : Registry × List Event × List BList) (name : BList) (p : Probe)
    (hl : alookup name acc.1.probing = some p) (hn : NoRen acc.1) :
    (∀ a ∈ p.records, a.getName = name → (expireProbe intfName acc name).1.isActive a = true) ∧
    alookup name (expireProbe intfName acc name).1.probing = none ∧
    (p.records ≠ [] → ∀ w ∈ p.waiting, w ∈ (expireProbe intfName acc name).2.2) := by
  have hren : p.records.filter (fun a => a.newName.isSome) = [] := by
    rw [List.filter_eq_nil_iff]
    intro a ha
    simp [hn.2 name p (alookup_mem hl) a ha]
  unfold expireProbe
  simp only [hl, hren, List.foldl_nil, List.map_nil, List.append_nil]
  by_cases he : p.records.isEmpty = true
  · simp only [he, ↓reduceIte]
    refine ⟨?_, alookup_aerase_self _ _, ?_⟩
    · intro a ha
      simp [List.isEmpty_iff.mp he] at ha
    · intro hne
      exact absurd (List.isEmpty_iff.mp he) hne
  · simp only [he, Bool.false_eq_true, ↓reduceIte]
    refine ⟨?_, alookup_aerase_self _ _, ?_⟩
    · intro a ha hname
      simp only [Registry.isActive, hname, alookup_aset_self, Option.getD_some, List.any_append, Bool.or_eq_true,
        List.any_eq_true]
      exact Or.inr ⟨a, ha, RR.matchesRR_self a⟩
    · intro _ w hw
      have : ∀ (l acc0 : List BList), w ∈ l ∨ w ∈ acc0 → w ∈ l.foldl (fun w x => sinsert x w) acc0 := by
        intro l
        induction l with
        | nil => intro acc0 h; simpa using h
        | cons x l ih =>
          intro acc0 h
          simp only [List.foldl_cons]
          apply ih
          rcases h with h | h
          · rcases List.mem_cons.mp h with rfl | h
            · exact Or.inr ((mem_sinsert _ _ _).mpr (Or.inl rfl))
            · exact Or.inl h
          · exact Or.inr ((mem_sinsert _ _ _).mpr (Or.inr h))
      exact this _ _ (Or.inl hw)

theorem Probe.restarts_spec {p : Probe} {a : RR} {t : Nat} (h : p.restarts a t = true) :
    p.records.any (a.matchesRR ·) = false ∧ p.start < p.next := by
  simpa [Probe.restarts] using h

/-- `is_probing_done` gives a probe it creates the start time it is called with; a probe that
    exists keeps its times or - an unmatched record came to an older probe - starts over at that time -/
theorem probingDoneReg_times (r : Registry) (a : RR) (svc : BList) (t : Nat) (n : BList) :
    (∀ q, alookup n r.probing = some q → ∃ p, alookup n (r.probingDoneReg a svc t).probing = some p ∧
      ((p.start = q.start ∧ p.next = q.next) ∨ (p.start = t ∧ p.next = t ∧ q.start < q.next))) ∧
    (alookup n r.probing = none → ∀ p, alookup n (r.probingDoneReg a svc t).probing = some p → p.start = t ∧ p.next = t) := by
  unfold Registry.probingDoneReg
  split
  · exact ⟨fun q hq => ⟨q, hq, Or.inl ⟨rfl, rfl⟩⟩, fun hnone p hp => by rw [hnone] at hp; cases hp⟩
  · by_cases e : n = a.getName
    · subst e
      obtain ⟨p, hp, hnew, hold⟩ := probeInsert_times r a svc t
      refine ⟨fun q hq => ⟨p, hp, ?_⟩, fun hnone p' hp' => by rw [hp] at hp'; cases hp'; exact hnew hnone⟩
      rcases hold q hq with ⟨h1, h2, _⟩ | ⟨h1, h2, h3⟩
      · exact Or.inl ⟨h1, h2⟩
      · exact Or.inr ⟨h1, h2, (Probe.restarts_spec h3).2⟩
    · have hne : alookup n (r.probeInsert a svc t).probing = alookup n r.probing := by
        simp only [Registry.probeInsert]
        exact alookup_aset_ne _ _ _ _ e
      exact ⟨fun q hq => ⟨q, hne ▸ hq, Or.inl ⟨rfl, rfl⟩⟩, fun hnone p hp => by rw [hne, hnone] at hp; cases hp⟩

/-- every probe that `prepare_announce` creates (for a name that was not being probed) starts,
    and first sends, at `now + jitter`; a probe that existed keeps its times or - it was older
    and a record joined it - starts over at `now + jitter` -/
theorem prepareAnnounceReg_times (s : Service) (i : MyIntf) (r : Registry) (v4 : Bool) (now j : Nat) (n : BList) :
    (alookup n r.probing = none → ∀ p, alookup n (prepareAnnounceReg s i r v4 now j).probing = some p →
      p.start = now + j ∧ p.next = now + j) ∧
    (∀ q, alookup n r.probing = some q → ∃ p, alookup n (prepareAnnounceReg s i r v4 now j).probing = some p ∧
      ((p.start = q.start ∧ p.next = q.next) ∨ (p.start = now + j ∧ p.next = now + j ∧ q.start < q.next))) := by
  unfold prepareAnnounceReg
  split
  · exact ⟨fun hnone p hp => (by rw [hnone] at hp; cases hp), fun q hq => ⟨q, hq, Or.inl ⟨rfl, rfl⟩⟩⟩
  · split
    · exact ⟨fun hnone p hp => (by rw [hnone] at hp; cases hp), fun q hq => ⟨q, hq, Or.inl ⟨rfl, rfl⟩⟩⟩
    · -- invariant of the fold, by cases on whether the name was probed before
      cases hl : alookup n r.probing with
      | some q =>
        refine ⟨fun h => (by cases h), fun q' hq' => ?_⟩
        cases hq'
        exact foldl_inv (fun b => ∃ p, alookup n b.probing = some p ∧
            ((p.start = q.start ∧ p.next = q.next) ∨ (p.start = now + j ∧ p.next = now + j ∧ q.start < q.next))) _ _ r
          ⟨q, hl, Or.inl ⟨rfl, rfl⟩⟩
          (fun b a _ ⟨p, hp, hor⟩ => by
            obtain ⟨p', hp', hor'⟩ := (probingDoneReg_times b a s.fullname (now + j) n).1 p hp
            refine ⟨p', hp', ?_⟩
            rcases hor' with ⟨h1', h2'⟩ | ⟨h1', h2', h3'⟩
            · rcases hor with ⟨h1, h2⟩ | ⟨h1, h2, h3⟩
              · exact Or.inl ⟨h1'.trans h1, h2'.trans h2⟩
              · exact Or.inr ⟨h1'.trans h1, h2'.trans h2, h3⟩
            · rcases hor with ⟨h1, h2⟩ | ⟨_, _, h3⟩
              · exact Or.inr ⟨h1', h2', by rw [← h1, ← h2]; exact h3'⟩
              · exact Or.inr ⟨h1', h2', h3⟩)
      | none =>
        refine ⟨fun _ => ?_, fun q hq => by cases hq⟩
        exact foldl_inv (fun b => ∀ p, alookup n b.probing = some p → p.start = now + j ∧ p.next = now + j) _ _ r
          (fun p hp => by rw [hl] at hp; cases hp)
          (fun b a _ hb p hp => by
            cases hb' : alookup n b.probing with
            | none => exact (probingDoneReg_times b a s.fullname (now + j) n).2 hb' p hp
            | some q =>
              obtain ⟨p', hp', hor⟩ := (probingDoneReg_times b a s.fullname (now + j) n).1 q hb'
              rw [hp'] at hp
              cases hp
              rcases hor with ⟨h1, h2⟩ | ⟨h1, h2, _⟩
              · exact ⟨h1.trans (hb q hb').1, h2.trans (hb q hb').2⟩
              · exact ⟨h1, h2⟩)

/-! ### concrete interfaces and services for the non-vacuity examples -/

/-- `eth0`, index 2, 192.168.1.10/24 -/
def eth0 : MyIntf := { name := [0x65, 0x74, 0x68, 0x30], index := 2, addrs := [([192, 168, 1, 10], [255, 255, 255, 0])] }

/-- `eth0` with 192.168.1.10/24 and fe80::10/64 -/
def eth0dual : MyIntf :=
  { name := [0x65, 0x74, 0x68, 0x30], index := 2,
    addrs := [([192, 168, 1, 10], [255, 255, 255, 0]),
              ([0xfe, 0x80, 0, 0, 0, 0, 0, 0, 0, 0, 0, 0, 0, 0, 0, 0x10], [255, 255, 255, 255, 255, 255, 255, 255, 0, 0, 0, 0, 0, 0, 0, 0])] }

/-- `web._http._tcp.local.` on `alpha.local.`, port 80, 192.168.1.20, empty TXT -/
def web : Service :=
  { ty := [0x5f,0x68,0x74,0x74,0x70,0x2e,0x5f,0x74,0x63,0x70,0x2e,0x6c,0x6f,0x63,0x61,0x6c,0x2e], sub := none,
    fullname := [0x77,0x65,0x62,0x2e,0x5f,0x68,0x74,0x74,0x70,0x2e,0x5f,0x74,0x63,0x70,0x2e,0x6c,0x6f,0x63,0x61,0x6c,0x2e],
    host := [0x61,0x6c,0x70,0x68,0x61,0x2e,0x6c,0x6f,0x63,0x61,0x6c,0x2e], port := 80, addrs := [[192, 168, 1, 20]],
    txt := [0], probe := true, addrAuto := false }

/-- `Web._http._tcp.local.` (mixed case) with subtype `_printer._sub._http._tcp.local.` on
    `Beta.local.`, port 631, 192.168.1.20 and fe80::20, TXT `path=/` -/
def webMixed : Service :=
  { ty := [0x5f,0x68,0x74,0x74,0x70,0x2e,0x5f,0x74,0x63,0x70,0x2e,0x6c,0x6f,0x63,0x61,0x6c,0x2e],
    sub := some [0x5f,0x70,0x72,0x69,0x6e,0x74,0x65,0x72,0x2e,0x5f,0x73,0x75,0x62,0x2e,
                 0x5f,0x68,0x74,0x74,0x70,0x2e,0x5f,0x74,0x63,0x70,0x2e,0x6c,0x6f,0x63,0x61,0x6c,0x2e],
    fullname := [0x57,0x65,0x62,0x2e,0x5f,0x68,0x74,0x74,0x70,0x2e,0x5f,0x74,0x63,0x70,0x2e,0x6c,0x6f,0x63,0x61,0x6c,0x2e],
    host := [0x42,0x65,0x74,0x61,0x2e,0x6c,0x6f,0x63,0x61,0x6c,0x2e], port := 631,
    addrs := [[192, 168, 1, 20], [0xfe, 0x80, 0, 0, 0, 0, 0, 0, 0, 0, 0, 0, 0, 0, 0, 0x20]],
    txt := [6, 0x70, 0x61, 0x74, 0x68, 0x3d, 0x2f], probe := true, addrAuto := false }

end Mdns.Responder
