import Mdns.Lemmas.ClientStep
/-
  One whole iteration of the client model, seen on the scheduling part of the state:
  `Evolves` (which timers, queued re-runs, searches an iteration can leave, and where each
  comes from).  Assembled from the per-phase `Step` lemmas.
-/
namespace Mdns.Client
open Mdns Mdns.Rec Mdns.Cache

/-- the state after the ingress phase and `pop_timers_till(now)` -/
def afterPop (s : State) (now : Nat) (pkts : List Packet) : State := popTimers (ingress s now pkts).1 now

/-- the state before the interface-check block at the end of the iteration -/
def preIp (s : State) (now : Nat) (pkts : List Packet) (cmds : List Command) : State :=
  (evictAddrPhase (evictServicesPhase (preEvict s now pkts cmds) now).1 now).1

theorem iter_fst (s : State) (now : Nat) (pkts : List Packet) (cmds : List Command) :
    (iter s now pkts cmds).1 = runIpCheck (preIp s now pkts cmds) now := by
  simp only [iter, preIp, preEvict, preCommands]

/-- a timer armed during the iteration at `now` (other than the interface check): within an
    hour (follow-ups, retransmissions with their back-off of at most 3600 s), within the
    lifetime of a delivered record (expiry, refresh marks, cache flush), or a deadline given by
    a command of this iteration -/
def IterTimer (now : Nat) (ds : List Delivery) (cmds : List Command) (t : Nat) : Prop :=
  t ≤ now + 3600000 ∨ (∃ d ∈ ds, t ≤ d.time + 1000 * d.wire.ttl) ∨
  (∃ c ∈ cmds, (∃ h ch to, c = Command.resolveHost h ch (some to) ∧ t = now + to) ∨
    (∃ inst to, c = Command.verify inst to ∧ t = now + to))

/-- the key of a re-run queued during an iteration: none (follow-up, verify), that of a command
    of the iteration, or that of a re-run that was queued before -/
def KeyIter (cmds : List Command) (old : List Rerun) (k : Option (Nat × BList × Nat)) : Prop :=
  k = none ∨ (∃ c ∈ cmds, ckey c = k) ∨ ∃ r0 ∈ old, rkey r0.cmd = k

theorem expTime_100 (t ttl : Nat) : expTime t ttl 100 = t + 1000 * ttl := by
  unfold expTime
  omega

theorem expTime_80_le (t ttl : Nat) : expTime t ttl 80 ≤ t + 1000 * ttl := by
  unfold expTime
  omega

theorem iterTimer_of_ingress (now : Nat) (ds ds' : List Delivery) (cmds : List Command) (hsub : ∀ d ∈ ds, d ∈ ds') (t : Nat)
    (h : IngressTimer now ds t) : IterTimer now ds' cmds t := by
  rcases h with h | h | ⟨d, hd, ht, h⟩
  · left; omega
  · left; omega
  · right; left
    refine ⟨d, hsub d hd, ?_⟩
    rw [ht]
    rcases h with h | h
    · rw [h, expTime_100]
      exact Nat.le_refl _
    · rw [h]
      exact expTime_80_le now _

theorem step_ingress_iter (hist : List Delivery) (s : State) (now : Nat) (pkts : List Packet) (cmds : List Command) :
    Step now [] (fun k => k = none) (IterTimer now (hist ++ deliveries s now pkts) cmds) s (ingress s now pkts).1 :=
  step_ingress (now := now) (cmds := []) (KeyOK := fun k => k = none)
    (OK := IterTimer now (hist ++ deliveries s now pkts) cmds) rfl pkts s fun t ht =>
    iterTimer_of_ingress now (deliveries s now pkts) (hist ++ deliveries s now pkts) cmds
      (fun d hd => List.mem_append_right _ hd) t ht

theorem afterPop_reruns (s : State) (now : Nat) (pkts : List Packet) :
    (afterPop s now pkts).reruns = (ingress s now pkts).1.reruns := rfl

theorem iterTimer_of_refresh (now : Nat) (ds : List Delivery) (cmds : List Command) (c : Cache) (hc : CacheProv ds c) (t : Nat)
    (h : RefreshTimer c t) : IterTimer now ds cmds t := by
  obtain ⟨cr, ttl, ⟨sl, p, hp, e, he, h1, h2⟩, hle⟩ := h
  obtain ⟨⟨d, hd, j⟩, _⟩ := hc sl p hp e he
  right; left
  refine ⟨d, hd, ?_⟩
  rw [expTime_100] at hle
  rw [← j.2.2.2.2.2.1, ← j.2.2.2.2.2.2.1, h1, h2]
  exact hle

/-- **after `pop_timers_till`**: time-outs, commands, re-runs, refresh, eviction -/
theorem step_post (hist : List Delivery) (s : State) (now : Nat) (pkts : List Packet) (cmds : List Command)
    (hc : CacheProv hist s.cache) (hD : ∀ r ∈ s.reruns, DelayOk r) :
    Step now cmds (KeyIter cmds (afterPop s now pkts).reruns) (IterTimer now (hist ++ deliveries s now pkts) cmds)
      (afterPop s now pkts) (preIp s now pkts cmds) := by
  have hk : KeyIter cmds (afterPop s now pkts).reruns none := Or.inl rfl
  have h500 : IterTimer now (hist ++ deliveries s now pkts) cmds (now + 500) := by left; omega
  -- time-outs
  have h1 : Step now cmds (KeyIter cmds (afterPop s now pkts).reruns) (IterTimer now (hist ++ deliveries s now pkts) cmds)
      (afterPop s now pkts) (preCommands s now pkts) :=
    Step.of_sub rfl (fun _ h => h) (fun _ h => (List.mem_filter.mp h).1) (fun _ h => h) rfl
  -- commands
  have h2 := step_runCommands (now := now) (cmds := cmds) (KeyOK := KeyIter cmds (afterPop s now pkts).reruns)
    (OK := IterTimer now (hist ++ deliveries s now pkts) cmds) hk cmds (preCommands s now pkts) (fun _ h => h)
    (by
      intro c hc t ht
      rcases ht with h | h | ⟨h0, ch, to, rfl, h⟩ | ⟨inst, to, rfl, h⟩
      · left; omega
      · left; omega
      · exact Or.inr (Or.inr ⟨_, hc, Or.inl ⟨h0, ch, to, rfl, h⟩⟩)
      · exact Or.inr (Or.inr ⟨_, hc, Or.inr ⟨inst, to, rfl, h⟩⟩))
    (fun c hc => Or.inr (Or.inl ⟨c, hc, rfl⟩))
  have h12 := h1.trans h2
  -- re-runs
  have hing := step_ingress_iter hist s now pkts cmds
  have hall : ∀ r ∈ (runCommands (preCommands s now pkts) now cmds).1.reruns,
      DelayOk r ∧ KeyIter cmds (afterPop s now pkts).reruns (rkey r.cmd) := by
    intro r hr
    rcases h12.reruns r hr with h | ⟨_, _, h3, h4⟩
    · refine ⟨?_, Or.inr (Or.inr ⟨r, h, rfl⟩)⟩
      rw [afterPop_reruns] at h
      rcases hing.reruns r h with h | ⟨_, _, h3, _⟩
      · exact hD r h
      · exact h3
    · exact ⟨h3, h4⟩
  have h3 := step_rerunPhase (now := now) (cmds := cmds) (KeyOK := KeyIter cmds (afterPop s now pkts).reruns)
    (OK := IterTimer now (hist ++ deliveries s now pkts) cmds) (runCommands (preCommands s now pkts) now cmds).1 hk
    (by
      intro r hr t ht
      left
      rcases ht with h | ⟨ty, d, ch, hcmd, h⟩ | ⟨h0, d, ch, hcmd, h⟩
      · omega
      · have := hr
        unfold DelayOk at this
        rw [hcmd] at this
        simp only at this
        rw [h]
        have := this.2
        omega
      · have := hr
        unfold DelayOk at this
        rw [hcmd] at this
        simp only at this
        rw [h]
        have := this.2
        omega)
    hall
  -- refresh
  have hL := lowClosed_cacheProv (hist ++ deliveries s now pkts)
  have hp4 := ok_runCommands _ hL now cmds _ (prov_preCommands hist s now pkts hc)
  have hp5 := ok_rerunPhase _ hL _ now hp4.1
  have h4 := step_refreshActive (now := now) (cmds := cmds) (KeyOK := KeyIter cmds (afterPop s now pkts).reruns)
    (OK := IterTimer now (hist ++ deliveries s now pkts) cmds)
    (rerunPhase (runCommands (preCommands s now pkts) now cmds).1 now).1
    (fun t ht => iterTimer_of_refresh now _ cmds _ hp5.1 t ht)
  have h5 := step_refreshResolvers (now := now) (cmds := cmds) (KeyOK := KeyIter cmds (afterPop s now pkts).reruns)
    (OK := IterTimer now (hist ++ deliveries s now pkts) cmds)
    (refreshActive (rerunPhase (runCommands (preCommands s now pkts) now cmds).1 now).1 now).1
  have h6 := step_evictServicesPhase (now := now) (cmds := cmds) (KeyOK := KeyIter cmds (afterPop s now pkts).reruns)
    (OK := IterTimer now (hist ++ deliveries s now pkts) cmds) (preEvict s now pkts cmds)
  have h7 := step_evictAddrPhase (now := now) (cmds := cmds) (KeyOK := KeyIter cmds (afterPop s now pkts).reruns)
    (OK := IterTimer now (hist ++ deliveries s now pkts) cmds) (evictServicesPhase (preEvict s now pkts cmds) now).1 h500 hk
  exact ((((h12.trans h3).trans h4).trans h5).trans h6).trans h7

/-- what the interface-check block does -/
theorem runIpCheck_cases (s : State) (now : Nat) :
    (runIpCheck s now = s ∧ (now < s.nextIpCheck ∨ s.nextIpCheck = 0)) ∨
    (runIpCheck s now = { s with nextIpCheck := now + s.ipInterval, timers := (now + s.ipInterval) :: s.timers } ∧
      s.ipInterval > 0 ∧ s.nextIpCheck ≤ now) ∨
    (runIpCheck s now = { s with nextIpCheck := 0 } ∧ s.nextIpCheck ≤ now) := by
  unfold runIpCheck
  split
  · rename_i h1
    simp only [Bool.and_eq_true, decide_eq_true_eq] at h1
    split
    · rename_i h2
      exact Or.inr (Or.inl ⟨rfl, h2, h1.1⟩)
    · exact Or.inr (Or.inr ⟨rfl, h1.1⟩)
  · rename_i h1
    split
    · rename_i h2
      simp only [Bool.and_eq_true, beq_iff_eq, decide_eq_true_eq] at h2
      exact Or.inr (Or.inl ⟨rfl, h2.2, by omega⟩)
    · rename_i h2
      refine Or.inl ⟨rfl, ?_⟩
      simp only [Bool.and_eq_true, decide_eq_true_eq, not_and, Nat.not_lt, Nat.le_zero_eq] at h1
      by_cases h : now < s.nextIpCheck
      · exact Or.inl h
      · exact Or.inr (h1 (by omega))

/-- **One iteration, scheduling part.**  `s'` is the state after an iteration at `now` on `s`
    (`ds` = the records delivered so far, this iteration included; `cmds` = its commands):
    * a timer of `s` that lies after `now` is kept; a timer of `s'` is such an old one, or was
      armed in this iteration (`IterTimer`), or is the new interface-check time;
    * a queued re-run is an old one, or is due after `now`, has its timer, a delay between 1 s
      and 1 h and a key from a command or an old re-run;
    * an open hostname search is an old one or stems from a `resolve_hostname` of `cmds`, its
      deadline armed; a browse is an old one or stems from a `browse` of `cmds`;
    * the next interface check is unchanged and not yet due (or off), or switched off, or armed
      after `now`. -/
structure Evolves (now : Nat) (ds : List Delivery) (cmds : List Command) (s s' : State) : Prop where
  timers_old : ∀ t ∈ s.timers, now < t → t ∈ s'.timers
  timers_new : ∀ t ∈ s'.timers, (t ∈ s.timers ∧ now < t) ∨ IterTimer now ds cmds t ∨ (t = s'.nextIpCheck ∧ now < t)
  reruns : ∀ r ∈ s'.reruns, r ∈ s.reruns ∨
    (r.next ∈ s'.timers ∧ now < r.next ∧ DelayOk r ∧ KeyIter cmds s.reruns (rkey r.cmd))
  resolvers : ∀ q ∈ s'.resolvers, q ∈ s.resolvers ∨
    ∃ h t, Command.resolveHost h q.2.1 t ∈ cmds ∧ q.1 = lower h ∧ ∀ dl, q.2.2 = some dl → dl ∈ s'.timers
  queriers : ∀ q ∈ s'.queriers, q ∈ s.queriers ∨ ∃ co, Command.browse q.1 q.2 co ∈ cmds
  ip : (s'.nextIpCheck = s.nextIpCheck ∧ (now < s.nextIpCheck ∨ s.nextIpCheck = 0)) ∨
    (s'.nextIpCheck = 0 ∧ s.nextIpCheck ≤ now) ∨
    (s'.nextIpCheck ∈ s'.timers ∧ now < s'.nextIpCheck ∧ s.nextIpCheck ≤ now)

theorem evolves_iter (hist : List Delivery) (s : State) (now : Nat) (pkts : List Packet) (cmds : List Command)
    (hc : CacheProv hist s.cache) (hD : ∀ r ∈ s.reruns, DelayOk r) :
    Evolves now (hist ++ deliveries s now pkts) cmds s (iter s now pkts cmds).1 := by
  have hA := step_ingress_iter hist s now pkts cmds
  have hB := step_post hist s now pkts cmds hc hD
  obtain ⟨nA, eA, oA⟩ := hA.timers
  obtain ⟨nB, eB, oB⟩ := hB.timers
  have hpop : (afterPop s now pkts).timers = (ingress s now pkts).1.timers.filter (· > now) := rfl
  -- timers of the state before the ip check
  have hpre_old : ∀ t ∈ s.timers, now < t → t ∈ (preIp s now pkts cmds).timers := by
    intro t ht hlt
    rw [eB, hpop, eA]
    refine List.mem_append_right _ (List.mem_filter.mpr ⟨List.mem_append_right _ ht, by simpa using hlt⟩)
  have hpre_new : ∀ t ∈ (preIp s now pkts cmds).timers,
      (t ∈ s.timers ∧ now < t) ∨ IterTimer now (hist ++ deliveries s now pkts) cmds t := by
    intro t ht
    rw [eB] at ht
    rcases List.mem_append.mp ht with ht | ht
    · exact Or.inr (oB t ht)
    · rw [hpop, eA] at ht
      obtain ⟨h1, h2⟩ := List.mem_filter.mp ht
      have h2' : now < t := by simpa using h2
      rcases List.mem_append.mp h1 with h1 | h1
      · exact Or.inr (oA t h1)
      · exact Or.inl ⟨h1, h2'⟩
  have hpre_reruns : ∀ r ∈ (preIp s now pkts cmds).reruns, r ∈ s.reruns ∨
      (r.next ∈ (preIp s now pkts cmds).timers ∧ now < r.next ∧ DelayOk r ∧ KeyIter cmds s.reruns (rkey r.cmd)) := by
    intro r hr
    have hkey : ∀ k, KeyIter cmds (afterPop s now pkts).reruns k → KeyIter cmds s.reruns k := by
      intro k hk
      rcases hk with h | h | ⟨r0, hr0, h⟩
      · exact Or.inl h
      · exact Or.inr (Or.inl h)
      · rw [afterPop_reruns] at hr0
        rcases hA.reruns r0 hr0 with h1 | ⟨_, _, _, h4⟩
        · exact Or.inr (Or.inr ⟨r0, h1, h⟩)
        · exact Or.inl (h ▸ h4)
    rcases hB.reruns r hr with h | ⟨h1, h2, h3, h4⟩
    · rw [afterPop_reruns] at h
      rcases hA.reruns r h with h | ⟨h1, h2, h3, h4⟩
      · exact Or.inl h
      · refine Or.inr ⟨?_, h2, h3, Or.inl h4⟩
        apply hB.timers_mono
        rw [hpop]
        exact List.mem_filter.mpr ⟨h1, by simpa using h2⟩
    · exact Or.inr ⟨h1, h2, h3, hkey _ h4⟩
  have hpre_res : ∀ q ∈ (preIp s now pkts cmds).resolvers, q ∈ s.resolvers ∨
      ∃ h t, Command.resolveHost h q.2.1 t ∈ cmds ∧ q.1 = lower h ∧
        ∀ dl, q.2.2 = some dl → dl ∈ (preIp s now pkts cmds).timers := by
    intro q hq
    rcases hB.resolvers q hq with h | h
    · have h' : q ∈ (ingress s now pkts).1.resolvers := h
      rw [ingress_resolvers] at h'
      exact Or.inl h'
    · exact Or.inr h
  have hpre_q : ∀ q ∈ (preIp s now pkts cmds).queriers, q ∈ s.queriers ∨ ∃ co, Command.browse q.1 q.2 co ∈ cmds := by
    intro q hq
    rcases hB.queriers q hq with h | h
    · have h' : q ∈ (ingress s now pkts).1.queriers := h
      rw [ingress_queriers] at h'
      exact Or.inl h'
    · exact Or.inr h
  have hpre_ip : (preIp s now pkts cmds).nextIpCheck = s.nextIpCheck := hB.ip.trans hA.ip
  rw [iter_fst]
  rcases runIpCheck_cases (preIp s now pkts cmds) now with ⟨he, hnd⟩ | ⟨he, hpos, hle⟩ | ⟨he, hle⟩
  · rw [he]
    refine ⟨hpre_old, ?_, hpre_reruns, hpre_res, hpre_q, Or.inl ⟨hpre_ip, hpre_ip ▸ hnd⟩⟩
    intro t ht
    rcases hpre_new t ht with h | h
    · exact Or.inl h
    · exact Or.inr (Or.inl h)
  · rw [he]
    refine ⟨fun t ht hlt => List.mem_cons_of_mem _ (hpre_old t ht hlt), ?_, ?_, ?_, hpre_q, ?_⟩
    · intro t ht
      rcases List.mem_cons.mp ht with rfl | ht
      · exact Or.inr (Or.inr ⟨rfl, by omega⟩)
      · rcases hpre_new t ht with h | h
        · exact Or.inl h
        · exact Or.inr (Or.inl h)
    · intro r hr
      rcases hpre_reruns r hr with h | ⟨h1, h2⟩
      · exact Or.inl h
      · exact Or.inr ⟨List.mem_cons_of_mem _ h1, h2⟩
    · intro q hq
      rcases hpre_res q hq with h | ⟨h0, t, h1, h2, h3⟩
      · exact Or.inl h
      · exact Or.inr ⟨h0, t, h1, h2, fun dl hd => List.mem_cons_of_mem _ (h3 dl hd)⟩
    · exact Or.inr (Or.inr ⟨List.mem_cons_self, by simp only; omega, hpre_ip ▸ hle⟩)
  · rw [he]
    refine ⟨hpre_old, ?_, hpre_reruns, hpre_res, hpre_q, Or.inr (Or.inl ⟨rfl, hpre_ip ▸ hle⟩)⟩
    intro t ht
    rcases hpre_new t ht with h | h
    · exact Or.inl h
    · exact Or.inr (Or.inl h)

/-- the delays of the queued re-runs stay between a second and an hour -/
theorem delayOk_iter (hist : List Delivery) (s : State) (now : Nat) (pkts : List Packet) (cmds : List Command)
    (hc : CacheProv hist s.cache) (hD : ∀ r ∈ s.reruns, DelayOk r) : ∀ r ∈ (iter s now pkts cmds).1.reruns, DelayOk r := by
  intro r hr
  rcases (evolves_iter hist s now pkts cmds hc hD).reruns r hr with h | ⟨_, _, h, _⟩
  · exact hD r h
  · exact h

/-! ### a quiet iteration: nothing browsed, nothing queued, no input -/

theorem resolveUpdated_quiet (s : State) (now : Nat) (u : List BList) (hq : s.queriers = []) :
    (resolveUpdated s now u).1.timers = s.timers ∧ (resolveUpdated s now u).1.reruns = s.reruns ∧
    (resolveUpdated s now u).1.nextIpCheck = s.nextIpCheck := by
  unfold resolveUpdated
  split
  · exact ⟨rfl, rfl, rfl⟩
  · have hv : visits s now u = [] := by
      simp [visits, hq]
    simp only [hv, List.filter_nil, List.map_nil, List.eraseDups_nil, addPendings]
    exact ⟨rfl, rfl, rfl⟩

theorem evictAddrHosts_quiet (now : Nat) (items : List (BList × BList × BList × Nat)) :
    ∀ (hosts : List BList) (s : State), s.queriers = [] →
      (evictAddrHosts s now items hosts).1.timers = s.timers ∧ (evictAddrHosts s now items hosts).1.reruns = s.reruns ∧
      (evictAddrHosts s now items hosts).1.nextIpCheck = s.nextIpCheck
  | [], _, _ => ⟨rfl, rfl, rfl⟩
  | h :: rest, s, hq => by
    simp only [evictAddrHosts]
    have h1 := resolveUpdated_quiet s now (instancesOnHost s.cache h) hq
    have h2 := evictAddrHosts_quiet now items rest (resolveUpdated s now (instancesOnHost s.cache h)).1
      (by rw [resolveUpdated_queriers]; exact hq)
    exact ⟨h2.1.trans h1.1, h2.2.1.trans h1.2.1, h2.2.2.trans h1.2.2⟩

/-- **A quiet iteration** (no datagram, no command, nothing browsed, nothing queued): before the
    interface-check block the timers are exactly the old ones that lie after `now`, and still
    nothing is browsed or queued. -/
theorem quiet_preIp (s : State) (now : Nat) (hq : s.queriers = []) (hr : s.reruns = []) :
    (preIp s now [] []).timers = s.timers.filter (· > now) ∧ (preIp s now [] []).reruns = [] ∧
    (preIp s now [] []).queriers = [] ∧ (preIp s now [] []).nextIpCheck = s.nextIpCheck ∧
    (preIp s now [] []).ipInterval = s.ipInterval := by
  have e1 : preCommands s now [] = (runTimeouts (popTimers s now) now).1 := rfl
  have e2 : (runCommands (preCommands s now []) now []).1 = preCommands s now [] := rfl
  have hr1 : (preCommands s now []).reruns = [] := hr
  have hq1 : (preCommands s now []).queriers = [] := hq
  have e3 : (rerunPhase (preCommands s now []) now).1 = preCommands s now [] := by
    have hl : (preCommands s now []).reruns.length * 2 + 2 = 1 + 1 := by rw [hr1]; rfl
    unfold rerunPhase
    rw [hl]
    generalize hpc : preCommands s now [] = pc at hr1
    obtain ⟨a1, a2, a3, a4, a5, a6, a7, a8, a9, a10, a11, a12⟩ := pc
    simp only at hr1
    subst hr1
    rfl
  have e4 : (refreshActive (preCommands s now []) now).1 = preCommands s now [] := by
    have hm : activeTypes (preCommands s now []) = [] := by simp [activeTypes, hq1]
    unfold refreshActive
    simp only []
    rw [hm]
    rfl
  have e5 : preEvict s now [] [] = (refreshResolvers (preCommands s now []) now).1 := by
    unfold preEvict
    rw [e2, e3, e4]
  have hq5 : (evictServicesPhase (preEvict s now [] []) now).1.queriers = [] := by
    rw [e5]
    exact hq
  have h6 := evictAddrHosts_quiet now (evictAddr (evictServicesPhase (preEvict s now [] []) now).1.cache now).2
    (((evictAddr (evictServicesPhase (preEvict s now [] []) now).1.cache now).2.map (·.1)).eraseDups)
    { (evictServicesPhase (preEvict s now [] []) now).1 with
      cache := (evictAddr (evictServicesPhase (preEvict s now [] []) now).1.cache now).1 } hq5
  have hqf : (preIp s now [] []).queriers = [] := by
    unfold preIp evictAddrPhase
    rw [evictAddrHosts_queriers]
    exact hq5
  refine ⟨?_, ?_, hqf, ?_, ?_⟩
  · unfold preIp evictAddrPhase
    rw [h6.1, e5]
    rfl
  · unfold preIp evictAddrPhase
    rw [h6.2.1, e5]
    exact hr
  · unfold preIp evictAddrPhase
    rw [h6.2.2, e5]
    rfl
  · unfold preIp evictAddrPhase
    rw [evictAddrHosts_ipInterval, e5]
    rfl

end Mdns.Client
