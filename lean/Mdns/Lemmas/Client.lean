import Mdns.Model.Client
import Mdns.Lemmas.Cache
/-
  Lemmas about the client model (`Mdns/Model/Client.lean`): which cache entries an operation
  can produce (`Low`: the same record with an expiry that was only lowered), the provenance
  invariant `CacheProv`, and the origin of `resolved` / `removed` outputs.
-/
namespace Mdns.Client
open Mdns Mdns.Rec Mdns.Cache

/-! ### `Low`: the same record, living no longer -/

/-- `e'` is `e` with a possibly earlier expiry and any refresh mark (what flushing,
    verification and the refresh look-ups do to an entry) -/
def Low (e e' : Entry) : Prop :=
  e'.record.name = e.record.name ∧ e'.record.ty = e.record.ty ∧ e'.record.cls = e.record.cls ∧
  e'.record.flush = e.record.flush ∧ e'.record.rdata = e.record.rdata ∧ e'.record.created = e.record.created ∧
  e'.record.ttl = e.record.ttl ∧ e'.record.expires ≤ e.record.expires

theorem Low.refl (e : Entry) : Low e e := ⟨rfl, rfl, rfl, rfl, rfl, rfl, rfl, Nat.le_refl _⟩

theorem Low.trans {a b c : Entry} (h1 : Low a b) (h2 : Low b c) : Low a c := by
  obtain ⟨a1, a2, a3, a4, a5, a6, a7, a8⟩ := h1
  obtain ⟨b1, b2, b3, b4, b5, b6, b7, b8⟩ := h2
  exact ⟨b1.trans a1, b2.trans a2, b3.trans a3, b4.trans a4, b5.trans a5, b6.trans a6, b7.trans a7, Nat.le_trans b8 a8⟩

/-- every entry of `es'` stems from one of `es` -/
def ListLow (es es' : List Entry) : Prop := ∀ e' ∈ es', ∃ e ∈ es, Low e e'

/-- every entry of `t'` stems from one of `t` under the same name -/
def TableLow (t t' : Table) : Prop := ∀ p' ∈ t', ∀ e' ∈ p'.2, ∃ p ∈ t, p.1 = p'.1 ∧ ∃ e ∈ p.2, Low e e'

def CacheLow (c c' : Cache) : Prop := ∀ s : Slot, TableLow (c.table s) (c'.table s)

theorem ListLow.refl (es : List Entry) : ListLow es es := fun e he => ⟨e, he, Low.refl e⟩

theorem ListLow.map (g : Entry → Entry) (hg : ∀ e, Low e (g e)) (es : List Entry) : ListLow es (es.map g) := by
  intro e' he'
  obtain ⟨e, he, rfl⟩ := List.mem_map.mp he'
  exact ⟨e, he, hg e⟩

theorem ListLow.filter (q : Entry → Bool) (es : List Entry) : ListLow es (es.filter q) :=
  fun e he => ⟨e, (List.mem_filter.mp he).1, Low.refl e⟩

theorem TableLow.refl (t : Table) : TableLow t t := fun p hp e he => ⟨p, hp, rfl, e, he, Low.refl e⟩

theorem TableLow.trans {a b c : Table} (h1 : TableLow a b) (h2 : TableLow b c) : TableLow a c := by
  intro p hp e he
  obtain ⟨q, hq, k1, f, hf, l1⟩ := h2 p hp e he
  obtain ⟨r, hr, k2, g, hg, l2⟩ := h1 q hq f hf
  exact ⟨r, hr, k2.trans k1, g, hg, l2.trans l1⟩

theorem CacheLow.refl (c : Cache) : CacheLow c c := fun s => TableLow.refl _

theorem CacheLow.trans {a b c : Cache} (h1 : CacheLow a b) (h2 : CacheLow b c) : CacheLow a c :=
  fun s => (h1 s).trans (h2 s)

theorem TableLow.modify (t : Table) (k : BList) (f : List Entry → List Entry) (hf : ∀ es, ListLow es (f es)) :
    TableLow t (t.modify k f) := by
  intro p' hp' e' he'
  simp only [Table.modify, List.mem_map] at hp'
  obtain ⟨p, hp, rfl⟩ := hp'
  by_cases hk : (p.1 == k) = true
  · simp only [hk, if_true] at he'
    obtain ⟨e, he, l⟩ := hf p.2 e' he'
    exact ⟨p, hp, by simp [hk], e, he, l⟩
  · simp only [hk] at he'
    exact ⟨p, hp, by simp [hk], e', he', Low.refl e'⟩

theorem TableLow.erase (t : Table) (k : BList) : TableLow t (t.erase k) := by
  intro p hp e he
  exact ⟨p, (List.mem_filter.mp hp).1, rfl, e, he, Low.refl e⟩

theorem TableLow.evictLive (now : Nat) (t : Table) : TableLow t (evictLive now t) := by
  intro p' hp' e' he'
  simp only [Cache.evictLive, List.mem_filterMap] at hp'
  obtain ⟨p, hp, hq⟩ := hp'
  split at hq
  · cases hq
  · cases hq
    exact ⟨p, hp, rfl, e', (List.mem_filter.mp he').1, Low.refl e'⟩

theorem TableLow.evictTable (now : Nat) (t : Table) : TableLow t (evictTable now t) := by
  intro p' hp' e' he'
  simp only [Cache.evictTable, List.mem_filter, List.mem_map] at hp'
  obtain ⟨⟨p, hp, rfl⟩, _⟩ := hp'
  exact ⟨p, hp, rfl, e', (List.mem_filter.mp he').1, Low.refl e'⟩

/-- a fold of steps each of which only lowers -/
theorem TableLow.foldl {α} (f : Table → α → Table) (hf : ∀ t a, TableLow t (f t a)) :
    ∀ (l : List α) (t : Table), TableLow t (l.foldl f t)
  | [], t => TableLow.refl t
  | a :: l, t => (hf t a).trans (TableLow.foldl f hf l (f t a))

/-! ### the cache operations of the client other than `add_or_update` only lower -/

theorem low_refreshed (now : Nat) (e : Entry) : Low e { e with record := e.record.refreshed now } := by
  unfold Record.refreshed
  split <;> exact ⟨rfl, rfl, rfl, rfl, rfl, rfl, rfl, Nat.le_refl _⟩

theorem listLow_refreshEntries (now : Nat) (es : List Entry) : ListLow es (refreshEntries now es).1 :=
  ListLow.map _ (low_refreshed now) es

theorem low_sooner (t : Nat) (e : Entry) : Low e (soonerEntry t e) := by
  unfold soonerEntry Record.setExpireSooner
  split
  · exact ⟨rfl, rfl, rfl, rfl, rfl, rfl, rfl, by simp only [Record.setExpire]; omega⟩
  · exact Low.refl e

theorem cacheLow_of_tables {c c' : Cache} (h1 : TableLow c.ptr c'.ptr) (h2 : TableLow c.srv c'.srv)
    (h3 : TableLow c.txt c'.txt) (h4 : TableLow c.addr c'.addr) (h5 : TableLow c.nsec c'.nsec) : CacheLow c c' := by
  intro s
  cases s
  · exact h1
  · exact h2
  · exact h3
  · exact h4
  · exact h5

theorem cacheLow_refreshDuePtr (c : Cache) (ty : BList) (now : Nat) : CacheLow c (refreshDuePtr c ty now).1 := by
  unfold refreshDuePtr
  split
  · exact CacheLow.refl c
  · exact cacheLow_of_tables (TableLow.modify _ _ _ (listLow_refreshEntries now)) (TableLow.refl _) (TableLow.refl _)
      (TableLow.refl _) (TableLow.refl _)

theorem cacheLow_refreshSrvTxtGo (now : Nat) : ∀ (l : List BList) (s : SrvTxtDue),
    CacheLow s.cache (refreshSrvTxtGo now l s).cache
  | [], s => CacheLow.refl _
  | inst :: rest, s => by
    unfold refreshSrvTxtGo
    refine CacheLow.trans ?_ (cacheLow_refreshSrvTxtGo now rest _)
    exact cacheLow_of_tables (TableLow.refl _) (TableLow.modify _ _ _ (listLow_refreshEntries now))
      (TableLow.modify _ _ _ (listLow_refreshEntries now)) (TableLow.refl _) (TableLow.refl _)

theorem cacheLow_refreshDueSrvTxt (c : Cache) (ty : BList) (now : Nat) : CacheLow c (refreshDueSrvTxt c ty now).cache :=
  cacheLow_refreshSrvTxtGo now _ _

theorem cacheLow_refreshHostsGo (now : Nat) : ∀ (l : List BList) (s : HostsDue),
    CacheLow s.cache (refreshHostsGo now l s).cache
  | [], s => CacheLow.refl _
  | h :: rest, s => by
    unfold refreshHostsGo
    refine CacheLow.trans ?_ (cacheLow_refreshHostsGo now rest _)
    exact cacheLow_of_tables (TableLow.refl _) (TableLow.refl _) (TableLow.refl _)
      (TableLow.modify _ _ _ (listLow_refreshEntries now)) (TableLow.refl _)

theorem cacheLow_refreshDueHosts (c : Cache) (ty : BList) (now : Nat) : CacheLow c (refreshDueHosts c ty now).cache :=
  cacheLow_refreshHostsGo now _ _

theorem cacheLow_refreshDueResolutions (c : Cache) (h : BList) (now : Nat) :
    CacheLow c (refreshDueResolutions c h now).1 := by
  unfold refreshDueResolutions
  refine cacheLow_of_tables (TableLow.refl _) (TableLow.refl _) (TableLow.refl _) (TableLow.modify _ _ _ ?_) (TableLow.refl _)
  intro es
  apply ListLow.map
  intro e
  split
  · exact ⟨rfl, rfl, rfl, rfl, rfl, rfl, rfl, Nat.le_refl _⟩
  · exact Low.refl e

theorem cacheLow_evictServices (c : Cache) (now : Nat) : CacheLow c (evictServices c now).1 :=
  cacheLow_of_tables (TableLow.evictLive now _) (TableLow.evictLive now _) (TableLow.evictLive now _)
    (TableLow.refl _) (TableLow.evictLive now _)

theorem cacheLow_evictAddr (c : Cache) (now : Nat) : CacheLow c (evictAddr c now).1 :=
  cacheLow_of_tables (TableLow.refl _) (TableLow.refl _) (TableLow.refl _) (TableLow.evictTable now _) (TableLow.refl _)

theorem cacheLow_removeServiceType (c : Cache) (ty : BList) : CacheLow c (removeServiceType c ty) := by
  unfold removeServiceType
  split
  · exact CacheLow.refl c
  · refine cacheLow_of_tables (TableLow.erase _ _) ?_ ?_ ?_ (TableLow.refl _)
    · exact TableLow.foldl _ (fun t i => TableLow.erase t i) _ _
    · exact TableLow.foldl _ (fun t i => TableLow.erase t i) _ _
    · apply TableLow.foldl
      intro t h
      split
      · exact TableLow.refl t
      · exact TableLow.erase t h

theorem cacheLow_serviceVerifyQueries (c : Cache) (inst : BList) (at_ : Option Nat) :
    CacheLow c (serviceVerifyQueries c inst at_).1 := by
  unfold serviceVerifyQueries
  split
  · exact CacheLow.refl c
  · split
    · exact CacheLow.refl c
    · rename_i t
      refine cacheLow_of_tables (TableLow.refl _) (TableLow.modify _ _ _ fun es => ListLow.map _ (low_sooner t) es)
        (TableLow.refl _) ?_ (TableLow.refl _)
      apply TableLow.foldl
      intro tb h
      exact TableLow.modify _ _ _ fun es => ListLow.map _ (low_sooner t) es

/-! ### provenance -/

/-- a record handed to `add_or_update`: when, on which interface, what -/
structure Delivery where
  time : Nat
  ifName : BList
  ifIdx : Nat
  wire : Wire.Rec
  deriving Repr

/-- The delivery `d` justifies the cache entry `e`: same owner, type, class, cache-flush bit
    and RDATA (for an address including the interface it arrived on), created at the time of
    the delivery, with its TTL (0 is stored as 1 by the decoder), and expiring no later than
    that TTL allows. -/
def Justifies (d : Delivery) (e : Entry) : Prop :=
  e.record.name = d.wire.name ∧ e.record.ty = d.wire.ty ∧ e.record.cls = d.wire.cls ∧ e.record.flush = d.wire.flush ∧
  e.record.rdata = (ofWire d.ifName d.ifIdx d.time d.wire).rdata ∧
  e.record.created = d.time ∧ e.record.ttl = d.wire.ttl ∧ e.record.expires ≤ d.time + 1000 * d.wire.ttl

def Prov (hist : List Delivery) (e : Entry) : Prop := ∃ d ∈ hist, Justifies d e

/-- the entry is filed where `add_or_update` files a record of its name and type -/
def Filed (s : Slot) (k : BList) (e : Entry) : Prop := slotOf e.record.ty = some s ∧ keyOf s e.record.name = k

/-- **Provenance invariant**: every entry of every table of the cache is justified by a
    delivery of the history, and is filed in the table of its type under its own name
    (lower-cased for addresses). -/
def CacheProv (hist : List Delivery) (c : Cache) : Prop :=
  ∀ s : Slot, ∀ p ∈ c.table s, ∀ e ∈ p.2, Prov hist e ∧ Filed s p.1 e

theorem Filed.low {s : Slot} {k : BList} {e e' : Entry} (h : Filed s k e) (l : Low e e') : Filed s k e' := by
  unfold Filed at *
  rw [l.1, l.2.1]
  exact h

theorem Prov.low {hist : List Delivery} {e e' : Entry} (h : Prov hist e) (l : Low e e') : Prov hist e' := by
  obtain ⟨d, hd, j1, j2, j3, j4, j5, j6, j7, j8⟩ := h
  obtain ⟨l1, l2, l3, l4, l5, l6, l7, l8⟩ := l
  exact ⟨d, hd, l1.trans j1, l2.trans j2, l3.trans j3, l4.trans j4, l5.trans j5, l6.trans j6, l7.trans j7,
    Nat.le_trans l8 j8⟩

theorem Prov.mono {h1 h2 : List Delivery} (hsub : ∀ d ∈ h1, d ∈ h2) {e : Entry} (h : Prov h1 e) : Prov h2 e := by
  obtain ⟨d, hd, j⟩ := h
  exact ⟨d, hsub d hd, j⟩

theorem CacheProv.low {hist : List Delivery} {c c' : Cache} (h : CacheProv hist c) (l : CacheLow c c') :
    CacheProv hist c' := by
  intro s p hp e he
  obtain ⟨q, hq, hk, f, hf, lo⟩ := l s p hp e he
  exact ⟨(h s q hq f hf).1.low lo, hk ▸ (h s q hq f hf).2.low lo⟩

theorem CacheProv.mono {h1 h2 : List Delivery} (hsub : ∀ d ∈ h1, d ∈ h2) {c : Cache} (h : CacheProv h1 c) :
    CacheProv h2 c := fun s p hp e he => ⟨(h s p hp e he).1.mono hsub, (h s p hp e he).2⟩

theorem cacheProv_empty (hist : List Delivery) : CacheProv hist {} := by
  intro s p hp
  cases s <;> simp [Cache.table] at hp

/-! ### `add_or_update` -/

theorem table_setTable (c : Cache) (s s' : Slot) (t : Table) :
    (c.setTable s t).table s' = if s = s' then t else c.table s' := by
  cases s <;> cases s' <;> simp [Cache.setTable, Cache.table]

theorem table_noteSubtype (c : Cache) (inc : Record) (forUs : Bool) (s : Slot) :
    (noteSubtype c inc forUs).table s = c.table s := by
  unfold noteSubtype
  split
  · split
    · split <;> cases s <;> rfl
    · rfl
  · rfl

theorem mem_set (t : Table) (k : BList) (v : List Entry) (p : BList × List Entry) (h : p ∈ t.set k v) :
    p = (k, v) ∨ p ∈ t := by
  induction t with
  | nil => simp [Table.set] at h; exact Or.inl h
  | cons q rest ih =>
    obtain ⟨k', v'⟩ := q
    simp only [Table.set] at h
    split at h
    · rcases List.mem_cons.mp h with h | h
      · exact Or.inl h
      · exact Or.inr (List.mem_cons_of_mem _ h)
    · rcases List.mem_cons.mp h with h | h
      · exact Or.inr (h ▸ List.mem_cons_self)
      · rcases ih h with h | h
        · exact Or.inl h
        · exact Or.inr (List.mem_cons_of_mem _ h)

theorem mem_of_get (t : Table) (k : BList) (es : List Entry) (h : t.get k = some es) : (k, es) ∈ t := by
  induction t with
  | nil => simp [Table.get, List.lookup] at h
  | cons q rest ih =>
    obtain ⟨k', v'⟩ := q
    simp only [Table.get, List.lookup] at h
    split at h
    · rename_i heq
      have : k = k' := by simpa using heq
      cases h
      subst this
      exact List.mem_cons_self
    · exact List.mem_cons_of_mem _ (ih h)

/-- the entries found under a name are entries of the table, filed under that name -/
theorem mem_getD (t : Table) (k : BList) (e : Entry) (h : e ∈ (t.get k).getD []) : ∃ p ∈ t, p.1 = k ∧ e ∈ p.2 := by
  cases hg : t.get k with
  | none => simp [hg] at h
  | some es =>
    rw [hg] at h
    exact ⟨(k, es), mem_of_get t k es hg, rfl, h⟩

theorem listLow_flushList (inc : Record) (now : Nat) (es : List Entry) : ListLow es (flushList inc now es) := by
  unfold flushList
  split
  · apply ListLow.map
    intro e
    unfold flushOne
    split
    · rename_i hf
      have := (shouldFlush_iff inc now e).mp hf
      refine ⟨rfl, rfl, rfl, rfl, rfl, rfl, rfl, ?_⟩
      simp only [Record.setExpire]
      have := this.2.2.2.1
      omega
    · exact Low.refl e
  · exact ListLow.refl es

theorem mem_resetFirst (inc : Record) (es : List Entry) (e' : Entry) (h : e' ∈ resetFirst inc es) :
    e' ∈ es ∨ ∃ e ∈ es, e.record.matchesRec inc = true ∧ e' = { e with record := e.record.resetTtl inc } := by
  induction es with
  | nil => simp [resetFirst] at h
  | cons x rest ih =>
    simp only [resetFirst] at h
    split at h
    · rename_i hm
      rcases List.mem_cons.mp h with h | h
      · exact Or.inr ⟨x, List.mem_cons_self, hm, h⟩
      · exact Or.inl (List.mem_cons_of_mem _ h)
    · rcases List.mem_cons.mp h with h | h
      · exact Or.inl (h ▸ List.mem_cons_self)
      · rcases ih h with h | ⟨e, he, hm, rfl⟩
        · exact Or.inl (List.mem_cons_of_mem _ h)
        · exact Or.inr ⟨e, List.mem_cons_of_mem _ he, hm, rfl⟩

/-- the freshly built record is justified by its own delivery -/
theorem justifies_fresh (d : Delivery) (srcName : BList) (srcIdx : Nat) :
    Justifies d ⟨ofWire d.ifName d.ifIdx d.time d.wire, srcName, srcIdx⟩ := by
  refine ⟨rfl, rfl, rfl, rfl, rfl, rfl, rfl, ?_⟩
  simp only [ofWire, Record.new, expTime]
  omega

/-- a cached copy whose TTL is reset from a matching incoming record is justified by the
    delivery of that record -/
theorem justifies_reset (d : Delivery) (e : Entry)
    (hm : e.record.matchesRec (ofWire d.ifName d.ifIdx d.time d.wire) = true) :
    Justifies d { e with record := e.record.resetTtl (ofWire d.ifName d.ifIdx d.time d.wire) } := by
  obtain ⟨h1, h2, h3, h4, h5⟩ := (matchesRec_iff _ _).mp hm
  refine ⟨h1, h2, h3, h4, h5, rfl, rfl, ?_⟩
  simp only [Record.resetTtl, ofWire, Record.new, expTime]
  omega

/-- what `add_or_update` leaves under the name of the incoming record -/
theorem prov_upsert (hist : List Delivery) (d : Delivery) (hd : d ∈ hist) (srcName : BList) (srcIdx : Nat)
    (s : Slot) (k : BList) (hs : slotOf d.wire.ty = some s) (hk : keyOf s d.wire.name = k)
    (es : List Entry) (h : ∀ e ∈ es, Prov hist e ∧ Filed s k e) :
    ∀ e' ∈ upsert srcName srcIdx (ofWire d.ifName d.ifIdx d.time d.wire)
      (flushList (ofWire d.ifName d.ifIdx d.time d.wire) d.time es), Prov hist e' ∧ Filed s k e' := by
  have hfl : ∀ e ∈ flushList (ofWire d.ifName d.ifIdx d.time d.wire) d.time es, Prov hist e ∧ Filed s k e := by
    intro e he
    obtain ⟨e0, he0, lo⟩ := listLow_flushList _ _ es e he
    exact ⟨(h e0 he0).1.low lo, (h e0 he0).2.low lo⟩
  intro e' he'
  unfold upsert at he'
  split at he'
  · rcases mem_resetFirst _ _ _ he' with h1 | ⟨e, he, hm, rfl⟩
    · exact hfl e' h1
    · exact ⟨⟨d, hd, justifies_reset d e hm⟩, (hfl e he).2⟩
  · rcases List.mem_cons.mp he' with rfl | h1
    · exact ⟨⟨d, hd, justifies_fresh d srcName srcIdx⟩, hs, hk⟩
    · exact hfl e' h1

/-- `add_or_update` of a delivered record preserves provenance -/
theorem cacheProv_addOrUpdate (hist : List Delivery) (c : Cache) (d : Delivery) (hd : d ∈ hist) (forUs : Bool)
    (h : CacheProv hist c) :
    CacheProv hist (addOrUpdate c d.ifName d.ifIdx (ofWire d.ifName d.ifIdx d.time d.wire) d.time forUs).cache := by
  have h1 : CacheProv hist (noteSubtype c (ofWire d.ifName d.ifIdx d.time d.wire) forUs) := by
    intro s p hp e he
    rw [table_noteSubtype] at hp
    exact h s p hp e he
  unfold addOrUpdate
  split
  · exact h1
  · rename_i s hs
    simp only []
    split
    · intro s' p hp e he
      rw [table_setTable] at hp
      split at hp
      · rename_i hss
        subst hss
        rcases mem_set _ _ _ _ hp with rfl | hp
        · obtain ⟨q, hq, hqk, hqe⟩ := mem_getD _ _ e he
          exact hqk ▸ h1 s q hq e hqe
        · exact h1 s p hp e he
      · exact h1 s' p hp e he
    · intro s' p hp e he
      rw [table_setTable] at hp
      split at hp
      · rename_i hss
        subst hss
        rcases mem_set _ _ _ _ hp with rfl | hp
        · refine prov_upsert hist d hd _ _ s _ hs rfl _ ?_ e he
          intro e0 he0
          obtain ⟨q, hq, hqk, hqe⟩ := mem_getD _ _ e0 he0
          exact hqk ▸ h1 s q hq e0 hqe
        · exact h1 s p hp e he
      · exact h1 s' p hp e he

/-! ### frame: what does not touch the cache -/

@[simp] theorem addRerun_cache (s : State) (n : Nat) (c : RCmd) : (addRerun s n c).cache = s.cache := rfl
@[simp] theorem addTimers_cache (s : State) (ts : List Nat) : (addTimers s ts).cache = s.cache := rfl
@[simp] theorem markResolved_cache (s : State) (l : List BList) : (markResolved s l).cache = s.cache := rfl

@[simp] theorem addPending_cache (s : State) (now : Nat) (i : BList) : (addPending s now i).cache = s.cache := by
  unfold addPending
  split <;> rfl

@[simp] theorem addPendings_cache (now : Nat) : ∀ (l : List BList) (s : State), (addPendings s now l).cache = s.cache
  | [], _ => rfl
  | i :: rest, s => by
    simp only [addPendings]
    rw [addPendings_cache now rest, addPending_cache]

@[simp] theorem resolveUpdated_cache (s : State) (now : Nat) (u : List BList) :
    (resolveUpdated s now u).1.cache = s.cache := by
  unfold resolveUpdated
  split
  · rfl
  · simp only [addPendings_cache, markResolved_cache]

@[simp] theorem queryCacheForService_cache (s : State) (now : Nat) (ty : BList) (ch : Nat) :
    (queryCacheForService s now ty ch).1.cache = s.cache := by
  simp only [queryCacheForService, addPendings_cache, markResolved_cache]

/-! ### where `resolved` and `removed` events come from -/

/-- Why `evict_expired_services` reports `(ty, inst)` at `now` on the cache `c`: a PTR entry of
    `ty` points to `inst` and either that entry has expired, or the instance has SRV entries
    and all of them have expired. -/
def EvictWhy (c : Cache) (now : Nat) (ty inst : BList) : Prop :=
  ∃ es, (ty, es) ∈ c.ptr ∧ ∃ e ∈ es, aliasOf e = some inst ∧
    (e.record.expires ≤ now ∨ ∃ l, c.srv.get inst = some l ∧ ∀ x ∈ l, x.record.expires ≤ now)

/-- Why `resolve_updated_instances` reports `(ty, inst)` in state `s`: the instance had been
    reported resolved, a usable PTR of the browsed `ty` still points to it, and it can no
    longer be resolved from the cache (no usable SRV, or no usable address of its host). -/
def UnresolveWhy (s : State) (now : Nat) (ty inst : BList) : Prop :=
  inst ∈ s.resolved ∧ (∃ es, (ty, es) ∈ s.cache.ptr ∧ ∃ e ∈ es, aliasOf e = some inst ∧ usable now e = true) ∧
  (resolveFromCache s.cache now ty inst).valid = false

def RemovedWhy (P : Cache → Prop) (now : Nat) (ty inst : BList) : Prop :=
  (∃ c, P c ∧ EvictWhy c now ty inst) ∨ (∃ s' : State, P s'.cache ∧ UnresolveWhy s' now ty inst)

/-- Every `ServiceResolved` among `outs` is the result of `resolve_service_from_cache` on a
    cache satisfying `P`, and it is valid; every `ServiceRemoved` has one of the two reasons
    above on a cache satisfying `P`. -/
def OutsOk (P : Cache → Prop) (now : Nat) (outs : List Out) : Prop :=
  (∀ ch r, Out.event ch (.resolved r) ∈ outs →
    ∃ c ty inst, P c ∧ r = resolveFromCache c now ty inst ∧ r.valid = true) ∧
  (∀ ch ty inst, Out.event ch (.removed ty inst) ∈ outs → RemovedWhy P now ty inst)

/-- neither `ServiceResolved` nor `ServiceRemoved` among `outs` -/
def NoRes (outs : List Out) : Prop :=
  (∀ ch r, Out.event ch (.resolved r) ∉ outs) ∧ (∀ ch ty inst, Out.event ch (.removed ty inst) ∉ outs)

theorem NoRes.ok {P : Cache → Prop} {now : Nat} {outs : List Out} (h : NoRes outs) : OutsOk P now outs :=
  ⟨fun ch r hm => absurd hm (h.1 ch r), fun ch ty inst hm => absurd hm (h.2 ch ty inst)⟩

theorem OutsOk.nil (P : Cache → Prop) (now : Nat) : OutsOk P now [] :=
  ⟨fun _ _ h => (by cases h), fun _ _ _ h => (by cases h)⟩

theorem OutsOk.append {P : Cache → Prop} {now : Nat} {a b : List Out} (ha : OutsOk P now a) (hb : OutsOk P now b) :
    OutsOk P now (a ++ b) := by
  refine ⟨?_, ?_⟩
  · intro ch r h
    rcases List.mem_append.mp h with h | h
    · exact ha.1 ch r h
    · exact hb.1 ch r h
  · intro ch ty inst h
    rcases List.mem_append.mp h with h | h
    · exact ha.2 ch ty inst h
    · exact hb.2 ch ty inst h

theorem RemovedWhy.mono {P Q : Cache → Prop} (hPQ : ∀ c, P c → Q c) {now : Nat} {ty inst : BList}
    (h : RemovedWhy P now ty inst) : RemovedWhy Q now ty inst := by
  rcases h with ⟨c, hc, hw⟩ | ⟨s', hc, hw⟩
  · exact Or.inl ⟨c, hPQ c hc, hw⟩
  · exact Or.inr ⟨s', hPQ _ hc, hw⟩

theorem OutsOk.mono {P Q : Cache → Prop} (hPQ : ∀ c, P c → Q c) {now : Nat} {outs : List Out} (h : OutsOk P now outs) :
    OutsOk Q now outs := by
  refine ⟨?_, fun ch ty inst hm => (h.2 ch ty inst hm).mono hPQ⟩
  intro ch r hm
  obtain ⟨c, ty, inst, hc, h1, h2⟩ := h.1 ch r hm
  exact ⟨c, ty, inst, hPQ c hc, h1, h2⟩

theorem NoRes.append {a b : List Out} (ha : NoRes a) (hb : NoRes b) : NoRes (a ++ b) := by
  refine ⟨?_, ?_⟩
  · intro ch r h
    rcases List.mem_append.mp h with h | h
    · exact ha.1 ch r h
    · exact hb.1 ch r h
  · intro ch ty inst h
    rcases List.mem_append.mp h with h | h
    · exact ha.2 ch ty inst h
    · exact hb.2 ch ty inst h

theorem noRes_nil : NoRes [] := ⟨fun _ _ h => (by cases h), fun _ _ _ h => (by cases h)⟩

/-- closes `NoRes l` when membership of a resolved / removed event in `l` simplifies to `False` -/
macro "nores" : tactic =>
  `(tactic| (refine ⟨?_, ?_⟩ <;> (intros; intro h; simp at h)))

theorem noRes_sendQuery (c : Cache) (now : Nat) (qs : List (BList × Nat)) : NoRes [sendQuery c now qs] := by
  refine ⟨?_, ?_⟩ <;> (intros; intro h; simp [sendQuery] at h)

theorem mem_notifyRemoval (q : List (BList × Nat)) (e : List (BList × BList)) (ch : Nat) (ty inst : BList)
    (h : Out.event ch (.removed ty inst) ∈ notifyRemoval q e) : (ty, inst) ∈ e ∧ (ty, ch) ∈ q := by
  simp only [notifyRemoval, List.mem_flatMap, List.mem_map, List.mem_eraseDups, List.mem_filter] at h
  obtain ⟨qq, hq, i, ⟨pp, ⟨hp, hk⟩, hi⟩, he⟩ := h
  cases he
  have hk' : pp.1 = qq.1 := by simpa using hk
  subst hi
  refine ⟨?_, hq⟩
  rw [← hk']
  exact hp

theorem noResolved_notifyRemoval (q : List (BList × Nat)) (e : List (BList × BList)) (ch : Nat) (r : Resolved) :
    Out.event ch (.resolved r) ∉ notifyRemoval q e := by
  intro h
  simp [notifyRemoval] at h

theorem mem_visits (s : State) (now : Nat) (u : List BList) (v : BList × Nat × BList) (h : v ∈ visits s now u) :
    ∃ es, (v.1, es) ∈ s.cache.ptr ∧ ∃ e ∈ es, aliasOf e = some v.2.2 ∧ usable now e = true := by
  simp only [visits, List.mem_flatMap] at h
  obtain ⟨p, hp, hv⟩ := h
  split at hv
  · cases hv
  · simp only [List.mem_map, List.mem_filter, List.mem_filterMap] at hv
    obtain ⟨a, ⟨⟨e, ⟨he, huse⟩, ha⟩, _⟩, rfl⟩ := hv
    exact ⟨p.2, hp, e, he, ha, huse⟩

/-- `resolve_updated_instances`: its `ServiceResolved` events are valid results of
    `resolve_service_from_cache` on the current cache -/
theorem outsOk_resolveUpdated (P : Cache → Prop) (s : State) (now : Nat) (u : List BList) (h : P s.cache) :
    OutsOk P now (resolveUpdated s now u).2 := by
  unfold resolveUpdated
  split
  · exact OutsOk.nil P now
  · simp only []
    apply OutsOk.append
    · refine ⟨?_, ?_⟩
      · intro ch r hm
        simp only [List.mem_map, List.mem_filter] at hm
        obtain ⟨v, ⟨_, hv⟩, he⟩ := hm
        cases he
        exact ⟨s.cache, v.1, v.2.2, h, rfl, hv⟩
      · intro ch ty inst hm
        simp at hm
    · refine ⟨fun ch r hm => absurd hm (noResolved_notifyRemoval _ _ ch r), ?_⟩
      intro ch ty inst hm
      have hm' := (mem_notifyRemoval _ _ ch ty inst hm).1
      simp only [List.mem_map, List.mem_filter] at hm'
      obtain ⟨v, ⟨⟨hv, hbad⟩, hres⟩, he⟩ := hm'
      cases he
      obtain ⟨es, hes, e, he, ha, huse⟩ := mem_visits s now u v hv
      refine Or.inr ⟨s, h, ?_, ⟨es, hes, e, he, ha, huse⟩, ?_⟩
      · simpa using hres
      · simpa [visitValid] using hbad

theorem outsOk_queryCacheForService (P : Cache → Prop) (s : State) (now : Nat) (ty : BList) (chn : Nat) (h : P s.cache) :
    OutsOk P now (queryCacheForService s now ty chn).2 := by
  refine ⟨?_, ?_⟩
  · intro ch r hm
    simp only [queryCacheForService, List.mem_flatMap, List.mem_append, List.mem_singleton] at hm
    obtain ⟨i, _, hm⟩ := hm
    rcases hm with hm | hm
    · cases hm
    · split at hm
      · rename_i hv
        simp only [List.mem_singleton] at hm
        cases hm
        exact ⟨s.cache, ty, i, h, rfl, hv⟩
      · cases hm
  · intro ch ty' inst hm
    simp only [queryCacheForService, List.mem_flatMap, List.mem_append, List.mem_singleton] at hm
    obtain ⟨i, _, hm⟩ := hm
    rcases hm with hm | hm
    · cases hm
    · split at hm
      · simp at hm
      · cases hm

/-! ### the phases after ingress, for any predicate on caches that survives lowering -/

/-- `P` survives every operation that only removes entries or lowers their expiry -/
def LowClosed (P : Cache → Prop) : Prop := ∀ c c', P c → CacheLow c c' → P c'

theorem lowClosed_cacheProv (hist : List Delivery) : LowClosed (CacheProv hist) := fun _ _ h l => h.low l

/-- a phase keeps `P` and emits only justified `ServiceResolved` events -/
def PhaseOk (P : Cache → Prop) (now : Nat) (r : State × List Out) : Prop := P r.1.cache ∧ OutsOk P now r.2

theorem noRes_single (o : Out) (h : ∀ ch r, o ≠ .event ch (.resolved r))
    (h2 : ∀ ch ty inst, o ≠ .event ch (.removed ty inst)) : NoRes [o] := by
  refine ⟨?_, ?_⟩
  · intro ch r hm
    simp only [List.mem_singleton] at hm
    exact h ch r hm.symm
  · intro ch ty inst hm
    simp only [List.mem_singleton] at hm
    exact h2 ch ty inst hm.symm

theorem ok_execBrowse (P : Cache → Prop) (s : State) (now : Nat) (rep : Bool) (ty : BList) (d : Nat) (co : Bool)
    (ch : Nat) (hP : P s.cache) : PhaseOk P now (execBrowse s now rep ty d co ch) := by
  unfold execBrowse PhaseOk
  cases rep
  · simp only [Bool.false_eq_true, if_false]
    split
    · refine ⟨by simpa using hP, ?_⟩
      refine OutsOk.append (OutsOk.append (noRes_single _ (by intro _ _ h; cases h) (by intro _ _ _ h; cases h)).ok ?_)
        (noRes_single _ (by intro _ _ h; cases h) (by intro _ _ _ h; cases h)).ok
      exact outsOk_queryCacheForService P _ now ty ch hP
    · refine ⟨by simpa using hP, ?_⟩
      refine OutsOk.append (OutsOk.append (noRes_single _ (by intro _ _ h; cases h) (by intro _ _ _ h; cases h)).ok ?_) (noRes_sendQuery _ _ _).ok
      exact outsOk_queryCacheForService P _ now ty ch hP
  · simp only [if_true]
    split
    · refine ⟨hP, ?_⟩
      apply NoRes.ok
      refine ⟨?_, ?_⟩ <;> (intros; intro h; simp at h)
    · refine ⟨hP, ?_⟩
      apply NoRes.ok
      refine ⟨?_, ?_⟩ <;> (intros; intro h; simp [sendQuery] at h)

theorem ok_execResolveHost (P : Cache → Prop) (s : State) (now : Nat) (rep : Bool) (host : BList) (d ch : Nat)
    (t : Option Nat) (hP : P s.cache) : PhaseOk P now (execResolveHost s now rep host d ch t) := by
  unfold execResolveHost PhaseOk
  simp only []
  split
  · exact ⟨hP, OutsOk.nil P now⟩
  · refine ⟨?_, ?_⟩
    · simp only [apply_ite State.cache, addRerun_cache, ite_self]
      exact hP
    · apply NoRes.ok
      refine NoRes.append (NoRes.append (noRes_single _ (by intro _ _ h; cases h) (by intro _ _ _ h; cases h)) ?_) (noRes_sendQuery _ _ _)
      split
      · exact noRes_nil
      · refine ⟨?_, ?_⟩ <;> (intros; intro h; simp at h)

theorem ok_execStopBrowse (P : Cache → Prop) (hL : LowClosed P) (s : State) (now : Nat) (ty : BList) (hP : P s.cache) :
    PhaseOk P now (execStopBrowse s ty) := by
  unfold execStopBrowse PhaseOk
  split
  · exact ⟨hP, OutsOk.nil P now⟩
  · refine ⟨hL _ _ hP (cacheLow_removeServiceType s.cache ty), ?_⟩
    exact (noRes_single _ (by intro _ _ h; cases h) (by intro _ _ _ h; cases h)).ok

theorem ok_execStopResolve (P : Cache → Prop) (s : State) (now : Nat) (host : BList) (hP : P s.cache) :
    PhaseOk P now (execStopResolve s host) := by
  unfold execStopResolve PhaseOk
  simp only []
  split
  · exact ⟨hP, OutsOk.nil P now⟩
  · exact ⟨hP, (noRes_single _ (by intro _ _ h; cases h) (by intro _ _ _ h; cases h)).ok⟩

theorem ok_execResolveInst (P : Cache → Prop) (s : State) (now : Nat) (inst : BList) (k : Nat) (hP : P s.cache) :
    PhaseOk P now (execResolveInst s now inst k) := by
  unfold execResolveInst PhaseOk
  split
  · exact ⟨hP, OutsOk.nil P now⟩
  · refine ⟨?_, (noRes_sendQuery _ _ _).ok⟩
    split
    · simpa using hP
    · exact hP

theorem ok_execVerify (P : Cache → Prop) (hL : LowClosed P) (s : State) (now : Nat) (rep : Bool) (inst : BList)
    (t : Nat) (hP : P s.cache) : PhaseOk P now (execVerify s now rep inst t) := by
  unfold execVerify PhaseOk
  cases rep
  · have hc := hL _ _ hP (cacheLow_serviceVerifyQueries s.cache inst (some (now + t)))
    simp only [Bool.false_eq_true, if_false]
    split
    · exact ⟨hc, OutsOk.nil P now⟩
    · exact ⟨by simpa using hc, (noRes_sendQuery _ _ _).ok⟩
  · have hc := hL _ _ hP (cacheLow_serviceVerifyQueries s.cache inst none)
    simp only [if_true]
    split
    · exact ⟨hc, OutsOk.nil P now⟩
    · exact ⟨hc, (noRes_sendQuery _ _ _).ok⟩

theorem ok_execCommand (P : Cache → Prop) (hL : LowClosed P) (s : State) (now : Nat) (c : Command) (hP : P s.cache) :
    PhaseOk P now (execCommand s now c) := by
  cases c with
  | browse ty ch co => exact ok_execBrowse P s now false ty 1 co ch hP
  | stopBrowse ty => exact ok_execStopBrowse P hL s now ty hP
  | resolveHost h ch t => exact ok_execResolveHost P s now false h 1 ch t hP
  | stopResolve h => exact ok_execStopResolve P s now h hP
  | ipInterval ms => exact ⟨hP, OutsOk.nil P now⟩
  | verify inst t => exact ok_execVerify P hL s now false inst t hP
  | metrics ch => exact ⟨hP, (noRes_single _ (by intro _ _ h; cases h) (by intro _ _ _ h; cases h)).ok⟩
  | acceptUnsolicited on => exact ⟨hP, OutsOk.nil P now⟩

theorem ok_execRerun (P : Cache → Prop) (hL : LowClosed P) (s : State) (now : Nat) (c : RCmd) (hP : P s.cache) :
    PhaseOk P now (execRerun s now c) := by
  cases c with
  | browse ty d ch => exact ok_execBrowse P s now true ty d false ch hP
  | resolveHost h d ch => exact ok_execResolveHost P s now true h d ch none hP
  | resolve inst k => exact ok_execResolveInst P s now inst k hP
  | verify inst t => exact ok_execVerify P hL s now true inst t hP

theorem ok_runCommands (P : Cache → Prop) (hL : LowClosed P) (now : Nat) : ∀ (cs : List Command) (s : State),
    P s.cache → PhaseOk P now (runCommands s now cs)
  | [], s, hP => ⟨hP, OutsOk.nil P now⟩
  | c :: cs, s, hP => by
    have h1 := ok_execCommand P hL s now c hP
    have h2 := ok_runCommands P hL now cs _ h1.1
    exact ⟨h2.1, h1.2.append h2.2⟩

theorem ok_runReruns (P : Cache → Prop) (hL : LowClosed P) (now : Nat) : ∀ (fuel : Nat) (keep rest : List Rerun)
    (s : State), P s.cache → PhaseOk P now (runReruns s now fuel keep rest)
  | 0, _, _, s, hP => ⟨hP, OutsOk.nil P now⟩
  | _ + 1, _, [], s, hP => ⟨hP, OutsOk.nil P now⟩
  | fuel + 1, keep, r :: rest, s, hP => by
    unfold runReruns
    split
    · have h1 := ok_execRerun P hL { s with reruns := [] } now r.cmd hP
      have h2 := ok_runReruns P hL now fuel keep (rest ++ (execRerun { s with reruns := [] } now r.cmd).1.reruns)
        { (execRerun { s with reruns := [] } now r.cmd).1 with reruns := [] } h1.1
      exact ⟨h2.1, h1.2.append h2.2⟩
    · exact ok_runReruns P hL now fuel (keep ++ [r]) rest s hP

theorem ok_rerunPhase (P : Cache → Prop) (hL : LowClosed P) (s : State) (now : Nat) (hP : P s.cache) :
    PhaseOk P now (rerunPhase s now) := ok_runReruns P hL now _ _ _ _ hP

theorem ok_runTimeouts (P : Cache → Prop) (s : State) (now : Nat) (hP : P s.cache) : PhaseOk P now (runTimeouts s now) := by
  refine ⟨hP, NoRes.ok ?_⟩
  refine ⟨?_, ?_⟩ <;> (intros; intro h; simp [runTimeouts] at h)

/-! refresh -/

theorem noRes_map_sendQuery {α} (l : List α) (f : α → Cache × List (BList × Nat)) (now : Nat) :
    NoRes (l.map fun a => sendQuery (f a).1 now (f a).2) := by
  refine ⟨?_, ?_⟩ <;> (intros; intro h; simp [sendQuery] at h)

theorem refreshType_ok (c : Cache) (now : Nat) (ty : BList) :
    CacheLow c (refreshType c now ty).1 ∧ NoRes (refreshType c now ty).2.1 := by
  unfold refreshType
  simp only []
  refine ⟨?_, ?_⟩
  · exact ((cacheLow_refreshDuePtr c ty now).trans (cacheLow_refreshDueSrvTxt _ ty now)).trans
      (cacheLow_refreshDueHosts _ ty now)
  · refine NoRes.append (NoRes.append ?_ ?_) ?_
    · split
      · exact noRes_nil
      · exact noRes_sendQuery _ _ _
    · refine ⟨?_, ?_⟩ <;> (intros; intro h; simp [sendQuery] at h)
    · refine ⟨?_, ?_⟩ <;> (intros; intro h; simp [sendQuery] at h)

theorem refreshTypes_ok (now : Nat) : ∀ (l : List BList) (c : Cache),
    CacheLow c (refreshTypes c now l).1 ∧ NoRes (refreshTypes c now l).2.1
  | [], c => ⟨CacheLow.refl c, noRes_nil⟩
  | ty :: rest, c => by
    have h1 := refreshType_ok c now ty
    have h2 := refreshTypes_ok now rest (refreshType c now ty).1
    exact ⟨h1.1.trans h2.1, h1.2.append h2.2⟩

theorem ok_refreshActive (P : Cache → Prop) (hL : LowClosed P) (s : State) (now : Nat) (hP : P s.cache) :
    PhaseOk P now (refreshActive s now) := by
  have h := refreshTypes_ok now (activeTypes s) s.cache
  exact ⟨hL _ _ hP h.1, h.2.ok⟩

theorem refreshResolversGo_ok (now : Nat) : ∀ (l : List BList) (c : Cache),
    CacheLow c (refreshResolversGo c now l).1 ∧ NoRes (refreshResolversGo c now l).2
  | [], c => ⟨CacheLow.refl c, noRes_nil⟩
  | h :: rest, c => by
    have h2 := refreshResolversGo_ok now rest (refreshDueResolutions c h now).1
    refine ⟨(cacheLow_refreshDueResolutions c h now).trans h2.1, NoRes.append ?_ h2.2⟩
    refine ⟨?_, ?_⟩ <;> (intros; intro h; simp [sendQuery] at h)

theorem ok_refreshResolvers (P : Cache → Prop) (hL : LowClosed P) (s : State) (now : Nat) (hP : P s.cache) :
    PhaseOk P now (refreshResolvers s now) := by
  have h := refreshResolversGo_ok now (s.resolvers.map (·.1)) s.cache
  exact ⟨hL _ _ hP h.1, h.2.ok⟩

/-! eviction -/

theorem not_live_iff (now : Nat) (e : Entry) : live now e = false ↔ e.record.expires ≤ now := by
  rw [← Bool.not_eq_true, live_iff]
  omega

/-- all SRV entries of `a` have expired (and there is an SRV name for it) -/
def srvAllExpired (now : Nat) (srv : Table) (a : BList) : Bool :=
  match srv.get a with
  | some l => l.all fun x => !live now x
  | none => false

theorem reportSrv_cons_some (now : Nat) (srv : Table) (ty : BList) (e : Entry) (es : List Entry) (gone : List BList)
    (a : BList) (h : aliasOf e = some a) :
    reportSrv now srv ty (e :: es) gone =
      if (!gone.contains a && srvAllExpired now srv a) = true then
        ((ty, a) :: (reportSrv now srv ty es (a :: gone)).1, (reportSrv now srv ty es (a :: gone)).2)
      else reportSrv now srv ty es gone := by
  rw [reportSrv]
  simp only [h, srvAllExpired]
  rfl

theorem reportSrv_cons_none (now : Nat) (srv : Table) (ty : BList) (e : Entry) (es : List Entry) (gone : List BList)
    (h : aliasOf e = none) : reportSrv now srv ty (e :: es) gone = reportSrv now srv ty es gone := by
  rw [reportSrv]
  simp only [h]

theorem reportSrv_sound (now : Nat) (srv : Table) (ty : BList) : ∀ (es : List Entry) (gone : List BList) (ty' a : BList),
    (ty', a) ∈ (reportSrv now srv ty es gone).1 →
    ty' = ty ∧ ∃ e ∈ es, aliasOf e = some a ∧ ∃ l, srv.get a = some l ∧ ∀ x ∈ l, x.record.expires ≤ now
  | [], gone, ty', a, h => by simp [reportSrv] at h
  | e :: es, gone, ty', a, h => by
    have ih := fun g h' => reportSrv_sound now srv ty es g ty' a h'
    have lift : (ty' = ty ∧ ∃ e' ∈ es, aliasOf e' = some a ∧ ∃ l, srv.get a = some l ∧ ∀ x ∈ l, x.record.expires ≤ now) →
        ty' = ty ∧ ∃ e' ∈ e :: es, aliasOf e' = some a ∧ ∃ l, srv.get a = some l ∧ ∀ x ∈ l, x.record.expires ≤ now := by
      rintro ⟨h1, e', he', h2⟩
      exact ⟨h1, e', List.mem_cons_of_mem _ he', h2⟩
    cases ha0 : aliasOf e with
    | none =>
      rw [reportSrv_cons_none now srv ty e es gone ha0] at h
      exact lift (ih _ h)
    | some a0 =>
      rw [reportSrv_cons_some now srv ty e es gone a0 ha0] at h
      by_cases hc : (!gone.contains a0 && srvAllExpired now srv a0) = true
      · rw [if_pos hc] at h
        simp only [List.mem_cons] at h
        rcases h with h | h
        · cases h
          simp only [Bool.and_eq_true] at hc
          refine ⟨rfl, e, List.mem_cons_self, ha0, ?_⟩
          have h2 := hc.2
          unfold srvAllExpired at h2
          cases hg : srv.get a with
          | none => simp [hg] at h2
          | some l =>
            refine ⟨l, rfl, ?_⟩
            intro x hx
            simp only [hg, List.all_eq_true] at h2
            exact (not_live_iff now x).mp (by simpa using h2 x hx)
        · exact lift (ih _ h)
      · rw [if_neg hc] at h
        exact lift (ih _ h)

theorem evictReport_sound (now : Nat) (srv : Table) : ∀ (ptr : Table) (gone : List BList) (ty a : BList),
    (ty, a) ∈ evictReport now srv ptr gone →
    ∃ es, (ty, es) ∈ ptr ∧ ∃ e ∈ es, aliasOf e = some a ∧
      (e.record.expires ≤ now ∨ ∃ l, srv.get a = some l ∧ ∀ x ∈ l, x.record.expires ≤ now)
  | [], gone, ty, a, h => by simp [evictReport] at h
  | p :: rest, gone, ty, a, h => by
    unfold evictReport at h
    simp only [List.mem_append] at h
    rcases h with (h | h) | h
    · obtain ⟨rfl, e, he, ha, hl⟩ := reportSrv_sound now srv p.1 p.2 gone ty a h
      exact ⟨p.2, List.mem_cons_self, e, he, ha, Or.inr hl⟩
    · simp only [List.mem_filterMap, List.mem_filter] at h
      obtain ⟨e, ⟨he, hlive⟩, hm⟩ := h
      cases ha : aliasOf e with
      | none => simp [ha] at hm
      | some a0 =>
        simp only [ha, Option.map_some, Option.some.injEq, Prod.mk.injEq] at hm
        obtain ⟨rfl, rfl⟩ := hm
        exact ⟨p.2, List.mem_cons_self, e, he, ha, Or.inl ((not_live_iff now e).mp (by simpa using hlive))⟩
    · obtain ⟨es, hes, hr⟩ := evictReport_sound now srv rest _ ty a h
      exact ⟨es, List.mem_cons_of_mem _ hes, hr⟩

theorem ok_evictServicesPhase (P : Cache → Prop) (hL : LowClosed P) (s : State) (now : Nat) (hP : P s.cache) :
    PhaseOk P now (evictServicesPhase s now) := by
  refine ⟨hL _ _ hP (cacheLow_evictServices s.cache now), ?_, ?_⟩
  · exact fun ch r hm => absurd hm (noResolved_notifyRemoval _ _ ch r)
  · intro ch ty inst hm
    have hm' := (mem_notifyRemoval _ _ ch ty inst hm).1
    exact Or.inl ⟨s.cache, hP, evictReport_sound now s.cache.srv s.cache.ptr [] ty inst hm'⟩

theorem ok_evictAddrHosts (P : Cache → Prop) (now : Nat) (items : List (BList × BList × BList × Nat)) :
    ∀ (hosts : List BList) (s : State), P s.cache → PhaseOk P now (evictAddrHosts s now items hosts)
  | [], s, hP => ⟨hP, OutsOk.nil P now⟩
  | h :: rest, s, hP => by
    unfold evictAddrHosts
    simp only []
    have h1 : P (resolveUpdated s now (instancesOnHost s.cache h)).1.cache := by simpa using hP
    have h2 := ok_evictAddrHosts P now items rest _ h1
    refine ⟨h2.1, OutsOk.append (OutsOk.append (NoRes.ok ?_) (outsOk_resolveUpdated P s now _ hP)) h2.2⟩
    split
    · exact noRes_nil
    · exact noRes_single _ (by intro _ _ h; cases h) (by intro _ _ _ h; cases h)

theorem ok_evictAddrPhase (P : Cache → Prop) (hL : LowClosed P) (s : State) (now : Nat) (hP : P s.cache) :
    PhaseOk P now (evictAddrPhase s now) :=
  ok_evictAddrHosts P now _ _ _ (hL _ _ hP (cacheLow_evictAddr s.cache now))

@[simp] theorem runIpCheck_cache (s : State) (now : Nat) : (runIpCheck s now).cache = s.cache := by
  unfold runIpCheck
  repeat' split
  all_goals rfl

@[simp] theorem popTimers_cache (s : State) (now : Nat) : (popTimers s now).cache = s.cache := rfl

/-! ### ingress -/

/-- the records of a response as handed to `add_or_update` at `now` on `intf` -/
def recDeliveries (now : Nat) (intf : Intf) (m : Wire.Msg) : List Delivery :=
  (m.answers ++ m.authorities ++ m.additionals).map fun r => ⟨now, intf.name, intf.idx, r⟩

/-- what a datagram delivers: nothing if `handle_read` drops it (unknown interface, disabled
    family, not a response) -/
def pktDeliveries (s : State) (now : Nat) (p : Packet) : List Delivery :=
  match s.intfs.find? (·.idx == p.ifIdx) with
  | none => []
  | some intf =>
    if (p.v4 && !intf.v4) || (!p.v4 && !intf.v6) then []
    else if p.msg.flags / 32768 % 2 == 1 then recDeliveries now intf p.msg
    else []

/-- the deliveries of the datagrams of one iteration -/
def deliveries (s : State) (now : Nat) : List Packet → List Delivery
  | [] => []
  | p :: rest => pktDeliveries s now p ++ deliveries (handleRead s now p).1 now rest

theorem ingestOne_cache (q : List (BList × Nat)) (ifName : BList) (ifIdx now : Nat) (forUs : Bool) (acc : Ingest)
    (r : Wire.Rec) :
    (ingestOne q ifName ifIdx now forUs acc r).cache =
      (addOrUpdate acc.cache ifName ifIdx (ofWire ifName ifIdx now r) now forUs).cache := by
  unfold ingestOne
  simp only []
  repeat' split
  all_goals rfl

theorem ingestOne_noRes (q : List (BList × Nat)) (ifName : BList) (ifIdx now : Nat) (forUs : Bool) (acc : Ingest)
    (r : Wire.Rec) (h : NoRes acc.outs) : NoRes (ingestOne q ifName ifIdx now forUs acc r).outs := by
  unfold ingestOne
  simp only []
  repeat' split
  all_goals first
    | exact h
    | exact h.append (noRes_single _ (by intro _ _ h; cases h) (by intro _ _ _ h; cases h))

theorem ingestAll_ok (hist : List Delivery) (q : List (BList × Nat)) (ifName : BList) (ifIdx now : Nat) (forUs : Bool) :
    ∀ (rs : List Wire.Rec) (acc : Ingest), (∀ r ∈ rs, (⟨now, ifName, ifIdx, r⟩ : Delivery) ∈ hist) →
      CacheProv hist acc.cache → NoRes acc.outs →
      CacheProv hist (ingestAll q ifName ifIdx now forUs acc rs).cache ∧
        NoRes (ingestAll q ifName ifIdx now forUs acc rs).outs
  | [], _, _, h1, h2 => ⟨h1, h2⟩
  | r :: rest, acc, hd, h1, h2 => by
    simp only [ingestAll]
    apply ingestAll_ok hist q ifName ifIdx now forUs rest _ (fun r' hr' => hd r' (List.mem_cons_of_mem _ hr'))
    · rw [ingestOne_cache]
      exact cacheProv_addOrUpdate hist acc.cache ⟨now, ifName, ifIdx, r⟩ (hd r List.mem_cons_self) forUs h1
    · exact ingestOne_noRes q ifName ifIdx now forUs acc r h2

theorem noRes_hostFoundOuts (s : State) (c : Cache) (now : Nat) (changes : List (Nat × BList)) :
    NoRes (hostFoundOuts s c now changes) := by
  refine ⟨?_, ?_⟩
  · intro ch r h
    simp only [hostFoundOuts, List.mem_flatMap] at h
    obtain ⟨x, _, hx⟩ := h
    split at hx
    · cases hx
    · simp at hx
  · intro ch ty inst h
    simp only [hostFoundOuts, List.mem_flatMap] at h
    obtain ⟨x, _, hx⟩ := h
    split at hx
    · cases hx
    · simp at hx

theorem ok_handleResponse (hist : List Delivery) (s : State) (now : Nat) (intf : Intf) (m : Wire.Msg)
    (hd : ∀ d ∈ recDeliveries now intf m, d ∈ hist) (h : CacheProv hist s.cache) :
    PhaseOk (CacheProv hist) now (handleResponse s now intf m) := by
  have hing := ingestAll_ok hist s.queriers intf.name intf.idx now (isForUs s m.answers)
    (m.answers ++ m.authorities ++ m.additionals) { cache := s.cache, timers := [], changes := [], outs := [] }
    (fun r hr => hd _ (List.mem_map.mpr ⟨r, hr, rfl⟩)) h noRes_nil
  unfold handleResponse PhaseOk
  simp only [resolveUpdated_cache, addTimers_cache]
  refine ⟨hing.1, OutsOk.append (OutsOk.append hing.2.ok (noRes_hostFoundOuts _ _ _ _).ok) ?_⟩
  exact outsOk_resolveUpdated _ _ now _ (by simpa using hing.1)

theorem ok_handleRead (hist : List Delivery) (s : State) (now : Nat) (p : Packet)
    (hd : ∀ d ∈ pktDeliveries s now p, d ∈ hist) (h : CacheProv hist s.cache) :
    PhaseOk (CacheProv hist) now (handleRead s now p) := by
  unfold handleRead
  unfold pktDeliveries at hd
  split
  · exact ⟨h, OutsOk.nil _ now⟩
  · rename_i intf hfind
    simp only [hfind] at hd
    split
    · exact ⟨h, OutsOk.nil _ now⟩
    · rename_i hfam
      simp only [hfam] at hd
      split
      · rename_i hresp
        simp only [hresp, if_true] at hd
        exact ok_handleResponse hist s now intf p.msg hd h
      · exact ⟨h, OutsOk.nil _ now⟩

/-- ingress: provenance extends by exactly the deliveries of the iteration -/
theorem ok_ingress (now : Nat) : ∀ (pkts : List Packet) (hist : List Delivery) (s : State), CacheProv hist s.cache →
    PhaseOk (CacheProv (hist ++ deliveries s now pkts)) now (ingress s now pkts)
  | [], hist, s, h => by
    simp only [deliveries, List.append_nil]
    exact ⟨h, OutsOk.nil _ now⟩
  | p :: rest, hist, s, h => by
    have h1 := ok_handleRead (hist ++ pktDeliveries s now p) s now p (fun d hd => List.mem_append_right _ hd)
      (h.mono fun d hd => List.mem_append_left _ hd)
    have h2 := ok_ingress now rest (hist ++ pktDeliveries s now p) (handleRead s now p).1 h1.1
    simp only [deliveries, ingress]
    rw [← List.append_assoc]
    refine ⟨h2.1, OutsOk.append (h1.2.mono fun c hc => hc.mono fun d hd => List.mem_append_left _ hd) h2.2⟩

/-- **One iteration**: the cache afterwards is justified by the history extended with this
    iteration's deliveries, and every `ServiceResolved` it emits is a valid result of
    `resolve_service_from_cache` on a cache that is. -/
theorem ok_iter (hist : List Delivery) (s : State) (now : Nat) (pkts : List Packet) (cmds : List Command)
    (h : CacheProv hist s.cache) :
    PhaseOk (CacheProv (hist ++ deliveries s now pkts)) now (iter s now pkts cmds) := by
  have hL := lowClosed_cacheProv (hist ++ deliveries s now pkts)
  have h1 := ok_ingress now pkts hist s h
  have h3 := ok_runTimeouts _ (popTimers (ingress s now pkts).1 now) now (by simpa using h1.1)
  have h4 := ok_runCommands _ hL now cmds _ h3.1
  have h5 := ok_rerunPhase _ hL _ now h4.1
  have h6 := ok_refreshActive _ hL _ now h5.1
  have h7 := ok_refreshResolvers _ hL _ now h6.1
  have h8 := ok_evictServicesPhase _ hL _ now h7.1
  have h9 := ok_evictAddrPhase _ hL _ now h8.1
  unfold iter
  simp only []
  refine ⟨by simpa using h9.1, ?_⟩
  exact (((((((h1.2.append h3.2).append h4.2).append h5.2).append h6.2).append h7.2).append h8.2).append h9.2)

end Mdns.Client
