import Mdns.Model.Names
/-
  Helper lemmas for C08 (renaming after a conflict).
-/
namespace Mdns.Names
open Mdns

/-! ### `split('.')` / `join(".")`: only the text before the first dot matters -/

/-- the text before the first `.` -/
def firstPart (s : BList) : BList := s.takeWhile (· != DOT)

/-- the first `.` and everything after it (empty if there is no `.`) -/
def afterFirst (s : BList) : BList := s.dropWhile (· != DOT)

theorem firstPart_append_afterFirst (s : BList) : firstPart s ++ afterFirst s = s :=
  List.takeWhile_append_dropWhile

theorem splitOn_spec : ∀ s : BList, ∃ rest, splitOn DOT s = firstPart s :: rest ∧
    ∀ x, joinDot (x :: rest) = x ++ afterFirst s
  | [] => ⟨[], by simp [splitOn, firstPart], by simp [joinDot, afterFirst]⟩
  | c :: cs => by
    obtain ⟨rest, h1, h2⟩ := splitOn_spec cs
    by_cases hc : c = DOT
    · refine ⟨splitOn DOT cs, by simp [splitOn, firstPart, hc], ?_⟩
      intro x
      rw [h1]
      simp only [joinDot, afterFirst, hc, bne_self_eq_false, Bool.false_eq_true, not_false_eq_true,
        List.dropWhile_cons_of_neg]
      rw [h2, firstPart_append_afterFirst]
    · refine ⟨rest, ?_, ?_⟩
      · simp only [splitOn, hc, ↓reduceIte, h1, firstPart]
        rw [List.takeWhile_cons_of_pos (by simpa using hc)]
      · intro x
        rw [h2]
        simp only [afterFirst]
        rw [List.dropWhile_cons_of_pos (by simpa using hc)]

theorem firstPart_no_dot : ∀ s : BList, DOT ∉ firstPart s
  | [] => by simp [firstPart]
  | c :: cs => by
    by_cases hc : c = DOT
    · simp [firstPart, hc]
    · unfold firstPart
      rw [List.takeWhile_cons_of_pos (by simpa using hc)]
      simp only [List.mem_cons, not_or]
      exact ⟨fun e => hc e.symm, firstPart_no_dot cs⟩

theorem afterFirst_head (s : BList) : afterFirst s = [] ∨ (afterFirst s).head? = some DOT := by
  unfold afterFirst
  cases h : s.dropWhile (· != DOT) with
  | nil => exact Or.inl rfl
  | cons x xs =>
    right
    have := List.head_dropWhile_not (p := (· != DOT)) (l := s) (by simp [h])
    simp [h] at this
    simp [this]

theorem firstPart_of_no_dot (f rest : BList) (hf : DOT ∉ f) (hr : rest = [] ∨ rest.head? = some DOT) :
    firstPart (f ++ rest) = f ∧ afterFirst (f ++ rest) = rest := by
  induction f with
  | nil =>
    rcases hr with hr | hr
    · subst hr; simp [firstPart, afterFirst]
    · cases rest with
      | nil => simp [firstPart, afterFirst]
      | cons x xs =>
        simp at hr
        subst hr
        simp [firstPart, afterFirst]
  | cons c cs ih =>
    have hc : c ≠ DOT := fun h => hf (by simp [h])
    have hcs : DOT ∉ cs := fun h => hf (by simp [h])
    obtain ⟨i1, i2⟩ := ih hcs
    constructor
    · simp only [firstPart, List.cons_append]
      rw [List.takeWhile_cons_of_pos (by simpa using hc)]
      exact congrArg _ i1
    · simp only [afterFirst, List.cons_append]
      rw [List.dropWhile_cons_of_pos (by simpa using hc)]
      exact i2

/-! ### `rfind` and `find` -/

theorem rfind_none_of_not_mem (c0 : UInt8) (pat : BList) : ∀ s : BList, c0 ∉ s → rfind (c0 :: pat) s = none
  | [], _ => by simp [rfind]
  | c :: cs, h => by
    have hc : c0 ≠ c := fun e => h (by simp [e])
    have hcs : c0 ∉ cs := fun e => h (by simp [e])
    simp [rfind, rfind_none_of_not_mem c0 pat cs hcs, List.isPrefixOf, hc]

theorem isPrefixOf_append_self (pat t : BList) : pat.isPrefixOf (pat ++ t) = true := by
  induction pat with
  | nil => simp [List.isPrefixOf]
  | cons p ps ih => simp [ih]

/-- the last occurrence is where we expect it when the pattern does not occur later -/
theorem rfind_append (pat t : BList) (hp : pat ≠ []) (ht : rfind pat (pat ++ t).tail = none) :
    ∀ base : BList, rfind pat (base ++ pat ++ t) = some base.length
  | [] => by
    cases hpt : pat ++ t with
    | nil => simp at hpt; exact absurd hpt.1 hp
    | cons x xs =>
      rw [hpt] at ht
      simp only [List.tail_cons] at ht
      simp only [List.nil_append, List.length_nil]
      rw [hpt, rfind, ht, ← hpt, isPrefixOf_append_self]
      rfl
  | b :: base => by
    have ih := rfind_append pat t hp ht base
    simp only [List.cons_append, List.length_cons]
    rw [rfind]
    simp only [List.append_assoc] at ih ⊢
    rw [ih]

theorem find_append (b : UInt8) (r : BList) : ∀ a : BList, b ∉ a → find b (a ++ b :: r) = some a.length
  | [], _ => by simp [find]
  | c :: cs, h => by
    have hc : c ≠ b := fun e => h (by simp [e])
    have hcs : b ∉ cs := fun e => h (by simp [e])
    simp [find, hc, find_append b r cs hcs]

/-- where `rfind` finds the pattern, the pattern is -/
theorem rfind_some (pat : BList) : ∀ (s : BList) (i : Nat), rfind pat s = some i →
    ∃ t, s = s.take i ++ pat ++ t ∧ (s.take i).length = i
  | [], i, h => by
    unfold rfind at h
    split at h
    · rename_i hp
      simp at h
      subst h
      exact ⟨[], by simpa using hp, rfl⟩
    · cases h
  | c :: cs, i, h => by
    unfold rfind at h
    split at h
    · rename_i j hj
      simp at h
      subst h
      obtain ⟨t, h1, h2⟩ := rfind_some pat cs j hj
      refine ⟨t, ?_, by simp [h2]⟩
      simp only [List.take_succ_cons, List.cons_append]
      exact congrArg _ h1
    · split at h
      · rename_i hpre
        simp at h
        subst h
        obtain ⟨t, ht⟩ := List.isPrefixOf_iff_prefix.mp hpre
        exact ⟨t, by simp [ht], rfl⟩
      · cases h

theorem find_some (b : UInt8) : ∀ (s : BList) (j : Nat), find b s = some j →
    s = s.take j ++ b :: s.drop (j + 1) ∧ (s.take j).length = j ∧ b ∉ s.take j
  | [], j, h => by simp [find] at h
  | c :: cs, j, h => by
    unfold find at h
    split at h
    · rename_i hc
      simp at h
      subst h
      simp [hc]
    · rename_i hc
      cases hf : find b cs with
      | none => simp [hf] at h
      | some k =>
        simp [hf] at h
        subst h
        obtain ⟨h1, h2, h3⟩ := find_some b cs k hf
        refine ⟨?_, by simp [h2], ?_⟩
        · simp only [List.take_succ_cons, List.cons_append, List.drop_succ_cons]
          exact congrArg _ h1
        · simp only [List.take_succ_cons, List.mem_cons, not_or]
          exact ⟨fun e => hc e.symm, h3⟩

/-! ### decimal numbers -/

theorem decimalAux_fuel : ∀ (f1 f2 n : Nat), n < f1 → n < f2 → decimalAux f1 n = decimalAux f2 n
  | 0, _, _, h, _ => by omega
  | _ + 1, 0, _, _, h => by omega
  | f1 + 1, f2 + 1, n, h1, h2 => by
    unfold decimalAux
    by_cases hn : n < 10
    · simp [hn]
    · simp only [hn, ↓reduceIte]
      rw [decimalAux_fuel f1 f2 (n / 10) (by omega) (by omega)]

/-- the recursion `decimal` stands for: the fuel is never exhausted -/
theorem decimal_rec (n : Nat) :
    decimal n = if n < 10 then [digitByte n] else decimal (n / 10) ++ [digitByte n] := by
  unfold decimal
  rw [decimalAux]
  by_cases hn : n < 10
  · simp [hn]
  · simp only [hn, ↓reduceIte]
    rw [decimalAux_fuel n (n / 10 + 1) (n / 10) (by omega) (by omega)]

theorem digitByte_toNat (n : Nat) : (digitByte n).toNat = 48 + n % 10 := by
  unfold digitByte
  rw [UInt8.toNat_ofNat_of_lt']
  simp only [UInt8.size]
  omega

theorem isDigit_iff (b : UInt8) : isDigit b = true ↔ 48 ≤ b.toNat ∧ b.toNat ≤ 57 := by
  simp [isDigit, UInt8.le_iff_toNat_le]

theorem isDigit_digitByte (n : Nat) : isDigit (digitByte n) = true := by
  rw [isDigit_iff, digitByte_toNat]
  omega

theorem digitsVal_append : ∀ (a b : BList) (acc : Nat),
    digitsVal (a ++ b) acc = (digitsVal a acc).bind (digitsVal b)
  | [], b, acc => by simp [digitsVal]
  | c :: cs, b, acc => by
    simp only [List.cons_append, digitsVal]
    split
    · exact digitsVal_append cs b _
    · rfl

theorem digitsVal_decimal (n : Nat) : digitsVal (decimal n) 0 = some n := by
  induction n using Nat.strongRecOn with
  | _ n ih =>
    rw [decimal_rec]
    by_cases hn : n < 10
    · simp only [hn, ↓reduceIte, digitsVal, isDigit_digitByte, digitByte_toNat]
      congr 1
      omega
    · simp only [hn, ↓reduceIte]
      rw [digitsVal_append, ih (n / 10) (by omega)]
      simp only [Option.bind_some, digitsVal, isDigit_digitByte, ↓reduceIte, digitByte_toNat]
      congr 1
      omega

theorem decimal_ne_nil (n : Nat) : decimal n ≠ [] := by
  rw [decimal_rec]
  split <;> simp

theorem decimal_digits (n : Nat) : ∀ c ∈ decimal n, isDigit c = true := by
  induction n using Nat.strongRecOn with
  | _ n ih =>
    rw [decimal_rec]
    by_cases hn : n < 10
    · simp [hn, isDigit_digitByte]
    · simp only [hn, ↓reduceIte, List.mem_append, List.mem_singleton]
      intro c hc
      rcases hc with hc | hc
      · exact ih (n / 10) (by omega) c hc
      · rw [hc]; exact isDigit_digitByte n

/-- reading back what was printed -/
theorem parseU32_decimal (n : Nat) (h : n ≤ U32_MAX) : parseU32 (decimal n) = some n := by
  unfold parseU32
  cases hd : decimal n with
  | nil => exact absurd hd (decimal_ne_nil n)
  | cons c cs =>
    have hc : isDigit c = true := decimal_digits n c (by simp [hd])
    have hplus : c ≠ 0x2B := by
      intro e
      rw [e] at hc
      simp [isDigit] at hc
    simp only [hplus, ↓reduceIte]
    rw [← hd, digitsVal_decimal]
    simp [h]

theorem digitsVal_lt : ∀ (ds : BList) (acc n : Nat), digitsVal ds acc = some n →
    n < (acc + 1) * 10 ^ ds.length
  | [], acc, n, h => by simp [digitsVal] at h; subst h; simp
  | c :: cs, acc, n, h => by
    unfold digitsVal at h
    split at h
    · rename_i hc
      have := digitsVal_lt cs _ n h
      rw [isDigit_iff] at hc
      simp only [List.length_cons, Nat.pow_succ]
      calc n < (acc * 10 + (c.toNat - 48) + 1) * 10 ^ cs.length := this
        _ ≤ ((acc + 1) * 10) * 10 ^ cs.length := Nat.mul_le_mul_right _ (by omega)
        _ = (acc + 1) * (10 ^ cs.length * 10) := by rw [Nat.mul_assoc, Nat.mul_comm 10]
    · cases h

theorem decimal_length_le : ∀ (k n : Nat), 1 ≤ k → n < 10 ^ k → (decimal n).length ≤ k
  | 0, _, h, _ => by omega
  | k + 1, n, _, hn => by
    rw [decimal_rec]
    by_cases h10 : n < 10
    · simp [h10]
    · simp only [h10, ↓reduceIte, List.length_append, List.length_singleton]
      have hk : 1 ≤ k := by
        rcases k with _ | k
        · simp at hn; omega
        · omega
      have : n / 10 < 10 ^ k := by
        rw [Nat.pow_succ] at hn
        omega
      have := decimal_length_le k (n / 10) hk this
      omega

/-- the characters a `u32` literal can consist of -/
theorem parseU32_chars (s : BList) (n : Nat) (h : parseU32 s = some n) :
    ∀ c ∈ s, isDigit c = true ∨ c = 0x2B := by
  have key : ∀ (ds : BList) (acc m : Nat), digitsVal ds acc = some m → ∀ c ∈ ds, isDigit c = true := by
    intro ds
    induction ds with
    | nil => intro _ _ _ c hc; cases hc
    | cons d ds ih =>
      intro acc m hm c hc
      unfold digitsVal at hm
      split at hm
      · rename_i hd
        rcases List.mem_cons.mp hc with e | e
        · rw [e]; exact hd
        · exact ih _ _ hm c e
      · cases hm
  unfold parseU32 at h
  cases s with
  | nil => simp at h
  | cons c cs =>
    simp only at h
    by_cases hc : c = 0x2B
    · simp only [hc, ↓reduceIte] at h
      cases cs with
      | nil => simp at h
      | cons d ds =>
        simp only at h
        cases hv : digitsVal (d :: ds) 0 with
        | none => simp [hv] at h
        | some m =>
          intro x hx
          rcases List.mem_cons.mp hx with e | e
          · right; rw [e, hc]
          · left; exact key _ _ _ hv x e
    · simp only [hc, ↓reduceIte] at h
      cases hv : digitsVal (c :: cs) 0 with
      | none => simp [hv] at h
      | some m =>
        intro x hx
        left
        exact key _ _ _ hv x hx

/-- the value of a literal is below 10^(its length) -/
theorem parseU32_lt (s : BList) (n : Nat) (h : parseU32 s = some n) : n < 10 ^ s.length ∧ 1 ≤ s.length := by
  unfold parseU32 at h
  cases s with
  | nil => simp at h
  | cons c cs =>
    simp only at h
    by_cases hc : c = 0x2B
    · simp only [hc, ↓reduceIte] at h
      cases cs with
      | nil => simp at h
      | cons d ds =>
        simp only at h
        cases hv : digitsVal (d :: ds) 0 with
        | none => simp [hv] at h
        | some m =>
          simp only [hv] at h
          split at h
          · simp at h
            subst h
            have := digitsVal_lt _ _ _ hv
            simp only [Nat.zero_add, Nat.one_mul] at this
            constructor
            · calc m < 10 ^ (d :: ds).length := this
                _ ≤ 10 ^ (c :: d :: ds).length := Nat.pow_le_pow_right (by omega) (by simp)
            · simp
          · cases h
    · simp only [hc, ↓reduceIte] at h
      cases hv : digitsVal (c :: cs) 0 with
      | none => simp [hv] at h
      | some m =>
        simp only [hv] at h
        split at h
        · simp at h
          subst h
          have := digitsVal_lt _ _ _ hv
          simp only [Nat.zero_add, Nat.one_mul] at this
          exact ⟨this, by simp⟩
        · cases h

/-! ### the suffix parsers -/

theorem literal_no_special (num : BList) (n : Nat) (h : parseU32 num = some n) :
    (0x20 : UInt8) ∉ num ∧ RPAREN ∉ num ∧ HYPHEN ∉ num ∧ DOT ∉ num := by
  have hc := parseU32_chars num n h
  refine ⟨?_, ?_, ?_, ?_⟩ <;>
  · intro hm
    rcases hc _ hm with e | e
    · simp [isDigit, RPAREN, HYPHEN, DOT] at e
    · simp [RPAREN, HYPHEN, DOT] at e

/-- An existing ` (N)` at the end of the first part is found and counted up. -/
theorem bumpParen_suffix (base num : BList) (n : Nat) (h : parseU32 num = some n) :
    bumpParen (base ++ SP_LPAREN ++ num ++ [RPAREN]) =
      if n + 1 > U32_MAX then .ok (base ++ SP_LPAREN ++ num ++ [RPAREN] ++ PAREN2)
      else .ok (base ++ SP_LPAREN ++ decimal (n + 1) ++ [RPAREN]) := by
  obtain ⟨hsp, hrp, _, _⟩ := literal_no_special num n h
  have hfirst : base ++ SP_LPAREN ++ num ++ [RPAREN] = base ++ SP_LPAREN ++ (num ++ [RPAREN]) := by
    simp [List.append_assoc]
  have hr : rfind SP_LPAREN (base ++ SP_LPAREN ++ (num ++ [RPAREN])) = some base.length := by
    apply rfind_append SP_LPAREN (num ++ [RPAREN]) (by simp [SP_LPAREN])
    simp only [SP_LPAREN, List.cons_append, List.nil_append, List.tail_cons]
    apply rfind_none_of_not_mem
    simp [RPAREN]
    exact hsp
  have hdrop : (base ++ SP_LPAREN ++ (num ++ [RPAREN])).drop base.length = (SP_LPAREN ++ num) ++ RPAREN :: [] := by
    simp [List.append_assoc]
  have hfind : find RPAREN ((SP_LPAREN ++ num) ++ RPAREN :: []) = some (SP_LPAREN ++ num).length := by
    apply find_append
    simp [SP_LPAREN, RPAREN]
    exact hrp
  have hnum : ((base ++ SP_LPAREN ++ (num ++ [RPAREN])).drop (base.length + 2)).take
      ((SP_LPAREN ++ num).length - 2) = num := by
    have : (base ++ SP_LPAREN ++ (num ++ [RPAREN])).drop (base.length + 2) = num ++ [RPAREN] := by
      have e : base.length + 2 = (base ++ SP_LPAREN).length := by simp [SP_LPAREN]
      rw [e, List.drop_left]
    rw [this]
    simp [SP_LPAREN]
  have hbase : (base ++ SP_LPAREN ++ (num ++ [RPAREN])).take base.length = base := by
    simp [List.append_assoc]
  rw [hfirst]
  unfold bumpParen
  rw [hr]
  simp only [hdrop, hfind]
  have hlen : base.length + (SP_LPAREN ++ num).length = (base ++ SP_LPAREN ++ (num ++ [RPAREN])).length - 1 := by
    simp [SP_LPAREN]
  have h2 : ¬ (SP_LPAREN ++ num).length < 2 := by simp [SP_LPAREN]
  simp only [hlen, ↓reduceIte, h2, hnum, h, hbase]

/-- Everything after the last `-` that is a `u32` literal is counted up. -/
theorem bumpHyphen_suffix (base num : BList) (n : Nat) (h : parseU32 num = some n) :
    bumpHyphen (base ++ [HYPHEN] ++ num) =
      if n + 1 > U32_MAX then .ok (base ++ [HYPHEN] ++ num ++ HYPHEN2)
      else .ok (base ++ [HYPHEN] ++ decimal (n + 1)) := by
  obtain ⟨_, _, hhy, _⟩ := literal_no_special num n h
  have hr : rfind [HYPHEN] (base ++ [HYPHEN] ++ num) = some base.length := by
    apply rfind_append [HYPHEN] num (by simp)
    simp only [List.cons_append, List.nil_append, List.tail_cons]
    exact rfind_none_of_not_mem HYPHEN [] num hhy
  have hnum : (base ++ [HYPHEN] ++ num).drop (base.length + 1) = num := by
    have e : base.length + 1 = (base ++ [HYPHEN]).length := by simp
    rw [e, List.drop_left]
  have hbase : (base ++ [HYPHEN] ++ num).take base.length = base := by
    simp [List.append_assoc]
  unfold bumpHyphen
  rw [hr]
  simp only [hnum, h, hbase]

theorem find_paren_ge_two (t : BList) (e : Nat) (h : find RPAREN (SP_LPAREN ++ t) = some e) :
    2 ≤ e ∧ find RPAREN t = some (e - 2) := by
  simp only [SP_LPAREN, List.cons_append, List.nil_append, find, RPAREN] at h
  simp only [show ((0x20 : UInt8) = 0x29) = False by decide, show ((0x28 : UInt8) = 0x29) = False by decide,
    ↓reduceIte, Option.map_map] at h
  cases hf : find 0x29 t with
  | none => simp [hf] at h
  | some k =>
    simp [hf] at h
    subst h
    exact ⟨by omega, by simp [RPAREN, hf]⟩

/-- Whenever `name_change` does not simply append ` (2)`, the first part really ends in
    ` (N)` with `N` a `u32` literal. -/
theorem bumpParen_cases (first : BList) :
    bumpParen first = .ok (first ++ PAREN2) ∨
    ∃ base num n, first = base ++ SP_LPAREN ++ num ++ [RPAREN] ∧ parseU32 num = some n := by
  unfold bumpParen
  cases hr : rfind SP_LPAREN first with
  | none => exact Or.inl rfl
  | some parenPos =>
    obtain ⟨t, ht, hlen⟩ := rfind_some SP_LPAREN first parenPos hr
    have hdrop : first.drop parenPos = SP_LPAREN ++ t := by
      conv => lhs; rw [ht]
      rw [List.append_assoc]
      conv => lhs; arg 1; rw [← hlen]
      rw [List.drop_left]
    simp only [hdrop]
    cases hf : find RPAREN (SP_LPAREN ++ t) with
    | none => exact Or.inl rfl
    | some endParen =>
      obtain ⟨h2, hft⟩ := find_paren_ge_two t endParen hf
      simp only
      split
      · rename_i hend
        have hnot : ¬ endParen < 2 := by omega
        simp only [hnot, ↓reduceIte]
        cases hp : parseU32 ((first.drop (parenPos + 2)).take (endParen - 2)) with
        | none => exact Or.inl rfl
        | some number =>
          right
          refine ⟨first.take parenPos, (first.drop (parenPos + 2)).take (endParen - 2), number, ?_, hp⟩
          obtain ⟨f1, f2, _⟩ := find_some RPAREN t (endParen - 2) hft
          have hfl : first.length = parenPos + 2 + t.length := by
            have := congrArg List.length ht
            simp [SP_LPAREN, hlen] at this
            omega
          have htl : t.length = endParen - 2 + 1 := by omega
          have hd2 : first.drop (parenPos + 2) = t := by
            conv => lhs; rw [ht]
            have e : parenPos + 2 = (first.take parenPos ++ SP_LPAREN).length := by simp [SP_LPAREN, hlen]
            rw [e, List.drop_left]
          have hnil : t.drop (endParen - 2 + 1) = [] := by
            apply List.drop_eq_nil_of_le
            omega
          rw [hd2]
          rw [hnil] at f1
          conv => lhs; rw [ht]
          conv => lhs; arg 2; rw [f1]
          simp [List.append_assoc]
      · exact Or.inl rfl

theorem bumpHyphen_cases (first : BList) :
    bumpHyphen first = .ok (first ++ HYPHEN2) ∨
    ∃ base num n, first = base ++ [HYPHEN] ++ num ∧ parseU32 num = some n := by
  unfold bumpHyphen
  cases hr : rfind [HYPHEN] first with
  | none => exact Or.inl rfl
  | some pos =>
    obtain ⟨t, ht, hlen⟩ := rfind_some [HYPHEN] first pos hr
    simp only
    cases hp : parseU32 (first.drop (pos + 1)) with
    | none => exact Or.inl rfl
    | some number =>
      right
      refine ⟨first.take pos, first.drop (pos + 1), number, ?_, hp⟩
      have hd : first.drop (pos + 1) = t := by
        conv => lhs; rw [ht]
        have e : pos + 1 = (first.take pos ++ [HYPHEN]).length := by simp [hlen]
        rw [e, List.drop_left]
      rw [hd]
      exact ht

/-! ### the renaming functions in terms of the text before the first dot -/

theorem nameChange_eq (s : BList) :
    nameChange s = match bumpParen (firstPart s) with
      | .ok f => .ok (f ++ afterFirst s)
      | .err => .err
      | .panic => .panic := by
  obtain ⟨rest, h1, h2⟩ := splitOn_spec s
  unfold nameChange
  rw [h1]
  simp only
  cases bumpParen (firstPart s) <;> simp [h2]

theorem hostnameChange_eq (s : BList) :
    hostnameChange s = match bumpHyphen (firstPart s) with
      | .ok f => .ok (f ++ afterFirst s)
      | .err => .err
      | .panic => .panic := by
  obtain ⟨rest, h1, h2⟩ := splitOn_spec s
  unfold hostnameChange
  rw [h1]
  simp only
  cases bumpHyphen (firstPart s) <;> simp [h2]

theorem mem_of_mem_append_left {a b : BList} {x : UInt8} (h : x ∉ a ++ b) : x ∉ a ∧ x ∉ b := by
  simp only [List.mem_append, not_or] at h
  exact h

theorem decimal_no_dot (n : Nat) : DOT ∉ decimal n := by
  intro h
  have := decimal_digits n _ h
  simp [isDigit, DOT] at this

/-- the result of `bumpParen` on dot-free text is dot-free and at most 4 bytes longer -/
theorem bumpParen_bound (first f : BList) (hd : DOT ∉ first) (h : bumpParen first = .ok f) :
    DOT ∉ f ∧ f.length ≤ first.length + 4 := by
  rcases bumpParen_cases first with hc | ⟨base, num, n, hfirst, hp⟩
  · rw [hc] at h
    cases h
    constructor
    · simp only [List.mem_append, not_or]
      exact ⟨hd, by simp [PAREN2, DOT]⟩
    · simp [PAREN2]
  · rw [hfirst, bumpParen_suffix base num n hp] at h
    split at h
    · cases h
      rw [← hfirst]
      constructor
      · simp only [List.mem_append, not_or]
        exact ⟨hd, by simp [PAREN2, DOT]⟩
      · simp [PAREN2]
    · cases h
      rw [hfirst] at hd
      simp only [List.mem_append, not_or] at hd
      obtain ⟨hlt, hlen⟩ := parseU32_lt num n hp
      have hdec : (decimal (n + 1)).length ≤ num.length + 1 :=
        decimal_length_le (num.length + 1) (n + 1) (by omega) (by rw [Nat.pow_succ]; omega)
      constructor
      · simp only [List.mem_append, not_or]
        exact ⟨⟨⟨hd.1.1.1, hd.1.1.2⟩, decimal_no_dot _⟩, hd.2⟩
      · rw [hfirst]
        simp only [List.length_append]
        omega

theorem bumpHyphen_bound (first f : BList) (hd : DOT ∉ first) (h : bumpHyphen first = .ok f) :
    DOT ∉ f ∧ f.length ≤ first.length + 2 := by
  rcases bumpHyphen_cases first with hc | ⟨base, num, n, hfirst, hp⟩
  · rw [hc] at h
    cases h
    constructor
    · simp only [List.mem_append, not_or]
      exact ⟨hd, by simp [HYPHEN2, DOT]⟩
    · simp [HYPHEN2]
  · rw [hfirst, bumpHyphen_suffix base num n hp] at h
    split at h
    · cases h
      rw [← hfirst]
      constructor
      · simp only [List.mem_append, not_or]
        exact ⟨hd, by simp [HYPHEN2, DOT]⟩
      · simp [HYPHEN2]
    · cases h
      rw [hfirst] at hd
      simp only [List.mem_append, not_or] at hd
      obtain ⟨hlt, hlen⟩ := parseU32_lt num n hp
      have hdec : (decimal (n + 1)).length ≤ num.length + 1 :=
        decimal_length_le (num.length + 1) (n + 1) (by omega) (by rw [Nat.pow_succ]; omega)
      constructor
      · simp only [List.mem_append, not_or]
        exact ⟨⟨hd.1.1, hd.1.2⟩, decimal_no_dot _⟩
      · rw [hfirst]
        simp only [List.length_append]
        omega

/-! ### wire labels of a name whose first part is plain -/

theorem parseEscapedGo_plain : ∀ (f : BList), DOT ∉ f → BACKSLASH ∉ f → ∀ (rest cur : BList),
    parseEscapedGo (f ++ rest) cur false = parseEscapedGo rest (cur ++ f) false
  | [], _, _, rest, cur => by simp
  | c :: cs, hd, hb, rest, cur => by
    have hc1 : c ≠ DOT := fun e => hd (by simp [e])
    have hc2 : c ≠ BACKSLASH := fun e => hb (by simp [e])
    have hd' : DOT ∉ cs := fun e => hd (by simp [e])
    have hb' : BACKSLASH ∉ cs := fun e => hb (by simp [e])
    simp only [List.cons_append, parseEscapedGo, hc1, hc2, ↓reduceIte]
    rw [parseEscapedGo_plain cs hd' hb' rest (cur ++ [c])]
    simp

/-- the labels after the first one, as a function of the text from the first dot on -/
def tailLabels : BList → List BList
  | [] => []
  | _ :: r => parseEscapedGo (if r.getLast? = some DOT then r.dropLast else r) [] false

theorem getLast?_not_mem (f : BList) (c : UInt8) (h : c ∉ f) : f.getLast? ≠ some c := by
  intro e
  exact h (List.mem_of_getLast? e)

theorem wireLabels_plain (f rest : BList) (hd : DOT ∉ f) (hb : BACKSLASH ∉ f) (hne : f ≠ [])
    (hr : rest = [] ∨ rest.head? = some DOT) : wireLabels (f ++ rest) = f :: tailLabels rest := by
  unfold wireLabels
  rcases hr with hr | hr
  · subst hr
    have : f.getLast? ≠ some DOT := getLast?_not_mem f DOT hd
    simp only [List.append_nil, this, ↓reduceIte, tailLabels]
    have := parseEscapedGo_plain f hd hb [] []
    simp only [List.append_nil, List.nil_append] at this
    rw [this]
    cases f with
    | nil => exact absurd rfl hne
    | cons a as => simp [parseEscapedGo]
  · cases rest with
    | nil => simp at hr
    | cons x r =>
      simp at hr
      subst hr
      have hcur : ∀ t, parseEscapedGo (f ++ DOT :: t) [] false = f :: parseEscapedGo t [] false := by
        intro t
        rw [parseEscapedGo_plain f hd hb (DOT :: t) []]
        cases f with
        | nil => exact absurd rfl hne
        | cons a as => simp [parseEscapedGo, DOT, BACKSLASH]
      cases r with
      | nil =>
        have e1 : (f ++ [DOT]).getLast? = some DOT := by simp
        simp only [e1, ↓reduceIte, List.dropLast_concat, tailLabels]
        have := parseEscapedGo_plain f hd hb [] []
        simp only [List.append_nil, List.nil_append] at this
        rw [this]
        cases f with
        | nil => exact absurd rfl hne
        | cons a as => simp [parseEscapedGo]
      | cons y ys =>
        have e1 : (f ++ DOT :: y :: ys).getLast? = (y :: ys).getLast? := by
          rw [List.getLast?_append]
          simp only [List.getLast?_cons_cons]
          cases hl : (y :: ys).getLast? with
          | none => simp at hl
          | some z => simp
        simp only [e1, tailLabels]
        by_cases hl : (y :: ys).getLast? = some DOT
        · simp only [hl, ↓reduceIte]
          have e2 : (f ++ DOT :: y :: ys).dropLast = f ++ DOT :: (y :: ys).dropLast := by
            rw [List.dropLast_append_of_ne_nil (by simp)]
            simp [List.dropLast]
          rw [e2, hcur]
        · simp only [hl, ↓reduceIte]
          rw [hcur]

/-- characters of the result of `bumpParen` / `bumpHyphen`: old ones, or space, parentheses,
    hyphen, digits -/
theorem bumpParen_chars (first f : BList) (h : bumpParen first = .ok f) :
    f ≠ [] ∧ ∀ c ∈ f, c ∈ first ∨ c = 0x20 ∨ c = 0x28 ∨ c = 0x29 ∨ isDigit c = true := by
  rcases bumpParen_cases first with hc | ⟨base, num, n, hfirst, hp⟩
  · rw [hc] at h
    cases h
    refine ⟨by simp [PAREN2], ?_⟩
    intro c hc
    simp only [List.mem_append, PAREN2, List.mem_cons, List.not_mem_nil, or_false] at hc
    rcases hc with hc | hc | hc | hc | hc
    · exact Or.inl hc
    · exact Or.inr (Or.inl hc)
    · exact Or.inr (Or.inr (Or.inl hc))
    · right; right; right; right; rw [hc]; decide
    · exact Or.inr (Or.inr (Or.inr (Or.inl hc)))
  · rw [hfirst, bumpParen_suffix base num n hp] at h
    split at h
    · cases h
      rw [← hfirst]
      refine ⟨by simp [PAREN2], ?_⟩
      intro c hc
      simp only [List.mem_append, PAREN2, List.mem_cons, List.not_mem_nil, or_false] at hc
      rcases hc with hc | hc | hc | hc | hc
      · exact Or.inl hc
      · exact Or.inr (Or.inl hc)
      · exact Or.inr (Or.inr (Or.inl hc))
      · right; right; right; right; rw [hc]; decide
      · exact Or.inr (Or.inr (Or.inr (Or.inl hc)))
    · cases h
      refine ⟨by simp [RPAREN], ?_⟩
      intro c hc
      simp only [List.mem_append, SP_LPAREN, RPAREN, List.mem_cons, List.not_mem_nil, or_false] at hc
      rcases hc with ((hc | hc | hc) | hc) | hc
      · left; rw [hfirst]; simp [hc]
      · exact Or.inr (Or.inl hc)
      · exact Or.inr (Or.inr (Or.inl hc))
      · exact Or.inr (Or.inr (Or.inr (Or.inr (decimal_digits _ c hc))))
      · exact Or.inr (Or.inr (Or.inr (Or.inl hc)))

theorem bumpHyphen_chars (first f : BList) (h : bumpHyphen first = .ok f) :
    f ≠ [] ∧ ∀ c ∈ f, c ∈ first ∨ c = HYPHEN ∨ isDigit c = true := by
  rcases bumpHyphen_cases first with hc | ⟨base, num, n, hfirst, hp⟩
  · rw [hc] at h
    cases h
    refine ⟨by simp [HYPHEN2], ?_⟩
    intro c hc
    simp only [List.mem_append, HYPHEN2, List.mem_cons, List.not_mem_nil, or_false] at hc
    rcases hc with hc | hc | hc
    · exact Or.inl hc
    · exact Or.inr (Or.inl (by rw [hc]; rfl))
    · right; right; rw [hc]; decide
  · rw [hfirst, bumpHyphen_suffix base num n hp] at h
    split at h
    · cases h
      rw [← hfirst]
      refine ⟨by simp [HYPHEN2], ?_⟩
      intro c hc
      simp only [List.mem_append, HYPHEN2, List.mem_cons, List.not_mem_nil, or_false] at hc
      rcases hc with hc | hc | hc
      · exact Or.inl hc
      · exact Or.inr (Or.inl (by rw [hc]; rfl))
      · right; right; rw [hc]; decide
    · cases h
      refine ⟨by simp, ?_⟩
      intro c hc
      simp only [List.mem_append, List.mem_cons, List.not_mem_nil, or_false] at hc
      rcases hc with (hc | hc) | hc
      · left; rw [hfirst]; simp [hc]
      · exact Or.inr (Or.inl hc)
      · exact Or.inr (Or.inr (decimal_digits _ c hc))

end Mdns.Names
