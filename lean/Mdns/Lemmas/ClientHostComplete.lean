import Mdns.Lemmas.ClientHost
/-
  Lemmas for C17, completeness of `AddressesFound`: an address record that `add_or_update`
  reports as new while its name is being resolved is listed in an `AddressesFound` of the
  same `handle_response`.
-/
namespace Mdns.Client
open Mdns Mdns.Rec Mdns.Cache

/-- an entry with this owner name and RDATA that has not expired at `now` is cached under `key`
    in the address table -/
def Present (c : Cache) (now : Nat) (key name : BList) (rd : RData) : Prop :=
  ∃ e ∈ (c.addr.get key).getD [], e.record.name = name ∧ e.record.rdata = rd ∧ now < e.record.expires

/-- what the lemmas below carry from an entry to its successor: owner name, RDATA, and being
    unexpired at `now` -/
def Keeps (now : Nat) (e e' : Entry) : Prop :=
  e'.record.name = e.record.name ∧ e'.record.rdata = e.record.rdata ∧
    (now < e.record.expires → now < e'.record.expires)

theorem Keeps.refl (now : Nat) (e : Entry) : Keeps now e e := ⟨rfl, rfl, id⟩

theorem Keeps.trans {now : Nat} {a b c : Entry} (h1 : Keeps now a b) (h2 : Keeps now b c) : Keeps now a c :=
  ⟨h2.1.trans h1.1, h2.2.1.trans h1.2.1, fun h => h2.2.2 (h1.2.2 h)⟩

theorem flushOne_keeps (inc : Record) (now : Nat) (e : Entry) : Keeps now e (flushOne inc now e) := by
  unfold flushOne
  split
  · exact ⟨rfl, rfl, fun _ => by simp [Record.setExpire]⟩
  · exact Keeps.refl now e

theorem mem_flushList_of_mem (inc : Record) (now : Nat) (es : List Entry) (e : Entry) (he : e ∈ es) :
    ∃ e' ∈ flushList inc now es, Keeps now e e' := by
  unfold flushList
  split
  · exact ⟨flushOne inc now e, List.mem_map_of_mem he, flushOne_keeps inc now e⟩
  · exact ⟨e, he, Keeps.refl now e⟩

/-- the incoming record is not expired at `now`, neither as it is nor after a `reset_ttl` from it
    (true of every record decoded at `now` with TTL ≥ 1) -/
def IncLive (now : Nat) (inc : Record) : Prop := now < inc.expires ∧ now < expTime inc.created inc.ttl 100

theorem incLive_ofWire (ifName : BList) (ifIdx now : Nat) (r : Wire.Rec) (h : 1 ≤ r.ttl) :
    IncLive now (ofWire ifName ifIdx now r) := by
  simp only [IncLive, ofWire, Record.new, expTime]
  omega

theorem mem_resetFirst_of_mem (inc : Record) (now : Nat) (hinc : IncLive now inc) : ∀ (es : List Entry) (e : Entry), e ∈ es →
    ∃ e' ∈ resetFirst inc es, Keeps now e e'
  | [], _, h => by cases h
  | x :: rest, e, h => by
    simp only [resetFirst]
    split
    · rcases List.mem_cons.mp h with rfl | h
      · exact ⟨_, List.mem_cons_self, rfl, rfl, fun _ => hinc.2⟩
      · exact ⟨e, List.mem_cons_of_mem _ h, Keeps.refl now e⟩
    · rcases List.mem_cons.mp h with rfl | h
      · exact ⟨e, List.mem_cons_self, Keeps.refl now e⟩
      · obtain ⟨e', he', hh⟩ := mem_resetFirst_of_mem inc now hinc rest e h
        exact ⟨e', List.mem_cons_of_mem _ he', hh⟩

theorem mem_upsert_of_mem (srcName : BList) (srcIdx : Nat) (inc : Record) (now : Nat) (hinc : IncLive now inc)
    (es : List Entry) (e : Entry) (he : e ∈ es) :
    ∃ e' ∈ upsert srcName srcIdx inc es, Keeps now e e' := by
  unfold upsert
  split
  · exact mem_resetFirst_of_mem inc now hinc es e he
  · exact ⟨e, List.mem_cons_of_mem _ he, Keeps.refl now e⟩

theorem noteSubtype_addr (c : Cache) (inc : Record) (forUs : Bool) : (noteSubtype c inc forUs).addr = c.addr :=
  table_noteSubtype c inc forUs .addr

/-- `add_or_update` at `now` of a record that is not expired itself never removes an unexpired
    (owner name, RDATA) from the address table: a cache-flush moves the expiry to `now + 1 s`, a
    refresh to the expiry of the incoming record -/
theorem present_addOrUpdate (c : Cache) (srcName : BList) (srcIdx : Nat) (inc : Record) (now : Nat) (forUs : Bool)
    (hinc : IncLive now inc) (key name : BList) (rd : RData) (h : Present c now key name rd) :
    Present (addOrUpdate c srcName srcIdx inc now forUs).cache now key name rd := by
  have h1 : Present (noteSubtype c inc forUs) now key name rd := by
    unfold Present
    rw [noteSubtype_addr]
    exact h
  unfold addOrUpdate
  split
  · exact h1
  · rename_i sl hs
    simp only []
    cases sl with
    | addr =>
      by_cases hk : key = keyOf .addr inc.name
      · subst hk
        obtain ⟨e, he, hn, hr, hl⟩ := h1
        split
        · refine ⟨e, ?_, hn, hr, hl⟩
          simp only [Cache.setTable, Cache.table, Table.get_set_self, Option.getD_some]
          exact he
        · obtain ⟨e1, he1, k1⟩ := mem_flushList_of_mem inc now _ e he
          obtain ⟨e2, he2, k2⟩ := mem_upsert_of_mem srcName srcIdx inc now hinc _ e1 he1
          have k := k1.trans k2
          refine ⟨e2, ?_, k.1.trans hn, k.2.1.trans hr, k.2.2 hl⟩
          simp only [Cache.setTable, Cache.table, Table.get_set_self, Option.getD_some]
          exact he2
      · obtain ⟨e, he, hn, hr, hl⟩ := h1
        split
        · refine ⟨e, ?_, hn, hr, hl⟩
          simp only [Cache.setTable, Cache.table, Table.get_set_ne _ _ _ _ hk]
          exact he
        · refine ⟨e, ?_, hn, hr, hl⟩
          simp only [Cache.setTable, Cache.table, Table.get_set_ne _ _ _ _ hk]
          exact he
    | ptr => split <;> exact h1
    | srv => split <;> exact h1
    | txt => split <;> exact h1
    | nsec => split <;> exact h1

/-- the entry `add_or_update` returns is cached under the name of the incoming record and has
    its owner name, type and RDATA -/
theorem addOrUpdate_result_entry (c : Cache) (srcName : BList) (srcIdx : Nat) (inc : Record) (now : Nat) (forUs : Bool)
    (sl : Slot) (hs : slotOf inc.ty = some sl) (e : Entry) (b : Bool)
    (h : (addOrUpdate c srcName srcIdx inc now forUs).result = some (e, b)) :
    e ∈ (((addOrUpdate c srcName srcIdx inc now forUs).cache.table sl).get (keyOf sl inc.name)).getD [] ∧
    e.record.name = inc.name ∧ e.record.ty = inc.ty ∧ e.record.rdata = inc.rdata ∧
    (IncLive now inc → now < e.record.expires) := by
  unfold addOrUpdate at h ⊢
  simp only [hs] at h ⊢
  split at h
  · cases h
  · rename_i hdec
    simp only [hdec, Bool.false_eq_true, if_false, Option.map_eq_some_iff, Prod.mk.injEq] at h ⊢
    obtain ⟨e', hget, rfl, _⟩ := h
    have hmem : e' ∈ upsert srcName srcIdx inc
        (flushList inc now ((((noteSubtype c inc forUs).table sl).get (keyOf sl inc.name)).getD [])) :=
      List.mem_of_getElem? hget
    refine ⟨?_, ?_⟩
    · rw [table_setTable]
      simp only [if_true, Table.get_set_self, Option.getD_some]
      exact hmem
    · unfold upsert upsertIdx at hget
      split at hget
      · rename_i hm
        obtain ⟨pre, e0, post, h1, _, h3, h4, h5⟩ := resetFirst_spec inc _ hm
        rw [h4, h5] at hget
        simp only [List.getElem?_append_right (Nat.le_refl _), Nat.sub_self, List.getElem?_cons_zero,
          Option.some.injEq] at hget
        subst hget
        obtain ⟨m1, m2, _, _, m5⟩ := (matchesRec_iff _ _).mp h3
        exact ⟨m1, m2, m5, fun hl => hl.2⟩
      · simp only [List.getElem?_cons_zero, Option.some.injEq] at hget
        subst hget
        exact ⟨rfl, rfl, rfl, fun hl => hl.1⟩

theorem ingestAll_append (q : List (BList × Nat)) (ifName : BList) (ifIdx now : Nat) (forUs : Bool) :
    ∀ (a b : List Wire.Rec) (acc : Ingest),
      ingestAll q ifName ifIdx now forUs acc (a ++ b) =
        ingestAll q ifName ifIdx now forUs (ingestAll q ifName ifIdx now forUs acc a) b
  | [], _, _ => rfl
  | x :: a, b, acc => by
    simp only [List.cons_append, ingestAll]
    exact ingestAll_append q ifName ifIdx now forUs a b _

theorem ingestOne_changes_mono (q : List (BList × Nat)) (ifName : BList) (ifIdx now : Nat) (forUs : Bool) (acc : Ingest)
    (r : Wire.Rec) (x : Nat × BList) (h : x ∈ acc.changes) : x ∈ (ingestOne q ifName ifIdx now forUs acc r).changes := by
  unfold ingestOne
  simp only []
  repeat' split
  all_goals first
    | exact h
    | exact List.mem_append_left _ h

/-- what is recorded and cached unexpired survives the rest of the datagram (records with
    TTL ≥ 1, as decoded from a response) -/
theorem ingestAll_keeps (q : List (BList × Nat)) (ifName : BList) (ifIdx now : Nat) (forUs : Bool) (x : Nat × BList)
    (key name : BList) (rd : RData) : ∀ (rs : List Wire.Rec) (acc : Ingest), (∀ r ∈ rs, 1 ≤ r.ttl) →
    x ∈ acc.changes → Present acc.cache now key name rd →
    x ∈ (ingestAll q ifName ifIdx now forUs acc rs).changes ∧
      Present (ingestAll q ifName ifIdx now forUs acc rs).cache now key name rd
  | [], _, _, h1, h2 => ⟨h1, h2⟩
  | r :: rest, acc, httl, h1, h2 => by
    simp only [ingestAll]
    apply ingestAll_keeps q ifName ifIdx now forUs x key name rd rest _
      (fun r' hr' => httl r' (List.mem_cons_of_mem _ hr'))
    · exact ingestOne_changes_mono q ifName ifIdx now forUs acc r x h1
    · rw [ingestOne_cache]
      exact present_addOrUpdate _ _ _ _ _ _ (incLive_ofWire ifName ifIdx now r (httl r List.mem_cons_self))
        key name rd h2

theorem slotOf_addr {ty : Nat} (h : ty = 1 ∨ ty = 28) : slotOf ty = some .addr := by
  rcases h with rfl | rfl <;> rfl

/-- an address record that `add_or_update` reports as new is recorded as a change and cached -/
theorem ingestOne_new_addr (q : List (BList × Nat)) (ifName : BList) (ifIdx now : Nat) (forUs : Bool) (acc : Ingest)
    (r : Wire.Rec) (hty : r.ty = 1 ∨ r.ty = 28) (httl : 1 ≤ r.ttl) (e : Entry)
    (hnew : (addOrUpdate acc.cache ifName ifIdx (ofWire ifName ifIdx now r) now forUs).result = some (e, true)) :
    (r.ty, r.name) ∈ (ingestOne q ifName ifIdx now forUs acc r).changes ∧
    Present (ingestOne q ifName ifIdx now forUs acc r).cache now (lower r.name) r.name (ofWire ifName ifIdx now r).rdata := by
  have hs : slotOf (ofWire ifName ifIdx now r).ty = some .addr := slotOf_addr hty
  obtain ⟨hmem, hn, ht, hr, hlive⟩ := addOrUpdate_result_entry _ _ _ _ _ _ .addr hs e true hnew
  refine ⟨?_, ?_⟩
  · unfold ingestOne
    simp only [hnew]
    have h12 : (e.record.ty == 12) = false := by
      rw [ht]
      show (r.ty == 12) = false
      rcases hty with h | h <;> simp [h]
    simp only [h12, Bool.false_and, Bool.false_eq_true, if_false]
    rw [ht, hn]
    exact List.mem_append_right _ List.mem_cons_self
  · rw [ingestOne_cache]
    exact ⟨e, hmem, hn, hr, hlive (incLive_ofWire ifName ifIdx now r httl)⟩

/-- the group of an owner name that is present unexpired lists its address -/
theorem group_of_present (c : Cache) (now : Nat) (name : BList) (ip ifName : BList) (ifIdx : Nat)
    (h : Present c now (lower name) name (.addr ip ifName ifIdx)) :
    ∃ addrs, (name, addrs) ∈ addressesForHost c now name ∧ (ip, ifName, ifIdx) ∈ addrs := by
  obtain ⟨e, he, hn, hr, hl⟩ := h
  have hitem : addrItemOf e = some (ip, ifName, ifIdx) := by simp [addrItemOf, hr]
  have hlive : (!e.record.isExpired now && (addrItemOf e).isSome) = true := by
    simp [Record.isExpired, hl, hitem]
  refine ⟨(((((c.addr.get (lower name)).getD []).filter fun e =>
      !e.record.isExpired now && (addrItemOf e).isSome).filter
      fun e => e.record.name == name).filterMap addrItemOf).eraseDups, ?_, ?_⟩
  · simp only [addressesForHost, List.mem_map, List.mem_eraseDups, List.mem_filter]
    exact ⟨name, ⟨e, ⟨he, hlive⟩, hn⟩, rfl⟩
  · simp only [List.mem_eraseDups, List.mem_filterMap, List.mem_filter, beq_iff_eq]
    exact ⟨e, ⟨⟨he, hlive⟩, hn⟩, hitem⟩

/-- **`AddressesFound` is complete (one datagram).**  `handle_response` reads the records
    `pre ++ r :: post`; `r` is an A / AAAA record with address `ip` whose name is being
    resolved on channel `ch`; when its turn comes `add_or_update` reports it as new (a record
    not cached yet, or a withdrawn one announced again - `Props.C04.revived_is_new`).  Then an
    `AddressesFound` for that owner name listing `ip` with the receiving interface goes to
    `ch` in this very `handle_response`.  (`httl`: the record and those read after it have
    TTL ≥ 1, as every record decoded from a response has - `Wire.readRR_spec`; the list is made
    of the entries that are unexpired at `now`.) -/
theorem hfound_complete_response (s : State) (now : Nat) (intf : Intf) (m : Wire.Msg) (pre : List Wire.Rec)
    (r : Wire.Rec) (post : List Wire.Rec) (ch : Nat) (ip : BList) (e : Entry)
    (hrecs : m.answers ++ m.authorities ++ m.additionals = pre ++ r :: post)
    (httl : ∀ x ∈ r :: post, 1 ≤ x.ttl)
    (hty : r.ty = 1 ∨ r.ty = 28) (hrd : r.rdata = .a ip ∨ r.rdata = .aaaa ip)
    (hch : resolverChan s r.name = some ch)
    (hnew : (addOrUpdate
        (ingestAll s.queriers intf.name intf.idx now (isForUs s m.answers)
          { cache := s.cache, timers := [], changes := [], outs := [] } pre).cache
        intf.name intf.idx (ofWire intf.name intf.idx now r) now (isForUs s m.answers)).result = some (e, true)) :
    ∃ addrs, Out.event ch (.hfound r.name addrs) ∈ (handleResponse s now intf m).2 ∧
      (ip, intf.name, intf.idx) ∈ addrs := by
  have h1 := ingestOne_new_addr s.queriers intf.name intf.idx now (isForUs s m.answers) _ r hty
    (httl r List.mem_cons_self) e hnew
  have hrdata : (ofWire intf.name intf.idx now r).rdata = .addr ip intf.name intf.idx := by
    rcases hrd with h | h <;> simp [ofWire, Record.new, h]
  rw [hrdata] at h1
  have h2 := ingestAll_keeps s.queriers intf.name intf.idx now (isForUs s m.answers) (r.ty, r.name) (lower r.name)
    r.name (.addr ip intf.name intf.idx) post _ (fun x hx => httl x (List.mem_cons_of_mem _ hx)) h1.1 h1.2
  have hfinal : ingestAll s.queriers intf.name intf.idx now (isForUs s m.answers)
      { cache := s.cache, timers := [], changes := [], outs := [] } (m.answers ++ m.authorities ++ m.additionals) =
      ingestAll s.queriers intf.name intf.idx now (isForUs s m.answers)
        (ingestOne s.queriers intf.name intf.idx now (isForUs s m.answers)
          (ingestAll s.queriers intf.name intf.idx now (isForUs s m.answers)
            { cache := s.cache, timers := [], changes := [], outs := [] } pre) r) post := by
    rw [hrecs, ingestAll_append]
    rfl
  obtain ⟨addrs, hg, hip⟩ := group_of_present _ now r.name ip intf.name intf.idx h2.2
  refine ⟨addrs, ?_, hip⟩
  unfold handleResponse
  simp only [List.mem_append]
  left; right
  simp only [hostFoundOuts, List.mem_flatMap, List.mem_filter]
  rw [hfinal]
  refine ⟨(r.ty, r.name), ⟨h2.1, by rcases hty with h | h <;> simp [h]⟩, ?_⟩
  have hch' : resolverChan (addTimers { s with cache := (ingestAll s.queriers intf.name intf.idx now (isForUs s m.answers)
        (ingestOne s.queriers intf.name intf.idx now (isForUs s m.answers)
          (ingestAll s.queriers intf.name intf.idx now (isForUs s m.answers)
            { cache := s.cache, timers := [], changes := [], outs := [] } pre) r) post).cache }
      (ingestAll s.queriers intf.name intf.idx now (isForUs s m.answers)
        (ingestOne s.queriers intf.name intf.idx now (isForUs s m.answers)
          (ingestAll s.queriers intf.name intf.idx now (isForUs s m.answers)
            { cache := s.cache, timers := [], changes := [], outs := [] } pre) r) post).timers) r.name = some ch := hch
  simp only [hch', List.mem_map]
  exact ⟨(r.name, addrs), hg, rfl⟩

/-- the same for a datagram of an iteration: datagram `p` is read after the datagrams `pre`, on
    an interface the daemon has, in an enabled family, and is a response -/
theorem hfound_complete_iter (s : State) (now : Nat) (pkts pre : List Packet) (p : Packet) (post : List Packet)
    (cmds : List Command) (intf : Intf) (o : Out)
    (hp : pkts = pre ++ p :: post)
    (hread : handleRead (ingress s now pre).1 now p = handleResponse (ingress s now pre).1 now intf p.msg)
    (ho : o ∈ (handleResponse (ingress s now pre).1 now intf p.msg).2) :
    o ∈ (iter s now pkts cmds).2 := by
  rw [iter_outs]
  simp only [List.mem_append]
  repeat left
  rw [hp, ingress_append]
  simp only [List.mem_append, ingress]
  right; left
  rw [hread]
  exact ho

/-! ### when `add_or_update` answers at all -/

/-- the `is_new` flag `add_or_update` returns, as a function of the entries `es` cached under
    the name of the incoming record (the same function as `Props.C04.newFlag`) -/
def isNewFlag (inc : Record) (now : Nat) (es : List Entry) : Bool :=
  !hasMatch inc (flushList inc now es) ||
    (((flushList inc now es)[upsertIdx inc (flushList inc now es)]?).map fun old =>
      decide (old.record.ttl ≤ 1 ∧ inc.ttl > 1)).getD false

/-- a record of a cached type in a message that is "for us" always gets an answer from
    `add_or_update`, with the flag `isNewFlag` -/
theorem addOrUpdate_result_some (c : Cache) (srcName : BList) (srcIdx : Nat) (inc : Record) (now : Nat) (sl : Slot)
    (hs : slotOf inc.ty = some sl) :
    ∃ e, (addOrUpdate c srcName srcIdx inc now true).result =
      some (e, isNewFlag inc now ((((noteSubtype c inc true).table sl).get (keyOf sl inc.name)).getD [])) := by
  unfold addOrUpdate
  simp only [hs, Bool.not_true, Bool.and_false, Bool.false_eq_true, if_false]
  have hex : ∃ e, (upsert srcName srcIdx inc
      (flushList inc now ((((noteSubtype c inc true).table sl).get (keyOf sl inc.name)).getD [])))[upsertIdx inc
      (flushList inc now ((((noteSubtype c inc true).table sl).get (keyOf sl inc.name)).getD []))]? = some e := by
    unfold upsert upsertIdx
    split
    · rename_i hm
      obtain ⟨pre, e0, post, _, _, _, h4, h5⟩ := resetFirst_spec inc _ hm
      rw [h4, h5]
      exact ⟨{ e0 with record := e0.record.resetTtl inc }, by simp⟩
    · exact ⟨⟨inc, srcName, srcIdx⟩, by simp⟩
  obtain ⟨e, he⟩ := hex
  exact ⟨e, by simp only [he, Option.map_some]; rfl⟩

/-! ### refresh of the addresses of a searched host -/

theorem Table.get_modify (t : Table) (k k' : BList) (f : List Entry → List Entry) :
    (t.modify k f).get k' = if k' = k then (t.get k').map f else t.get k' := by
  induction t with
  | nil => simp [Table.modify, Table.get]
  | cons p rest ih =>
    obtain ⟨pk, pv⟩ := p
    simp only [Table.modify, Table.get, List.map_cons, List.lookup] at ih ⊢
    by_cases h1 : k' = pk
    · subst h1
      by_cases h2 : k' = k
      · subst h2
        simp
      · have : (k' == k) = false := by simpa using h2
        simp [this, h2]
    · have hb : (k' == pk) = false := by simpa using h1
      by_cases h2 : pk = k
      · subst h2
        simp only [beq_self_eq_true, if_true, hb]
        exact ih
      · have hb2 : (pk == k) = false := by simpa using h2
        simp only [hb2, Bool.false_eq_true, if_false, hb]
        exact ih

/-- the refresh look-up of one searched host leaves the entries of other names alone -/
theorem refreshDueResolutions_get_ne (c : Cache) (h key : BList) (now : Nat) (hne : key ≠ h) :
    (refreshDueResolutions c h now).1.addr.get key = c.addr.get key := by
  simp only [refreshDueResolutions, Table.get_modify, hne, if_false]

/-- **Refresh while the search is open.**  In the resolver-refresh phase of an iteration at
    `now`: for every searched name `key` and every address entry cached under it that has not
    expired and whose refresh mark has been reached, a query for that name - type A for a
    4-byte address, AAAA otherwise - goes out. -/
theorem refresh_query_go (now : Nat) (key : BList) (e : Entry) (ip ifn : BList) (ifi : Nat)
    (hlive : now < e.record.expires) (hdue : e.record.refresh ≤ now) (hrd : e.record.rdata = .addr ip ifn ifi) :
    ∀ (l : List BList) (c : Cache), key ∈ l → e ∈ (c.addr.get key).getD [] →
      ∃ known, Out.query [(key, if ip.length == 4 then 1 else 28)] known ∈ (refreshResolversGo c now l).2
  | [], _, h, _ => by cases h
  | h :: rest, c, hk, he => by
    simp only [refreshResolversGo]
    by_cases hh : key = h
    · subst hh
      have hm : sendQuery (refreshDueResolutions c key now).1 now [(key, if ip.length == 4 then 1 else 28)] ∈
          (refreshDueResolutions c key now).2.eraseDups.map (fun it =>
            sendQuery (refreshDueResolutions c key now).1 now [(key, if it.2.1.length == 4 then 1 else 28)]) ++
          (refreshResolversGo (refreshDueResolutions c key now).1 now rest).2 := List.mem_append_left _ ?_
      · exact ⟨_, hm⟩
      simp only [List.mem_map, List.mem_eraseDups]
      refine ⟨(key, ip, ifn, ifi), ?_, rfl⟩
      simp only [refreshDueResolutions, List.mem_filterMap, List.mem_filter]
      refine ⟨e, ⟨he, ?_⟩, by simp [addrItem, hrd]⟩
      simp [Record.isExpired, Record.refreshDue, hdue]
      omega
    · have hin : key ∈ rest := by
        rcases List.mem_cons.mp hk with h1 | h1
        · exact absurd h1 hh
        · exact h1
      obtain ⟨known, hq⟩ := refresh_query_go now key e ip ifn ifi hlive hdue hrd rest _ hin
        (by rw [refreshDueResolutions_get_ne c h key now hh]; exact he)
      exact ⟨known, List.mem_append_right _ hq⟩

end Mdns.Client
