import Mdns.Model.Delay
/-
  Helper lemmas for C19 (back-off arithmetic).
-/
namespace Mdns.Delay
open Mdns

theorem delay_closed (n : Nat) : delay n = min (2 ^ n) MAX_DELAY := by
  induction n with
  | zero => simp [delay, MAX_DELAY]
  | succ n ih =>
    simp only [delay, nextDelay, ih, Nat.pow_succ, MAX_DELAY]
    omega

theorem delay_le (n : Nat) : delay n ≤ MAX_DELAY := by
  rw [delay_closed]
  exact Nat.min_le_right _ _

theorem delay_pos (n : Nat) : 1 ≤ delay n := by
  rw [delay_closed]
  have : 1 ≤ 2 ^ n := Nat.one_le_two_pow
  simp only [MAX_DELAY]
  omega

theorem step_ok (d : Nat) (h : d ≤ MAX_DELAY) : step d = .ok (d * 1000, nextDelay d) := by
  unfold step
  simp only [MAX_DELAY, U32_MAX] at *
  have h1 : ¬ d * 1000 > 4294967295 := by omega
  have h2 : ¬ d * 2 > 4294967295 := by omega
  simp [h1, h2, nextDelay, MAX_DELAY]

theorem gapsFrom_delay : ∀ (k n : Nat),
    gapsFrom k (delay n) = .ok ((List.range k).map fun i => delay (n + i) * 1000)
  | 0, _ => by simp [gapsFrom]
  | k + 1, n => by
    unfold gapsFrom
    rw [step_ok _ (delay_le n)]
    simp only
    have : nextDelay (delay n) = delay (n + 1) := rfl
    rw [this, gapsFrom_delay k (n + 1)]
    have e : ∀ i, n + 1 + i = n + (i + 1) := fun i => by omega
    simp only [List.range_succ_eq_map, List.map_cons, List.map_map, Nat.add_zero, Function.comp_def, e]

end Mdns.Delay
