import Mdns.Lemmas.ClientWf
/-
  The entries of the cache are pairwise different records (owner, type, class, cache-flush bit,
  RDATA): an invariant of every cache operation of the client (`ListsDistinct`), and - with
  distinct names and provenance - of the cache as a whole.  Used for the size bound of C20.
-/
namespace Mdns.Client
open Mdns Mdns.Rec Mdns.Cache

/-- the identity of a cached record: what `matches` compares -/
def idOf (e : Entry) : BList × Nat × Nat × Bool × RData :=
  (e.record.name, e.record.ty, e.record.cls, e.record.flush, e.record.rdata)

theorem matches_iff_id (a : Entry) (b : Record) (src : BList) (i : Nat) :
    a.record.matchesRec b = true ↔ idOf a = idOf ⟨b, src, i⟩ := by
  rw [matchesRec_iff]
  simp only [idOf, Prod.mk.injEq]

/-- the entries of every name are pairwise different records -/
def TableD (t : Table) : Prop := ∀ p ∈ t, (p.2.map idOf).Nodup

def ListsDistinct (c : Cache) : Prop := ∀ sl : Slot, TableD (c.table sl)

theorem listsDistinct_iff (c : Cache) :
    ListsDistinct c ↔ TableD c.ptr ∧ TableD c.srv ∧ TableD c.txt ∧ TableD c.addr ∧ TableD c.nsec := by
  constructor
  · intro h
    exact ⟨h .ptr, h .srv, h .txt, h .addr, h .nsec⟩
  · rintro ⟨h1, h2, h3, h4, h5⟩ sl
    cases sl
    · exact h1
    · exact h2
    · exact h3
    · exact h4
    · exact h5

theorem TableD.sub {t t' : Table} (h : TableD t) (hs : ∀ p ∈ t', p ∈ t) : TableD t' := fun p hp => h p (hs p hp)

theorem TableD.erase {t : Table} (h : TableD t) (k : BList) : TableD (t.erase k) :=
  h.sub fun _ hp => (List.mem_filter.mp hp).1

theorem TableD.modify {t : Table} (h : TableD t) (k : BList) (f : List Entry → List Entry)
    (hf : ∀ es, ((f es).map idOf).Sublist (es.map idOf)) : TableD (t.modify k f) := by
  intro p' hp'
  simp only [Table.modify, List.mem_map] at hp'
  obtain ⟨p, hp, rfl⟩ := hp'
  split
  · exact (h p hp).sublist (hf p.2)
  · exact h p hp

theorem TableD.set {t : Table} (h : TableD t) (k : BList) (v : List Entry) (hv : (v.map idOf).Nodup) :
    TableD (t.set k v) := by
  intro p hp
  rcases mem_set t k v p hp with rfl | hp
  · exact hv
  · exact h p hp

theorem TableD.foldl {α} (f : Table → α → Table) (hf : ∀ t a, TableD t → TableD (f t a)) :
    ∀ (l : List α) (t : Table), TableD t → TableD (l.foldl f t)
  | [], _, h => h
  | a :: l, t, h => TableD.foldl f hf l (f t a) (hf t a h)

theorem TableD.evictLive {t : Table} (h : TableD t) (now : Nat) : TableD (Cache.evictLive now t) := by
  intro p hp
  obtain ⟨q, hq, _, h2, _⟩ := mem_evictLive now t p hp
  rw [h2]
  exact (h q hq).sublist (List.Sublist.map _ List.filter_sublist)

theorem TableD.evictTable {t : Table} (h : TableD t) (now : Nat) : TableD (Cache.evictTable now t) := by
  intro p hp
  obtain ⟨k, es'⟩ := p
  obtain ⟨es, hes, h2, _⟩ := (mem_evictTable now t k es').mp hp
  simp only [h2]
  exact (h (k, es) hes).sublist (List.Sublist.map _ List.filter_sublist)

theorem map_id_of_pointwise (g : Entry → Entry) (hg : ∀ e, idOf (g e) = idOf e) (es : List Entry) :
    (es.map g).map idOf = es.map idOf := by
  rw [List.map_map]
  apply List.map_congr_left
  intro e _
  exact hg e

theorem refreshEntries_ids (now : Nat) (es : List Entry) : ((refreshEntries now es).1.map idOf).Sublist (es.map idOf) := by
  have : (refreshEntries now es).1.map idOf = es.map idOf := by
    simp only [refreshEntries]
    apply map_id_of_pointwise
    intro e
    simp only [idOf, Record.refreshed]
    split <;> rfl
  rw [this]
  exact List.Sublist.refl _

theorem sooner_ids (t : Nat) (es : List Entry) : ((es.map (soonerEntry t)).map idOf).Sublist (es.map idOf) := by
  have : (es.map (soonerEntry t)).map idOf = es.map idOf := by
    apply map_id_of_pointwise
    intro e
    simp only [idOf, soonerEntry, Record.setExpireSooner]
    split <;> rfl
  rw [this]
  exact List.Sublist.refl _

theorem flushList_ids (inc : Record) (now : Nat) (es : List Entry) : (flushList inc now es).map idOf = es.map idOf := by
  unfold flushList
  split
  · apply map_id_of_pointwise
    intro e
    simp only [idOf, flushOne]
    split <;> rfl
  · rfl

theorem resetFirst_ids (inc : Record) : ∀ es : List Entry, (resetFirst inc es).map idOf = es.map idOf
  | [] => rfl
  | e :: rest => by
    simp only [resetFirst]
    split
    · rfl
    · simp only [List.map_cons, resetFirst_ids inc rest]

theorem upsert_nodup (srcName : BList) (srcIdx : Nat) (inc : Record) (es : List Entry) (h : (es.map idOf).Nodup) :
    ((upsert srcName srcIdx inc es).map idOf).Nodup := by
  unfold upsert
  split
  · rw [resetFirst_ids]
    exact h
  · rename_i hm
    simp only [List.map_cons, List.nodup_cons]
    refine ⟨?_, h⟩
    intro hmem
    obtain ⟨e, he, hid⟩ := List.mem_map.mp hmem
    have : e.record.matchesRec inc = true := (matches_iff_id e inc srcName srcIdx).mpr hid
    exact hm (by simp only [hasMatch, List.any_eq_true]; exact ⟨e, he, this⟩)

theorem listsDistinct_refreshSrvTxtGo (now : Nat) : ∀ (l : List BList) (s : SrvTxtDue), ListsDistinct s.cache →
    ListsDistinct (refreshSrvTxtGo now l s).cache
  | [], _, h => h
  | inst :: rest, s, h => by
    unfold refreshSrvTxtGo
    apply listsDistinct_refreshSrvTxtGo now rest
    rw [listsDistinct_iff] at h ⊢
    exact ⟨h.1, h.2.1.modify _ _ (refreshEntries_ids now), h.2.2.1.modify _ _ (refreshEntries_ids now), h.2.2.2⟩

theorem listsDistinct_refreshHostsGo (now : Nat) : ∀ (l : List BList) (s : HostsDue), ListsDistinct s.cache →
    ListsDistinct (refreshHostsGo now l s).cache
  | [], _, h => h
  | hst :: rest, s, h => by
    unfold refreshHostsGo
    apply listsDistinct_refreshHostsGo now rest
    rw [listsDistinct_iff] at h ⊢
    exact ⟨h.1, h.2.1, h.2.2.1, h.2.2.2.1.modify _ _ (refreshEntries_ids now), h.2.2.2.2⟩

theorem listsDistinct_closed (now : Nat) : CacheOpsClosed ListsDistinct now where
  add := by
    intro c srcName srcIdx inc forUs h
    have h1 : ListsDistinct (noteSubtype c inc forUs) := by
      intro sl
      rw [table_noteSubtype]
      exact h sl
    have hbucket : ∀ sl k, (((((noteSubtype c inc forUs).table sl).get k).getD []).map idOf).Nodup := by
      intro sl k
      cases hg : ((noteSubtype c inc forUs).table sl).get k with
      | none => exact List.nodup_nil
      | some es => exact h1 sl (k, es) (mem_of_get _ _ _ hg)
    unfold addOrUpdate
    split
    · exact h1
    · rename_i sl hs
      simp only []
      split
      · intro sl'
        rw [table_setTable]
        split
        · exact TableD.set (h1 sl) _ _ (hbucket sl _)
        · exact h1 sl'
      · intro sl'
        rw [table_setTable]
        split
        · apply TableD.set (h1 sl)
          apply upsert_nodup
          rw [flushList_ids]
          exact hbucket sl _
        · exact h1 sl'
  remove := by
    intro c ty h
    rw [listsDistinct_iff] at h
    unfold removeServiceType
    split
    · exact (listsDistinct_iff c).mpr h
    · rw [listsDistinct_iff]
      refine ⟨h.1.erase ty, ?_, ?_, ?_, h.2.2.2.2⟩
      · exact TableD.foldl _ (fun t i ht => ht.erase i) _ _ h.2.1
      · exact TableD.foldl _ (fun t i ht => ht.erase i) _ _ h.2.2.1
      · apply TableD.foldl _ _ _ _ h.2.2.2.1
        intro t hst ht
        split
        · exact ht
        · exact ht.erase hst
  verify := by
    intro c inst at_ h
    unfold serviceVerifyQueries
    split
    · exact h
    · split
      · exact h
      · rename_i t
        rw [listsDistinct_iff] at h ⊢
        refine ⟨h.1, h.2.1.modify _ _ (sooner_ids t), h.2.2.1, ?_, h.2.2.2.2⟩
        apply TableD.foldl _ _ _ _ h.2.2.2.1
        intro tb hst ht
        exact ht.modify _ _ (sooner_ids t)
  refreshPtr := by
    intro c ty h
    unfold refreshDuePtr
    split
    · exact h
    · rw [listsDistinct_iff] at h ⊢
      exact ⟨h.1.modify _ _ (refreshEntries_ids now), h.2⟩
  refreshSrvTxt := fun c ty h => listsDistinct_refreshSrvTxtGo now _ _ h
  refreshHosts := fun c ty h => listsDistinct_refreshHostsGo now _ _ h
  refreshRes := by
    intro c hst h
    unfold refreshDueResolutions
    rw [listsDistinct_iff] at h ⊢
    refine ⟨h.1, h.2.1, h.2.2.1, h.2.2.2.1.modify _ _ ?_, h.2.2.2.2⟩
    intro es
    have : (es.map fun e => if (!e.record.isExpired now && e.record.refreshDue now) = true then
        { e with record := e.record.refreshNoMore } else e).map idOf = es.map idOf := by
      apply map_id_of_pointwise
      intro e
      split <;> rfl
    rw [this]
    exact List.Sublist.refl _
  evictS := by
    intro c h
    rw [listsDistinct_iff] at h ⊢
    exact ⟨h.1.evictLive now, h.2.1.evictLive now, h.2.2.1.evictLive now, h.2.2.2.1, h.2.2.2.2.evictLive now⟩
  evictA := by
    intro c h
    rw [listsDistinct_iff] at h ⊢
    exact ⟨h.1, h.2.1, h.2.2.1, h.2.2.2.1.evictTable now, h.2.2.2.2⟩

theorem listsDistinct_empty : ListsDistinct {} := by
  intro sl p hp
  cases sl <;> simp [Cache.table] at hp

/-! ### the whole cache -/

/-- all entries of a table / of the cache -/
def tableEntries (t : Table) : List Entry := t.flatMap (·.2)

def cacheEntries (c : Cache) : List Entry :=
  tableEntries c.ptr ++ tableEntries c.srv ++ tableEntries c.txt ++ tableEntries c.addr ++ tableEntries c.nsec

theorem tableCount_eq (t : Table) : tableCount t = (tableEntries t).length := by
  simp [tableCount, tableEntries, List.length_flatMap]

theorem mem_tableEntries (t : Table) (e : Entry) : e ∈ tableEntries t ↔ ∃ p ∈ t, e ∈ p.2 := by
  simp [tableEntries]

/-- within one table: distinct names, distinct records under each name, each entry filed under
    its own name ⇒ all entries are different records -/
theorem table_ids_pairwise (sl : Slot) (t : Table) (hk : t.keys.Nodup) (hd : TableD t)
    (hf : ∀ p ∈ t, ∀ e ∈ p.2, Filed sl p.1 e) : (tableEntries t).Pairwise (fun a b => idOf a ≠ idOf b) := by
  unfold tableEntries
  rw [List.pairwise_flatMap]
  refine ⟨?_, ?_⟩
  · intro p hp
    have := hd p hp
    rw [List.Nodup, List.pairwise_map] at this
    exact this
  · have hk' : t.Pairwise (fun p p' => p.1 ≠ p'.1) := by
      have := hk
      unfold Table.keys at this
      rw [List.Nodup, List.pairwise_map] at this
      exact this
    refine hk'.imp_of_mem ?_
    intro p p' hp hp' hne x hx y hy hid
    have h1 := (hf p hp x hx).2
    have h2 := (hf p' hp' y hy).2
    have hname : x.record.name = y.record.name := by
      simp only [idOf, Prod.mk.injEq] at hid
      exact hid.1
    rw [hname] at h1
    exact hne (h1.symm.trans h2)

theorem slot_ne_ids {sl sl' : Slot} (hne : sl ≠ sl') {a b : Entry} {k k' : BList} (ha : Filed sl k a) (hb : Filed sl' k' b) :
    idOf a ≠ idOf b := by
  intro hid
  simp only [idOf, Prod.mk.injEq] at hid
  have h1 := ha.1
  have h2 := hb.1
  rw [hid.2.1] at h1
  rw [h1] at h2
  exact hne (Option.some.inj h2)

/-- **all entries of the cache are pairwise different records** -/
theorem cache_ids_nodup (hist : List Delivery) (c : Cache) (hp : CacheProv hist c) (hk : KeysNodup c) (hd : ListsDistinct c) :
    ((cacheEntries c).map idOf).Nodup := by
  rw [List.Nodup, List.pairwise_map]
  have hfiled : ∀ sl : Slot, ∀ p ∈ c.table sl, ∀ e ∈ p.2, Filed sl p.1 e := fun sl p hpp e he => (hp sl p hpp e he).2
  have ht : ∀ sl : Slot, (tableEntries (c.table sl)).Pairwise (fun a b => idOf a ≠ idOf b) :=
    fun sl => table_ids_pairwise sl _ (hk sl) (hd sl) (hfiled sl)
  have hx : ∀ (sl sl' : Slot), sl ≠ sl' → ∀ a ∈ tableEntries (c.table sl), ∀ b ∈ tableEntries (c.table sl'),
      idOf a ≠ idOf b := by
    intro sl sl' hne a ha b hb
    obtain ⟨p, hpp, hap⟩ := (mem_tableEntries _ a).mp ha
    obtain ⟨p', hpp', hbp⟩ := (mem_tableEntries _ b).mp hb
    exact slot_ne_ids hne (hfiled sl p hpp a hap) (hfiled sl' p' hpp' b hbp)
  unfold cacheEntries
  simp only [List.pairwise_append, List.mem_append]
  refine ⟨⟨⟨⟨ht .ptr, ht .srv, ?_⟩, ht .txt, ?_⟩, ht .addr, ?_⟩, ht .nsec, ?_⟩
  · exact hx .ptr .srv (by decide)
  · rintro a (ha | ha) b hb
    · exact hx .ptr .txt (by decide) a ha b hb
    · exact hx .srv .txt (by decide) a ha b hb
  · rintro a ((ha | ha) | ha) b hb
    · exact hx .ptr .addr (by decide) a ha b hb
    · exact hx .srv .addr (by decide) a ha b hb
    · exact hx .txt .addr (by decide) a ha b hb
  · rintro a (((ha | ha) | ha) | ha) b hb
    · exact hx .ptr .nsec (by decide) a ha b hb
    · exact hx .srv .nsec (by decide) a ha b hb
    · exact hx .txt .nsec (by decide) a ha b hb
    · exact hx .addr .nsec (by decide) a ha b hb

end Mdns.Client
