import Mdns.Lemmas.ClientEvolve
/-
  A generic pipeline for invariants of the cache that every cache operation of the client
  preserves (`CacheOpsClosed`), and the first instance: the names of every table are distinct
  (`KeysNodup`).
-/
namespace Mdns.Client
open Mdns Mdns.Rec Mdns.Cache

/-- `P` survives every cache operation an iteration at `now` can perform -/
structure CacheOpsClosed (P : Cache → Prop) (now : Nat) : Prop where
  add : ∀ c srcName srcIdx inc forUs, P c → P (addOrUpdate c srcName srcIdx inc now forUs).cache
  remove : ∀ c ty, P c → P (removeServiceType c ty)
  verify : ∀ c inst at_, P c → P (serviceVerifyQueries c inst at_).1
  refreshPtr : ∀ c ty, P c → P (refreshDuePtr c ty now).1
  refreshSrvTxt : ∀ c ty, P c → P (refreshDueSrvTxt c ty now).cache
  refreshHosts : ∀ c ty, P c → P (refreshDueHosts c ty now).cache
  refreshRes : ∀ c h, P c → P (refreshDueResolutions c h now).1
  evictS : ∀ c, P c → P (evictServices c now).1
  evictA : ∀ c, P c → P (evictAddr c now).1

variable {P : Cache → Prop} {now : Nat}

theorem closed_ingestAll (h : CacheOpsClosed P now) (q : List (BList × Nat)) (ifName : BList) (ifIdx : Nat) (forUs : Bool) :
    ∀ (rs : List Wire.Rec) (acc : Ingest), P acc.cache → P (ingestAll q ifName ifIdx now forUs acc rs).cache
  | [], _, hp => hp
  | r :: rest, acc, hp => by
    simp only [ingestAll]
    apply closed_ingestAll h q ifName ifIdx forUs rest
    rw [ingestOne_cache]
    exact h.add _ _ _ _ _ hp

theorem closed_handleRead (h : CacheOpsClosed P now) (s : State) (p : Packet) (hp : P s.cache) :
    P (handleRead s now p).1.cache := by
  unfold handleRead
  repeat' split
  all_goals first
    | exact hp
    | (rw [handleResponse_cache]; exact closed_ingestAll h _ _ _ _ _ _ hp)

theorem closed_ingress (h : CacheOpsClosed P now) : ∀ (pkts : List Packet) (s : State), P s.cache →
    P (ingress s now pkts).1.cache
  | [], _, hp => hp
  | p :: rest, s, hp => by
    simp only [ingress]
    exact closed_ingress h rest _ (closed_handleRead h s p hp)

theorem closed_execCommand (h : CacheOpsClosed P now) (s : State) (c : Command) (hp : P s.cache) :
    P (execCommand s now c).1.cache := by
  cases c with
  | browse ty ch co =>
    show P (execBrowse s now false ty 1 co ch).1.cache
    rw [execBrowse_cache]
    exact hp
  | stopBrowse ty =>
    simp only [execCommand, execStopBrowse]
    split
    · exact hp
    · exact h.remove _ ty hp
  | resolveHost h0 ch t =>
    show P (execResolveHost s now false h0 1 ch t).1.cache
    rw [execResolveHost_cache]
    exact hp
  | stopResolve h0 =>
    simp only [execCommand, execStopResolve]
    split <;> exact hp
  | ipInterval ms => exact hp
  | verify inst t =>
    have hc := h.verify s.cache inst (some (now + t)) hp
    simp only [execCommand, execVerify, Bool.false_eq_true, if_false]
    split
    · exact hc
    · simpa using hc
  | metrics ch => exact hp
  | acceptUnsolicited on => exact hp

theorem closed_runCommands (h : CacheOpsClosed P now) : ∀ (cmds : List Command) (s : State), P s.cache →
    P (runCommands s now cmds).1.cache
  | [], _, hp => hp
  | c :: rest, s, hp => by
    simp only [runCommands]
    exact closed_runCommands h rest _ (closed_execCommand h s c hp)

theorem closed_preCommands (h : CacheOpsClosed P now) (s : State) (pkts : List Packet) (hp : P s.cache) :
    P (preCommands s now pkts).cache := by
  have := closed_ingress h pkts s hp
  simpa [preCommands, runTimeouts] using this

theorem closed_refreshTypes (h : CacheOpsClosed P now) : ∀ (l : List BList) (c : Cache), P c → P (refreshTypes c now l).1
  | [], _, hp => hp
  | ty :: rest, c, hp => by
    simp only [refreshTypes]
    apply closed_refreshTypes h rest
    unfold refreshType
    simp only []
    exact h.refreshHosts _ ty (h.refreshSrvTxt _ ty (h.refreshPtr c ty hp))

theorem closed_refreshResolversGo (h : CacheOpsClosed P now) : ∀ (l : List BList) (c : Cache), P c →
    P (refreshResolversGo c now l).1
  | [], _, hp => hp
  | hst :: rest, c, hp => by
    simp only [refreshResolversGo]
    exact closed_refreshResolversGo h rest _ (h.refreshRes c hst hp)

/-- the cache in which `refresh_active_services` runs -/
theorem closed_preRefresh (h : CacheOpsClosed P now) (s : State) (pkts : List Packet) (cmds : List Command)
    (hp : P s.cache) : P (rerunPhase (runCommands (preCommands s now pkts) now cmds).1 now).1.cache := by
  rw [rerunPhase_cache]
  exact closed_runCommands h cmds _ (closed_preCommands h s pkts hp)

theorem closed_preEvict (h : CacheOpsClosed P now) (s : State) (pkts : List Packet) (cmds : List Command)
    (hp : P s.cache) : P (preEvict s now pkts cmds).cache := by
  unfold preEvict
  simp only [refreshResolvers, refreshActive, addTimers_cache]
  exact closed_refreshResolversGo h _ _ (closed_refreshTypes h _ _ (closed_preRefresh h s pkts cmds hp))

theorem closed_iter (h : CacheOpsClosed P now) (s : State) (pkts : List Packet) (cmds : List Command) (hp : P s.cache) :
    P (iter s now pkts cmds).1.cache := by
  have h1 := closed_preEvict h s pkts cmds hp
  have : (iter s now pkts cmds).1.cache =
      (evictAddr (evictServices (preEvict s now pkts cmds).cache now).1 now).1 := by
    simp only [iter, runIpCheck_cache, evictAddrPhase, evictAddrHosts_cache, evictServicesPhase]
    rfl
  rw [this]
  exact h.evictA _ (h.evictS _ h1)

/-! ### the names of a table are distinct -/

/-- in every table of the cache every name occurs once -/
def KeysNodup (c : Cache) : Prop := ∀ sl : Slot, (c.table sl).keys.Nodup

theorem keysNodup_iff (c : Cache) :
    KeysNodup c ↔ c.ptr.keys.Nodup ∧ c.srv.keys.Nodup ∧ c.txt.keys.Nodup ∧ c.addr.keys.Nodup ∧ c.nsec.keys.Nodup := by
  constructor
  · intro h
    exact ⟨h .ptr, h .srv, h .txt, h .addr, h .nsec⟩
  · rintro ⟨h1, h2, h3, h4, h5⟩ sl
    cases sl
    · exact h1
    · exact h2
    · exact h3
    · exact h4
    · exact h5

theorem keys_modify (t : Table) (k : BList) (f : List Entry → List Entry) : (t.modify k f).keys = t.keys := by
  simp only [Table.modify, Table.keys, List.map_map]
  apply List.map_congr_left
  intro p _
  simp only [Function.comp]
  split <;> rfl

theorem keys_erase_sublist (t : Table) (k : BList) : (t.erase k).keys.Sublist t.keys :=
  List.Sublist.map _ List.filter_sublist

theorem keys_evictLive_sublist (now : Nat) : ∀ t : Table, (evictLive now t).keys.Sublist t.keys
  | [] => List.Sublist.slnil
  | p :: rest => by
    simp only [evictLive, List.filterMap_cons]
    split
    · rename_i h
      split at h
      · exact List.Sublist.cons _ (keys_evictLive_sublist now rest)
      · cases h
    · rename_i q h
      split at h
      · cases h
      · cases h
        exact List.Sublist.cons_cons _ (keys_evictLive_sublist now rest)

theorem nodup_foldl {α} (f : Table → α → Table) (hf : ∀ t a, t.keys.Nodup → (f t a).keys.Nodup) :
    ∀ (l : List α) (t : Table), t.keys.Nodup → (l.foldl f t).keys.Nodup
  | [], _, h => h
  | a :: l, t, h => nodup_foldl f hf l (f t a) (hf t a h)

theorem keysNodup_empty : KeysNodup {} := by
  intro sl
  cases sl <;> exact List.nodup_nil

theorem keysNodup_refreshSrvTxtGo (now : Nat) : ∀ (l : List BList) (s : SrvTxtDue), KeysNodup s.cache →
    KeysNodup (refreshSrvTxtGo now l s).cache
  | [], _, h => h
  | inst :: rest, s, h => by
    unfold refreshSrvTxtGo
    apply keysNodup_refreshSrvTxtGo now rest
    rw [keysNodup_iff] at h ⊢
    simp only [keys_modify]
    exact h

theorem keysNodup_refreshHostsGo (now : Nat) : ∀ (l : List BList) (s : HostsDue), KeysNodup s.cache →
    KeysNodup (refreshHostsGo now l s).cache
  | [], _, h => h
  | hst :: rest, s, h => by
    unfold refreshHostsGo
    apply keysNodup_refreshHostsGo now rest
    rw [keysNodup_iff] at h ⊢
    simp only [keys_modify]
    exact h

theorem keysNodup_closed (now : Nat) : CacheOpsClosed KeysNodup now where
  add := by
    intro c srcName srcIdx inc forUs h
    have h1 : KeysNodup (noteSubtype c inc forUs) := by
      intro sl
      rw [table_noteSubtype]
      exact h sl
    unfold addOrUpdate
    split
    · exact h1
    · rename_i sl hs
      simp only []
      split
      · intro sl'
        rw [table_setTable]
        split
        · exact Table.nodup_set _ _ _ (h1 sl)
        · exact h1 sl'
      · intro sl'
        rw [table_setTable]
        split
        · exact Table.nodup_set _ _ _ (h1 sl)
        · exact h1 sl'
  remove := by
    intro c ty h
    rw [keysNodup_iff] at h
    unfold removeServiceType
    split
    · exact (keysNodup_iff c).mpr h
    · rw [keysNodup_iff]
      refine ⟨h.1.sublist (keys_erase_sublist _ _), ?_, ?_, ?_, h.2.2.2.2⟩
      · exact nodup_foldl _ (fun t i ht => ht.sublist (keys_erase_sublist _ _)) _ _ h.2.1
      · exact nodup_foldl _ (fun t i ht => ht.sublist (keys_erase_sublist _ _)) _ _ h.2.2.1
      · apply nodup_foldl _ _ _ _ h.2.2.2.1
        intro t hst ht
        split
        · exact ht
        · exact ht.sublist (keys_erase_sublist _ _)
  verify := by
    intro c inst at_ h
    unfold serviceVerifyQueries
    split
    · exact h
    · split
      · exact h
      · rw [keysNodup_iff] at h ⊢
        refine ⟨h.1, by rw [keys_modify]; exact h.2.1, h.2.2.1, ?_, h.2.2.2.2⟩
        apply nodup_foldl _ _ _ _ h.2.2.2.1
        intro t hst ht
        rw [keys_modify]
        exact ht
  refreshPtr := by
    intro c ty h
    unfold refreshDuePtr
    split
    · exact h
    · rw [keysNodup_iff] at h ⊢
      simp only [keys_modify]
      exact h
  refreshSrvTxt := fun c ty h => keysNodup_refreshSrvTxtGo now _ _ h
  refreshHosts := fun c ty h => keysNodup_refreshHostsGo now _ _ h
  refreshRes := by
    intro c hst h
    unfold refreshDueResolutions
    rw [keysNodup_iff] at h ⊢
    simp only [keys_modify]
    exact h
  evictS := by
    intro c h
    rw [keysNodup_iff] at h ⊢
    exact ⟨h.1.sublist (keys_evictLive_sublist now _), h.2.1.sublist (keys_evictLive_sublist now _),
      h.2.2.1.sublist (keys_evictLive_sublist now _), h.2.2.2.1, h.2.2.2.2.sublist (keys_evictLive_sublist now _)⟩
  evictA := by
    intro c h
    rw [keysNodup_iff] at h ⊢
    exact ⟨h.1, h.2.1, h.2.2.1, h.2.2.2.1.sublist (keys_evictTable_sublist now _), h.2.2.2.2⟩

/-- with distinct names the only pair of a name is the one a look-up finds -/
theorem mem_of_keysNodup {t : Table} (h : t.keys.Nodup) {p : BList × List Entry} (hp : p ∈ t) : t.get p.1 = some p.2 :=
  (Table.get_eq_some_iff t h p.1 p.2).mpr hp

end Mdns.Client
