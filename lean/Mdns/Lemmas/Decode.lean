import Mdns.Model.Decode
/-
  Helper lemmas for C01 (decoder): no panic, bounds, cost.
-/
namespace Mdns.Wire
open Mdns

theorem getElem?_of_lt (d : Pkt) {i : Nat} (h : i < d.size) : ∃ b, d[i]? = some b :=
  ⟨d[i], by simp [h]⟩

theorem u16At_of_lt (d : Pkt) {i : Nat} (h : i + 1 < d.size) : ∃ v, u16At d i = some v := by
  obtain ⟨a, ha⟩ := getElem?_of_lt d (show i < d.size by omega)
  obtain ⟨b, hb⟩ := getElem?_of_lt d h
  refine ⟨a.toNat * 256 + b.toNat, ?_⟩
  simp [u16At, ha, hb]

theorem u16At_ne_none (d : Pkt) {i : Nat} (h : i + 1 < d.size) : u16At d i ≠ none := by
  obtain ⟨v, hv⟩ := u16At_of_lt d h
  simp [hv]

theorem u32At_of_lt (d : Pkt) {i : Nat} (h : i + 3 < d.size) : ∃ v, u32At d i = some v := by
  obtain ⟨a, ha⟩ := u16At_of_lt d (show i + 1 < d.size by omega)
  obtain ⟨b, hb⟩ := u16At_of_lt d (show i + 2 + 1 < d.size by omega)
  refine ⟨a * 65536 + b, ?_⟩
  simp [u32At, ha, hb]

theorem slice_length (d : Pkt) (off n : Nat) (h : off + n ≤ d.size) : (slice d off n).length = n := by
  simp [slice]; omega

/-! ### read_name -/

theorem readNameGo_no_panic (d : Pkt) (s off : Nat) (sofar : BList) (ret : Option Nat) (hops steps : Nat) :
    readNameGo d s off sofar ret hops steps ≠ .panic := by
  fun_induction readNameGo d s off sofar ret hops steps <;> simp_all
  rename_i h1 h2
  exact u16At_ne_none d (by omega) h2

theorem readName_no_panic (d : Pkt) (off : Nat) : readName d off ≠ .panic := by
  unfold readName; exact readNameGo_no_panic d off off [] none 0 0

/-- Invariant of the `read_name` loop on successful runs: the name stays within 255
    bytes, the returned offset is inside the datagram and beyond the start, and the
    number of loop iterations is bounded by a constant. -/
theorem readNameGo_ok (d : Pkt) (s off : Nat) (sofar : BList) (ret : Option Nat) (hops steps : Nat)
    (n : NameOut) :
    readNameGo d s off sofar ret hops steps = .ok n →
    sofar.length ≤ 255 → hops ≤ 127 →
    (∀ x, ret = some x → x ≤ d.size ∧ s < x) → (ret = none → s ≤ off) →
    n.name.length ≤ 255 ∧ n.next ≤ d.size ∧ s < n.next ∧
      n.steps ≤ steps + (255 - sofar.length) / 2 + (127 - hops) + 1 := by
  fun_induction readNameGo d s off sofar ret hops steps
  case case3 off sofar ret hops steps hsz hz =>
    intro h hs hh hret hoff
    simp only [Res.ok.injEq] at h
    subst h
    refine ⟨hs, ?_, ?_, by simp; omega⟩
    · cases ret with
      | none => simp; omega
      | some x => simp; exact (hret x rfl).1
    · cases ret with
      | none => have := hoff rfl; simp; omega
      | some x => simp; exact (hret x rfl).2
  case case7 off sofar ret hops steps hsz len hget hne hlab hover hutf hlen ih =>
    intro h hs hh hret hoff
    have hl : (slice d (off + 1) len.toNat).length = len.toNat := slice_length d (off + 1) _ (by omega)
    simp only [MAX_NAME_LEN, List.length_append, List.length_cons, List.length_nil, hl] at hlen ih
    have := ih h (by omega) hh hret (fun hr => by have := hoff hr; omega)
    refine ⟨this.1, this.2.1, this.2.2.1, ?_⟩
    have h4 := this.2.2.2
    have hlen1 : 1 ≤ len.toNat := by
      rcases Nat.eq_zero_or_pos len.toNat with h0 | h0
      · exfalso
        exact hne (by apply UInt8.toNat_inj.mp; simpa using h0)
      · exact h0
    omega
  case case12 off sofar ret hops steps hsz len hget hne hnl hptr hsz2 v hv hlt hhop ih =>
    intro h hs hh hret hoff
    simp only [MAX_NAME_POINTERS] at hhop
    have := ih h hs (by omega)
      (fun x hx => by
        simp only [Option.some.injEq] at hx
        subst hx
        cases ret with
        | none => have := hoff rfl; simp; omega
        | some y => simp; exact hret y rfl)
      (fun hr => by simp at hr)
    refine ⟨this.1, this.2.1, this.2.2.1, ?_⟩
    omega
  all_goals (intro h; simp at h)

theorem readName_ok (d : Pkt) (off : Nat) (n : NameOut) (h : readName d off = .ok n) :
    n.name.length ≤ 255 ∧ n.next ≤ d.size ∧ off < n.next ∧ n.steps ≤ 255 := by
  have := readNameGo_ok d off off [] none 0 0 n h (by simp) (by omega) (by simp) (by simp)
  simp at this
  omega

end Mdns.Wire

namespace Mdns.Wire
open Mdns

/-! ### the small readers -/

theorem readU16_spec (d : Pkt) (off : Nat) :
    readU16 d off ≠ .panic ∧ ∀ v o, readU16 d off = .ok (v, o) → o = off + 2 ∧ o ≤ d.size := by
  unfold readU16
  split
  · simp
  · rename_i h
    obtain ⟨v, hv⟩ := u16At_of_lt d (show off + 1 < d.size by omega)
    simp only [hv]
    refine ⟨by simp, ?_⟩
    intro v' o h'
    simp only [Res.ok.injEq, Prod.mk.injEq] at h'
    omega

theorem readString_spec (d : Pkt) (off len : Nat) :
    readString d off len ≠ .panic ∧
    ∀ b o, readString d off len = .ok (b, o) → o = off + len ∧ o ≤ d.size ∧ b.length = len := by
  unfold readString
  split
  · simp
  · split
    · simp
    · refine ⟨by simp, ?_⟩
      intro b o h'
      simp only [Res.ok.injEq, Prod.mk.injEq] at h'
      obtain ⟨rfl, rfl⟩ := h'
      exact ⟨rfl, by omega, slice_length d off len (by omega)⟩

theorem readCharString_spec (d : Pkt) (off : Nat) :
    readCharString d off ≠ .panic ∧
    ∀ b o, readCharString d off = .ok (b, o) → o = off + 1 + b.length ∧ o ≤ d.size := by
  unfold readCharString
  split
  · simp
  · rename_i h
    obtain ⟨l, hl⟩ := getElem?_of_lt d (show off < d.size by omega)
    simp only [hl]
    have := readString_spec d (off + 1) l.toNat
    refine ⟨this.1, ?_⟩
    intro b o h'
    have := this.2 b o h'
    omega

theorem readVec_spec (d : Pkt) (off len : Nat) :
    readVec d off len ≠ .panic ∧
    ∀ b o, readVec d off len = .ok (b, o) → o = off + len ∧ o ≤ d.size ∧ b.length = len := by
  unfold readVec
  split
  · simp
  · refine ⟨by simp, ?_⟩
    intro b o h'
    simp only [Res.ok.injEq, Prod.mk.injEq] at h'
    obtain ⟨rfl, rfl⟩ := h'
    exact ⟨rfl, by omega, slice_length d off len (by omega)⟩

theorem readTypeBitmap_spec (d : Pkt) (off : Nat) :
    readTypeBitmap d off ≠ .panic ∧
    ∀ b o, readTypeBitmap d off = .ok (b, o) → o = off + 2 + b.length ∧ o ≤ d.size := by
  unfold readTypeBitmap
  split
  · simp
  · rename_i h
    obtain ⟨x, hx⟩ := getElem?_of_lt d (show off < d.size by omega)
    obtain ⟨y, hy⟩ := getElem?_of_lt d (show off + 1 < d.size by omega)
    simp only [hx, hy]
    split
    · simp
    · split
      · simp
      · split
        · simp
        · refine ⟨by simp, ?_⟩
          intro b o h'
          simp only [Res.ok.injEq, Prod.mk.injEq] at h'
          obtain ⟨rfl, rfl⟩ := h'
          rw [slice_length d (off + 2) y.toNat (by omega)]
          omega

end Mdns.Wire

namespace Mdns.Wire
open Mdns

/-! ### RDATA -/

theorem readRData_spec (d : Pkt) (ty off rdlen : Nat) :
    readRData d ty off rdlen ≠ .panic ∧
    ∀ rd o, readRData d ty off rdlen = .ok (some (rd, o)) →
      o ≤ d.size ∧ off + rdataBytes rd ≤ o ∧ ∀ n ∈ rdNames rd, n.length ≤ 255 := by
  unfold readRData
  split
  · -- CNAME / PTR
    have hp := readName_no_panic d off
    cases hn : readName d off with
    | panic => exact absurd hn hp
    | err => simp
    | ok n =>
      have := readName_ok d off n hn
      refine ⟨by simp, ?_⟩
      intro rd o h
      simp only [Res.ok.injEq, Option.some.injEq, Prod.mk.injEq] at h
      obtain ⟨rfl, rfl⟩ := h
      simp [rdataBytes, rdNames]; omega
  · split
    · -- TXT
      have hv := readVec_spec d off rdlen
      cases hn : readVec d off rdlen with
      | panic => exact absurd hn hv.1
      | err => simp
      | ok p =>
        obtain ⟨b, o'⟩ := p
        have := hv.2 b o' hn
        refine ⟨by simp, ?_⟩
        intro rd o h
        simp only [Res.ok.injEq, Option.some.injEq, Prod.mk.injEq] at h
        obtain ⟨rfl, rfl⟩ := h
        simp [rdataBytes, rdNames]; omega
    · split
      · -- SRV
        have h1 := readU16_spec d off
        cases hn1 : readU16 d off with
        | panic => exact absurd hn1 h1.1
        | err => simp
        | ok p1 =>
          obtain ⟨prio, o1⟩ := p1
          have e1 := h1.2 prio o1 hn1
          have h2 := readU16_spec d o1
          cases hn2 : readU16 d o1 with
          | panic => exact absurd hn2 h2.1
          | err => simp [hn2]
          | ok p2 =>
            obtain ⟨w, o2⟩ := p2
            simp only [hn2]
            have e2 := h2.2 w o2 hn2
            have h3 := readU16_spec d o2
            cases hn3 : readU16 d o2 with
            | panic => exact absurd hn3 h3.1
            | err => simp [hn3]
            | ok p3 =>
              obtain ⟨port, o3⟩ := p3
              simp only [hn3]
              have e3 := h3.2 port o3 hn3
              have hp := readName_no_panic d o3
              cases hn : readName d o3 with
              | panic => exact absurd hn hp
              | err => simp [hn]
              | ok n =>
                simp only [hn]
                have := readName_ok d o3 n hn
                refine ⟨by simp, ?_⟩
                intro rd o h
                simp only [Res.ok.injEq, Option.some.injEq, Prod.mk.injEq] at h
                obtain ⟨rfl, rfl⟩ := h
                simp [rdataBytes, rdNames]; omega
      · split
        · -- HINFO
          have h1 := readCharString_spec d off
          cases hn1 : readCharString d off with
          | panic => exact absurd hn1 h1.1
          | err => simp
          | ok p1 =>
            obtain ⟨cpu, o1⟩ := p1
            have e1 := h1.2 cpu o1 hn1
            have h2 := readCharString_spec d o1
            cases hn2 : readCharString d o1 with
            | panic => exact absurd hn2 h2.1
            | err => simp [hn2]
            | ok p2 =>
              obtain ⟨os, o2⟩ := p2
              simp only [hn2]
              have e2 := h2.2 os o2 hn2
              refine ⟨by simp, ?_⟩
              intro rd o h
              simp only [Res.ok.injEq, Option.some.injEq, Prod.mk.injEq] at h
              obtain ⟨rfl, rfl⟩ := h
              simp [rdataBytes, rdNames]; omega
        · split
          · -- A
            have hv := readVec_spec d off 4
            cases hn : readVec d off 4 with
            | panic => exact absurd hn hv.1
            | err => simp
            | ok p =>
              obtain ⟨b, o'⟩ := p
              have := hv.2 b o' hn
              refine ⟨by simp, ?_⟩
              intro rd o h
              simp only [Res.ok.injEq, Option.some.injEq, Prod.mk.injEq] at h
              obtain ⟨rfl, rfl⟩ := h
              simp [rdataBytes, rdNames]; omega
          · split
            · -- AAAA
              have hv := readVec_spec d off 16
              cases hn : readVec d off 16 with
              | panic => exact absurd hn hv.1
              | err => simp
              | ok p =>
                obtain ⟨b, o'⟩ := p
                have := hv.2 b o' hn
                refine ⟨by simp, ?_⟩
                intro rd o h
                simp only [Res.ok.injEq, Option.some.injEq, Prod.mk.injEq] at h
                obtain ⟨rfl, rfl⟩ := h
                simp [rdataBytes, rdNames]; omega
            · split
              · -- NSEC
                have hp := readName_no_panic d off
                cases hn : readName d off with
                | panic => exact absurd hn hp
                | err => simp
                | ok n =>
                  have hn' := readName_ok d off n hn
                  have hb := readTypeBitmap_spec d n.next
                  cases hnb : readTypeBitmap d n.next with
                  | panic => exact absurd hnb hb.1
                  | err => simp [hnb]
                  | ok p =>
                    obtain ⟨bm, o'⟩ := p
                    simp only [hnb]
                    have := hb.2 bm o' hnb
                    refine ⟨by simp, ?_⟩
                    intro rd o h
                    simp only [Res.ok.injEq, Option.some.injEq, Prod.mk.injEq] at h
                    obtain ⟨rfl, rfl⟩ := h
                    simp [rdataBytes, rdNames]; omega
              · simp

end Mdns.Wire

namespace Mdns.Wire
open Mdns

/-! ### records, questions, message -/

/-- what a successfully decoded record satisfies -/
def RecOK (d : Pkt) (resp : Bool) (r : Rec) : Prop :=
  r.start + 11 + rdataBytes r.rdata ≤ r.stop ∧ r.stop ≤ d.size ∧
  (∀ n ∈ recNames r, n.length ≤ 255) ∧ (resp = true → 1 ≤ r.ttl)

theorem readRR_spec (d : Pkt) (resp : Bool) (off : Nat) :
    readRR d resp off ≠ .panic ∧
    ∀ r? o, readRR d resp off = .ok (r?, o) →
      off + 11 ≤ o ∧ o ≤ d.size ∧ ∀ r, r? = some r → r.start = off ∧ r.stop = o ∧ RecOK d resp r := by
  unfold readRR
  have hp := readName_no_panic d off
  cases hn : readName d off with
  | panic => exact absurd hn hp
  | err => simp
  | ok n =>
    have hnok := readName_ok d off n hn
    simp only []
    split
    · simp
    · rename_i hsz
      obtain ⟨ty, hty⟩ := u16At_of_lt d (show n.next + 1 < d.size by omega)
      obtain ⟨cls, hcls⟩ := u16At_of_lt d (show n.next + 2 + 1 < d.size by omega)
      obtain ⟨ttl0, httl⟩ := u32At_of_lt d (show n.next + 4 + 3 < d.size by omega)
      obtain ⟨rdlen, hrd⟩ := u16At_of_lt d (show n.next + 8 + 1 < d.size by omega)
      simp only [hty, hcls, httl, hrd]
      split
      · simp
      · rename_i hfit
        have hr := readRData_spec d ty (n.next + 10) rdlen
        cases hrd' : readRData d ty (n.next + 10) rdlen with
        | panic => exact absurd hrd' hr.1
        | err => simp
        | ok x =>
          cases x with
          | none =>
            refine ⟨by simp, ?_⟩
            intro r? o h
            simp only [Res.ok.injEq, Prod.mk.injEq] at h
            obtain ⟨rfl, rfl⟩ := h
            refine ⟨by omega, by omega, ?_⟩
            intro r hr; cases hr
          | some p =>
            obtain ⟨rd, o'⟩ := p
            have hrs := hr.2 rd o' hrd'
            simp only []
            split
            · simp
            · rename_i heq
              have heq' : o' = n.next + 10 + rdlen := by omega
              refine ⟨by simp, ?_⟩
              intro r? o h
              simp only [Res.ok.injEq, Prod.mk.injEq] at h
              obtain ⟨rfl, rfl⟩ := h
              refine ⟨by omega, by omega, ?_⟩
              intro r hr'
              simp only [Option.some.injEq] at hr'
              subst hr'
              refine ⟨rfl, by simp; omega, ?_⟩
              unfold RecOK
              refine ⟨by simp; omega, by simp; omega, ?_, ?_⟩
              · intro nm hnm
                simp only [recNames, List.mem_cons] at hnm
                rcases hnm with rfl | hnm
                · exact hnok.1
                · exact hrs.2.2 nm hnm
              · intro hresp
                simp only [hresp, and_true]
                split <;> omega

theorem readRRs_spec (d : Pkt) (resp : Bool) : ∀ (count off : Nat),
    readRRs d resp count off ≠ .panic ∧
    ∀ rs o, readRRs d resp count off = .ok (rs, o) →
      off + (rs.map fun r => 11 + rdataBytes r.rdata).sum ≤ o ∧ o ≤ d.size ∨ (rs = [] ∧ o = off) := by
  intro count
  induction count with
  | zero =>
    intro off
    refine ⟨by simp [readRRs], ?_⟩
    intro rs o h
    simp only [readRRs, Res.ok.injEq, Prod.mk.injEq] at h
    obtain ⟨rfl, rfl⟩ := h
    exact Or.inr ⟨rfl, rfl⟩
  | succ c ih =>
    intro off
    rw [readRRs]
    have h1 := readRR_spec d resp off
    cases hr : readRR d resp off with
    | panic => exact absurd hr h1.1
    | err => simp
    | ok p =>
      obtain ⟨r?, o1⟩ := p
      have e1 := h1.2 r? o1 hr
      simp only []
      have h2 := ih o1
      cases hrs : readRRs d resp c o1 with
      | panic => exact absurd hrs h2.1
      | err => simp
      | ok q =>
        obtain ⟨rs', o2⟩ := q
        have e2 := h2.2 rs' o2 hrs
        refine ⟨by simp, ?_⟩
        intro rs o h
        simp only [Res.ok.injEq, Prod.mk.injEq] at h
        obtain ⟨rfl, rfl⟩ := h
        left
        cases r? with
        | none =>
          simp only [List.nil_append]
          rcases e2 with e2 | ⟨rfl, rfl⟩
          · omega
          · simp; omega
        | some r =>
          have hr3 := e1.2.2 r rfl
          unfold RecOK at hr3
          simp only [List.singleton_append, List.map_cons, List.sum_cons]
          rcases e2 with e2 | ⟨rfl, rfl⟩
          · omega
          · simp; omega

end Mdns.Wire

namespace Mdns.Wire
open Mdns

theorem readRRs_mono (d : Pkt) (resp : Bool) : ∀ (count off : Nat) rs o,
    readRRs d resp count off = .ok (rs, o) → off ≤ o := by
  intro count off rs o h
  rcases (readRRs_spec d resp count off).2 rs o h with h' | ⟨_, rfl⟩
  · omega
  · omega

/-- every decoded record lies inside `[off, o)`, satisfies `RecOK`, and records are laid
    out one after the other -/
theorem readRRs_mem (d : Pkt) (resp : Bool) : ∀ (count off : Nat) rs o,
    readRRs d resp count off = .ok (rs, o) →
      (∀ r ∈ rs, off ≤ r.start ∧ r.stop ≤ o ∧ RecOK d resp r) ∧
      rs.Pairwise (fun a b => a.stop ≤ b.start) := by
  intro count
  induction count with
  | zero =>
    intro off rs o h
    simp only [readRRs, Res.ok.injEq, Prod.mk.injEq] at h
    obtain ⟨rfl, rfl⟩ := h
    simp
  | succ c ih =>
    intro off rs o h
    rw [readRRs] at h
    have h1 := readRR_spec d resp off
    cases hr : readRR d resp off with
    | panic => simp [hr] at h
    | err => simp [hr] at h
    | ok p =>
      obtain ⟨r?, o1⟩ := p
      have e1 := h1.2 r? o1 hr
      simp only [hr] at h
      cases hrs : readRRs d resp c o1 with
      | panic => simp [hrs] at h
      | err => simp [hrs] at h
      | ok q =>
        obtain ⟨rs', o2⟩ := q
        simp only [hrs, Res.ok.injEq, Prod.mk.injEq] at h
        obtain ⟨rfl, rfl⟩ := h
        have e2 := ih o1 rs' o2 hrs
        have hmono := readRRs_mono d resp c o1 rs' o2 hrs
        cases r? with
        | none =>
          simp only [List.nil_append]
          refine ⟨?_, e2.2⟩
          intro r hr'
          have := e2.1 r hr'
          exact ⟨by omega, this.2.1, this.2.2⟩
        | some r0 =>
          have hr3 := e1.2.2 r0 rfl
          simp only [List.singleton_append]
          refine ⟨?_, ?_⟩
          · intro r hr'
            rcases List.mem_cons.mp hr' with rfl | hr'
            · exact ⟨by omega, by omega, hr3.2.2⟩
            · have := e2.1 r hr'
              exact ⟨by omega, this.2.1, this.2.2⟩
          · refine List.pairwise_cons.mpr ⟨?_, e2.2⟩
            intro r hr'
            have := e2.1 r hr'
            omega

theorem readQuestions_spec (d : Pkt) : ∀ (count off : Nat),
    readQuestions d count off ≠ .panic ∧
    ∀ qs o, readQuestions d count off = .ok (qs, o) →
      off + 5 * qs.length ≤ o ∧ (o ≤ d.size ∨ (qs = [] ∧ o = off)) ∧ ∀ q ∈ qs, q.name.length ≤ 255 := by
  intro count
  induction count with
  | zero =>
    intro off
    refine ⟨by simp [readQuestions], ?_⟩
    intro qs o h
    simp only [readQuestions, Res.ok.injEq, Prod.mk.injEq] at h
    obtain ⟨rfl, rfl⟩ := h
    simp
  | succ c ih =>
    intro off
    rw [readQuestions]
    have hp := readName_no_panic d off
    cases hn : readName d off with
    | panic => exact absurd hn hp
    | err => simp
    | ok n =>
      have hnok := readName_ok d off n hn
      simp only []
      split
      · simp
      · rename_i hsz
        obtain ⟨ty, hty⟩ := u16At_of_lt d (show n.next + 1 < d.size by omega)
        obtain ⟨cls, hcls⟩ := u16At_of_lt d (show n.next + 2 + 1 < d.size by omega)
        simp only [hty, hcls]
        split
        · simp
        · have h2 := ih (n.next + 4)
          cases hq : readQuestions d c (n.next + 4) with
          | panic => exact absurd hq h2.1
          | err => simp
          | ok p =>
            obtain ⟨qs', o'⟩ := p
            have e2 := h2.2 qs' o' hq
            refine ⟨by simp, ?_⟩
            intro qs o h
            simp only [Res.ok.injEq, Prod.mk.injEq] at h
            obtain ⟨rfl, rfl⟩ := h
            refine ⟨by simp; omega, ?_, ?_⟩
            · left
              rcases e2.2.1 with h' | ⟨rfl, rfl⟩
              · exact h'
              · omega
            · intro q hq'
              rcases List.mem_cons.mp hq' with rfl | hq'
              · exact hnok.1
              · exact e2.2.2 q hq'

end Mdns.Wire
