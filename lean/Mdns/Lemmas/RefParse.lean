import Mdns.Spec.RefParse
/-
  Lemmas about the reference reader: a successful read is stable under appending bytes
  and under adding fuel.
-/
namespace Mdns.Ref

theorem getElem?_append_left (d e : Bytes) {i : Nat} (h : i < d.size) : (d ++ e)[i]? = d[i]? := by
  simp [Array.getElem?_append, h]

theorem bytesAt_eq_some (d : Bytes) (off n : Nat) (l : List UInt8) :
    bytesAt d off n = some l ↔ off + n ≤ d.size ∧ l = (d.toList.drop off).take n := by
  unfold bytesAt
  split
  · rename_i h
    simp only [Option.some.injEq, h, true_and]
    rw [Array.toList_extract]
    simp [List.extract, eq_comm]
  · rename_i h
    simp [h]

theorem bytesAt_append (d e : Bytes) (off n : Nat) (l : List UInt8) (h : bytesAt d off n = some l) :
    bytesAt (d ++ e) off n = some l := by
  rw [bytesAt_eq_some] at h ⊢
  obtain ⟨h1, h2⟩ := h
  refine ⟨by simp; omega, ?_⟩
  rw [h2]
  simp only [Array.toList_append]
  rw [List.drop_append_of_le_length (by simp; omega)]
  rw [List.take_append_of_le_length (by simp; omega)]

theorem u16_append (d e : Bytes) (off v : Nat) (h : u16 d off = some v) : u16 (d ++ e) off = some v := by
  unfold u16 at h ⊢
  cases h1 : d[off]? with
  | none => simp [h1] at h
  | some a =>
    cases h2 : d[off + 1]? with
    | none => simp [h1, h2] at h
    | some b =>
      have l1 : off < d.size := by
        rcases Nat.lt_or_ge off d.size with x | x
        · exact x
        · simp [Array.getElem?_eq_none x] at h1
      have l2 : off + 1 < d.size := by
        rcases Nat.lt_or_ge (off + 1) d.size with x | x
        · exact x
        · simp [Array.getElem?_eq_none x] at h2
      rw [getElem?_append_left d e l1, getElem?_append_left d e l2]
      simpa [h1, h2] using h

theorem readNameFuel_mono (d e : Bytes) (f f' off : Nat) (r : Name × Nat)
    (h : readNameFuel d f off = some r) (hf : f ≤ f') : readNameFuel (d ++ e) f' off = some r := by
  induction f generalizing f' off r with
  | zero => simp [readNameFuel] at h
  | succ f ih =>
    obtain ⟨g, rfl⟩ : ∃ g, f' = g + 1 := ⟨f' - 1, by omega⟩
    have hg : f ≤ g := by omega
    simp only [readNameFuel] at h ⊢
    cases hb : d[off]? with
    | none => simp [hb] at h
    | some b =>
      have l1 : off < d.size := by
        rcases Nat.lt_or_ge off d.size with x | x
        · exact x
        · simp [Array.getElem?_eq_none x] at hb
      rw [getElem?_append_left d e l1, hb]
      simp only [hb] at h
      split at h
      · rename_i h0; simp only [h0, if_true]; exact h
      · rename_i h0
        simp only [h0, if_false]
        split at h
        · rename_i h1
          simp only [h1, if_true]
          cases hl : bytesAt d (off + 1) b.toNat with
          | none => simp [hl] at h
          | some l =>
            cases hr : readNameFuel d f (off + 1 + b.toNat) with
            | none => simp [hl, hr] at h
            | some q =>
              rw [bytesAt_append d e _ _ _ hl, ih _ _ _ hr hg]
              simpa [hl, hr] using h
        · rename_i h1
          simp only [h1, if_false]
          split at h
          · rename_i h2
            simp only [h2, if_true]
            cases hlo : d[off + 1]? with
            | none => simp [hlo] at h
            | some lo =>
              have l2 : off + 1 < d.size := by
                rcases Nat.lt_or_ge (off + 1) d.size with x | x
                · exact x
                · simp [Array.getElem?_eq_none x] at hlo
              rw [getElem?_append_left d e l2, hlo]
              simp only [hlo] at h
              split at h
              · rename_i h3
                simp only [h3, if_true]
                cases hr : readNameFuel d f ((b.toNat - 192) * 256 + lo.toNat) with
                | none => simp [hr] at h
                | some q =>
                  rw [ih _ _ _ hr hg]
                  simpa [hr] using h
              · simp at h
          · simp at h

theorem readMany_length {α : Type} (f : Nat → Option (α × Nat)) (n off : Nat) (xs : List α) (e : Nat)
    (h : readMany f n off = some (xs, e)) : xs.length = n := by
  induction n generalizing off xs with
  | zero => simp [readMany] at h; simp [h.1]
  | succ n ih =>
    simp only [readMany] at h
    cases hf : f off with
    | none => simp [hf] at h
    | some r =>
      obtain ⟨x, o⟩ := r
      simp only [hf] at h
      cases hr : readMany f n o with
      | none => simp [hr] at h
      | some q =>
        obtain ⟨ys, e'⟩ := q
        simp only [hr, Option.some.injEq, Prod.mk.injEq] at h
        obtain ⟨rfl, rfl⟩ := h
        simp [ih _ _ hr]

theorem readMany_append {α : Type} (f : Nat → Option (α × Nat)) (n m off o e : Nat) (xs ys : List α)
    (h1 : readMany f n off = some (xs, o)) (h2 : readMany f m o = some (ys, e)) :
    readMany f (n + m) off = some (xs ++ ys, e) := by
  induction n generalizing off xs with
  | zero =>
    simp [readMany] at h1
    obtain ⟨rfl, rfl⟩ := h1
    simpa using h2
  | succ n ih =>
    simp only [readMany] at h1
    cases hf : f off with
    | none => simp [hf] at h1
    | some r =>
      obtain ⟨x, o'⟩ := r
      simp only [hf] at h1
      cases hr : readMany f n o' with
      | none => simp [hr] at h1
      | some q =>
        obtain ⟨zs, e'⟩ := q
        simp only [hr, Option.some.injEq, Prod.mk.injEq] at h1
        obtain ⟨rfl, rfl⟩ := h1
        have := ih _ _ hr
        rw [show n + 1 + m = (n + m) + 1 by omega]
        simp only [readMany, hf, this]
        simp

theorem readMany_snoc {α : Type} (f : Nat → Option (α × Nat)) (n off o e : Nat) (xs : List α) (x : α)
    (h1 : readMany f n off = some (xs, o)) (h2 : f o = some (x, e)) :
    readMany f (n + 1) off = some (xs ++ [x], e) := by
  apply readMany_append f n 1 off o e xs [x] h1
  simp [readMany, h2]

/-- a run of `n + m` entries splits into a run of `n` and a run of `m` -/
theorem readMany_split {α : Type} (f : Nat → Option (α × Nat)) (n m off e : Nat) (zs : List α)
    (h : readMany f (n + m) off = some (zs, e)) :
    ∃ o, readMany f n off = some (zs.take n, o) ∧ readMany f m o = some (zs.drop n, e) := by
  induction n generalizing off zs with
  | zero => exact ⟨off, by simp [readMany], by simpa using h⟩
  | succ n ih =>
    rw [show n + 1 + m = (n + m) + 1 by omega] at h
    simp only [readMany] at h
    cases hf : f off with
    | none => simp [hf] at h
    | some r =>
      obtain ⟨x, o'⟩ := r
      simp only [hf] at h
      cases hr : readMany f (n + m) o' with
      | none => simp [hr] at h
      | some q =>
        obtain ⟨ws, e'⟩ := q
        simp only [hr, Option.some.injEq, Prod.mk.injEq] at h
        obtain ⟨rfl, rfl⟩ := h
        obtain ⟨o, i1, i2⟩ := ih _ _ hr
        refine ⟨o, ?_, by simpa using i2⟩
        simp [readMany, hf, i1]

end Mdns.Ref
